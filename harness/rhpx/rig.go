// Package rhpx is the shared RHP4 rig of the host-side property checks (C08, C09, C15): a real
// rhp4.Server over the reference host of testutil (EphemeralContractor, EphemeralSectorStore)
// on a real chain.Manager + wallet, reached in-process over net.Pipe; recording wrappers around
// the host's Contractor and Sectors interfaces; a raw renter that speaks the wire format of
// go.sia.tech/core/rhp/v4 directly (so it can send unsorted indices, bad signatures, replayed
// challenges, and stop after any message).
package rhpx

import (
	"context"
	"errors"
	"fmt"
	"net"
	"sync"
	"time"
	"verifharness/minex"

	"go.sia.tech/core/consensus"
	proto4 "go.sia.tech/core/rhp/v4"
	"go.sia.tech/core/types"
	"go.sia.tech/coreutils/chain"
	rhp4 "go.sia.tech/coreutils/rhp/v4"
	"go.sia.tech/coreutils/testutil"
	"go.sia.tech/coreutils/wallet"
	"go.uber.org/zap"
)

// ---------------------------------------------------------------------------------------------
// in-process transport: one net.Pipe per stream

type serverConn struct {
	net.Conn
	once sync.Once
	done chan struct{}
}

func (c *serverConn) Close() error {
	err := c.Conn.Close()
	c.once.Do(func() { close(c.done) })
	return err
}

// PipeTransport implements both rhp4.TransportClient and rhp4.TransportMux.
type PipeTransport struct {
	peer   types.PublicKey
	accept chan net.Conn
	closed chan struct{}
	once   sync.Once

	mu      sync.Mutex
	pending []chan struct{} // done channels of the streams handed to the server
}

func NewPipeTransport(peer types.PublicKey) *PipeTransport {
	return &PipeTransport{peer: peer, accept: make(chan net.Conn), closed: make(chan struct{})}
}

func (t *PipeTransport) AcceptStream() (net.Conn, error) {
	select {
	case c := <-t.accept:
		return c, nil
	case <-t.closed:
		return nil, net.ErrClosed
	}
}

func (t *PipeTransport) Close() error {
	t.once.Do(func() { close(t.closed) })
	return nil
}

func (t *PipeTransport) FrameSize() int           { return 1440 }
func (t *PipeTransport) PeerKey() types.PublicKey { return t.peer }

func (t *PipeTransport) DialStream(ctx context.Context) (net.Conn, error) {
	c, s := bufPipe()
	sc := &serverConn{Conn: s, done: make(chan struct{})}
	t.mu.Lock()
	t.pending = append(t.pending, sc.done)
	t.mu.Unlock()
	select {
	case t.accept <- sc:
		return c, nil
	case <-t.closed:
		return nil, net.ErrClosed
	case <-ctx.Done():
		return nil, ctx.Err()
	}
}

// WaitIdle blocks until the server has finished (closed) every stream dialled so far, i.e. every
// handler has returned and released its contract lock.
func (t *PipeTransport) WaitIdle() {
	t.mu.Lock()
	p := t.pending
	t.pending = nil
	t.mu.Unlock()
	for _, d := range p {
		select {
		case <-d:
		case <-time.After(30 * time.Second):
			panic("rhpx: host handler did not finish within 30s")
		}
	}
}

// ---------------------------------------------------------------------------------------------
// recording wrappers

// A Call is one call the server made on the Contractor or Sectors interface.
type Call struct {
	Kind     string // lock revise creditA creditP debit attach detach balances poolbalances has read store
	Contract types.FileContractID
	Revision types.V2FileContract
	Roots    []types.Hash256
	Usage    proto4.Usage
	Deposits []proto4.AccountDeposit
	Account  proto4.Account
	Root     types.Hash256
	Offset   uint64
	Length   uint64
	Err      error
}

type Recorder struct {
	mu    sync.Mutex
	calls []Call
	tee   []Call
	teeOn bool
}

func (r *Recorder) add(c Call) {
	r.mu.Lock()
	r.calls = append(r.calls, c)
	if r.teeOn {
		r.tee = append(r.tee, c)
	}
	r.mu.Unlock()
}

// Tee makes the recorder keep a second copy of the calls (the session renders and clears the
// first one inside every operation; the oracles read the copy).
func (r *Recorder) Tee(on bool) {
	r.mu.Lock()
	r.teeOn, r.tee = on, nil
	r.mu.Unlock()
}

// TakeTee returns the copy and stops copying.
func (r *Recorder) TakeTee() []Call {
	r.mu.Lock()
	defer r.mu.Unlock()
	c := r.tee
	r.tee, r.teeOn = nil, false
	return c
}

// Take returns and clears the calls recorded so far.
func (r *Recorder) Take() []Call {
	r.mu.Lock()
	defer r.mu.Unlock()
	c := r.calls
	r.calls = nil
	return c
}

// RecContractor wraps the host's Contractor.
type RecContractor struct {
	rhp4.Contractor
	Rec *Recorder

	gateMu sync.Mutex
	gate   func()
	// FailRevise, when set, makes the next persisting call fail (fault injection at the store).
	FailNext bool
}

// GateNextLock makes the next LockV2Contract call run f before it reaches the contractor (the
// harness blocks a handler right in front of the contract lock to order two concurrent RPCs).
func (c *RecContractor) GateNextLock(f func()) {
	c.gateMu.Lock()
	c.gate = f
	c.gateMu.Unlock()
}

func (c *RecContractor) LockV2Contract(id types.FileContractID) (rhp4.RevisionState, func(), error) {
	c.gateMu.Lock()
	g := c.gate
	c.gate = nil
	c.gateMu.Unlock()
	if g != nil {
		g()
	}
	return c.Contractor.LockV2Contract(id)
}

func (c *RecContractor) ReviseV2Contract(id types.FileContractID, rev types.V2FileContract, roots []types.Hash256, usage proto4.Usage) error {
	cp := append([]types.Hash256(nil), roots...)
	if c.FailNext {
		c.FailNext = false
		err := errors.New("injected store failure")
		c.Rec.add(Call{Kind: "revise", Contract: id, Revision: rev, Roots: cp, Usage: usage, Err: err})
		return err
	}
	err := c.Contractor.ReviseV2Contract(id, rev, roots, usage)
	c.Rec.add(Call{Kind: "revise", Contract: id, Revision: rev, Roots: cp, Usage: usage, Err: err})
	return err
}

func (c *RecContractor) CreditAccountsWithContract(d []proto4.AccountDeposit, id types.FileContractID, rev types.V2FileContract, usage proto4.Usage) ([]types.Currency, error) {
	cp := append([]proto4.AccountDeposit(nil), d...)
	if c.FailNext {
		c.FailNext = false
		err := errors.New("injected store failure")
		c.Rec.add(Call{Kind: "creditA", Contract: id, Revision: rev, Deposits: cp, Usage: usage, Err: err})
		return nil, err
	}
	b, err := c.Contractor.CreditAccountsWithContract(d, id, rev, usage)
	c.Rec.add(Call{Kind: "creditA", Contract: id, Revision: rev, Deposits: cp, Usage: usage, Err: err})
	return b, err
}

func (c *RecContractor) CreditPoolsWithContract(d []proto4.AccountDeposit, id types.FileContractID, rev types.V2FileContract, usage proto4.Usage) ([]types.Currency, error) {
	cp := append([]proto4.AccountDeposit(nil), d...)
	if c.FailNext {
		c.FailNext = false
		err := errors.New("injected store failure")
		c.Rec.add(Call{Kind: "creditP", Contract: id, Revision: rev, Deposits: cp, Usage: usage, Err: err})
		return nil, err
	}
	b, err := c.Contractor.CreditPoolsWithContract(d, id, rev, usage)
	c.Rec.add(Call{Kind: "creditP", Contract: id, Revision: rev, Deposits: cp, Usage: usage, Err: err})
	return b, err
}

func (c *RecContractor) DebitAccount(a proto4.Account, usage proto4.Usage) error {
	err := c.Contractor.DebitAccount(a, usage)
	c.Rec.add(Call{Kind: "debit", Account: a, Usage: usage, Err: err})
	return err
}

func (c *RecContractor) AttachPools(a []proto4.PoolAttachment) error {
	err := c.Contractor.AttachPools(a)
	c.Rec.add(Call{Kind: "attach", Length: uint64(len(a)), Err: err})
	return err
}

func (c *RecContractor) DetachPools(d []proto4.PoolDetachment) error {
	err := c.Contractor.DetachPools(d)
	c.Rec.add(Call{Kind: "detach", Length: uint64(len(d)), Err: err})
	return err
}

func (c *RecContractor) AddV2Contract(ts rhp4.TransactionSet, u proto4.Usage) error {
	err := c.Contractor.AddV2Contract(ts, u)
	c.Rec.add(Call{Kind: "add", Usage: u, Err: err})
	return err
}

func (c *RecContractor) RenewV2Contract(ts rhp4.TransactionSet, u proto4.Usage) error {
	err := c.Contractor.RenewV2Contract(ts, u)
	call := Call{Kind: "renew", Usage: u, Err: err}
	if n := len(ts.Transactions); n > 0 && len(ts.Transactions[n-1].FileContractResolutions) == 1 {
		res := ts.Transactions[n-1].FileContractResolutions[0]
		call.Contract = types.FileContractID(res.Parent.ID)
		if r, ok := res.Resolution.(*types.V2FileContractRenewal); ok {
			call.Revision = r.NewContract
		}
	}
	c.Rec.add(call)
	return err
}

// RecSectors wraps the host's sector store.
type RecSectors struct {
	rhp4.Sectors
	Rec *Recorder

	mu       sync.Mutex
	hasFault map[types.Hash256]error
}

// FailHas makes HasSector fail with err for the given root until cleared with a nil error (a sector
// store whose lookup fails in the middle of a batch).
func (s *RecSectors) FailHas(root types.Hash256, err error) {
	s.mu.Lock()
	defer s.mu.Unlock()
	if s.hasFault == nil {
		s.hasFault = map[types.Hash256]error{}
	}
	if err == nil {
		delete(s.hasFault, root)
	} else {
		s.hasFault[root] = err
	}
}

func (s *RecSectors) HasSector(root types.Hash256) (bool, error) {
	s.mu.Lock()
	fault := s.hasFault[root]
	s.mu.Unlock()
	if fault != nil {
		s.Rec.add(Call{Kind: "has", Root: root, Err: fault})
		return false, fault
	}
	ok, err := s.Sectors.HasSector(root)
	s.Rec.add(Call{Kind: "has", Root: root, Err: err})
	return ok, err
}

func (s *RecSectors) ReadSector(root types.Hash256, offset, length uint64) ([]byte, []types.Hash256, error) {
	b, p, err := s.Sectors.ReadSector(root, offset, length)
	s.Rec.add(Call{Kind: "read", Root: root, Offset: offset, Length: length, Err: err})
	return b, p, err
}

func (s *RecSectors) StoreSector(root types.Hash256, data *[proto4.SectorSize]byte, sub []types.Hash256, exp uint64) error {
	err := s.Sectors.StoreSector(root, data, sub, exp)
	s.Rec.add(Call{Kind: "store", Root: root, Err: err})
	return err
}

// ---------------------------------------------------------------------------------------------
// the rig

type Rig struct {
	Net     *consensus.Network
	Genesis types.Block
	CM      *chain.Manager
	WS      *testutil.EphemeralWalletStore
	W       *wallet.SingleAddressWallet
	HostKey types.PrivateKey
	EC      *testutil.EphemeralContractor
	Con     *RecContractor
	SS      *testutil.EphemeralSectorStore
	Sec     *RecSectors
	Rec     *Recorder
	SR      *testutil.EphemeralSettingsReporter
	Srv     *rhp4.Server
	T       *PipeTransport
}

// fundSigner is what RPCFormContract / RPCRenewContract need on the renter side.
type FundSigner struct {
	W  *wallet.SingleAddressWallet
	PK types.PrivateKey
}

func (fs *FundSigner) FundV2Transaction(txn *types.V2Transaction, amount types.Currency) (types.ChainIndex, []int, error) {
	return fs.W.FundV2Transaction(txn, amount, true)
}
func (fs *FundSigner) RecommendedFee() types.Currency           { return fs.W.RecommendedFee() }
func (fs *FundSigner) ReleaseInputs(txns []types.V2Transaction) { fs.W.ReleaseInputs(nil, txns) }
func (fs *FundSigner) SignV2Inputs(txn *types.V2Transaction, toSign []int) {
	fs.W.SignV2Inputs(txn, toSign)
}
func (fs *FundSigner) SignHash(h types.Hash256) types.Signature { return fs.PK.SignHash(h) }
func (fs *FundSigner) PublicKey() types.PublicKey               { return fs.PK.PublicKey() }
func (fs *FundSigner) Address() types.Address                   { return fs.W.Address() }

// HookSigner runs Hook once, right before it signs the renter's inputs: in form/renew/refresh that is
// after the host's inputs have been received and before the renter's signatures are sent.
type HookSigner struct {
	*FundSigner
	Hook func()
	ran  bool
}

func (h *HookSigner) SignV2Inputs(txn *types.V2Transaction, toSign []int) {
	if !h.ran && h.Hook != nil {
		h.ran = true
		h.Hook()
	}
	h.FundSigner.SignV2Inputs(txn, toSign)
}

// DefaultPrices are the prices of the host's own settings (the harnesses mostly sign their own
// price tables with the host key).
func DefaultPrices() proto4.HostPrices {
	return proto4.HostPrices{
		ContractPrice:   types.Siacoins(1).Div64(5),
		StoragePrice:    types.NewCurrency64(100),
		IngressPrice:    types.NewCurrency64(100),
		EgressPrice:     types.NewCurrency64(100),
		FreeSectorPrice: types.NewCurrency64(1000),
		Collateral:      types.NewCurrency64(200),
	}
}

// NewRig starts a chain, a funded wallet, the reference host and an rhp4.Server served over an
// in-process pipe transport. hostKey is fixed by the caller so that runs are reproducible.
func NewRig(hostKey types.PrivateKey, walletKey types.PrivateKey) (*Rig, error) {
	n, genesis := testutil.V2Network()
	db, tipState, err := chain.NewDBStore(chain.NewMemDB(), n, genesis, nil)
	if err != nil {
		return nil, err
	}
	cm := chain.NewManager(db, tipState)
	ws := testutil.NewEphemeralWalletStore()
	w, err := wallet.NewSingleAddressWallet(walletKey, cm, ws, &testutil.MockSyncer{})
	if err != nil {
		return nil, err
	}
	r := &Rig{Net: n, Genesis: genesis, CM: cm, WS: ws, W: w, HostKey: hostKey, Rec: &Recorder{}}
	r.EC = testutil.NewEphemeralContractor(cm)
	r.Con = &RecContractor{Contractor: r.EC, Rec: r.Rec}
	r.SS = testutil.NewEphemeralSectorStore()
	r.Sec = &RecSectors{Sectors: r.SS, Rec: r.Rec}
	r.SR = testutil.NewEphemeralSettingsReporter()
	r.SR.Update(proto4.HostSettings{
		Release:             "verif",
		AcceptingContracts:  true,
		WalletAddress:       w.Address(),
		MaxCollateral:       types.Siacoins(1000000),
		MaxContractDuration: 100000,
		RemainingStorage:    1000 * proto4.SectorSize,
		TotalStorage:        1000 * proto4.SectorSize,
		Prices:              DefaultPrices(),
	})
	if err := r.Mine(int(n.MaturityDelay) + 20); err != nil {
		return nil, err
	}
	r.Srv = rhp4.NewServer(hostKey, cm, r.Con, w, r.SR, r.Sec, rhp4.WithPriceTableValidity(2*time.Minute), rhp4.WithRPCTimeout(20*time.Second))
	r.T = NewPipeTransport(hostKey.PublicKey())
	go r.Srv.Serve(r.T, zap.NewNop())
	return r, nil
}

func (r *Rig) Close() {
	r.T.Close()
	r.Srv.Close()
	r.EC.Close()
	r.W.Close()
}

// syncWallet applies the chain updates to the wallet synchronously.
func (r *Rig) syncWallet() error {
	for {
		tip, err := r.WS.Tip()
		if err != nil {
			return err
		}
		if tip == r.CM.Tip() {
			return nil
		}
		reverted, applied, err := r.CM.UpdatesSince(tip, 1000)
		if err != nil {
			return err
		}
		if err := r.WS.UpdateChainState(func(tx wallet.UpdateTx) error {
			return r.W.UpdateChainState(tx, reverted, applied)
		}); err != nil {
			return err
		}
	}
}

// Mine mines n blocks to the wallet's address and waits until the wallet and the host's
// contractor have caught up.
func (r *Rig) Mine(n int) error {
	for ; n > 0; n-- {
		b, ok := minex.MineBlock(r.CM, r.W.Address())
		if !ok {
			return errors.New("failed to mine block")
		}
		if err := r.CM.AddBlocks([]types.Block{b}); err != nil {
			return err
		}
	}
	if err := r.syncWallet(); err != nil {
		return err
	}
	deadline := time.Now().Add(20 * time.Second)
	for {
		tip, _ := r.EC.Tip()
		if tip == r.CM.Tip() {
			return nil
		}
		if time.Now().After(deadline) {
			return fmt.Errorf("contractor did not reach tip %v (at %v)", r.CM.Tip(), tip)
		}
		time.Sleep(200 * time.Microsecond)
	}
}


// Jump extends the chain by n empty blocks that are handed to the chain manager in ONE AddBlocks
// call (one reorg notification for the whole jump): the blocks are mined on a private copy of the
// chain first.  It then waits until the host's contractor has stopped moving and reports whether it
// reached the chain's tip.
func (r *Rig) Jump(n int) (bool, error) {
	db, tipState, err := chain.NewDBStore(chain.NewMemDB(), r.Net, r.Genesis, nil)
	if err != nil {
		return false, err
	}
	side := chain.NewManager(db, tipState)
	_, applied, err := r.CM.UpdatesSince(types.ChainIndex{}, 1<<30)
	if err != nil {
		return false, err
	}
	var have []types.Block
	for _, cau := range applied {
		have = append(have, cau.Block)
	}
	if err := side.AddBlocks(have); err != nil {
		return false, err
	}
	blocks := make([]types.Block, 0, n)
	for i := 0; i < n; i++ {
		b, ok := minex.MineBlock(side, r.W.Address())
		if !ok {
			return false, errors.New("failed to mine block")
		}
		if err := side.AddBlocks([]types.Block{b}); err != nil {
			return false, err
		}
		blocks = append(blocks, b)
	}
	if err := r.CM.AddBlocks(blocks); err != nil {
		return false, err
	}
	if err := r.syncWallet(); err != nil {
		return false, err
	}
	// settled = at the chain's tip, or unchanged for a while
	last, _ := r.EC.Tip()
	still := time.Now()
	deadline := time.Now().Add(15 * time.Second)
	for time.Now().Before(deadline) {
		tip, _ := r.EC.Tip()
		if tip == r.CM.Tip() {
			return true, nil
		}
		if tip != last {
			last, still = tip, time.Now()
		} else if time.Since(still) > 1500*time.Millisecond {
			return false, nil
		}
		time.Sleep(2 * time.Millisecond)
	}
	return false, nil
}

// SignedPrices returns p with TipHeight/ValidUntil/Signature filled in with the given key (the
// host's key for a genuine table).
func SignedPrices(p proto4.HostPrices, tipHeight uint64, validUntil time.Time, key types.PrivateKey) proto4.HostPrices {
	p.TipHeight = tipHeight
	p.ValidUntil = validUntil
	p.Signature = key.SignHash(p.SigHash())
	return p
}

// Form forms a contract through the real client and mines it into the chain.
func (r *Rig) Form(renterKey types.PrivateKey, allowance, collateral types.Currency, duration uint64) (rhp4.ContractRevision, error) {
	ctx := context.Background()
	settings, err := rhp4.RPCSettings(ctx, r.T)
	if err != nil {
		return rhp4.ContractRevision{}, fmt.Errorf("settings: %w", err)
	}
	fs := &FundSigner{r.W, renterKey}
	res, err := rhp4.RPCFormContract(ctx, r.T, r.CM, fs, r.CM.TipState(), settings.Prices, r.HostKey.PublicKey(), settings.WalletAddress, proto4.RPCFormContractParams{
		RenterPublicKey: renterKey.PublicKey(),
		RenterAddress:   r.W.Address(),
		Allowance:       allowance,
		Collateral:      collateral,
		ProofHeight:     r.CM.Tip().Height + duration,
	})
	if err != nil {
		return rhp4.ContractRevision{}, fmt.Errorf("form: %w", err)
	}
	r.T.WaitIdle()
	if _, err := r.CM.AddV2PoolTransactions(res.FormationSet.Basis, res.FormationSet.Transactions); err != nil {
		return rhp4.ContractRevision{}, fmt.Errorf("formation set rejected by the pool: %w", err)
	}
	if err := r.Mine(1); err != nil {
		return rhp4.ContractRevision{}, err
	}
	r.Rec.Take()
	return res.Contract, nil
}

// HostState returns the host's view of a contract (revision + a copy of its roots) the way the
// server obtains it: through LockV2Contract.
func (r *Rig) HostState(id types.FileContractID) (rhp4.RevisionState, error) {
	st, unlock, err := r.EC.LockV2Contract(id)
	if err != nil {
		return rhp4.RevisionState{}, err
	}
	st.Roots = append([]types.Hash256(nil), st.Roots...)
	unlock()
	return st, nil
}

// ---------------------------------------------------------------------------------------------
// raw renter

// RecordingTransport wraps a TransportClient and keeps, per stream, every byte the renter wrote.
type RecordingTransport struct {
	rhp4.TransportClient
	mu      sync.Mutex
	Streams [][]byte
}

type recordingConn struct {
	net.Conn
	rt  *RecordingTransport
	idx int
}

func (rt *RecordingTransport) DialStream(ctx context.Context) (net.Conn, error) {
	c, err := rt.TransportClient.DialStream(ctx)
	if err != nil {
		return nil, err
	}
	rt.mu.Lock()
	rt.Streams = append(rt.Streams, nil)
	idx := len(rt.Streams) - 1
	rt.mu.Unlock()
	return &recordingConn{Conn: c, rt: rt, idx: idx}, nil
}

func (rc *recordingConn) Write(p []byte) (int, error) {
	rc.rt.mu.Lock()
	rc.rt.Streams[rc.idx] = append(rc.rt.Streams[rc.idx], p...)
	rc.rt.mu.Unlock()
	return rc.Conn.Write(p)
}

// Last returns what was sent on the most recent stream.
func (rt *RecordingTransport) Last() []byte {
	rt.mu.Lock()
	defer rt.mu.Unlock()
	if len(rt.Streams) == 0 {
		return nil
	}
	return append([]byte(nil), rt.Streams[len(rt.Streams)-1]...)
}

// A Stream is one raw RHP4 stream to the host.
type Stream struct {
	net.Conn
	t    *PipeTransport
	done chan struct{} // closed when the host's handler of this stream has returned
}

func (r *Rig) Open() *Stream {
	c, err := r.T.DialStream(context.Background())
	if err != nil {
		panic(err)
	}
	// the raw renter waits for its own stream only (another stream of its may be in the middle
	// of a multi-round RPC)
	r.T.mu.Lock()
	done := r.T.pending[len(r.T.pending)-1]
	r.T.pending = r.T.pending[:len(r.T.pending)-1]
	r.T.mu.Unlock()
	c.SetDeadline(time.Now().Add(20 * time.Second))
	return &Stream{Conn: c, t: r.T, done: done}
}

func (s *Stream) Request(id types.Specifier, o proto4.Object) error {
	return proto4.WriteRequest(s, id, o)
}
func (s *Stream) Send(o proto4.Object) error { return proto4.WriteResponse(s, o) }
func (s *Stream) Recv(o proto4.Object) error { return proto4.ReadResponse(s, o) }

// End closes the stream and waits until the host's handler has returned.
func (s *Stream) End() {
	s.Conn.Close()
	select {
	case <-s.done:
	case <-time.After(30 * time.Second):
		panic("rhpx: host handler did not finish within 30s")
	}
}

// ErrClass maps an error returned by the host (or the transport) to a small enum.
func ErrClass(err error) string {
	if err == nil {
		return "ok"
	}
	var re *proto4.RPCError
	if errors.As(err, &re) {
		switch re.Code {
		case proto4.ErrorCodeBadRequest:
			return "badreq"
		case proto4.ErrorCodeDecoding:
			return "decoding"
		case proto4.ErrorCodePayment:
			return "payment"
		case proto4.ErrorCodeHostError:
			return "hosterr"
		case proto4.ErrorCodeClientError:
			return "clienterr"
		case proto4.ErrorCodeTransport:
			return "transport"
		}
		return fmt.Sprintf("rpcerr%d", re.Code)
	}
	return "io"
}
