package rhpx

import (
	"context"
	"crypto/sha256"
	"encoding/binary"
	"fmt"
	"sort"
	"strconv"
	"strings"
	"sync"
	"time"

	proto4 "go.sia.tech/core/rhp/v4"
	"go.sia.tech/core/types"
	rhp4 "go.sia.tech/coreutils/rhp/v4"
)

// Identifier conventions shared with the Lean driver (lean/Verif/Drv/Rhp.lean): a key, the
// account/pool named by its public key and the signer share one small id.
const (
	HostKeyID   = 1
	WalletKeyID = 2
	RenterKeyID = 3
	ModelNow    = 1000000 // the model's `now`; ValidUntil values are ModelNow ± seconds
)

var (
	keyMu    sync.Mutex
	keyCache = map[int]types.PrivateKey{}
	pubID    = map[types.PublicKey]int{}
)

// Key returns the deterministic private key with the given id.
func Key(id int) types.PrivateKey {
	keyMu.Lock()
	defer keyMu.Unlock()
	if k, ok := keyCache[id]; ok {
		return k
	}
	var b [8]byte
	binary.LittleEndian.PutUint64(b[:], uint64(id))
	seed := sha256.Sum256(append([]byte("verif rhp key"), b[:]...))
	k := types.NewPrivateKeyFromSeed(seed[:])
	keyCache[id] = k
	pubID[k.PublicKey()] = id
	return k
}

// KeyID returns the id of a public key made by Key (0 if unknown).
func KeyID(pk types.PublicKey) int {
	keyMu.Lock()
	defer keyMu.Unlock()
	return pubID[pk]
}

func Acct(id int) proto4.Account {
	if id == 0 {
		return proto4.Account{}
	}
	return proto4.Account(Key(id).PublicKey())
}

// ---------------------------------------------------------------------------------------------
// sectors: id k < FakeRootBase is a real sector (data: 64 bytes derived from k, rest zero);
// id >= FakeRootBase is a root no sector hashes to (never stored).

const FakeRootBase = 100000

var (
	secMu   sync.Mutex
	secData = map[int]*[proto4.SectorSize]byte{}
	secRoot = map[int]types.Hash256{}
	rootIDs = map[types.Hash256]int{}
)

func Sector(id int) (*[proto4.SectorSize]byte, types.Hash256) {
	secMu.Lock()
	defer secMu.Unlock()
	if r, ok := secRoot[id]; ok {
		return secData[id], r
	}
	if id >= FakeRootBase {
		var b [8]byte
		binary.LittleEndian.PutUint64(b[:], uint64(id))
		r := types.Hash256(sha256.Sum256(append([]byte("verif fake root"), b[:]...)))
		secRoot[id], rootIDs[r] = r, id
		return nil, r
	}
	var d [proto4.SectorSize]byte
	for i := 0; i < 64; i += 8 {
		binary.LittleEndian.PutUint64(d[i:], uint64(id)*0x9E3779B97F4A7C15+uint64(i)+1)
	}
	r := proto4.SectorRoot(&d)
	secData[id], secRoot[id], rootIDs[r] = &d, r, id
	return &d, r
}

func RootHash(id int) types.Hash256 { _, r := Sector(id); return r }

// RootID maps a hash back to its id (-1 if the harness never made it).
func RootID(h types.Hash256) int {
	secMu.Lock()
	defer secMu.Unlock()
	if id, ok := rootIDs[h]; ok {
		return id
	}
	return -1
}

func RootHashes(ids []int) []types.Hash256 {
	out := make([]types.Hash256, len(ids))
	for i, id := range ids {
		out[i] = RootHash(id)
	}
	return out
}

func RootIDList(hs []types.Hash256) []int {
	out := make([]int, len(hs))
	for i, h := range hs {
		out[i] = RootID(h)
	}
	return out
}

// ---------------------------------------------------------------------------------------------

// A Sess drives one rig and renders every operation as a model line plus the implementation's
// observation.
type Sess struct {
	R    *Rig
	Base time.Time
	base map[int]*rhp4.RevisionState
	// Client, when set, replaces the rig's transport for the RPCs issued through the real client
	Client rhp4.TransportClient
	cids map[int]types.FileContractID
	cidx map[types.FileContractID]int
}

func NewSess(r *Rig) *Sess {
	return &Sess{R: r, Base: time.Now(), cids: map[int]types.FileContractID{}, cidx: map[types.FileContractID]int{}}
}

func (s *Sess) Time(delta int) time.Time { return s.Base.Add(time.Duration(delta) * time.Second) }

func (s *Sess) AddContract(cid int, id types.FileContractID) { s.cids[cid] = id; s.cidx[id] = cid }
func (s *Sess) CID(cid int) types.FileContractID {
	if id, ok := s.cids[cid]; ok {
		return id
	}
	// an id the host has never seen
	var id types.FileContractID
	id[0], id[1] = 0xEE, byte(cid)
	return id
}
func (s *Sess) CIdx(id types.FileContractID) int { return s.cidx[id] }

func Ints(l []int) string {
	if len(l) == 0 {
		return "-"
	}
	ss := make([]string, len(l))
	for i, v := range l {
		ss[i] = strconv.Itoa(v)
	}
	return strings.Join(ss, ",")
}

func U64s(l []uint64) string {
	if len(l) == 0 {
		return "-"
	}
	ss := make([]string, len(l))
	for i, v := range l {
		ss[i] = strconv.FormatUint(v, 10)
	}
	return strings.Join(ss, ",")
}

func intsBare(l []int) string {
	ss := make([]string, len(l))
	for i, v := range l {
		ss[i] = strconv.Itoa(v)
	}
	return strings.Join(ss, ",")
}

// Body renders a contract's fields the way the driver parses them. rootIDs is the list whose
// MetaRoot the caller believes FileMerkleRoot to be; if it is not, the root is rendered opaque.
func Body(fc types.V2FileContract, rootIDs []int) string {
	root := "o1"
	if proto4.MetaRoot(RootHashes(rootIDs)) == fc.FileMerkleRoot {
		root = "m" + intsBare(rootIDs)
	}
	return fmt.Sprintf("%d:%s:%s:%s:%s:%d:%d:%d:%d:%d:%d:%s", fc.RevisionNumber, fc.RenterOutput.Value.ExactString(),
		fc.HostOutput.Value.ExactString(), fc.MissedHostValue.ExactString(), fc.TotalCollateral.ExactString(),
		fc.Filesize/proto4.SectorSize, fc.Capacity/proto4.SectorSize, fc.ProofHeight, fc.ExpirationHeight,
		KeyID(fc.RenterPublicKey), KeyID(fc.HostPublicKey), root)
}

// ---------------------------------------------------------------------------------------------
// specs of the signed pieces of a request

// PS says who signed a price table / token / link and over what: "s" exactly these fields,
// "o" other fields, "z" all-zero signature, "x" garbage.
type PS struct {
	Kind string
	Key  int
}

func (p PS) word() string {
	switch p.Kind {
	case "s", "o":
		return p.Kind + strconv.Itoa(p.Key)
	}
	return p.Kind
}

func garbageSig() (sig types.Signature) {
	for i := range sig {
		sig[i] = byte(i*7 + 1)
	}
	return
}

type PriceSpec struct {
	P     proto4.HostPrices // price fields only
	Tip   uint64
	Delta int // ValidUntil = now + Delta seconds
	Sig   PS
}

func (s *Sess) Prices(ps PriceSpec) (proto4.HostPrices, string) {
	p := ps.P
	p.TipHeight = ps.Tip
	p.ValidUntil = s.Time(ps.Delta)
	switch ps.Sig.Kind {
	case "s":
		p.Signature = Key(ps.Sig.Key).SignHash(p.SigHash())
	case "o":
		q := p
		q.ContractPrice = q.ContractPrice.Add(types.NewCurrency64(1))
		p.Signature = Key(ps.Sig.Key).SignHash(q.SigHash())
	case "x":
		p.Signature = garbageSig()
	}
	w := fmt.Sprintf("%s:%s:%s:%s:%s:%s:%d:%d/%s", p.ContractPrice.ExactString(), p.Collateral.ExactString(),
		p.StoragePrice.ExactString(), p.IngressPrice.ExactString(), p.EgressPrice.ExactString(),
		p.FreeSectorPrice.ExactString(), p.TipHeight, ModelNow+ps.Delta, ps.Sig.word())
	return p, w
}

// GoodPrices: the host's default prices, genuinely signed, valid for an hour.
func (s *Sess) GoodPrices() PriceSpec {
	return PriceSpec{P: DefaultPrices(), Tip: s.R.CM.Tip().Height, Delta: 3600, Sig: PS{"s", HostKeyID}}
}

type TokenSpec struct {
	HostKey int // key id whose public key is written into the token
	Account int
	Delta   int
	Sig     PS
}

func (s *Sess) Token(ts TokenSpec) (proto4.AccountToken, string) {
	t := proto4.AccountToken{HostKey: Key(ts.HostKey).PublicKey(), Account: Acct(ts.Account), ValidUntil: s.Time(ts.Delta)}
	switch ts.Sig.Kind {
	case "s":
		t.Signature = Key(ts.Sig.Key).SignHash(t.SigHash())
	case "o":
		q := t
		q.ValidUntil = s.Time(ts.Delta + 1)
		t.Signature = Key(ts.Sig.Key).SignHash(q.SigHash())
	case "x":
		t.Signature = garbageSig()
	}
	return t, fmt.Sprintf("%d:%d:%d/%s", ts.HostKey, ts.Account, ModelNow+ts.Delta, ts.Sig.word())
}

func (s *Sess) GoodToken(account int) TokenSpec {
	return TokenSpec{HostKey: HostKeyID, Account: account, Delta: 3600, Sig: PS{"s", account}}
}

type LinkSpec struct {
	Account, Pool int
	Delta         int
	Sig           PS // "o": signed by Key over the other kind of link (attach <-> detach)
}

func (s *Sess) attachment(l LinkSpec) (proto4.PoolAttachment, string) {
	hk := s.R.HostKey.PublicKey()
	a := proto4.PoolAttachment{Account: Acct(l.Account), Pool: Acct(l.Pool), ValidUntil: s.Time(l.Delta)}
	switch l.Sig.Kind {
	case "s":
		a.Signature = Key(l.Sig.Key).SignHash(a.SigHash(hk))
	case "o":
		d := proto4.PoolDetachment{Account: a.Account, Pool: a.Pool, ValidUntil: a.ValidUntil}
		a.Signature = Key(l.Sig.Key).SignHash(d.SigHash(hk))
	case "x":
		a.Signature = garbageSig()
	}
	return a, fmt.Sprintf("%d:%d:%d/%s", l.Account, l.Pool, ModelNow+l.Delta, l.Sig.word())
}

func (s *Sess) detachment(l LinkSpec) (proto4.PoolDetachment, string) {
	hk := s.R.HostKey.PublicKey()
	d := proto4.PoolDetachment{Account: Acct(l.Account), Pool: Acct(l.Pool), ValidUntil: s.Time(l.Delta)}
	switch l.Sig.Kind {
	case "s":
		d.Signature = Key(l.Sig.Key).SignHash(d.SigHash(hk))
	case "o":
		a := proto4.PoolAttachment{Account: d.Account, Pool: d.Pool, ValidUntil: d.ValidUntil}
		d.Signature = Key(l.Sig.Key).SignHash(a.SigHash(hk))
	case "x":
		d.Signature = garbageSig()
	}
	return d, fmt.Sprintf("%d:%d:%d/%s", l.Account, l.Pool, ModelNow+l.Delta, l.Sig.word())
}

// SigSpec describes a challenge signature or a renter's revision signature.
//
//	"h"      what the honest renter signs at this point
//	"z","x"  all-zero / garbage bytes
//	"c"      Key signs the free/append-style challenge (Cid, N)
//	"q"      Key signs the replenish challenge (Accts, Target, Cid, N)
//	"b"      Key signs the honest revision after Mut has been applied to it
//	"abort"  (second message only) the renter stops here
type SigSpec struct {
	Kind   string
	Key    int
	Cid    int
	N      uint64
	Target types.Currency
	Accts  []int
	Mut    func(fc *types.V2FileContract)
}

var (
	Honest = SigSpec{Kind: "h"}
	Abort  = SigSpec{Kind: "abort"}
	ZeroS  = SigSpec{Kind: "z"}
	BadS   = SigSpec{Kind: "x"}
)

func accounts(ids []int) []proto4.Account {
	out := make([]proto4.Account, len(ids))
	for i, id := range ids {
		out[i] = Acct(id)
	}
	return out
}

// challenge renders and computes a free/append challenge signature.
func (s *Sess) challenge(sp SigSpec, honestKey int, cid int, honestN uint64) (types.Signature, string) {
	hash := func(cid int, n uint64) types.Hash256 {
		r := proto4.RPCFreeSectorsRequest{ContractID: s.CID(cid)}
		return r.ChallengeSigHash(n)
	}
	switch sp.Kind {
	case "h":
		return Key(honestKey).SignHash(hash(cid, honestN)), "h"
	case "c":
		return Key(sp.Key).SignHash(hash(sp.Cid, sp.N)), fmt.Sprintf("c:%d:%d:%d", sp.Key, sp.Cid, sp.N)
	case "q":
		r := proto4.RPCReplenishAccountsRequest{Accounts: accounts(sp.Accts), Target: sp.Target, ContractID: s.CID(sp.Cid)}
		return Key(sp.Key).SignHash(r.ChallengeSigHash(sp.N)), fmt.Sprintf("q:%d:%d:%d:%s:%s", sp.Key, sp.Cid, sp.N, sp.Target.ExactString(), Ints(sp.Accts))
	case "x":
		return garbageSig(), "x"
	}
	return types.Signature{}, "z"
}

// revSig renders and computes a renter signature over a revision. honest is the revision the
// honest renter would sign (built from the host's own answers), rootIDs the roots the harness
// expects that revision to commit to.
func (s *Sess) revSig(sp SigSpec, honestKey int, honest types.V2FileContract, rootIDs []int) (types.Signature, string) {
	cs := s.R.CM.TipState()
	switch sp.Kind {
	case "h":
		return Key(honestKey).SignHash(cs.ContractSigHash(honest)), "h"
	case "b":
		fc := honest
		if sp.Mut != nil {
			sp.Mut(&fc)
		}
		return Key(sp.Key).SignHash(cs.ContractSigHash(fc)), fmt.Sprintf("b:%d:%s", sp.Key, Body(fc, rootIDs))
	case "c", "q":
		sig, w := s.challenge(sp, honestKey, sp.Cid, sp.N)
		return sig, w
	case "x":
		return garbageSig(), "x"
	}
	return types.Signature{}, "z"
}

// ---------------------------------------------------------------------------------------------
// observations

type Obs struct {
	Contracts []int
	Accounts  []int
	Pools     []int
	Sectors   []int
}

func (o Obs) line() string {
	var w []string
	for _, c := range o.Contracts {
		w = append(w, "c"+strconv.Itoa(c))
	}
	for _, a := range o.Accounts {
		w = append(w, "a"+strconv.Itoa(a))
	}
	for _, p := range o.Pools {
		w = append(w, "p"+strconv.Itoa(p))
	}
	for _, x := range o.Sectors {
		w = append(w, "s"+strconv.Itoa(x))
	}
	return "obs " + strings.Join(w, " ")
}

func b2s(b bool) string {
	if b {
		return "1"
	}
	return "0"
}

// ContractLine is the canonical rendering of the host's state of one contract.
func (s *Sess) ContractLine(cid int) string {
	st, err := s.R.HostState(s.CID(cid))
	if err != nil {
		return fmt.Sprintf("c%d=none", cid)
	}
	fc := st.Revision
	sigHash := s.R.CM.TipState().ContractSigHash(fc)
	rootOK := proto4.MetaRoot(st.Roots) == fc.FileMerkleRoot && uint64(len(st.Roots))*proto4.SectorSize == fc.Filesize
	return fmt.Sprintf("c%d=%d:%s:%s:%s:%s:%d:%d:%d:%d:%d:%d:%s:%s:%s:%s:[%s]", cid, fc.RevisionNumber, fc.RenterOutput.Value.ExactString(),
		fc.HostOutput.Value.ExactString(), fc.MissedHostValue.ExactString(), fc.TotalCollateral.ExactString(),
		fc.Filesize/proto4.SectorSize, fc.Capacity/proto4.SectorSize, fc.ProofHeight, fc.ExpirationHeight,
		KeyID(fc.RenterPublicKey), KeyID(fc.HostPublicKey), b2s(rootOK),
		b2s(fc.RenterPublicKey.VerifyHash(sigHash, fc.RenterSignature)), b2s(fc.HostPublicKey.VerifyHash(sigHash, fc.HostSignature)),
		b2s(st.Renewed), intsBare(RootIDList(st.Roots)))
}

func (s *Sess) Observe(o Obs) (string, string) {
	var w []string
	for _, c := range o.Contracts {
		w = append(w, s.ContractLine(c))
	}
	for _, a := range o.Accounts {
		b, _ := s.R.EC.AccountBalance(Acct(a))
		w = append(w, fmt.Sprintf("a%d=%s", a, b.ExactString()))
	}
	if len(o.Pools) > 0 {
		bs, _ := s.R.EC.PoolBalances(accounts(o.Pools))
		for i, p := range o.Pools {
			w = append(w, fmt.Sprintf("p%d=%s", p, bs[i].ExactString()))
		}
	}
	for _, x := range o.Sectors {
		ok, _ := s.R.SS.HasSector(RootHash(x))
		w = append(w, fmt.Sprintf("s%d=%s", x, b2s(ok)))
	}
	return o.line(), strings.Join(w, " ")
}

// Events renders the calls the server made on Contractor/Sectors since the last Take.
func (s *Sess) Events() string {
	var w []string
	for _, c := range s.R.Rec.Take() {
		switch c.Kind {
		case "has":
			w = append(w, fmt.Sprintf("has:%d", RootID(c.Root)))
		case "debit":
			w = append(w, fmt.Sprintf("debit:%d:%s:%s", KeyID(types.PublicKey(c.Account)), c.Usage.RenterCost().ExactString(), b2s(c.Err == nil)))
		case "read":
			w = append(w, fmt.Sprintf("read:%d:%d:%d", RootID(c.Root), c.Offset, c.Length))
		case "store":
			w = append(w, fmt.Sprintf("store:%d", RootID(c.Root)))
		case "revise":
			w = append(w, fmt.Sprintf("revise:%d", s.CIdx(c.Contract)))
		case "creditA":
			w = append(w, fmt.Sprintf("credit:a:%d", s.CIdx(c.Contract)))
		case "creditP":
			w = append(w, fmt.Sprintf("credit:p:%d", s.CIdx(c.Contract)))
		case "attach":
			w = append(w, fmt.Sprintf("attach:%d", c.Length))
		case "detach":
			w = append(w, fmt.Sprintf("detach:%d", c.Length))
		}
	}
	return strings.Join(w, " ")
}

func outLine(cls string, vals string, evs string) string {
	l := cls + " [" + vals + "]"
	if evs != "" {
		l += " " + evs
	}
	return l
}

func curs(cs []types.Currency) string {
	ss := make([]string, len(cs))
	for i, c := range cs {
		ss[i] = c.ExactString()
	}
	return strings.Join(ss, ",")
}

// AdoptLines renders the host's current state of the given contracts/accounts/pools as the
// driver-only ops that put the model into the same state (start of a self-contained case).
func (s *Sess) AdoptLines(o Obs) []string {
	var out []string
	for _, c := range o.Contracts {
		st, err := s.R.HostState(s.CID(c))
		if err != nil {
			continue
		}
		ids := RootIDList(st.Roots)
		out = append(out, fmt.Sprintf("adopt %d %s %d %d %s %s", c, Body(st.Revision, ids), KeyID(st.Revision.RenterPublicKey),
			KeyID(st.Revision.HostPublicKey), Ints(ids), b2s(st.Renewed)))
	}
	for _, a := range o.Accounts {
		b, _ := s.R.EC.AccountBalance(Acct(a))
		out = append(out, fmt.Sprintf("acct %d %s", a, b.ExactString()))
	}
	return out
}

// SortedKeys is a helper for deterministic iteration.
func SortedKeys(m map[int]bool) []int {
	out := make([]int, 0, len(m))
	for k := range m {
		out = append(out, k)
	}
	sort.Ints(out)
	return out
}

var bg = context.Background()

// ContractRev returns the host's latest revision as the renter-side ContractRevision.
func (s *Sess) ContractRev(cid int) rhp4.ContractRevision {
	st, _ := s.R.HostState(s.CID(cid))
	return rhp4.ContractRevision{ID: s.CID(cid), Revision: st.Revision}
}
