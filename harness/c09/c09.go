// Package c09: the host's sector-root state always matches the committed contract, even when an
// RPC fails or is abandoned at any step.
//
// Drives the real rhp4.Server over the reference host (testutil) through the real client and
// through a raw renter that speaks the wire format; every attempt is (T) replayed on the Lean
// model of the handlers and (O) checked against a list model and the real Merkle functions of
// go.sia.tech/core owned by the harness.
package c09

import (
	"context"
	"errors"
	"fmt"
	"runtime"
	"sort"
	"strings"
	"sync"

	proto4 "go.sia.tech/core/rhp/v4"
	"go.sia.tech/core/types"
	rhp4 "go.sia.tech/coreutils/rhp/v4"
	"verifharness/rhpx"
	"verifharness/vh"
)

func init() { vh.Register("C09", Run) }

const firstCid = 1

// the harness's own list model: append at the end, swap-remove from the end
func swapRemove(rs []int, i int) []int {
	out := append([]int(nil), rs...)
	out[i] = out[len(out)-1]
	return out[:len(out)-1]
}

func normalize(is []uint64) []uint64 {
	out := append([]uint64(nil), is...)
	sort.Slice(out, func(a, b int) bool { return out[a] > out[b] })
	var c []uint64
	for i, v := range out {
		if i == 0 || v != out[i-1] {
			c = append(c, v)
		}
	}
	return c
}

func eqInts(a, b []int) bool {
	if len(a) != len(b) {
		return false
	}
	for i := range a {
		if a[i] != b[i] {
			return false
		}
	}
	return true
}

type worker struct {
	id    int
	rig   *rhpx.Rig
	s     *rhpx.Sess
	cid   int   // the contract currently exercised (changes when it is refreshed)
	// retired: the last contracts this worker renewed or refreshed away from; they are still audited
	retired []int
	// duringRenewal: the next renew/refresh tries other RPCs on the contract while it is in flight
	duringRenewal bool
	cur   []int // the harness's expectation of the contract's roots
	next  int   // next fresh sector id
	maxID int
	out   chan<- *vh.Case
	acct  int
}

func newWorker(id, sectors int) (*worker, error) {
	rig, err := rhpx.NewRig(rhpx.Key(rhpx.HostKeyID), rhpx.Key(rhpx.WalletKeyID))
	if err != nil {
		return nil, err
	}
	w := &worker{id: id, rig: rig, s: rhpx.NewSess(rig), next: 1, maxID: sectors, acct: 10, cid: firstCid}
	c, err := rig.Form(rhpx.Key(rhpx.RenterKeyID), types.Siacoins(100000), types.Siacoins(200000), 400)
	if err != nil {
		return nil, err
	}
	w.s.AddContract(w.cid, c.ID)
	for i := 1; i <= sectors; i++ {
		w.s.StoreSector(i)
	}
	// an account to read sectors back with
	res := w.s.Fund(rhpx.FundArgs{Cid: w.cid, Deposits: []rhpx.Deposit{{Account: w.acct, Amount: types.Siacoins(1000)}}, Sig: rhpx.Honest})
	if res.Cls != "ok" {
		return nil, fmt.Errorf("funding the read-back account failed: %s", res.Impl)
	}
	return w, nil
}

func (w *worker) fresh() int {
	for {
		id := w.next
		w.next++
		if w.next > w.maxID {
			w.next = 1
		}
		used := false
		for _, c := range w.cur {
			if c == id {
				used = true
			}
		}
		if !used {
			return id
		}
	}
}

// resize brings the contract to n sectors with the honest client (setup, not part of a case).
func (w *worker) resize(n int) error {
	if len(w.cur) > n {
		var is []uint64
		for i := len(w.cur) - 1; i >= n; i-- {
			is = append(is, uint64(i))
		}
		for len(is) > 0 {
			k := min(len(is), 1000)
			res, _ := w.s.CFree(w.cid, w.s.GoodPrices(), is[:k])
			if res.Cls != "ok" {
				return fmt.Errorf("setup free failed: %s", res.Impl)
			}
			is = is[k:]
		}
		w.cur = w.cur[:n]
	}
	if len(w.cur) < n {
		var add []int
		for len(w.cur)+len(add) < n {
			id := w.fresh()
			// fresh() only looks at cur; avoid duplicates inside add as well
			dup := false
			for _, a := range add {
				if a == id {
					dup = true
				}
			}
			if !dup {
				add = append(add, id)
			}
		}
		res, _ := w.s.CAppend(w.cid, w.s.GoodPrices(), add)
		if res.Cls != "ok" {
			return fmt.Errorf("setup append failed: %s", res.Impl)
		}
		w.cur = append(w.cur, add...)
	}
	return nil
}

// snapshot of the host's state of the contract for the atomicity oracle
type snap struct {
	rev   types.V2FileContract
	roots []types.Hash256
	bal   types.Currency
}

func (w *worker) snap() snap {
	st, _ := w.rig.HostState(w.s.CID(w.cid))
	b, _ := w.rig.EC.AccountBalance(rhpx.Acct(w.acct))
	return snap{st.Revision, st.Roots, b}
}

func (a snap) same(b snap) bool {
	if a.rev != b.rev || len(a.roots) != len(b.roots) || !a.bal.Equals(b.bal) {
		return false
	}
	for i := range a.roots {
		if a.roots[i] != b.roots[i] {
			return false
		}
	}
	return true
}

// begin starts a self-contained case from the host's current state.
func (w *worker) begin(name string, stored []int) *vh.Case {
	c := &vh.Case{Name: fmt.Sprintf("w%d-%s", w.id, name), Model: w.s.CaseHeader()}
	for _, l := range w.s.AdoptLines(rhpx.Obs{Contracts: []int{w.cid}, Accounts: []int{w.acct}}) {
		c.Op(l, "ok")
	}
	seen := map[int]bool{}
	for _, id := range append(append([]int(nil), w.cur...), stored...) {
		if id <= w.maxID && !seen[id] {
			seen[id] = true
			c.Op(fmt.Sprintf("sector %d", id), "ok []")
		}
	}
	return c
}

func (w *worker) observe(c *vh.Case) {
	o, i := w.s.Observe(rhpx.Obs{Contracts: []int{w.cid}, Accounts: []int{w.acct}})
	c.Op(o, i)
}

// check evaluates the oracle after one attempt. committed says whether the harness expects the
// attempt to have been committed; expect is the expected roots afterwards (nil = only invariants).
func (w *worker) check(c *vh.Case, rpc, variant string, before snap, res rhpx.Result, mustBeUnchanged bool, expect []int) {
	for _, n := range res.Notes {
		c.Oracle("proof:"+rpc+":"+variant, "%s", n)
	}
	st, err := w.rig.HostState(w.s.CID(w.cid))
	if err != nil {
		c.Oracle("lost-contract:"+rpc, "contract vanished: %v", err)
		return
	}
	fc := st.Revision
	outcome := "ok"
	if res.Cls != "ok" {
		outcome = "failed"
	}
	if proto4.MetaRoot(st.Roots) != fc.FileMerkleRoot {
		c.Oracle("root-commit:"+rpc+":"+outcome, "after %s (%s, %s): MetaRoot(host roots) != FileMerkleRoot of the latest revision (rev %d, %d roots)", rpc, variant, res.Cls, fc.RevisionNumber, len(st.Roots))
	}
	if uint64(len(st.Roots))*proto4.SectorSize != fc.Filesize {
		c.Oracle("size-commit:"+rpc+":"+outcome, "after %s (%s, %s): %d roots but Filesize %d", rpc, variant, res.Cls, len(st.Roots), fc.Filesize)
	}
	if fc.Filesize > fc.Capacity {
		c.Oracle("capacity:"+rpc, "Filesize %d > Capacity %d", fc.Filesize, fc.Capacity)
	}
	after := w.snap()
	if mustBeUnchanged && !before.same(after) {
		c.Oracle("not-atomic:"+rpc+":"+variant, "%s (%s) answered %s but roots/revision/balances changed: rev %d -> %d, roots %v -> %v", rpc, variant, res.Cls,
			before.rev.RevisionNumber, after.rev.RevisionNumber, rhpx.RootIDList(before.roots), rhpx.RootIDList(after.roots))
	}
	if expect != nil && !eqInts(rhpx.RootIDList(st.Roots), expect) {
		c.Oracle("list-model:"+rpc+":"+variant, "%s (%s, %s): host roots %v, list model %v", rpc, variant, res.Cls, rhpx.RootIDList(st.Roots), expect)
	}
	w.auditRetired(c, rpc)
	// keep the expectation in sync with reality so later cases start from the truth
	w.cur = rhpx.RootIDList(st.Roots)
}

func (w *worker) add(c *vh.Case, tags ...string) {
	c.Tags = append(c.Tags, tags...)
	w.out <- c
}

// ---------------------------------------------------------------------------------------------
// case families

func seqName(is []uint64) string {
	if len(is) == 0 {
		return "e"
	}
	ss := make([]string, len(is))
	for i, v := range is {
		ss[i] = fmt.Sprint(v)
	}
	return strings.Join(ss, ".")
}

// freeClient: one free through the real client on a contract of n sectors.
func (w *worker) freeClient(n int, is []uint64) error {
	if err := w.resize(n); err != nil {
		return err
	}
	c := w.begin(fmt.Sprintf("cfree-n%d-%s", n, seqName(is)), nil)
	before := w.snap()
	res, _ := w.s.CFree(w.cid, w.s.GoodPrices(), is)
	c.Op(res.Op, res.Impl)
	inRange := true
	for _, i := range is {
		if int(i) >= n {
			inRange = false
		}
	}
	var expect []int
	if inRange {
		expect = append([]int(nil), w.cur...)
		for _, i := range normalize(is) {
			expect = swapRemove(expect, int(i))
		}
		if res.Cls != "ok" {
			c.Oracle("client-free-rejected", "free of in-range indices %v on %d sectors failed: %s", is, n, res.Impl)
		}
	} else {
		expect = w.cur
		if res.Cls == "ok" {
			c.Oracle("client-free-out-of-range-accepted", "free of %v on %d sectors succeeded", is, n)
		}
	}
	w.check(c, "free", "client", before, res, res.Cls != "ok", expect)
	w.observe(c)
	c.Nontrivial = len(is) > 0 && n > 0
	w.add(c, "rpc:free", "via:client", fmt.Sprintf("n:%d", n), "outcome:"+res.Cls)
	return nil
}

// freeRaw: one free through the raw renter (indices as given: unsorted, duplicates, out of range).
func (w *worker) freeRaw(n int, is []uint64) error {
	if err := w.resize(n); err != nil {
		return err
	}
	c := w.begin(fmt.Sprintf("rfree-n%d-%s", n, seqName(is)), nil)
	before := w.snap()
	res := w.s.Free(rhpx.FreeArgs{Cid: w.cid, Prices: w.s.GoodPrices(), Chal: rhpx.Honest, Indices: is, Second: rhpx.Honest})
	c.Op(res.Op, res.Impl)
	valid := true
	seen := map[uint64]bool{}
	for _, i := range is {
		if int(i) >= n || seen[i] {
			valid = false
		}
		seen[i] = true
	}
	var expect []int
	if !valid {
		expect = w.cur
		if res.Cls == "ok" {
			c.Oracle("raw-free-invalid-accepted", "free of %v on %d sectors succeeded", is, n)
		}
	} else {
		// what a wire-compatible host must do with the indices in the order they were sent (the loop
		// the proof format of core's BuildFreeSectorsProof / VerifyFreeSectorsProof is defined by):
		// slot n takes the i-th root from the end, then the tail is cut.  For a strictly descending list
		// this is the swap-remove list model.
		expect = append([]int(nil), w.cur...)
		for i, n := range is {
			expect[n] = expect[len(expect)-i-1]
		}
		expect = expect[:len(expect)-len(is)]
		if sortedDesc(is) {
			seq := append([]int(nil), w.cur...)
			for _, i := range is {
				seq = swapRemove(seq, int(i))
			}
			if !eqInts(seq, expect) {
				c.Oracle("harness-list-models-disagree", "batch %v vs sequential %v", expect, seq)
			}
		}
	}
	w.check(c, "free", "raw", before, res, res.Cls != "ok", expect)
	w.observe(c)
	c.Nontrivial = len(is) > 0 && n > 0
	w.add(c, "rpc:free", "via:raw", fmt.Sprintf("n:%d", n), "outcome:"+res.Cls)
	return nil
}

func sortedDesc(is []uint64) bool {
	for i := 1; i < len(is); i++ {
		if is[i] >= is[i-1] {
			return false
		}
	}
	return true
}

type variant struct {
	name   string
	second rhpx.SigSpec
	bang   bool
	chal   rhpx.SigSpec
	prices func(p rhpx.PriceSpec) rhpx.PriceSpec
	commit bool // the host is expected to commit
}

func variants() []variant {
	stranger := 5
	return []variant{
		{name: "abort", second: rhpx.Abort, chal: rhpx.Honest},
		{name: "drop", second: rhpx.SigSpec{Kind: "drop"}, chal: rhpx.Honest},
		{name: "sig-garbage", second: rhpx.BadS, chal: rhpx.Honest},
		{name: "sig-zero", second: rhpx.ZeroS, chal: rhpx.Honest},
		{name: "sig-wrong-key", second: rhpx.SigSpec{Kind: "b", Key: stranger}, chal: rhpx.Honest},
		{name: "sig-other-revnum", second: rhpx.SigSpec{Kind: "b", Key: rhpx.RenterKeyID, Mut: func(fc *types.V2FileContract) { fc.RevisionNumber++ }}, chal: rhpx.Honest},
		{name: "sig-other-payout", second: rhpx.SigSpec{Kind: "b", Key: rhpx.RenterKeyID, Mut: func(fc *types.V2FileContract) {
			fc.RenterOutput.Value = fc.RenterOutput.Value.Add(types.NewCurrency64(1))
		}}, chal: rhpx.Honest},
		{name: "sig-other-root", second: rhpx.SigSpec{Kind: "b", Key: rhpx.RenterKeyID, Mut: func(fc *types.V2FileContract) { fc.FileMerkleRoot[0] ^= 1 }}, chal: rhpx.Honest},
		{name: "sig-then-drop", second: rhpx.Honest, bang: true, chal: rhpx.Honest, commit: true},
		{name: "sig-explicit-ok", second: rhpx.SigSpec{Kind: "b", Key: rhpx.RenterKeyID}, chal: rhpx.Honest, commit: true},
		{name: "chal-garbage", second: rhpx.Honest, chal: rhpx.BadS},
		{name: "chal-wrong-key", second: rhpx.Honest, chal: rhpx.SigSpec{Kind: "c", Key: stranger, Cid: 0, N: 0}},
		{name: "prices-expired", second: rhpx.Honest, chal: rhpx.Honest, prices: func(p rhpx.PriceSpec) rhpx.PriceSpec { p.Delta = -3600; return p }},
		{name: "prices-foreign", second: rhpx.Honest, chal: rhpx.Honest, prices: func(p rhpx.PriceSpec) rhpx.PriceSpec { p.Sig = rhpx.PS{Kind: "s", Key: stranger}; return p }},
		{name: "prices-altered", second: rhpx.Honest, chal: rhpx.Honest, prices: func(p rhpx.PriceSpec) rhpx.PriceSpec { p.Sig = rhpx.PS{Kind: "o", Key: rhpx.HostKeyID}; return p }},
	}
}

// faultFree: a free of `is` (sorted, distinct, in range) that goes wrong at one point.
func (w *worker) faultFree(n int, is []uint64, v variant) error {
	if err := w.resize(n); err != nil {
		return err
	}
	c := w.begin(fmt.Sprintf("fault-free-n%d-%s-%s", n, seqName(is), v.name), nil)
	before := w.snap()
	// the batch form of the list model (equal to sequential swap-remove for descending lists, and
	// defined for any distinct in-range list)
	expect := append([]int(nil), w.cur...)
	for i, x := range is {
		expect[x] = expect[len(expect)-i-1]
	}
	expect = expect[:len(expect)-len(is)]
	ps := w.s.GoodPrices()
	if v.prices != nil {
		ps = v.prices(ps)
	}
	chal := v.chal
	if chal.Kind == "c" && chal.N == 0 {
		chal.N = before.rev.RevisionNumber + 1
		chal.Cid = w.cid
	}
	res := w.s.Free(rhpx.FreeArgs{Cid: w.cid, Prices: ps, Chal: chal, Indices: is, Second: v.second, Bang: v.bang, NewIDs: expect})
	c.Op(res.Op, res.Impl)
	if v.commit {
		w.check(c, "free", v.name, before, res, false, expect)
	} else {
		w.check(c, "free", v.name, before, res, true, w.cur)
		if res.Cls == "ok" {
			c.Oracle("fault-accepted:free:"+v.name, "free with %s was accepted", v.name)
		}
	}
	w.observe(c)
	// the contract must still work: list it
	if len(w.cur) > 0 {
		w.listAndReadN(c, 0, uint64(len(w.cur)), true, 1)
	}
	c.Nontrivial = n > 0 && len(is) > 0
	w.add(c, "rpc:free", "fault:"+v.name, fmt.Sprintf("n:%d", n), "outcome:"+res.Cls)
	return nil
}

func (w *worker) faultAppend(n int, add []int, v variant) error {
	if err := w.resize(n); err != nil {
		return err
	}
	c := w.begin(fmt.Sprintf("fault-append-n%d-%s-%s", n, rhpx.Ints(add), v.name), add)
	before := w.snap()
	expect := append([]int(nil), w.cur...)
	for _, a := range add {
		if a <= w.maxID {
			expect = append(expect, a)
		}
	}
	ps := w.s.GoodPrices()
	if v.prices != nil {
		ps = v.prices(ps)
	}
	chal := v.chal
	if chal.Kind == "c" && chal.N == 0 {
		chal.N = before.rev.RevisionNumber + 1
		chal.Cid = w.cid
	}
	res := w.s.Append(rhpx.AppendArgs{Cid: w.cid, Prices: ps, Chal: chal, Sectors: add, Second: v.second, Bang: v.bang, NewIDs: expect})
	c.Op(res.Op, res.Impl)
	if v.commit {
		w.check(c, "append", v.name, before, res, false, expect)
	} else {
		w.check(c, "append", v.name, before, res, true, w.cur)
		if res.Cls == "ok" {
			c.Oracle("fault-accepted:append:"+v.name, "append with %s was accepted", v.name)
		}
	}
	w.observe(c)
	if len(w.cur) > 0 {
		w.listAndRead(c, 0, uint64(len(w.cur)), false)
	}
	c.Nontrivial = true
	w.add(c, "rpc:append", "fault:"+v.name, fmt.Sprintf("n:%d", n), "outcome:"+res.Cls)
	return nil
}

// faultRoots: the single-round sector-roots RPC with a bad signature / truncated request.
func (w *worker) faultRoots(n int, off, length uint64, v variant) error {
	if err := w.resize(n); err != nil {
		return err
	}
	c := w.begin(fmt.Sprintf("fault-roots-n%d-%d-%d-%s", n, off, length, v.name), nil)
	before := w.snap()
	ps := w.s.GoodPrices()
	if v.prices != nil {
		ps = v.prices(ps)
	}
	var res rhpx.Result
	switch v.name {
	case "abort", "drop":
		pr, _ := w.s.Prices(ps)
		res = w.s.Garbage(proto4.RPCSectorRootsID, &proto4.RPCSectorRootsRequest{Prices: pr, ContractID: w.s.CID(w.cid), Offset: off, Length: length})
	default:
		sig := v.second
		if v.chal.Kind != "h" { // challenge variants do not exist for this RPC: use a bad signature instead
			sig = rhpx.BadS
		}
		res = w.s.Roots(rhpx.RootsArgs{Cid: w.cid, Prices: ps, Offset: off, Len: length, Sig: sig, CurIDs: w.cur})
	}
	c.Op(res.Op, res.Impl)
	commit := v.commit && v.chal.Kind == "h" && v.prices == nil
	w.check(c, "roots", v.name, before, res, !commit, w.cur)
	if !commit && res.Cls == "ok" {
		c.Oracle("fault-accepted:roots:"+v.name, "sector roots with %s was accepted", v.name)
	}
	if commit && res.Cls == "ok" && !eqInts(rhpx.RootIDList(res.Roots), w.cur[off:off+length]) {
		c.Oracle("roots-wrong-slice", "roots [%d,+%d) returned %v, expected %v", off, length, rhpx.RootIDList(res.Roots), w.cur[off:off+length])
	}
	w.observe(c)
	c.Nontrivial = n > 0
	w.add(c, "rpc:roots", "fault:"+v.name, fmt.Sprintf("n:%d", n), "outcome:"+res.Cls)
	return nil
}

// listAndRead lists [off, off+length) through the real client (which verifies the proof against
// the committed root) and, if read is set, reads the first leaf of every listed sector back.
func (w *worker) listAndRead(c *vh.Case, off, length uint64, read bool) {
	w.listAndReadN(c, off, length, read, 1<<30)
}

// listAndReadN reads back at most maxRead of the listed sectors (each read hashes a whole sector).
func (w *worker) listAndReadN(c *vh.Case, off, length uint64, read bool, maxRead int) {
	before := w.snap()
	res, sent := w.s.CRoots(w.cid, w.s.GoodPrices(), off, length)
	if !sent {
		return
	}
	c.Op(res.Op, res.Impl)
	inRange := length > 0 && off+length <= uint64(len(w.cur))
	if inRange {
		if res.Cls != "ok" {
			c.Oracle("roots-list-failed", "listing [%d,+%d) of %d sectors failed: %s", off, length, len(w.cur), res.Impl)
		} else if !eqInts(rhpx.RootIDList(res.Roots), w.cur[off:off+length]) {
			c.Oracle("roots-wrong-slice", "roots [%d,+%d) returned %v, expected %v", off, length, rhpx.RootIDList(res.Roots), w.cur[off:off+length])
		}
	} else if res.Cls == "ok" {
		c.Oracle("roots-out-of-range-accepted", "listing [%d,+%d) of %d sectors succeeded", off, length, len(w.cur))
	}
	w.check(c, "roots", "client", before, res, res.Cls != "ok", w.cur)
	if read && res.Cls == "ok" {
		for i, h := range res.Roots {
			if i >= maxRead {
				break
			}
			id := rhpx.RootID(h)
			rr := w.s.Read(rhpx.ReadArgs{Prices: w.s.GoodPrices(), Token: w.s.GoodToken(w.acct), Root: id, Offset: 0, Len: 64})
			c.Op(rr.Op, rr.Impl)
			d, _ := rhpx.Sector(id)
			if rr.Cls != "ok" {
				c.Oracle("listed-sector-unreadable", "sector %d listed by the host cannot be read: %s", id, rr.Impl)
			} else if d == nil || string(rr.Data) != string(d[:64]) {
				c.Oracle("listed-sector-wrong-data", "sector %d read back with wrong data", id)
			}
			for _, n := range rr.Notes {
				c.Oracle("proof:read", "%s", n)
			}
		}
	}
}

// window: list every window of a contract of n sectors (and read back).
func (w *worker) window(n int, off, length uint64, raw bool) error {
	if err := w.resize(n); err != nil {
		return err
	}
	c := w.begin(fmt.Sprintf("roots-n%d-%d-%d-%v", n, off, length, raw), nil)
	if raw {
		before := w.snap()
		res := w.s.Roots(rhpx.RootsArgs{Cid: w.cid, Prices: w.s.GoodPrices(), Offset: off, Len: length, Sig: rhpx.Honest, CurIDs: w.cur})
		c.Op(res.Op, res.Impl)
		inRange := length > 0 && off+length <= uint64(n)
		if inRange != (res.Cls == "ok") {
			c.Oracle("roots-range", "listing [%d,+%d) of %d sectors answered %s", off, length, n, res.Cls)
		}
		if res.Cls == "ok" && inRange && !eqInts(rhpx.RootIDList(res.Roots), w.cur[off:off+length]) {
			c.Oracle("roots-wrong-slice", "roots [%d,+%d) returned %v, expected %v", off, length, rhpx.RootIDList(res.Roots), w.cur[off:off+length])
		}
		w.check(c, "roots", "raw", before, res, res.Cls != "ok", w.cur)
	} else {
		w.listAndRead(c, off, length, true)
	}
	w.observe(c)
	c.Nontrivial = n > 0
	w.add(c, "rpc:roots", fmt.Sprintf("n:%d", n), fmt.Sprintf("raw:%v", raw))
	return nil
}

// history: a long random sequence of appends (with unknown roots and repeats), frees (client and
// raw), listings and faults on one contract growing to maxN sectors.
func (w *worker) history(name string, rng *vh.RNG, steps, maxN int) error {
	if err := w.resize(rng.Intn(4)); err != nil {
		return err
	}
	stored := make([]int, 0, w.maxID)
	for i := 1; i <= w.maxID; i++ {
		stored = append(stored, i)
	}
	c := w.begin(name, stored)
	vs := variants()
	for step := 0; step < steps; step++ {
		n := len(w.cur)
		before := w.snap()
		if rng.Chance(1, 120) && len(w.cur) > 0 {
			kind := []string{"refresh-full", "refresh-partial", "renew"}[rng.Intn(3)]
			if err := w.refreshInto(c, kind); err != nil {
				c.Oracle("harness-setup", "%v", err)
			}
			c.Tags = append(c.Tags, "in-history:"+kind)
			continue
		}
		switch k := rng.Intn(10); {
		case k < 4 && n < maxN: // append
			cnt := 1 + rng.Intn(min(6, maxN-n))
			var add []int
			for i := 0; i < cnt; i++ {
				switch rng.Intn(6) {
				case 0:
					add = append(add, rhpx.FakeRootBase+rng.Intn(50)) // a root the host does not store
				case 1:
					if n > 0 {
						add = append(add, w.cur[rng.Intn(n)]) // a root already in the contract
						break
					}
					fallthrough
				default:
					add = append(add, 1+rng.Intn(w.maxID))
				}
			}
			expect := append([]int(nil), w.cur...)
			for _, a := range add {
				if a <= w.maxID {
					expect = append(expect, a)
				}
			}
			if rng.Chance(1, 5) {
				v := vs[rng.Intn(len(vs))]
				ps := w.s.GoodPrices()
				if v.prices != nil {
					ps = v.prices(ps)
				}
				chal := v.chal
				if chal.Kind == "c" && chal.N == 0 {
					chal.N = before.rev.RevisionNumber + 1
					chal.Cid = w.cid
				}
				res := w.s.Append(rhpx.AppendArgs{Cid: w.cid, Prices: ps, Chal: chal, Sectors: add, Second: v.second, Bang: v.bang, NewIDs: expect})
				c.Op(res.Op, res.Impl)
				if v.commit {
					w.check(c, "append", v.name, before, res, false, expect)
				} else {
					w.check(c, "append", v.name, before, res, true, w.cur)
				}
				c.Tags = append(c.Tags, "fault:"+v.name)
			} else {
				res, _ := w.s.CAppend(w.cid, w.s.GoodPrices(), add)
				c.Op(res.Op, res.Impl)
				if res.Cls != "ok" {
					c.Oracle("client-append-rejected", "append of %v failed: %s", add, res.Impl)
				}
				w.check(c, "append", "client", before, res, res.Cls != "ok", expect)
			}
		case k < 8 && n > 0: // free
			cnt := 1 + rng.Intn(min(5, n))
			var is []uint64
			for i := 0; i < cnt; i++ {
				is = append(is, uint64(rng.Intn(n)))
			}
			if rng.Chance(1, 8) {
				is = append(is, uint64(n+rng.Intn(2))) // out of range
			}
			switch rng.Intn(4) {
			case 0: // raw, as given
				res := w.s.Free(rhpx.FreeArgs{Cid: w.cid, Prices: w.s.GoodPrices(), Chal: rhpx.Honest, Indices: is, Second: rhpx.Honest})
				c.Op(res.Op, res.Impl)
				w.check(c, "free", "raw", before, res, res.Cls != "ok", nil)
			case 1: // fault on a normalised request
				v := vs[rng.Intn(len(vs))]
				nis := normalize(is)
				ok := true
				for _, i := range nis {
					if int(i) >= n {
						ok = false
					}
				}
				expect := append([]int(nil), w.cur...)
				if ok {
					for _, i := range nis {
						expect = swapRemove(expect, int(i))
					}
				}
				ps := w.s.GoodPrices()
				if v.prices != nil {
					ps = v.prices(ps)
				}
				chal := v.chal
				if chal.Kind == "c" && chal.N == 0 {
					chal.N = before.rev.RevisionNumber + 1
					chal.Cid = w.cid
				}
				res := w.s.Free(rhpx.FreeArgs{Cid: w.cid, Prices: ps, Chal: chal, Indices: nis, Second: v.second, Bang: v.bang, NewIDs: expect})
				c.Op(res.Op, res.Impl)
				if v.commit && ok {
					w.check(c, "free", v.name, before, res, false, expect)
				} else {
					w.check(c, "free", v.name, before, res, true, w.cur)
				}
				c.Tags = append(c.Tags, "fault:"+v.name)
			default:
				res, _ := w.s.CFree(w.cid, w.s.GoodPrices(), is)
				c.Op(res.Op, res.Impl)
				ok := true
				for _, i := range is {
					if int(i) >= n {
						ok = false
					}
				}
				expect := append([]int(nil), w.cur...)
				if ok {
					for _, i := range normalize(is) {
						expect = swapRemove(expect, int(i))
					}
					if res.Cls != "ok" {
						c.Oracle("client-free-rejected", "free of %v on %d sectors failed: %s", is, n, res.Impl)
					}
				}
				w.check(c, "free", "client", before, res, res.Cls != "ok", expect)
			}
		case n > 0: // list a window, read back
			off := uint64(rng.Intn(n))
			length := uint64(1 + rng.Intn(n-int(off)))
			w.listAndRead(c, off, length, rng.Chance(1, 3))
		default:
			continue
		}
		w.observe(c)
	}
	c.Nontrivial = true
	w.add(c, "kind:history")
	return nil
}

// ---------------------------------------------------------------------------------------------


// auditRetired: a contract that has been renewed or refreshed keeps its last committed revision and
// exactly the roots that revision commits to, whatever happens to its successor.
func (w *worker) auditRetired(c *vh.Case, rpc string) {
	for _, old := range w.retired {
		st, err := w.rig.HostState(w.s.CID(old))
		if err != nil {
			c.Oracle("lost-contract:retired", "the renewed contract %d vanished: %v", old, err)
			continue
		}
		if proto4.MetaRoot(st.Roots) != st.Revision.FileMerkleRoot || uint64(len(st.Roots))*proto4.SectorSize != st.Revision.Filesize {
			c.Oracle("root-commit:retired-contract:"+rpc, "after %s on its successor, the renewed contract %d holds roots %v that no longer match its last committed revision %d (filesize %d)", rpc, old,
				rhpx.RootIDList(st.Roots), st.Revision.RevisionNumber, st.Revision.Filesize)
		}
	}
}

// refreshInto refreshes (or renews) the worker's contract through the real client, renders the
// outcome for the model (Op.renew), mines the renewal and makes the new contract the one under
// test.  The oracle then applies to the NEW contract id: its stored roots must be exactly the old
// ones, hash to its Merkle root and number its file size — also when capacity exceeds the file size.
func (w *worker) refreshInto(c *vh.Case, kind string) error {
	ctx := context.Background()
	settings, err := rhp4.RPCSettings(ctx, w.rig.T)
	if err != nil {
		return err
	}
	old := w.cid
	st, _ := w.rig.HostState(w.s.CID(old))
	fs := &rhpx.HookSigner{FundSigner: &rhpx.FundSigner{W: w.rig.W, PK: rhpx.Key(rhpx.RenterKeyID)}}
	if w.duringRenewal {
		// while the renew/refresh holds the contract (host inputs sent, renter signatures pending) other
		// RPCs on the same contract must be refused: first a listing, then an append that would change
		// the roots under the renewal's feet.  Raw renter: it waits for its own streams only.
		fs.Hook = func() {
			base := st
			w.s.SetBase(old, &base)
			defer w.s.SetBase(old, nil)
			r1 := w.s.Roots(rhpx.RootsArgs{Cid: old, Prices: w.s.GoodPrices(), Offset: 0, Len: 1, Sig: rhpx.Honest, CurIDs: w.cur})
			r2 := w.s.Append(rhpx.AppendArgs{Cid: old, Prices: w.s.GoodPrices(), Chal: rhpx.Honest, Sectors: []int{35}, Second: rhpx.Honest, NewIDs: append(append([]int(nil), w.cur...), 35)})
			r3 := w.s.Free(rhpx.FreeArgs{Cid: old, Prices: w.s.GoodPrices(), Chal: rhpx.Honest, Indices: []uint64{0}, Second: rhpx.Honest})
			for _, r := range []rhpx.Result{r1, r2, r3} {
				if r.Cls == "ok" {
					c.Oracle("lock-not-exclusive:"+strings.Fields(r.Op)[0]+"-during-"+kind, "%q succeeded on a contract that a %s in flight holds locked", r.Op, kind)
				}
			}
		}
	}
	var contract rhp4.ContractRevision
	var set rhp4.TransactionSet
	switch kind {
	case "renew":
		var r rhp4.RPCRenewContractResult
		r, err = rhp4.RPCRenewContract(ctx, w.clientT(), w.rig.CM, fs, w.rig.CM.TipState(), settings.Prices, settings.WalletAddress, st.Revision, proto4.RPCRenewContractParams{
			ContractID: w.s.CID(old), Allowance: types.Siacoins(100000), Collateral: types.Siacoins(200000), ProofHeight: st.Revision.ProofHeight + 2})
		contract, set = r.Contract, r.RenewalSet
	case "refresh-full":
		var r rhp4.RPCRefreshContractResult
		r, err = rhp4.RPCRefreshContractFullRollover(ctx, w.clientT(), w.rig.CM, fs, w.rig.CM.TipState(), settings.Prices, settings.WalletAddress, st.Revision, proto4.RPCRefreshContractParams{
			ContractID: w.s.CID(old), Allowance: types.Siacoins(1000), Collateral: types.Siacoins(2000)})
		contract, set = r.Contract, r.RenewalSet
	default:
		var r rhp4.RPCRefreshContractResult
		r, err = rhp4.RPCRefreshContractPartialRollover(ctx, w.clientT(), w.rig.CM, fs, w.rig.CM.TipState(), settings.Prices, settings.WalletAddress, st.Revision, proto4.RPCRefreshContractParams{
			ContractID: w.s.CID(old), Allowance: types.Siacoins(100000), Collateral: types.Siacoins(200000)})
		contract, set = r.Contract, r.RenewalSet
	}
	w.rig.T.WaitIdle()
	w.rig.Rec.Take()
	if err != nil {
		return fmt.Errorf("%s through the real client failed: %w", kind, err)
	}
	newc := old + 1
	w.s.AddContract(newc, contract.ID)
	nst, err := w.rig.HostState(contract.ID)
	if err != nil {
		c.Oracle("renewal-missing:"+kind, "the host does not hold the %s contract: %v", kind, err)
		return nil
	}
	c.Op(fmt.Sprintf("renew %d %d %s %d %d", old, newc, rhpx.Body(nst.Revision, w.cur), rhpx.KeyID(st.Revision.RenterPublicKey), rhpx.KeyID(st.Revision.HostPublicKey)), "ok []")
	if _, err := w.rig.CM.AddV2PoolTransactions(set.Basis, set.Transactions); err != nil {
		c.Oracle("renewal-set-invalid:"+kind, "%s set rejected by the pool: %v", kind, err)
	}
	if err := w.rig.Mine(1); err != nil {
		return err
	}
	tl, ti := w.s.TipLine()
	c.Op(tl, ti)
	// the new contract is the one under test from here on; the old one stays under audit
	w.retired = append(w.retired, old)
	if len(w.retired) > 2 {
		w.retired = w.retired[len(w.retired)-2:]
	}
	w.cid = newc
	fc := nst.Revision
	if !eqInts(rhpx.RootIDList(nst.Roots), w.cur) {
		c.Oracle("list-model:"+kind+":carry-over", "after the %s the new contract's roots are %v, the old contract's were %v", kind, rhpx.RootIDList(nst.Roots), w.cur)
	}
	if proto4.MetaRoot(nst.Roots) != fc.FileMerkleRoot {
		c.Oracle("root-commit:"+kind+":ok", "after the %s: MetaRoot(roots of the new contract) != its FileMerkleRoot (%d roots, filesize %d, capacity %d)", kind, len(nst.Roots), fc.Filesize, fc.Capacity)
	}
	if uint64(len(nst.Roots))*proto4.SectorSize != fc.Filesize {
		c.Oracle("size-commit:"+kind+":ok", "after the %s: the new contract has %d roots but Filesize %d (capacity %d)", kind, len(nst.Roots), fc.Filesize, fc.Capacity)
	}
	w.observe(c)
	return nil
}

// refreshCase: append k, free j (so that capacity exceeds the file size), refresh or renew, then use
// the new contract: list it (with read-back), append to it, free from it.
func (w *worker) refreshCase(k, j int, kind, followup string) error {
	if err := w.resize(k); err != nil {
		return err
	}
	if j > 0 {
		var is []uint64
		for i := 0; i < j; i++ {
			is = append(is, uint64(k-1-i))
		}
		res, _ := w.s.CFree(w.cid, w.s.GoodPrices(), is)
		if res.Cls != "ok" {
			return fmt.Errorf("setup free failed: %s", res.Impl)
		}
		w.cur = w.cur[:k-j]
	}
	stored := []int{30, 31}
	c := w.begin(fmt.Sprintf("%s-k%d-j%d-%s", kind, k, j, followup), append(stored, 35))
	w.duringRenewal = (k+j)%2 == 0
	defer func() { w.duringRenewal = false }()
	if w.duringRenewal {
		c.Name += "-contended"
	}
	if err := w.refreshInto(c, kind); err != nil {
		c.Oracle("harness-setup", "%v", err)
		w.add(c)
		return nil
	}
	n := len(w.cur)
	before := w.snap()
	switch followup {
	case "roots":
		if n > 0 {
			w.listAndRead(c, 0, uint64(n), true)
		}
	case "append":
		res, _ := w.s.CAppend(w.cid, w.s.GoodPrices(), stored)
		c.Op(res.Op, res.Impl)
		if res.Cls != "ok" {
			c.Oracle("client-append-rejected", "append to the %s contract failed: %s", kind, res.Impl)
		}
		w.check(c, "append", "client", before, res, res.Cls != "ok", append(append([]int(nil), w.cur...), stored...))
	case "free":
		if n > 0 {
			res, _ := w.s.CFree(w.cid, w.s.GoodPrices(), []uint64{0})
			c.Op(res.Op, res.Impl)
			if res.Cls != "ok" {
				c.Oracle("client-free-rejected", "free on the %s contract failed: %s", kind, res.Impl)
			}
			w.check(c, "free", "client", before, res, res.Cls != "ok", swapRemove(w.cur, 0))
		}
	}
	w.observe(c)
	if len(w.cur) > 0 {
		w.listAndReadN(c, 0, uint64(len(w.cur)), true, 1)
	}
	c.Nontrivial = true
	w.add(c, "kind:"+kind, fmt.Sprintf("slack:%d", j), "followup:"+followup)
	return nil
}


// faultWrite: a sector write abandoned after the request (no data, or fewer than DataLength bytes)
// or refused: the account's balance, the sector store and the contract stay exactly as they were.
func (w *worker) faultWrite(variant int) error {
	if err := w.resize(2); err != nil {
		return err
	}
	names := []string{"short-data", "token-garbage", "prices-expired", "length-unaligned", "complete"}
	c := w.begin("fault-write-"+names[variant], nil)
	before := w.snap()
	a := rhpx.WriteArgs{Prices: w.s.GoodPrices(), Token: w.s.GoodToken(w.acct), Len: 128, Sector: 33}
	had, _ := w.rig.SS.HasSector(rhpx.RootHash(33))
	switch variant {
	case 0:
		a.Short = true
	case 1:
		a.Token.Sig = rhpx.PS{Kind: "x"}
	case 2:
		a.Prices.Delta = -3600
	case 3:
		a.Len = 100
	}
	res := w.s.Write(a)
	c.Op(res.Op, res.Impl)
	if variant < 4 {
		if res.Cls == "ok" {
			c.Oracle("fault-accepted:write:"+names[variant], "write with %s was accepted", names[variant])
		}
		w.check(c, "write", names[variant], before, res, true, w.cur)
		if has, _ := w.rig.SS.HasSector(rhpx.RootHash(33)); has && !had {
			c.Oracle("not-atomic:write:"+names[variant]+":stored", "an abandoned write left a sector in the store")
		}
	} else {
		w.check(c, "write", "complete", before, res, false, w.cur)
		if res.Cls != "ok" {
			c.Oracle("write-refused", "a funded, complete write was refused: %s", res.Impl)
		}
	}
	w.observe(c)
	c.Nontrivial = true
	w.add(c, "rpc:write", "fault:"+names[variant])
	return nil
}


// longLived: sectors uploaded through RPCWriteSector (temporary storage, TempSectorDuration blocks)
// and appended to a contract that lives longer than that must stay readable: after more than
// TempSectorDuration blocks and another upload, everything the host lists is read back.
// Moves the chain tip far ahead: run last.
func (w *worker) longLived() error {
	c0, err := w.rig.Form(rhpx.Key(rhpx.RenterKeyID), types.Siacoins(100000), types.Siacoins(200000), 3000)
	if err != nil {
		return err
	}
	w.cid = 5000
	w.cur = nil
	w.s.AddContract(w.cid, c0.ID)
	c := w.begin("long-lived", nil)
	tl, ti := w.s.TipLine()
	c.Op(tl, ti)
	upload := func(id int) {
		before := w.snap()
		_ = before
		res := w.s.Write(rhpx.WriteArgs{Prices: w.s.GoodPrices(), Token: w.s.GoodToken(w.acct), Len: 64, Sector: id})
		c.Op(res.Op, res.Impl)
		if res.Cls != "ok" {
			c.Oracle("write-refused", "a funded, complete write was refused: %s", res.Impl)
		}
	}
	pinned := []int{61, 62, 63}
	for _, id := range pinned {
		upload(id)
	}
	before := w.snap()
	res, _ := w.s.CAppend(w.cid, w.s.GoodPrices(), pinned)
	c.Op(res.Op, res.Impl)
	if res.Cls != "ok" {
		c.Oracle("client-append-rejected", "append of uploaded sectors failed: %s", res.Impl)
	}
	w.check(c, "append", "client", before, res, res.Cls != "ok", pinned)
	w.observe(c)
	w.listAndRead(c, 0, uint64(len(w.cur)), true)
	// more than TempSectorDuration blocks pass
	if err := w.rig.Mine(int(proto4.TempSectorDuration) + 8); err != nil {
		return err
	}
	tl, ti = w.s.TipLine()
	c.Op(tl, ti)
	w.listAndRead(c, 0, uint64(len(w.cur)), true)
	// any other upload
	upload(64)
	w.observe(c)
	// everything the contract lists is still there
	w.listAndRead(c, 0, uint64(len(w.cur)), true)
	// and the contract still takes the new sector
	before = w.snap()
	res, _ = w.s.CAppend(w.cid, w.s.GoodPrices(), []int{64})
	c.Op(res.Op, res.Impl)
	w.check(c, "append", "client", before, res, res.Cls != "ok", append(append([]int(nil), pinned...), 64))
	w.listAndRead(c, 0, uint64(len(w.cur)), true)
	w.observe(c)
	c.Nontrivial = true
	w.add(c, "kind:long-lived")
	return nil
}


// storeFault: the sector store fails the lookup of one root in the middle of an append batch (with
// "sector not found" reported as an error, or with an arbitrary error).  The RPC must fail and
// commit nothing — in particular the root whose lookup failed must not be accepted.
func (w *worker) storeFault(pos int, notFound, raw bool) error {
	if err := w.resize(2); err != nil {
		return err
	}
	bad := rhpx.FakeRootBase + 20 + pos // a root the host does not store
	batch := []int{30, 31, 32}
	batch = append(batch[:pos], append([]int{bad}, batch[pos:]...)...)
	c := w.begin(fmt.Sprintf("store-fault-pos%d-notfound%v-raw%v", pos, notFound, raw), []int{30, 31, 32})
	var ferr error = errors.New("disk unavailable")
	if notFound {
		ferr = proto4.ErrSectorNotFound
	}
	w.rig.Sec.FailHas(rhpx.RootHash(bad), ferr)
	c.Op(fmt.Sprintf("sectorerr %d 1", bad), "ok []")
	before := w.snap()
	var res rhpx.Result
	if raw {
		res = w.s.Append(rhpx.AppendArgs{Cid: w.cid, Prices: w.s.GoodPrices(), Chal: rhpx.Honest, Sectors: batch, Second: rhpx.Honest})
	} else {
		res, _ = w.s.CAppend(w.cid, w.s.GoodPrices(), batch)
	}
	c.Op(res.Op, res.Impl)
	if res.Cls == "ok" {
		c.Oracle("store-failure-committed:append", "an append during which HasSector failed for root %d was committed", bad)
	}
	w.check(c, "append", "store-fault", before, res, true, w.cur)
	for _, id := range w.cur {
		if id == bad {
			c.Oracle("unknown-root-accepted:append", "the contract now lists root %d, which the host does not store", bad)
		}
	}
	w.observe(c)
	// the store recovers: the same batch is served, the unknown root is skipped
	w.rig.Sec.FailHas(rhpx.RootHash(bad), nil)
	c.Op(fmt.Sprintf("sectorerr %d 0", bad), "ok []")
	before = w.snap()
	res, _ = w.s.CAppend(w.cid, w.s.GoodPrices(), batch)
	c.Op(res.Op, res.Impl)
	w.check(c, "append", "client", before, res, res.Cls != "ok", append(append([]int(nil), w.cur...), 30, 31, 32))
	w.observe(c)
	if len(w.cur) > 0 {
		w.listAndReadN(c, 0, uint64(len(w.cur)), true, 2)
	}
	c.Nontrivial = true
	w.add(c, "rpc:append", "fault:store-lookup")
	return nil
}


func (w *worker) clientT() rhp4.TransportClient {
	if w.s.Client != nil {
		return w.s.Client
	}
	return w.rig.T
}

// replays: everything the renter sent in an earlier, successful RPC is presented again, byte for
// byte, on a fresh stream after the contract has been used: a formation (zero host collateral, so
// the formation transaction and the contract id are determined by the renter's bytes alone; the
// transaction still unconfirmed), an append, a free and a refresh.  Each replay must change nothing.
func (w *worker) replays() error {
	savedCid, savedCur := w.cid, w.cur
	defer func() { w.cid, w.cur, w.s.Client = savedCid, savedCur, nil }()
	rec := &rhpx.RecordingTransport{TransportClient: w.rig.T}
	ctx := context.Background()
	settings, err := rhp4.RPCSettings(ctx, w.rig.T)
	if err != nil {
		return err
	}
	fs := &rhpx.FundSigner{W: w.rig.W, PK: rhpx.Key(rhpx.RenterKeyID)}
	formed, err := rhp4.RPCFormContract(ctx, rec, w.rig.CM, fs, w.rig.CM.TipState(), settings.Prices, w.rig.HostKey.PublicKey(), settings.WalletAddress, proto4.RPCFormContractParams{
		RenterPublicKey: rhpx.Key(rhpx.RenterKeyID).PublicKey(), RenterAddress: w.rig.W.Address(),
		Allowance: types.Siacoins(100000), Collateral: types.ZeroCurrency, ProofHeight: w.rig.CM.Tip().Height + 400})
	w.rig.T.WaitIdle()
	w.rig.Rec.Take()
	if err != nil {
		return fmt.Errorf("formation without host collateral failed: %w", err)
	}
	formation := rec.Last()
	w.cid, w.cur = 6000, nil
	w.s.AddContract(w.cid, formed.Contract.ID)
	w.s.Client = rec
	c := w.begin("replays", []int{30, 31, 32, 33})
	// the host risks no collateral in this contract: price tables without collateral
	noColl := func() rhpx.PriceSpec { p := w.s.GoodPrices(); p.P.Collateral = types.ZeroCurrency; return p }
	replay := func(what string, sent []byte, expect []int) {
		before := w.snap()
		n := w.s.Replay(sent)
		res := rhpx.Result{Cls: "replayed", Impl: fmt.Sprintf("replayed %d bytes, host answered %d", len(sent), n)}
		w.check(c, what, "replay", before, res, true, expect)
		w.observe(c)
	}
	before := w.snap()
	res, _ := w.s.CAppend(w.cid, noColl(), []int{30, 31, 32})
	appendBytes := rec.Last()
	c.Op(res.Op, res.Impl)
	if res.Cls != "ok" {
		c.Oracle("client-append-rejected", "append failed: %s", res.Impl)
	}
	w.check(c, "append", "client", before, res, res.Cls != "ok", []int{30, 31, 32})
	w.observe(c)
	// the identical formation again, while its transaction is still unconfirmed
	replay("form", formation, w.cur)
	w.listAndRead(c, 0, uint64(len(w.cur)), true)
	// the append again
	replay("append", appendBytes, w.cur)
	if len(c.Fails) > 0 || len(w.cur) == 0 {
		// the host's state is already wrong: report what was found
		c.Nontrivial = true
		w.add(c, "kind:replays")
		return nil
	}
	before = w.snap()
	res, _ = w.s.CFree(w.cid, noColl(), []uint64{0})
	freeBytes := rec.Last()
	c.Op(res.Op, res.Impl)
	w.check(c, "free", "client", before, res, res.Cls != "ok", swapRemove(w.cur, 0))
	w.observe(c)
	replay("free", freeBytes, w.cur)
	replay("form", formation, w.cur)
	// confirm the formation, refresh, and present formation and refresh again
	if err := w.rig.Mine(1); err != nil {
		return err
	}
	tl, ti := w.s.TipLine()
	c.Op(tl, ti)
	replay("form", formation, w.cur)
	if err := w.refreshInto(c, "refresh-full"); err != nil {
		c.Oracle("harness-setup", "%v", err)
		w.add(c)
		return nil
	}
	refreshBytes := rec.Last()
	replay("refresh", refreshBytes, w.cur)
	replay("form", formation, w.cur)
	replay("append", appendBytes, w.cur)
	if len(w.cur) > 0 {
		w.listAndRead(c, 0, uint64(len(w.cur)), true)
	}
	c.Nontrivial = true
	w.add(c, "kind:replays")
	return nil
}

type job func(w *worker) error

// sequences over the alphabet 0..n (n itself is out of range) of length <= maxLen
func sequences(n, maxLen int) [][]uint64 {
	out := [][]uint64{{}}
	prev := [][]uint64{{}}
	for l := 1; l <= maxLen; l++ {
		var cur [][]uint64
		for _, p := range prev {
			for a := 0; a <= n; a++ {
				s := append(append([]uint64(nil), p...), uint64(a))
				cur = append(cur, s)
			}
		}
		out = append(out, cur...)
		prev = cur
	}
	return out
}

// every subset of 0..n-1 in three orders (descending, ascending, rotated), plus one duplicate
func subsetOrders(n int) [][]uint64 {
	var out [][]uint64
	for m := 1; m < 1<<n; m++ {
		var asc []uint64
		for i := 0; i < n; i++ {
			if m&(1<<i) != 0 {
				asc = append(asc, uint64(i))
			}
		}
		if len(asc) < 2 {
			continue
		}
		desc := make([]uint64, len(asc))
		for i, v := range asc {
			desc[len(asc)-1-i] = v
		}
		rot := append(append([]uint64(nil), asc[1:]...), asc[0])
		dup := append(append([]uint64(nil), desc...), desc[0])
		out = append(out, desc, asc, rot, dup)
	}
	return out
}

func Run(r *vh.Run) {
	r.Rule = "a case is one RPC attempt (or a history of attempts) on a real host contract: a free/append/sector-roots RPC through the real client or the raw renter, well-formed or broken at one message; distinct by (contract size, indices or sectors, via, fault); non-trivial when the contract is non-empty and the request names at least one index/sector"
	rng := vh.NewRNG(r.Seed)
	maxN := 7
	seqLen := r.Pick(4, 5)
	faultN := 7
	histories := r.Pick(120, 3000)
	histSteps := r.Pick(40, 80)
	histMax := 64

	var jobs []job
	// (1) exhaustive frees: every contract size <= 7 x every index sequence (with duplicates and
	// out-of-range) up to seqLen, plus every subset in several orders, through client and raw renter
	for n := 0; n <= maxN; n++ {
		seqs := sequences(n, seqLen)
		seqs = append(seqs, subsetOrders(n)...)
		for _, is := range seqs {
			n, is := n, is
			jobs = append(jobs, func(w *worker) error { return w.freeClient(n, is) })
			jobs = append(jobs, func(w *worker) error { return w.freeRaw(n, is) })
		}
	}
	// (2) faults at every message of free / append / roots
	for n := 1; n <= faultN; n++ {
		for _, v := range variants() {
			n, v := n, v
			for m := 1; m < 1<<n; m++ {
				{
					var is []uint64
					for i := n - 1; i >= 0; i-- {
						if m&(1<<i) != 0 {
							is = append(is, uint64(i))
						}
					}
					jobs = append(jobs, func(w *worker) error { return w.faultFree(n, is, v) })
				}
			}
			jobs = append(jobs, func(w *worker) error { return w.faultAppend(n-1, []int{30, rhpx.FakeRootBase + 1, 31}, v) })
			jobs = append(jobs, func(w *worker) error { return w.faultAppend(n, []int{32}, v) })
			jobs = append(jobs, func(w *worker) error { return w.faultRoots(n, 0, uint64(n), v) })
		}
	}
	// (3) every window of every small contract, client (with read-back) and raw
	for n := 0; n <= maxN; n++ {
		for off := 0; off <= n+1; off++ {
			for l := 0; l <= n+1-off+1; l++ {
				n, off, l := n, off, l
				if off+l <= n && l > 0 {
					jobs = append(jobs, func(w *worker) error { return w.window(n, uint64(off), uint64(l), false) })
				}
				jobs = append(jobs, func(w *worker) error { return w.window(n, uint64(off), uint64(l), true) })
			}
		}
	}
	// (2a) free requests whose (distinct, in-range) indices are NOT descending, abandoned or refused
	// after the host's first response: the host must not have written into the roots it was lent
	for n := 2; n <= 5; n++ {
		for _, is := range sequences(n-1, 3) {
			if len(is) < 2 || sortedDesc(is) {
				continue
			}
			seen := map[uint64]bool{}
			dup := false
			for _, i := range is {
				dup = dup || seen[i]
				seen[i] = true
			}
			if dup {
				continue
			}
			for _, v := range variants()[:3] { // abort, drop, sig-garbage
				n, is, v := n, is, v
				jobs = append(jobs, func(w *worker) error { return w.faultFree(n, is, v) })
			}
		}
	}
	// (2c) the sector store fails one lookup in the middle of an append batch
	for pos := 0; pos <= 3; pos++ {
		for _, nf := range []bool{true, false} {
			for _, raw := range []bool{true, false} {
				pos, nf, raw := pos, nf, raw
				jobs = append(jobs, func(w *worker) error { return w.storeFault(pos, nf, raw) })
			}
		}
	}
	// (2b) a sector write abandoned or refused at each point: balances included in the atomicity oracle
	for v := 0; v < 5; v++ {
		v := v
		jobs = append(jobs, func(w *worker) error { return w.faultWrite(v) })
	}
	// (3b) free-then-refresh/renew: capacity above the file size must not leak into the new contract's roots
	for _, kind := range []string{"refresh-full", "refresh-partial", "renew"} {
		for _, kj := range [][2]int{{3, 1}, {5, 2}, {4, 4}, {2, 0}} {
			for _, f := range []string{"roots", "append", "free"} {
				kind, kj, f := kind, kj, f
				if r.Quick() && kind == "renew" && f != "roots" {
					continue
				}
				jobs = append(jobs, func(w *worker) error { return w.refreshCase(kj[0], kj[1], kind, f) })
			}
		}
	}
	// (4) random histories up to 64 sectors
	for i := 0; i < histories; i++ {
		i := i
		sub := rng.Fork()
		jobs = append(jobs, func(w *worker) error { return w.history(fmt.Sprintf("hist%d", i), sub, histSteps, histMax) })
	}

	nw := min(runtime.NumCPU(), 12)
	if r.Only != "" {
		// replay: the case name carries its worker; every worker still runs its whole share so that
		// the host reaches the same state
	}
	var wg sync.WaitGroup
	errs := make([]error, nw)
	out := make(chan *vh.Case, 1024)
	for wi := 0; wi < nw; wi++ {
		wg.Add(1)
		go func(wi int) {
			defer wg.Done()
			w, err := newWorker(wi, 40)
			if err != nil {
				errs[wi] = err
				return
			}
			w.out = out
			defer w.rig.Close()
			for ji := wi; ji < len(jobs); ji += nw {
				if err := jobs[ji](w); err != nil {
					errs[wi] = fmt.Errorf("job %d: %w", ji, err)
					return
				}
			}
			if wi >= 2 && wi < 5 {
				if err := w.replays(); err != nil {
					errs[wi] = fmt.Errorf("replays: %w", err)
				}
			}
			// moves the chain tip past the other contract's proof height: last, on two workers
			if wi < 2 {
				if err := w.longLived(); err != nil {
					errs[wi] = fmt.Errorf("long-lived: %w", err)
				}
			}
		}(wi)
	}
	go func() { wg.Wait(); close(out) }()
	for c := range out {
		r.Add(c)
	}
	for wi, err := range errs {
		if err != nil {
			fmt.Printf("ERROR C09 worker %d: %v\n", wi, err)
			c := &vh.Case{Name: fmt.Sprintf("w%d-setup", wi)}
			c.Oracle("harness-setup", "worker could not run its cases: %v", err)
			r.Add(c)
		}
	}
	r.Extra("exhaustive_contract_sizes", maxN)
	r.Extra("exhaustive_index_sequence_length", seqLen)
	r.Extra("fault_variants", len(variants()))
	r.Extra("workers", nw)
	r.Assume("price tables signed with the host key carry a TipHeight not above the chain tip (the server signs only its own tip)")
	r.Assume("contracts start at 0 bytes and Filesize/Capacity stay multiples of the sector size (rhp4.NewContract; checked by the oracle on every observation)")
	_ = rhp4.ErrInvalidProof
}
