// Package c14: pool submission and lookup honour their documented contracts.
//
// A real chain.Manager on a chainx fork tree receives generated transaction sets (fresh, partly
// known, wholly known, internally valid but conflicting with the pool at position k, invalid at
// position k, parent/child and ephemeral chains, stale and unknown bases), interleaved with blocks
// and reorgs.  Every result and the pool after every step are compared with the Lean pool model
// (T).  Oracles (O): all-or-nothing on the set's new transactions, "known" iff all pooled, deep
// hashes of the caller's memory, mutation of every returned v2 transaction and reordering of every
// returned list followed by a re-query, lookups through both APIs for v1 ids, v2 ids, confirmed ids
// and unknown ids.
package c14

import (
	"fmt"

	"verifharness/chainx"
	"verifharness/poolrig"
	"verifharness/vh"
)

func init() { vh.Register("C14", Run) }

func runCase(r *vh.Run, rng *vh.RNG, name string, steps int) {
	allows := []uint64{1, 2, 4}
	allow := allows[rng.Intn(len(allows))]
	require := allow + uint64(2+rng.Intn(8))
	if rng.Chance(1, 3) {
		require = 1000
	}
	if rng.Chance(1, 6) {
		require = allow
	}
	net := chainx.PoolNet(rng, allow, require)
	w := poolrig.NewWorld(r, rng, name, net)
	g := &poolrig.Gen{W: w, Rng: rng}
	tip := 0
	for i := 0; i < 2+rng.Intn(3); i++ {
		tip = w.GrowRandom(tip, rng.Intn(3))
	}
	w.Refresh()
	kinds := map[string]bool{}
	for i := 0; i < steps && !w.Panicked; i++ {
		k := g.Step()
		if k != "skip" {
			kinds[k] = true
			w.Stats[k]++
		}
	}
	if !w.Panicked {
		g.Lookups(true)
		g.Aliasing()
	}
	var tags []string
	for k := range kinds {
		tags = append(tags, "step:"+k)
	}
	nontrivial := w.Stats["add1:err"]+w.Stats["add2:err"] > 0 && w.Stats["add1:ok"]+w.Stats["add2:ok"] > 0
	w.Finish(nontrivial, tags...)
}

func Run(r *vh.Run) {
	r.Rule = "a case = one real chain.Manager on a growing fork tree (v2 allow height in {1,2,4}, require height allow+0..9 or never) driven by 40-80 generated steps: fresh v1/v2 sets (independent, parent/child, spending pooled outputs), partly and wholly known sets, sets conflicting with the pool at a random position k of n<=4, sets invalid at position k (bad signature / double spend inside the set / missing output), stale and unknown bases, lookups through both APIs (v1, v2, former, unknown ids), aliasing probes, blocks confirming pool prefixes, fork blocks and reorgs; non-trivial = at least one accepted and one rejected submission; distinct = distinct op lists"
	rng := vh.NewRNG(r.Seed).Fork() // seeds are consecutive stream positions of splitmix64; fork to decorrelate them
	n := r.Pick(250, 1500)
	for i := 0; i < n; i++ {
		crng := rng.Fork()
		runCase(r, crng, fmt.Sprintf("c%d", i), r.Pick(50, 90))
	}
	r.Assume("signatures, values and maturity are consensus parameters: a transaction carries the harness's knowledge of whether it corrupted it (ok) and the signature era it was signed in")
	r.Assume("Merkle proof verification is core's: per-input verdicts against the claimed basis are passed to the model as flags; proof values are compared with the shadow ledger by the oracle only")
	r.Assume("sequential use of the Manager (every exported method holds m.mu for its whole body)")
}
