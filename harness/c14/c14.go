// Package c14: pool submission and lookup honour their documented contracts.
//
// A real chain.Manager on a chainx fork tree receives generated transaction sets (fresh, partly
// known, wholly known, internally valid but conflicting with the pool at position k, invalid at
// position k, parent/child and ephemeral chains, stale and unknown bases), interleaved with blocks
// and reorgs.  Every result and the pool after every step are compared with the Lean pool model
// (T).  Oracles (O): all-or-nothing on the set's new transactions, "known" iff all pooled, deep
// hashes of the caller's memory, mutation of every returned v2 transaction and reordering of every
// returned list followed by a re-query, lookups through both APIs for v1 ids, v2 ids, confirmed ids
// and unknown ids.
package c14

import (
	"fmt"

	"go.sia.tech/core/types"

	"verifharness/chainx"
	"verifharness/poolrig"
	"verifharness/vh"
)

func init() { vh.Register("C14", Run) }

func runCase(r *vh.Run, rng *vh.RNG, name string, steps int) {
	allows := []uint64{1, 2, 4}
	allow := allows[rng.Intn(len(allows))]
	require := allow + uint64(2+rng.Intn(8))
	if rng.Chance(1, 3) {
		require = 1000
	}
	if rng.Chance(1, 6) {
		require = allow
	}
	net := chainx.PoolNet(rng, allow, require)
	w := poolrig.NewWorld(r, rng, name, net)
	g := &poolrig.Gen{W: w, Rng: rng}
	tip := 0
	for i := 0; i < 2+rng.Intn(3); i++ {
		tip = w.GrowRandom(tip, rng.Intn(3))
	}
	w.Refresh()
	kinds := map[string]bool{}
	for i := 0; i < steps && !w.Panicked; i++ {
		k := g.Step()
		if k != "skip" {
			kinds[k] = true
			w.Stats[k]++
		}
	}
	if !w.Panicked {
		g.Lookups(true)
		g.Aliasing()
	}
	var tags []string
	for k := range kinds {
		tags = append(tags, "step:"+k)
	}
	nontrivial := w.Stats["add1:err"]+w.Stats["add2:err"] > 0 && w.Stats["add1:ok"]+w.Stats["add2:ok"] > 0
	w.Finish(nontrivial, tags...)
}

// nearLimitSet: the pool weighs about 17M of the 20M at which it is considered full; one set of three
// new transactions crosses that line before its last member.  All or nothing: the call succeeds, so
// every member must be pooled - the eviction at the next query takes the transactions with the
// lowest fee rates, and the set's members have the highest.
func nearLimitSet(r *vh.Run, rng *vh.RNG, name string, v2 bool) {
	w := poolrig.NewWorld(r, rng, name, chainx.PoolNet(rng, 1, 1000))
	g := &poolrig.Gen{W: w, Rng: rng}
	tip := 0
	for i := 0; i < 14; i++ {
		tip = w.GrowRandom(tip, 0)
	}
	w.Refresh()
	cs := w.Node.CM.TipState()
	free := w.FreeCoins()
	if len(free) < 13 {
		w.Finish(false, "near-limit-skipped")
		return
	}
	for k := 0; k < 9; k++ {
		size := 1_880_000 + rng.Intn(40_000)
		fee := types.Siacoins(uint32(2 + k))
		if v2 {
			g.AddV2(w.TipID(), []types.V2Transaction{w.SpendV2(cs, free[k:k+1], 1, fee, size)}, nil, "fresh", -1, false)
		} else {
			g.AddV1([]types.Transaction{w.SpendV1(cs, free[k:k+1], 1, fee, size)}, nil, "fresh", -1, false)
		}
	}
	// 9 x 1.9M = 17.1M; + 1.5M = 18.6M; + 1.5M = 20.1M (the line is crossed by the second member)
	res := ""
	if v2 {
		set := []types.V2Transaction{
			w.SpendV2(cs, free[9:10], 1, types.Siacoins(50), 1_500_000),
			w.SpendV2(cs, free[10:11], 1, types.Siacoins(51), 1_500_000),
			w.SpendV2(cs, free[11:12], 1, types.Siacoins(1), 0),
			w.SpendV2(cs, free[12:13], 1, types.Siacoins(2), 0),
		}
		res = g.AddV2(w.TipID(), set, nil, "crossing-the-pool-limit", -1, false)
	} else {
		set := []types.Transaction{
			w.SpendV1(cs, free[9:10], 1, types.Siacoins(50), 1_500_000),
			w.SpendV1(cs, free[10:11], 1, types.Siacoins(51), 1_500_000),
			w.SpendV1(cs, free[11:12], 1, types.Siacoins(1), 0),
			w.SpendV1(cs, free[12:13], 1, types.Siacoins(2), 0),
		}
		res = g.AddV1(set, nil, "crossing-the-pool-limit", -1, false)
	}
	g.Lookups(false)
	w.Refresh()
	w.Finish(res == "ok", "near-limit-set", fmt.Sprintf("near-limit-set-v2:%v", v2))
}

// mixedFullPool: a full pool holding BOTH kinds.  The v2 slice starts with a two-transaction set paying
// the best fee rate, the v1 slice with the two cheapest transactions; heavy transactions of both kinds
// follow until the 20M line is crossed.  The eviction must take the cheapest transactions - wherever
// they sit in their own slice - and nothing else: the best-fee set stays complete and can be looked up.
func mixedFullPool(r *vh.Run, rng *vh.RNG, name string) {
	w := poolrig.NewWorld(r, rng, name, chainx.PoolNet(rng, 1, 1000))
	g := &poolrig.Gen{W: w, Rng: rng}
	g.Track = poolrig.NewTracker(w)
	tip := 0
	for i := 0; i < 16; i++ {
		tip = w.GrowRandom(tip, 0)
	}
	w.Refresh()
	cs := w.Node.CM.TipState()
	free := w.FreeCoins()
	if len(free) < 15 {
		w.Finish(false, "mixed-full-skipped")
		return
	}
	var all1 []types.Transaction
	var all2 []types.V2Transaction
	// the best-fee v2 set (positions 0 and 1 of the v2 slice)
	best := []types.V2Transaction{
		w.SpendV2(cs, free[0:1], 1, types.Siacoins(90), 600_000),
		w.SpendV2(cs, free[1:2], 1, types.Siacoins(91), 600_000),
	}
	g.AddV2(w.TipID(), best, nil, "fresh", -1, false)
	all2 = append(all2, best...)
	// the two cheapest transactions (positions 0 and 1 of the v1 slice)
	for k := 0; k < 2; k++ {
		t := w.SpendV1(cs, free[2+k:3+k], 1, types.Siacoins(uint32(1+k)), 1_900_000)
		g.AddV1([]types.Transaction{t}, nil, "fresh", -1, false)
		all1 = append(all1, t)
	}
	// heavy transactions of both kinds, fees scrambled, until the pool is full
	order := rng.Perm(9)
	total := uint64(0)
	for k := 0; k < 9 && !w.Panicked; k++ {
		fee := types.Siacoins(uint32(10 + order[k]))
		size := 1_850_000 + rng.Intn(60_000)
		// the submission that crosses the line may itself be among the cheapest and go at once
		g.Track.PoolFull = total+uint64(size) >= 10*cs.MaxBlockWeight()
		if k%2 == 0 {
			t := w.SpendV2(cs, free[4+k:5+k], 1, fee, size)
			g.AddV2(w.TipID(), []types.V2Transaction{t}, nil, "fresh", -1, false)
			all2 = append(all2, t)
		} else {
			t := w.SpendV1(cs, free[4+k:5+k], 1, fee, size)
			g.AddV1([]types.Transaction{t}, nil, "fresh", -1, false)
			all1 = append(all1, t)
		}
		total = 0
		for _, t := range all1 {
			total += cs.TransactionWeight(t)
		}
		for _, t := range all2 {
			total += cs.V2TransactionWeight(t)
		}
		if total >= 10*cs.MaxBlockWeight() {
			break
		}
	}
	g.Track.PoolFull = false
	w.Refresh()
	g.CheckEviction(all1, all2, "mixed full pool")
	// the best-fee set is complete and can be looked up
	pool := w.PoolIDs()
	for _, t := range best {
		if !pool[t.ID()] {
			w.C.Oracle("best-fee-set-member-evicted", "a member of the accepted v2 set paying the highest fee rate is no longer pooled after the eviction")
		}
		w.Get2(t.ID(), "v2")
		w.Get1(t.ID(), "v2")
	}
	for _, t := range all1 {
		w.Get1(t.ID(), "v1")
	}
	g.Aliasing()
	w.Finish(w.Stats["evicted"] > 0, "mixed-full-pool")
}

// revertedIntoEmpty: the pool's v1 slice is EMPTY when a reorg reverts a tip block that carries a
// fee-paying v1 transaction T which is still valid on the new branch.  T is re-offered by the lazy
// re-validation; the FIRST pool call after the reorg is the lookup of T by id, which must agree with
// the listing taken right afterwards.
func revertedIntoEmpty(r *vh.Run, rng *vh.RNG, name string, v2PoolEmpty bool) {
	w := poolrig.NewWorld(r, rng, name, chainx.PoolNet(rng, 1, 1000))
	g := &poolrig.Gen{W: w, Rng: rng}
	tip := 0
	for i := 0; i < 4; i++ {
		tip = w.GrowRandom(tip, 0)
	}
	w.Refresh()
	cs := w.Node.CM.TipState()
	free := w.FreeCoins()
	if len(free) < 3 {
		w.Finish(false, "reverted-into-empty-skipped")
		return
	}
	if !v2PoolEmpty {
		g.AddV2(w.TipID(), []types.V2Transaction{w.SpendV2(cs, free[2:3], 1, poolrig.Fee(9), 0)}, nil, "fresh", -1, false)
	}
	t1 := w.SpendV1(cs, free[0:1], 1, poolrig.Fee(21), 0)
	t2 := w.SpendV2(cs, free[1:2], 1, poolrig.Fee(22), 0)
	x, err := w.Tree.MineWith(rng, tip, []types.Transaction{t1}, []types.V2Transaction{t2}, 1)
	if err != nil {
		w.C.Oracle("generator-block-invalid", "X: %v", err)
		w.Finish(false, "reverted-into-empty-skipped")
		return
	}
	w.Submit(x)
	w.Refresh()
	empty := len(w.LastV1) == 0
	// the heavier branch without them
	y := tip
	for i := 0; i < 2; i++ {
		y = w.GrowRandom(y, 0)
	}
	reorged := w.TipID() == y
	// first pool call: the lookup of the reverted block's v1 transaction
	found1 := w.Get1(t1.ID(), "v1")
	w.Refresh()
	in1 := false
	for _, t := range w.LastV1 {
		if t.ID() == t1.ID() {
			in1 = true
		}
	}
	if found1 != in1 {
		w.C.Oracle("pooltransaction-first-call-after-tip-change-disagrees-with-pool", "PoolTransaction(id of the reverted tip's v1 transaction) as the first pool call after the reorg reported found=%v, the pool listed right afterwards has it: %v (the v1 slice was empty before the reorg: %v)", found1, in1, empty)
	}
	if reorged && !in1 {
		w.C.Oracle("reverted-transaction-not-reoffered", "the fee-paying v1 transaction of the reverted tip, still valid on the new branch, is not pooled after the reorg")
	}
	w.Get2(t2.ID(), "v2")
	w.Get2(t1.ID(), "v1")
	g.Lookups(true)
	w.Finish(reorged && empty, "reverted-into-empty", fmt.Sprintf("reverted-into-empty-v2-pool-empty:%v", v2PoolEmpty))
}

func Run(r *vh.Run) {
	r.Rule = "a case = one real chain.Manager on a growing fork tree (v2 allow height in {1,2,4}, require height allow+0..9 or never) driven by 40-80 generated steps: fresh v1/v2 sets (independent, parent/child, spending pooled outputs), partly and wholly known sets, sets conflicting with the pool at a random position k of n<=4, sets invalid at position k (bad signature / double spend inside the set / missing output), stale and unknown bases, lookups through both APIs (v1, v2, former, unknown ids), aliasing probes, blocks confirming pool prefixes, fork blocks and reorgs; plus reverted-into-empty cases: a reorg reverts a tip carrying a fee-paying v1 (and v2) transaction into a pool whose v1 slice is empty, and the first pool call is the lookup of that transaction by id; plus mixed full-pool cases: a pool of both kinds filled to the 20M eviction line - the v2 slice starts with a two-transaction set paying the best fee rate, the v1 slice with the two cheapest transactions - after which only the cheapest transactions may be gone and the best-fee set is looked up; plus near-limit cases: nine 1.9M-weight transactions (17M of the 20M pool limit), then ONE set of four new transactions that crosses the limit at its second member (the set has the highest fee rates, so the eviction at the next query spares it): every member must be pooled; v1 / v2. non-trivial = at least one accepted and one rejected submission; distinct = distinct op lists"
	rng := vh.NewRNG(r.Seed).Fork() // seeds are consecutive stream positions of splitmix64; fork to decorrelate them
	n := r.Pick(250, 1500)
	for i := 0; i < n; i++ {
		crng := rng.Fork()
		runCase(r, crng, fmt.Sprintf("c%d", i), r.Pick(50, 90))
	}
	for i := 0; i < r.Pick(2, 6); i++ {
		revertedIntoEmpty(r, rng.Fork(), fmt.Sprintf("e%d", i), i%2 == 0)
	}
	for i := 0; i < r.Pick(1, 4); i++ {
		mixedFullPool(r, rng.Fork(), fmt.Sprintf("m%d", i))
	}
	for i := 0; i < r.Pick(2, 6); i++ {
		nearLimitSet(r, rng.Fork(), fmt.Sprintf("n%d", i), i%2 == 1)
	}
	r.Assume("signatures, values and maturity are consensus parameters: a transaction carries the harness's knowledge of whether it corrupted it (ok) and the signature era it was signed in")
	r.Assume("Merkle proof verification is core's: per-input verdicts against the claimed basis are passed to the model as flags; proof values are compared with the shadow ledger by the oracle only")
	r.Assume("sequential use of the Manager (every exported method holds m.mu for its whole body)")
}
