package netx

import (
	"fmt"
	"math/big"
	"sync"
	"time"

	"go.sia.tech/core/consensus"
	"go.sia.tech/core/types"
)

// UnknownParent is the model id used for a parent the registry has never seen.
const UnknownParent = 999999

// A RegBlk is one block (or bare header) as the Lean model sees it: a small id and the
// attributes go.sia.tech/core/consensus computes for it against the full state of its parent,
// which the registry only ever obtained from an independent linear replay (a scratch Chain).
type RegBlk struct {
	ID, Parent, Cid, Height int
	Work, Diff              *big.Int
	Pow, Hdr, Orphan, Body  bool
	V2, Future              bool
	Block                   types.Block
	HeaderOnly              bool
}

// Reg assigns model ids. Genesis is 0.
type Reg struct {
	mu        sync.Mutex
	Net       *Net
	blks      []*RegBlk
	byContent map[types.Hash256]int
	byHeader  map[types.BlockID]int   // header hash -> canonical id
	full      map[int]consensus.State // full state after a block whose whole ancestry is valid
	hdrState  map[int]consensus.State // header-level state (work, difficulty, timestamps) after any block with a known parent
	Lines     []string                // `blk …` declarations, in id order
}

func NewReg(nt *Net) *Reg {
	r := &Reg{Net: nt, byContent: map[types.Hash256]int{}, byHeader: map[types.BlockID]int{},
		full: map[int]consensus.State{}, hdrState: map[int]consensus.State{}}
	cm := nt.newManager()
	gs := cm.TipState()
	g := &RegBlk{ID: 0, Parent: 0, Cid: 0, Height: 0, Work: WorkOf(gs.TotalWork), Diff: WorkOf(gs.Difficulty),
		Pow: true, Hdr: true, Orphan: true, Body: true, Block: nt.Genesis}
	r.blks = append(r.blks, g)
	r.byContent[contentHash(nt.Genesis)] = 0
	r.byHeader[nt.Genesis.ID()] = 0
	r.full[0] = gs
	r.hdrState[0] = gs
	r.Lines = append(r.Lines, g.line())
	return r
}

func contentHash(b types.Block) types.Hash256 {
	h := types.NewHasher()
	types.V2Block(b).EncodeTo(h.E)
	return h.Sum()
}

func b2i(b bool) int {
	if b {
		return 1
	}
	return 0
}

func (b *RegBlk) line() string {
	return fmt.Sprintf("blk %d %d %d %d %s %s %d %d %d %d %d %d", b.ID, b.Parent, b.Cid, b.Height, b.Work, b.Diff,
		b2i(b.Pow), b2i(b.Hdr), b2i(b.Orphan), b2i(b.Body), b2i(b.V2), b2i(b.Future))
}

func (r *Reg) Get(id int) *RegBlk {
	r.mu.Lock()
	defer r.mu.Unlock()
	if id < 0 || id >= len(r.blks) {
		return nil
	}
	return r.blks[id]
}

func (r *Reg) Len() int {
	r.mu.Lock()
	defer r.mu.Unlock()
	return len(r.blks)
}

// IDOfHeader returns the canonical id of a header hash, or -1.
func (r *Reg) IDOfHeader(id types.BlockID) int {
	r.mu.Lock()
	defer r.mu.Unlock()
	if v, ok := r.byHeader[id]; ok {
		return v
	}
	return -1
}

// FullState returns the full state after block id (only for blocks whose ancestry is valid).
func (r *Reg) FullState(id int) (consensus.State, bool) {
	r.mu.Lock()
	defer r.mu.Unlock()
	cs, ok := r.full[id]
	return cs, ok
}

// EmptySupplement is the v1 supplement of a block whose v1 transactions have no inputs (the only
// kind the harness builds); above the require height it must be empty.
func EmptySupplement(ps consensus.State, b types.Block) consensus.V1BlockSupplement {
	if ps.Index.Height+1 >= ps.Network.HardforkV2.RequireHeight {
		return consensus.V1BlockSupplement{}
	}
	return consensus.V1BlockSupplement{Transactions: make([]consensus.V1TransactionSupplement, len(b.Transactions))}
}

// AddChain registers every block of a scratch chain (all valid by construction).
func (r *Reg) AddChain(c *Chain) []int {
	ids := make([]int, len(c.Blocks))
	for i, b := range c.Blocks {
		ids[i] = r.AddBlock(b)
	}
	return ids
}

// AddBlock registers a block (valid or not) and returns its model id. Blocks must be registered
// parents first. The harness never builds v1 blocks whose transactions have inputs, so the v1
// supplement is empty.
func (r *Reg) AddBlock(b types.Block) int {
	r.mu.Lock()
	defer r.mu.Unlock()
	ch := contentHash(b)
	if id, ok := r.byContent[ch]; ok {
		return id
	}
	id := len(r.blks)
	rb := &RegBlk{ID: id, Block: b, V2: b.V2 != nil, Cid: id}
	if c, ok := r.byHeader[b.ID()]; ok {
		rb.Cid = c
	} else {
		r.byHeader[b.ID()] = id
	}
	r.fill(rb, b.Header(), &b)
	r.blks = append(r.blks, rb)
	r.byContent[ch] = id
	r.Lines = append(r.Lines, rb.line())
	return id
}

// AddHeader registers a bare header (one that no registered block carries) and returns its id;
// for a header some registered block carries, that block's canonical id is returned.
func (r *Reg) AddHeader(h types.BlockHeader) int {
	r.mu.Lock()
	defer r.mu.Unlock()
	if c, ok := r.byHeader[h.ID()]; ok {
		return c
	}
	id := len(r.blks)
	rb := &RegBlk{ID: id, Cid: id, HeaderOnly: true}
	r.byHeader[h.ID()] = id
	r.fill(rb, h, nil)
	r.blks = append(r.blks, rb)
	r.Lines = append(r.Lines, rb.line())
	return id
}

func (r *Reg) fill(rb *RegBlk, h types.BlockHeader, b *types.Block) {
	p, ok := r.byHeader[h.ParentID]
	if !ok {
		rb.Parent = UnknownParent
		rb.Work, rb.Diff = big.NewInt(0), big.NewInt(0)
		return
	}
	rb.Parent = p
	rb.Height = r.blks[p].Height + 1
	ps, full := r.full[p]
	if !full {
		ps, ok = r.hdrState[p]
		if !ok {
			rb.Work, rb.Diff = r.blks[p].Work, r.blks[p].Diff
			return
		}
	}
	rb.Pow = h.ID().CmpWork(ps.PoWTarget()) >= 0
	rb.Hdr = consensus.ValidateHeader(ps, h) == nil
	rb.Future = h.Timestamp.After(ps.MaxFutureTimestamp(time.Now()))
	if b != nil {
		rb.Orphan = consensus.ValidateOrphan(ps, *b) == nil
		if full {
			rb.Body = func() (ok bool) {
				defer func() {
					if recover() != nil {
						ok = false
					}
				}()
				return consensus.ValidateBlock(ps, *b, EmptySupplement(ps, *b)) == nil
			}()
		}
	}
	// header-level state: total work and difficulty after this block (Oak height is 1 on the
	// test networks, so the ancestor timestamp the manager passes is the zero time above height 1)
	if rb.Hdr {
		var anc time.Time
		if ps.Index.Height <= r.Net.N.HardforkOak.Height {
			anc = r.Net.Genesis.Timestamp
		}
		hs := consensus.ApplyHeader(ps, h, anc)
		r.hdrState[rb.ID] = hs
		rb.Work, rb.Diff = WorkOf(hs.TotalWork), WorkOf(hs.Difficulty)
		if rb.Body && b != nil {
			cs, _ := consensus.ApplyBlock(ps, *b, EmptySupplement(ps, *b), anc)
			r.full[rb.ID] = cs
		}
	} else {
		rb.Work, rb.Diff = r.blks[p].Work, r.blks[p].Diff
	}
}

// CheckAgainst compares the registry's view of a valid scratch chain with the states the chain's
// own manager computed (self-test of the attribute computation); "" = consistent.
func (r *Reg) CheckAgainst(c *Chain) string {
	for i, b := range c.Blocks {
		id := r.IDOfHeader(b.ID())
		if id < 0 {
			return fmt.Sprintf("block %d not registered", i)
		}
		rb := r.Get(id)
		if !rb.Body || !rb.Orphan || !rb.Hdr || !rb.Pow {
			return fmt.Sprintf("valid block %d registered as invalid (%+v)", i, rb.line())
		}
		if rb.Work.Cmp(WorkOf(c.States[i].TotalWork)) != 0 || rb.Diff.Cmp(WorkOf(c.States[i].Difficulty)) != 0 {
			return fmt.Sprintf("block %d: registry work/diff %v/%v, manager %v/%v", i, rb.Work, rb.Diff, c.States[i].TotalWork, c.States[i].Difficulty)
		}
	}
	return ""
}
