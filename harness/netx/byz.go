package netx

import (
	"bytes"
	"encoding/binary"
	"errors"
	"fmt"
	"io"
	"net"
	"sync"
	"time"

	"go.sia.tech/core/consensus"
	"go.sia.tech/core/gateway"
	"go.sia.tech/core/types"
	"go.sia.tech/mux"
)

// RPC names (the 16-byte specifiers of core/gateway/encoding.go).
const (
	RPCShareNodes       = "ShareNodes"
	RPCDiscoverIP       = "DiscoverIP"
	RPCSendHeaders      = "SendHeaders"
	RPCSendV2Blocks     = "SendV2Blocks"
	RPCSendTransactions = "SendTransactions"
	RPCSendCheckpoint   = "SendCheckpoint"
	RPCRelayV2Header    = "RelayV2Header"
	RPCRelayV2Outline   = "RelayV2Outline"
	RPCRelayV2Txns      = "RelayV2Txns"
)

func specName(s types.Specifier) string { return string(bytes.TrimRight(s[:], "\x00")) }

// ---- wire encodings (mirrors of the unexported encode/decode methods of core/gateway) ----

func enc(fn func(e *types.Encoder)) []byte {
	var buf bytes.Buffer
	e := types.NewEncoder(&buf)
	fn(e)
	e.Flush()
	return buf.Bytes()
}

// EncHeaders is RPCSendHeaders.encodeResponse.
func EncHeaders(hs []types.BlockHeader, remaining uint64) []byte {
	return enc(func(e *types.Encoder) { types.EncodeSlice(e, hs); e.WriteUint64(remaining) })
}

// EncBlocks is RPCSendV2Blocks.encodeResponse.
func EncBlocks(bs []types.Block, remaining uint64) []byte {
	return enc(func(e *types.Encoder) { types.EncodeSliceCast[types.V2Block](e, bs); e.WriteUint64(remaining) })
}

// EncCheckpoint is RPCSendCheckpoint.encodeResponse.
func EncCheckpoint(b types.Block, cs consensus.State) []byte {
	return enc(func(e *types.Encoder) { types.V2Block(b).EncodeTo(e); cs.EncodeTo(e) })
}

// EncTransactions is RPCSendTransactions.encodeResponse.
func EncTransactions(txns []types.Transaction, v2 []types.V2Transaction) []byte {
	return enc(func(e *types.Encoder) { types.EncodeSlice(e, txns); types.EncodeSlice(e, v2) })
}

// EncPeers is RPCShareNodes.encodeResponse.
func EncPeers(peers []string) []byte {
	return enc(func(e *types.Encoder) { types.EncodeSliceFn(e, peers, (*types.Encoder).WriteString) })
}

// EncOutline is V2BlockOutline.encodeTo.
func EncOutline(ob gateway.V2BlockOutline) []byte {
	return enc(func(e *types.Encoder) {
		e.WriteUint64(ob.Height)
		ob.ParentID.EncodeTo(e)
		e.WriteUint64(ob.Nonce)
		e.WriteTime(ob.Timestamp)
		ob.MinerAddress.EncodeTo(e)
		var txns []types.Transaction
		var v2txns []types.V2Transaction
		var hashes []types.Hash256
		var kinds []uint8
		for _, ot := range ob.Transactions {
			switch {
			case ot.Transaction != nil:
				txns = append(txns, *ot.Transaction)
				kinds = append(kinds, 0)
			case ot.V2Transaction != nil:
				v2txns = append(v2txns, *ot.V2Transaction)
				kinds = append(kinds, 1)
			default:
				hashes = append(hashes, ot.Hash)
				kinds = append(kinds, 2)
			}
		}
		types.EncodeSlice(e, txns)
		types.V2TransactionsMultiproof(v2txns).EncodeTo(e)
		types.EncodeSlice(e, hashes)
		for i := range kinds {
			e.WriteUint8(kinds[i])
		}
	})
}

// EncTxnSet is RPCRelayV2TransactionSet.encodeRequest.
func EncTxnSet(index types.ChainIndex, txns []types.V2Transaction) []byte {
	return enc(func(e *types.Encoder) { index.EncodeTo(e); types.EncodeSlice(e, txns) })
}

func EncHeader(h types.BlockHeader) []byte { return enc(h.EncodeTo) }

// v1 (length-prefixed) objects of the handshake
func writeV1(w io.Writer, fn func(e *types.Encoder)) error {
	var buf bytes.Buffer
	e := types.NewEncoder(&buf)
	e.WriteUint64(0)
	fn(e)
	e.Flush()
	b := buf.Bytes()
	binary.LittleEndian.PutUint64(b, uint64(len(b)-8))
	_, err := w.Write(b)
	return err
}

func readV1(r io.Reader, maxLen int, fn func(d *types.Decoder)) error {
	d := types.NewDecoder(io.LimitedReader{R: r, N: int64(8 + maxLen)})
	d.ReadUint64()
	fn(d)
	return d.Err()
}

// A Request is one RPC the victim issued to the Byzantine peer, decoded.
type Request struct {
	RPC     string
	Index   types.ChainIndex // SendHeaders, SendCheckpoint, SendTransactions
	Max     uint64           // SendHeaders, SendV2Blocks
	History []types.BlockID  // SendV2Blocks
	Hashes  []types.Hash256  // SendTransactions
	Seq     int              // arrival number on this connection
}

// A Reply is what the Byzantine peer writes back: Raw bytes (may be garbage, truncated or empty)
// and then the stream is closed. Hold, if set, is waited for before answering (so that the
// harness can freeze the victim's sync loop at a request boundary).
type Reply struct {
	Raw  []byte
	Hold <-chan struct{}
	// HangUp: after the answer has been written (and the stream closed, which flushes it), close the
	// whole connection: a "hit and run" peer that is gone before its data is judged
	HangUp bool
}

// Byz is a scripted peer speaking the gateway protocol directly: gateway handshake written out
// by hand, then go.sia.tech/mux streams carrying raw bytes.
type Byz struct {
	Net       *Net
	UID       gateway.UniqueID
	LocalAddr string // our side of the TCP connection = the ConnAddr the victim bans
	conn      net.Conn
	mx        *mux.Mux

	Handler func(req *Request) Reply

	mu     sync.Mutex
	seq    int
	closed chan struct{}
	once   sync.Once
}

// DialByz connects to a syncer from localIP, completes the gateway handshake and starts serving.
func DialByz(nt *Net, victimAddr, localIP string, handler func(req *Request) Reply) (*Byz, error) {
	d := net.Dialer{Timeout: 5 * time.Second}
	if localIP != "" {
		d.LocalAddr = &net.TCPAddr{IP: net.ParseIP(localIP)}
	}
	conn, err := d.Dial("tcp", victimAddr)
	if err != nil {
		return nil, err
	}
	b := &Byz{Net: nt, UID: gateway.GenerateUniqueID(), conn: conn, Handler: handler, closed: make(chan struct{}),
		LocalAddr: conn.LocalAddr().String()}
	conn.SetDeadline(time.Now().Add(10 * time.Second))
	if err := b.handshake(); err != nil {
		conn.Close()
		return nil, err
	}
	conn.SetDeadline(time.Time{})
	go b.serve()
	return b, nil
}

// handshake is gateway.Dial written out (transport.go:159-181).
func (b *Byz) handshake() error {
	var peerVersion string
	if err := writeV1(b.conn, func(e *types.Encoder) { e.WriteString("2.0.0") }); err != nil {
		return err
	} else if err := readV1(b.conn, 128, func(d *types.Decoder) { peerVersion = d.ReadString() }); err != nil {
		return err
	}
	_ = peerVersion
	// writeHeader
	var accept string
	if err := writeV1(b.conn, func(e *types.Encoder) {
		b.Net.Genesis.ID().EncodeTo(e)
		e.Write(b.UID[:])
		e.WriteString(b.conn.LocalAddr().String())
	}); err != nil {
		return err
	} else if err := readV1(b.conn, 128, func(d *types.Decoder) { accept = d.ReadString() }); err != nil {
		return err
	} else if accept != "accept" {
		return fmt.Errorf("victim rejected our header: %q", accept)
	}
	// readHeader
	var gid types.BlockID
	var uid gateway.UniqueID
	var addr string
	if err := readV1(b.conn, 32+8+128, func(d *types.Decoder) { gid.DecodeFrom(d); d.Read(uid[:]); addr = d.ReadString() }); err != nil {
		return err
	}
	_ = addr
	if gid != b.Net.Genesis.ID() {
		return errors.New("victim has another genesis")
	}
	if err := writeV1(b.conn, func(e *types.Encoder) { e.WriteString("accept") }); err != nil {
		return err
	}
	m, err := mux.DialAnonymous(b.conn)
	if err != nil {
		return err
	}
	b.mx = m
	return nil
}

// SetHandler installs the handler after the connection exists (requests that arrive before are
// dropped; the victim only asks at its next sync tick).
func (b *Byz) SetHandler(h func(req *Request) Reply) {
	b.mu.Lock()
	b.Handler = h
	b.mu.Unlock()
}

// Closed is closed when the connection is gone (closed by the victim or by us).
func (b *Byz) Closed() <-chan struct{} { return b.closed }

func (b *Byz) IsClosed() bool {
	select {
	case <-b.closed:
		return true
	default:
		return false
	}
}

func (b *Byz) Close() {
	b.once.Do(func() { close(b.closed) })
	if b.mx != nil {
		b.mx.Close()
	}
	b.conn.Close()
}

func (b *Byz) serve() {
	for {
		s, err := b.mx.AcceptStream()
		if err != nil {
			b.once.Do(func() { close(b.closed) })
			return
		}
		go b.handle(s)
	}
}

func (b *Byz) handle(s *mux.Stream) {
	defer s.Close()
	s.SetDeadline(time.Now().Add(30 * time.Second))
	var id types.Specifier
	if _, err := io.ReadFull(s, id[:]); err != nil {
		return
	}
	req := &Request{RPC: specName(id)}
	d := types.NewDecoder(io.LimitedReader{R: s, N: 1 << 20})
	switch req.RPC {
	case RPCSendHeaders:
		req.Index.DecodeFrom(d)
		req.Max = d.ReadUint64()
	case RPCSendV2Blocks:
		types.DecodeSlice(d, &req.History)
		req.Max = d.ReadUint64()
	case RPCSendCheckpoint:
		req.Index.DecodeFrom(d)
	case RPCSendTransactions:
		req.Index.DecodeFrom(d)
		types.DecodeSlice(d, &req.Hashes)
	case RPCShareNodes, RPCDiscoverIP:
	default:
		// relays from the victim: read and drop
		io.Copy(io.Discard, io.LimitReader(s, 1<<22))
		return
	}
	if d.Err() != nil {
		return
	}
	b.mu.Lock()
	req.Seq = b.seq
	b.seq++
	b.mu.Unlock()
	var h func(req *Request) Reply
	for i := 0; i < 200; i++ { // a handler installed with SetHandler may be a moment late
		b.mu.Lock()
		h = b.Handler
		b.mu.Unlock()
		if h != nil || b.IsClosed() {
			break
		}
		time.Sleep(10 * time.Millisecond)
	}
	if h == nil {
		return
	}
	rep := h(req)
	if rep.Hold != nil {
		select {
		case <-rep.Hold:
		case <-b.closed:
			return
		}
	}
	if len(rep.Raw) > 0 {
		s.Write(rep.Raw)
	}
	if rep.HangUp {
		s.Close()
		time.Sleep(60 * time.Millisecond)
		b.Close()
	}
}

// Call issues an RPC to the victim (a relay): it writes the id and the request bytes and then
// waits until the victim closes the stream, i.e. until its handler has returned — at which point
// every effect of the handler (resync flag, AddBlocks) has happened. done=false: the stream was
// not closed within the deadline. connClosed=true: not just the stream but the whole connection
// went away (the victim dropped or banned us; ban() closes the connection *before* it calls the
// peer store, so the caller must give the Ban call a moment to land).
func (b *Byz) Call(rpc string, reqBytes []byte, truncated bool, d time.Duration) (done, connClosed bool) {
	s := b.mx.DialStream()
	defer s.Close()
	s.SetDeadline(time.Now().Add(d))
	id := types.NewSpecifier(rpc)
	if _, err := s.Write(append(id[:], reqBytes...)); err != nil {
		return true, true
	}
	if truncated {
		// a request that is deliberately incomplete: the victim's handler would wait for the rest
		// until its RPC timeout (5 min by default), so close the stream and give the handler a moment
		s.Close()
		time.Sleep(300 * time.Millisecond)
		return true, b.IsClosed()
	}
	buf := make([]byte, 256)
	for {
		_, err := s.Read(buf)
		if err != nil {
			if errors.Is(err, io.EOF) {
				return true, false
			}
			var ne net.Error
			if errors.As(err, &ne) && ne.Timeout() {
				return false, b.IsClosed()
			}
			// anything else: the connection is gone
			WaitFor(time.Second, b.IsClosed)
			return true, true
		}
	}
}

// ---- an honest responder over a manager view, used as the default behaviour ----

// View is what the Byzantine peer pretends to hold: a best chain (served like a real node
// serves it) plus any extra blocks by id.
type View struct {
	Net    *Net
	Blocks []types.Block     // best chain above genesis, oldest first
	States []consensus.State // state after Blocks[i] as the peer will claim it (full states)
	Gen    consensus.State
}

// ViewOf builds the honest view of a scratch chain.
func ViewOf(c *Chain) *View {
	gs, _ := c.CM.State(c.Net.Genesis.ID())
	return &View{Net: c.Net, Blocks: append([]types.Block(nil), c.Blocks...), States: append([]consensus.State(nil), c.States...), Gen: gs}
}

// heightOf returns the height of the block with this id on the view's best chain (0 = genesis), or -1.
func (v *View) heightOf(id types.BlockID) int {
	if id == v.Net.Genesis.ID() {
		return 0
	}
	for i, b := range v.Blocks {
		if b.ID() == id {
			return i + 1
		}
	}
	return -1
}

// Headers mirrors Manager.Headers (manager.go:189-209): ok=false means "not on our best chain".
func (v *View) Headers(index types.ChainIndex, max uint64) (hs []types.BlockHeader, remaining uint64, ok bool) {
	h := v.heightOf(index.ID)
	if h < 0 || uint64(h) != index.Height {
		return nil, 0, false
	}
	n := uint64(len(v.Blocks) - h)
	if max < n {
		n = max
	}
	for i := uint64(0); i < n; i++ {
		hs = append(hs, v.Blocks[h+int(i)].Header())
	}
	return hs, uint64(len(v.Blocks)-h) - n, true
}

// BlocksFor mirrors Manager.BlocksForHistory (manager.go:216-241).
func (v *View) BlocksFor(history []types.BlockID, max uint64) (bs []types.Block, remaining uint64) {
	attach := 0
	for _, id := range history {
		if h := v.heightOf(id); h >= 0 {
			attach = h
			break
		}
	}
	n := uint64(len(v.Blocks) - attach)
	if max < n {
		n = max
	}
	bs = append(bs, v.Blocks[attach:attach+int(n)]...)
	return bs, uint64(len(v.Blocks)-attach) - n
}

// Checkpoint mirrors the SendCheckpoint handler (peer.go:337-351).
func (v *View) Checkpoint(index types.ChainIndex) (b types.Block, cs consensus.State, ok bool) {
	h := v.heightOf(index.ID)
	if h < 0 {
		return types.Block{}, consensus.State{}, false
	}
	if h == 0 {
		return types.Block{}, consensus.State{}, false // genesis has no parent state
	}
	b = v.Blocks[h-1]
	if h == 1 {
		return b, v.Gen, true
	}
	return b, v.States[h-2], true
}

// RawStream opens a stream and abandons it: mode 0 = close without writing, 1 = write half an
// RPC id then close, 2 = write a full id of a request-carrying RPC and nothing else, then close.
func (b *Byz) RawStream(mode int) {
	s := b.mx.DialStream()
	switch mode {
	case 1:
		s.Write([]byte("SendHea"))
	case 2:
		id := types.NewSpecifier(RPCSendHeaders)
		s.Write(id[:])
	}
	s.Close()
}

// ByzListener accepts gateway connections (a node that *dials* the Byzantine peer, e.g.
// syncer.RetrieveCheckpoint) and serves every one of them with the same handler.
type ByzListener struct {
	Net     *Net
	L       net.Listener
	Handler func(req *Request) Reply
	mu      sync.Mutex
	conns   []*Byz
}

// ListenByz starts a Byzantine peer that waits for connections on ip:0.
func ListenByz(nt *Net, ip string, handler func(req *Request) Reply) (*ByzListener, error) {
	l, err := net.Listen("tcp", ip+":0")
	if err != nil {
		return nil, err
	}
	bl := &ByzListener{Net: nt, L: l, Handler: handler}
	go func() {
		for {
			conn, err := l.Accept()
			if err != nil {
				return
			}
			go func() {
				b := &Byz{Net: nt, UID: gateway.GenerateUniqueID(), conn: conn, Handler: handler, closed: make(chan struct{}),
					LocalAddr: conn.LocalAddr().String()}
				conn.SetDeadline(time.Now().Add(10 * time.Second))
				if err := b.acceptHandshake(l.Addr().String()); err != nil {
					conn.Close()
					return
				}
				conn.SetDeadline(time.Time{})
				bl.mu.Lock()
				bl.conns = append(bl.conns, b)
				bl.mu.Unlock()
				b.serve()
			}()
		}
	}()
	return bl, nil
}

func (bl *ByzListener) Addr() string { return bl.L.Addr().String() }

func (bl *ByzListener) Close() {
	bl.L.Close()
	bl.mu.Lock()
	defer bl.mu.Unlock()
	for _, b := range bl.conns {
		b.Close()
	}
}

// acceptHandshake is gateway.Accept written out (transport.go:184-206).
func (b *Byz) acceptHandshake(ourAddr string) error {
	var peerVersion string
	if err := readV1(b.conn, 128, func(d *types.Decoder) { peerVersion = d.ReadString() }); err != nil {
		return err
	} else if err := writeV1(b.conn, func(e *types.Encoder) { e.WriteString("2.0.0") }); err != nil {
		return err
	}
	_ = peerVersion
	// readHeader
	var gid types.BlockID
	var uid gateway.UniqueID
	var addr string
	if err := readV1(b.conn, 32+8+128, func(d *types.Decoder) { gid.DecodeFrom(d); d.Read(uid[:]); addr = d.ReadString() }); err != nil {
		return err
	}
	_ = addr
	if gid != b.Net.Genesis.ID() {
		return errors.New("peer has another genesis")
	}
	if err := writeV1(b.conn, func(e *types.Encoder) { e.WriteString("accept") }); err != nil {
		return err
	}
	// writeHeader
	var accept string
	if err := writeV1(b.conn, func(e *types.Encoder) {
		b.Net.Genesis.ID().EncodeTo(e)
		e.Write(b.UID[:])
		e.WriteString(ourAddr)
	}); err != nil {
		return err
	} else if err := readV1(b.conn, 128, func(d *types.Decoder) { accept = d.ReadString() }); err != nil {
		return err
	} else if accept != "accept" {
		return fmt.Errorf("peer rejected our header: %q", accept)
	}
	m, err := mux.AcceptAnonymous(b.conn)
	if err != nil {
		return err
	}
	b.mx = m
	return nil
}
