// Package netx is the network rig shared by the syncer checks (C11, C12): test networks with
// small v2 hardfork heights, scratch chains mined with controlled timestamps, real
// syncer.Syncer nodes on loopback, a registry that maps real blocks to the small ids and
// consensus-computed attributes of the Lean model (lean/Verif/Model/Sync.lean), and a scripted
// Byzantine peer that speaks the gateway wire protocol directly over go.sia.tech/mux.
package netx

import (
	"errors"
	"fmt"
	"os"
	"verifharness/chainx"
	"verifharness/minex"

	"go.uber.org/zap"
	"math/big"
	"net"
	"sync"
	"time"

	"go.sia.tech/core/consensus"
	"go.sia.tech/core/gateway"
	"go.sia.tech/core/types"
	"go.sia.tech/coreutils/chain"
	"go.sia.tech/coreutils/syncer"
	"go.sia.tech/coreutils/testutil"
)

// A Net is a consensus network derived from testutil.Network with small v2 heights.
type Net struct {
	N       *consensus.Network
	Genesis types.Block
}

// NewNet derives a network from testutil.Network: v2 allow/require heights as given (final cut
// = require+4) and the initial target given by its two leading bytes (0xFF,0x00 = every hash
// passes, difficulty 1; 0x00,0x40 = difficulty 1024, so that a fifth of the difficulty is not 0).
func NewNet(allow, require uint64, t0, t1 byte) *Net {
	n, genesis := testutil.Network()
	n.InitialTarget = types.BlockID{t0, t1}
	n.HardforkV2.AllowHeight = allow
	n.HardforkV2.RequireHeight = require
	n.HardforkV2.FinalCutHeight = require + 4
	return &Net{N: n, Genesis: genesis}
}

func (nt *Net) newManager() *chain.Manager {
	store, tipState, err := chain.NewDBStore(chain.NewMemDB(), nt.N, nt.Genesis, nil)
	if err != nil {
		panic(err)
	}
	return chain.NewManager(store, tipState)
}

// A Chain is a scratch node holding one linear chain; every block it holds has been fully
// validated and applied by its own manager (the independent linear replay of DESIGN §4/H1).
type Chain struct {
	Net    *Net
	CM     *chain.Manager
	Blocks []types.Block     // above genesis, oldest first
	States []consensus.State // full state after Blocks[i]
}

func (nt *Net) NewChain() *Chain { return &Chain{Net: nt, CM: nt.newManager()} }

// Fork returns a new scratch chain holding the first k blocks of c.
func (c *Chain) Fork(k int) *Chain {
	f := c.Net.NewChain()
	for i := 0; i < k; i++ {
		if err := f.CM.AddBlocks([]types.Block{c.Blocks[i]}); err != nil {
			panic(fmt.Sprintf("netx: replay of a valid block failed: %v", err))
		}
	}
	f.Blocks = append(f.Blocks, c.Blocks[:k]...)
	f.States = append(f.States, c.States[:k]...)
	return f
}

// ChainFrom returns a scratch chain holding the given valid blocks (oldest first, above genesis).
func (nt *Net) ChainFrom(blocks []types.Block) *Chain {
	f := nt.NewChain()
	for _, b := range blocks {
		if err := f.CM.AddBlocks([]types.Block{b}); err != nil {
			panic(fmt.Sprintf("netx: replay of a valid block failed: %v", err))
		}
		f.Blocks = append(f.Blocks, b)
		f.States = append(f.States, f.CM.TipState())
	}
	return f
}

func (c *Chain) Len() int { return len(c.Blocks) }

func (c *Chain) Tip() types.ChainIndex { return c.CM.Tip() }

// MineOpts controls one mined block.
type MineOpts struct {
	Dt   time.Duration                            // timestamp = parent timestamp + Dt (default 1s = on schedule)
	Addr types.Address                            // miner address (distinguishes sibling blocks)
	V1   bool                                     // between allow and require height: build a v1 block
	Mut  func(b *types.Block, cs consensus.State) // edits before the nonce search (may make the block invalid)
}

// Build constructs and mines (finds a nonce for) a child of the chain's tip without adding it.
func (c *Chain) Build(o MineOpts) types.Block {
	cs := c.CM.TipState()
	return c.Net.BuildOn(cs, o)
}

// BuildOn constructs and mines a child of the block whose full state is cs.
func (nt *Net) BuildOn(cs consensus.State, o MineOpts) types.Block {
	dt := o.Dt
	if dt == 0 {
		dt = time.Second
	}
	b := types.Block{
		ParentID:     cs.Index.ID,
		Timestamp:    cs.PrevTimestamps[0].Add(dt),
		MinerPayouts: []types.SiacoinOutput{{Value: cs.BlockReward(), Address: o.Addr}},
	}
	h := cs.Index.Height + 1
	if h >= nt.N.HardforkV2.RequireHeight || (h >= nt.N.HardforkV2.AllowHeight && !o.V1) {
		b.V2 = &types.V2BlockData{Height: h}
		b.V2.Commitment = cs.Commitment(o.Addr, nil, nil)
	}
	if o.Mut != nil {
		o.Mut(&b, cs)
	}
	minex.FindNonce(cs, &b) // not bounded by the wall clock (a loaded machine is not a failure)
	return b
}

// Mine builds a valid child of the tip and adds it.
func (c *Chain) Mine(o MineOpts) types.Block {
	b := c.Build(o)
	if err := c.CM.AddBlocks([]types.Block{b}); err != nil {
		panic(fmt.Sprintf("netx: mined block rejected: %v", err))
	}
	if c.CM.Tip().ID != b.ID() {
		panic("netx: mined block did not become the tip")
	}
	c.Blocks = append(c.Blocks, b)
	c.States = append(c.States, c.CM.TipState())
	return b
}

// MineN mines n valid blocks; addr seeds the miner addresses.
func (c *Chain) MineN(n int, dt time.Duration, seed byte) {
	for i := 0; i < n; i++ {
		c.Mine(MineOpts{Dt: dt, Addr: types.Address{seed, byte(len(c.Blocks)), byte(len(c.Blocks) >> 8)}})
	}
}

// StateBefore returns the full state a block at position i (0-based, above genesis) was built on.
func (c *Chain) StateBefore(i int) consensus.State {
	if i == 0 {
		cs, _ := c.CM.State(c.Net.Genesis.ID())
		return cs
	}
	return c.States[i-1]
}

// WorkOf converts a consensus.Work to a big integer.
func WorkOf(w consensus.Work) *big.Int {
	z, _ := new(big.Int).SetString(w.String(), 10)
	return z
}

// Heavier is consensus.State.SufficientlyHeavierThan on (work, difficulty) pairs.
func Heavier(cw, tw, td *big.Int) bool {
	x := new(big.Int).Div(td, big.NewInt(5))
	x.Add(x, tw)
	return cw.Cmp(x) > 0
}

// A BanCall is one PeerStore.Ban invocation.
type BanCall struct {
	Addr   string
	Reason string
	Failed bool // the store answered this call with an (injected) error
}

// RecStore is a syncer.PeerStore that records Ban calls (and otherwise behaves like
// testutil.EphemeralPeerStore: nothing is actually refused, so that every case sees the same
// connection behaviour).
//
// Like a store that drops the connections it still has into a banned address or subnet, it consults
// the syncer (Syncer.Peers) from inside Ban. PeerStore is a caller-supplied interface: the syncer
// must not call it with its own lock held. The callback is waited for BanCallbackWait; if it has
// not returned by then, Ban returns anyway (so that the node, and the harness, go on) and the fact
// is kept for the oracle peer-store-called-with-lock-held.
type RecStore struct {
	*testutil.EphemeralPeerStore
	mu    sync.Mutex
	bans  []BanCall
	cb    func()
	stuck string
	busy  int // Ban calls waiting for their callback
	fail  func(addr string, nth int) bool
}

// FailBans installs an injected failure: Ban calls for which fail(addr, n) holds (n = number of
// the call, from 1) are recorded and then answered with an error, like a store whose database is
// unavailable or that does not accept CIDR entries. A failing store is the node's own trouble: the
// syncer must neither stall nor crash.
func (r *RecStore) FailBans(fail func(addr string, nth int) bool) {
	r.mu.Lock()
	r.fail = fail
	r.mu.Unlock()
}

// ErrBanFailed is the injected failure of RecStore.Ban.
var ErrBanFailed = errors.New("netx: injected peer store failure")

// BanCallbackWait bounds the wait for the store's call back into the syncer.
const BanCallbackWait = 6 * time.Second

func NewRecStore() *RecStore { return &RecStore{EphemeralPeerStore: testutil.NewEphemeralPeerStore()} }

func (r *RecStore) Ban(addr string, d time.Duration, reason string) error {
	r.mu.Lock()
	failed := r.fail != nil && r.fail(addr, len(r.bans)+1)
	r.bans = append(r.bans, BanCall{addr, reason, failed})
	cb := r.cb
	if failed {
		r.mu.Unlock()
		return ErrBanFailed
	}
	if cb != nil {
		r.busy++
	}
	r.mu.Unlock()
	if cb != nil {
		defer func() {
			r.mu.Lock()
			r.busy--
			r.mu.Unlock()
		}()
		done := make(chan struct{})
		go func() { cb(); close(done) }()
		select {
		case <-done:
		case <-time.After(BanCallbackWait):
			r.mu.Lock()
			r.stuck = fmt.Sprintf("PeerStore.Ban(%q, %q) called Syncer.Peers() and got no answer within %v: the syncer calls the peer store with its own lock held", addr, reason, BanCallbackWait)
			r.mu.Unlock()
		}
	}
	return nil
}

// WaitIdle waits (bounded) until no Ban call is waiting for its callback any more.
func (r *RecStore) WaitIdle() {
	WaitFor(BanCallbackWait+2*time.Second, func() bool {
		r.mu.Lock()
		defer r.mu.Unlock()
		return r.busy == 0
	})
}

// Stuck returns a description of the first Ban call whose call back into the syncer did not
// return in time, or "".
func (r *RecStore) Stuck() string {
	r.mu.Lock()
	defer r.mu.Unlock()
	return r.stuck
}

func (r *RecStore) Bans() []BanCall {
	r.mu.Lock()
	defer r.mu.Unlock()
	return append([]BanCall(nil), r.bans...)
}

// BannedAddr reports whether Ban was called with exactly this connection address.
func (r *RecStore) BannedAddr(addr string) bool {
	for _, b := range r.Bans() {
		if b.Addr == addr {
			return true
		}
	}
	return false
}

// A Node is a real chain.Manager over MemDB with a real, running syncer.Syncer on loopback.
type Node struct {
	Net   *Net
	CM    *chain.Manager
	S     *syncer.Syncer
	Store *RecStore
	L     net.Listener
	done  chan error
}

// NewNode starts a node listening on ip:0 (any 127/8 address works on Linux).
func (nt *Net) NewNode(ip string, opts ...syncer.Option) *Node {
	return nt.NewNodeWith(nt.newManager(), ip, opts...)
}

// NewNodeWith starts a node around an existing manager (e.g. one bootstrapped from a checkpoint).
func (nt *Net) NewNodeWith(cm *chain.Manager, ip string, opts ...syncer.Option) *Node {
	l, err := net.Listen("tcp", ip+":0")
	if err != nil {
		panic(err)
	}
	st := NewRecStore()
	base := []syncer.Option{
		syncer.WithSyncInterval(100 * time.Millisecond),
		syncer.WithPeerDiscoveryInterval(time.Hour),
		syncer.WithSendBlocksTimeout(8 * time.Second),
		syncer.WithSendBlockTimeout(8 * time.Second),
		syncer.WithSendTransactionsTimeout(4 * time.Second),
		syncer.WithRelayHeaderTimeout(4 * time.Second),
		syncer.WithRelayBlockOutlineTimeout(4 * time.Second),
		syncer.WithRelayTransactionSetTimeout(4 * time.Second),
	}
	if os.Getenv("VERIF_LOG") != "" {
		cfg := zap.NewDevelopmentConfig()
		cfg.OutputPaths = []string{"stdout"}
		lg, _ := cfg.Build()
		base = append(base, syncer.WithLogger(lg.Named(l.Addr().String())))
	}
	s := syncer.New(l, cm, st, gateway.Header{
		GenesisID:  nt.Genesis.ID(),
		UniqueID:   gateway.GenerateUniqueID(),
		NetAddress: l.Addr().String(),
	}, append(base, opts...)...)
	st.mu.Lock()
	st.cb = func() { s.Peers() }
	st.mu.Unlock()
	n := &Node{Net: nt, CM: cm, S: s, Store: st, L: l, done: make(chan error, 1)}
	go func() { n.done <- s.Run() }()
	return n
}

// NewOldStoreNode starts a node whose store was written by the previous release: the blocks are
// loaded into a manager over a fresh MemDB, the store is flushed, the records of its v2 blocks
// above the require height are rewritten into the previous record layout (chainx.RewriteBlocksV2:
// what such a database looks like after the migration has run) and the node is opened on that
// database the way a restarted daemon opens it. It returns the number of old-layout records.
func (nt *Net) NewOldStoreNode(blocks []types.Block, ip string, opts ...syncer.Option) (*Node, int, error) {
	db := chain.NewMemDB()
	store, tipState, err := chain.NewDBStore(db, nt.N, nt.Genesis, nil)
	if err != nil {
		return nil, 0, err
	}
	cm := chain.NewManager(store, tipState)
	for _, b := range blocks {
		if err := cm.AddBlocks([]types.Block{b}); err != nil {
			return nil, 0, fmt.Errorf("loading a valid block failed: %w", err)
		}
	}
	if err := store.Flush(); err != nil {
		return nil, 0, err
	}
	k, err := chainx.RewriteBlocksV2(db, nt.N.HardforkV2.RequireHeight)
	if err != nil {
		return nil, k, err
	}
	store, tipState, err = chain.NewDBStore(db, nt.N, nt.Genesis, nil)
	if err != nil {
		return nil, k, fmt.Errorf("reopening the store: %w", err)
	}
	return nt.NewNodeWith(chain.NewManager(store, tipState), ip, opts...), k, nil
}

// NewFlushFaultNode starts a node whose manager runs over a chainx.ProbeStore on a chainx.FaultDB
// (chainx.NewProbedNode): probe.FailNextFlush() makes the next Store.Flush that has something to
// write fail once — the one fallible call of the store, made at the end of a reorg.
func (nt *Net) NewFlushFaultNode(ip string, opts ...syncer.Option) (*Node, *chainx.ProbeStore) {
	pn := (&chainx.Net{N: nt.N, Genesis: nt.Genesis}).NewProbedNode()
	return nt.NewNodeWith(pn.CM, ip, opts...), pn.Probe
}

func (n *Node) Addr() string { return n.L.Addr().String() }

// Load feeds blocks directly into the node's manager.
func (n *Node) Load(blocks []types.Block) {
	for _, b := range blocks {
		if err := n.CM.AddBlocks([]types.Block{b}); err != nil {
			panic(fmt.Sprintf("netx: loading a valid block failed: %v", err))
		}
	}
}

// Close stops the syncer and waits (bounded, 15 s) for Close and Run to return; it reports whether they did.
func (n *Node) Close() bool {
	// Syncer.Close waits for every goroutine of its thread group: it must not be able to hang the
	// harness, a shutdown that does not finish is an observation ("node not alive")
	closed := make(chan struct{})
	go func() { n.S.Close(); close(closed) }()
	deadline := time.After(15 * time.Second)
	select {
	case <-closed:
	case <-deadline:
		return false
	}
	select {
	case <-n.done:
		return true
	case <-deadline:
		return false
	}
}

// BestChain returns the node's best chain above genesis, oldest first.
func (n *Node) BestChain() []types.Block {
	tip := n.CM.Tip()
	out := make([]types.Block, 0, tip.Height)
	for h := uint64(1); h <= tip.Height; h++ {
		idx, ok := n.CM.BestIndex(h)
		if !ok {
			return nil
		}
		b, ok := n.CM.Block(idx.ID)
		if !ok {
			return nil
		}
		out = append(out, b)
	}
	return out
}

// Audit replays the node's best chain block by block on a fresh manager that only ever sees
// that chain (consensus.ValidateBlock through Manager.AddBlocks of an independent instance) and
// checks that it ends on the same tip. "" = fine.
func (n *Node) Audit() string {
	tip := n.CM.Tip()
	blocks := n.BestChain()
	if blocks == nil {
		return fmt.Sprintf("best chain of tip %v cannot be read back", tip)
	}
	twin := n.Net.newManager()
	for i, b := range blocks {
		if err := twin.AddBlocks([]types.Block{b}); err != nil {
			return fmt.Sprintf("block %d (%v) of the best chain is invalid on an independent replay: %v", i+1, b.ID(), err)
		}
		if twin.Tip().ID != b.ID() {
			return fmt.Sprintf("independent replay did not adopt block %d (%v)", i+1, b.ID())
		}
	}
	if twin.Tip() != tip {
		return fmt.Sprintf("replay tip %v differs from node tip %v", twin.Tip(), tip)
	}
	if twin.TipState().TotalWork.Cmp(n.CM.TipState().TotalWork) != 0 {
		return "replay total work differs from the node's"
	}
	return ""
}

// WaitFor polls cond every 15ms until it holds or the deadline passes.
func WaitFor(d time.Duration, cond func() bool) bool {
	end := time.Now().Add(d)
	for {
		if cond() {
			return true
		}
		if time.Now().After(end) {
			return false
		}
		time.Sleep(15 * time.Millisecond)
	}
}

// WorkTrace records a node's total work at every reorg notification. Its OnReorg listener reads the
// tip state back from the manager, as wallets and indexers do from theirs: the manager must not
// notify its listeners with its own lock held. The read is waited for ListenerWait; after that the
// listener returns (so that the node, and the harness, go on) and the fact is kept for the oracle
// listener-called-with-lock-held.
type WorkTrace struct {
	mu    sync.Mutex
	works []*big.Int
	stuck string
}

// ListenerWait bounds the wait of the reorg listener for the manager's answer.
const ListenerWait = 6 * time.Second

func TraceWork(n *Node) *WorkTrace {
	w := &WorkTrace{works: []*big.Int{WorkOf(n.CM.TipState().TotalWork)}}
	n.CM.OnReorg(func(idx types.ChainIndex) {
		got := make(chan *big.Int, 1)
		go func() { got <- WorkOf(n.CM.TipState().TotalWork) }()
		select {
		case tw := <-got:
			w.mu.Lock()
			w.works = append(w.works, tw)
			w.mu.Unlock()
		case <-time.After(ListenerWait):
			w.mu.Lock()
			if w.stuck == "" {
				w.stuck = fmt.Sprintf("the OnReorg listener (tip %v) called Manager.TipState() and got no answer within %v: the manager notifies its listeners with its own lock held", idx, ListenerWait)
			}
			w.mu.Unlock()
		}
	})
	return w
}

// Decreasing returns a description of the first decrease of the recorded total work, or "".
func (w *WorkTrace) Decreasing() string {
	w.mu.Lock()
	defer w.mu.Unlock()
	for i := 1; i < len(w.works); i++ {
		if w.works[i].Cmp(w.works[i-1]) < 0 {
			return fmt.Sprintf("total work went from %v to %v", w.works[i-1], w.works[i])
		}
	}
	return ""
}

// Stuck returns a description of the first notification during which the manager did not
// answer, or "".
func (w *WorkTrace) Stuck() string {
	w.mu.Lock()
	defer w.mu.Unlock()
	return w.stuck
}
