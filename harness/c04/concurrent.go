package c04

import (
	"fmt"
	"sync"
	"sync/atomic"

	"go.sia.tech/core/types"
	"verifharness/c01"
	"verifharness/c02"
	"verifharness/chainx"
	"verifharness/vh"
)

// runConcurrent: pollers call UpdatesSince while another goroutine submits the schedule. Each
// answer is validated on its own (contiguous from the poller's index, at most max updates, reverts
// before applies); after the submitter is done every poller catches up and its shadow ledger must
// equal the linear twin's at the final tip. Oracle only: the schedule is the runtime's.
func runConcurrent(r *vh.Run, rng *vh.RNG, name string, t *chainx.Tree, sched [][]int) {
	nd := t.Net.MustNode()
	c := &vh.Case{Name: name, Tags: []string{"concurrent"}}
	var mu sync.Mutex
	fail := func(class, format string, a ...any) {
		mu.Lock()
		defer mu.Unlock()
		c.Oracle(class, format, a...)
	}
	var done atomic.Bool
	var polls, reverting atomic.Int64
	chunks := []int{1, 2, 3, 7, 1000}
	type poller struct {
		led   *chainx.Ledger
		idx   types.ChainIndex
		chunk int
		dead  bool
	}
	ps := make([]*poller, 3)
	for i := range ps {
		ps[i] = &poller{led: chainx.NewLedger(), chunk: chunks[rng.Intn(len(chunks))]}
	}
	step := func(p *poller) bool {
		rus, aus, err := nd.CM.UpdatesSince(p.idx, p.chunk)
		polls.Add(1)
		if err != nil {
			fail("updatessince-error-concurrent", "poller at %s: %v", idxStr(t, p.idx), err)
			p.dead = true
			return false
		}
		if len(rus)+len(aus) > p.chunk {
			fail("updatessince-exceeds-max", "asked for %d, got %d (concurrent)", p.chunk, len(rus)+len(aus))
		}
		cur := p.idx
		for _, ru := range rus {
			if ru.Block.ID() != cur.ID {
				fail("revert-not-contiguous", "concurrent: revert of %v while at %v", ru.Block.ID(), cur)
			}
			cur = ru.State.Index
			p.led.Revert(ru)
		}
		if len(rus) > 0 {
			reverting.Add(1)
		}
		for _, au := range aus {
			if cur != (types.ChainIndex{}) && au.Block.ParentID != cur.ID {
				fail("apply-not-contiguous", "concurrent: apply of a child of %v while at %v", au.Block.ParentID, cur)
			}
			cur = au.State.Index
			p.led.Apply(au)
		}
		p.idx = cur
		return len(rus)+len(aus) > 0
	}
	var wg sync.WaitGroup
	for _, p := range ps {
		wg.Add(1)
		go func(p *poller) {
			defer wg.Done()
			defer func() {
				if rec := recover(); rec != nil {
					fail("updatessince-panic", "concurrent poller: %v", rec)
					p.dead = true
				}
			}()
			for !done.Load() && !p.dead {
				step(p)
			}
		}(p)
	}
	decls := c02.Declare(t, c02.NewIDs())
	tainted := false
	for _, batch := range sched {
		bt, _ := t.Lookup(nd.CM.Tip().ID)
		res := c01.Submit(nd, t.Get(batch))
		if res == "panic" {
			fail("submission-panic", "concurrent: AddBlocks(%v) panicked: %s", batch, c01.LastPanic)
			break
		}
		at, _ := t.Lookup(nd.CM.Tip().ID)
		failedTarget := -1
		if res == "reorg-failed" {
			failedTarget = batch[len(batch)-1]
		}
		for _, x := range t.Reverted(bt, at, failedTarget) {
			if d := decls[x]; d != nil && d.Unstable {
				tainted = true
			}
		}
	}
	done.Store(true)
	wg.Wait()
	tid, _ := t.Lookup(nd.CM.Tip().ID)
	var twinDigest, twinLoose string
	if t.AllValid(tid) {
		tl := chainx.LedgerOf(t.Twin(tid))
		twinDigest, twinLoose = tl.Digest(true), tl.DigestNoLeaf()
	}
	for i, p := range ps {
		for n := 0; !p.dead && p.idx != nd.CM.Tip() && n < 10000; n++ {
			if !step(p) {
				break
			}
		}
		if p.dead {
			continue
		}
		if p.idx != nd.CM.Tip() {
			fail("subscriber-never-reaches-tip", "concurrent poller %d stuck at %s", i, idxStr(t, p.idx))
			continue
		}
		if twinDigest != "" {
			if d := p.led.Digest(true); d != twinDigest {
				cls := "shadow-ledger-differs-from-linear-twin"
				if tainted && p.led.DigestNoLeaf() == twinLoose {
					cls = "exp-order-after-mid-list-revert"
				}
				fail(cls, "concurrent poller %d: %s", i, firstDiff(d, twinDigest))
			}
			if err := p.led.VerifyProofs(nd.CM.TipState()); err != nil {
				fail("shadow-ledger-proof-invalid", "concurrent poller %d: %v", i, err)
			}
		}
	}
	c.Op(fmt.Sprintf("concurrent %d batches", len(sched)), "ok")
	c.Nontrivial = reverting.Load() > 0
	c.Key = name
	c.Info = map[string]any{"polls": polls.Load(), "reverting_polls": reverting.Load()}
	r.Add(c)
}
