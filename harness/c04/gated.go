package c04

import (
	"fmt"
	"math/big"
	"sync"
	"sync/atomic"
	"time"

	"go.sia.tech/core/consensus"
	"go.sia.tech/core/types"
	"go.sia.tech/coreutils/chain"
	"verifharness/c01"
	"verifharness/chainx"
	"verifharness/vh"
)

// gateStore is the manager's store with one hook: while armed, every body read made by the
// manager wakes a waiting submitter and yields for a moment, so that a concurrent AddBlocks gets
// every chance to run BETWEEN two steps of one UpdatesSince call — which it can only use if the
// call gives up the manager's lock in between.
type gateStore struct {
	*chain.DBStore
	armed atomic.Bool
	reads atomic.Int64
	kick  chan struct{}
	once  sync.Once
}

func (g *gateStore) Block(id types.BlockID) (types.Block, *consensus.V1BlockSupplement, bool) {
	if g.armed.Load() {
		if g.reads.Add(1) == 3 {
			g.once.Do(func() { close(g.kick) })
		}
		time.Sleep(2 * time.Millisecond)
	}
	return g.DBStore.Block(id)
}

// runGated: one poll for "everything" from a subscriber at genesis while the node sits on chain A;
// a submitter waits until the poll is a few blocks in and then offers the heavier chain B whose
// fork point lies below what the poll has already walked. UpdatesSince holds the manager's lock
// for its whole duration, so the answer is a path to A's tip (the reorg happens after it) — never
// a mixture of both chains. Oracle only.
func runGated(r *vh.Run, rng *vh.RNG, name string, t *chainx.Tree) {
	// a pair of fully valid leaves: b sufficiently heavier than a, forking at least 3 below a
	var a, b, forkH = -1, -1, uint64(0)
	leaves := t.Leaves()
	for _, x := range leaves {
		for _, y := range leaves {
			if x == y || !t.AllValid(x) || !t.AllValid(y) || t.Blocks[x].Height < 6 {
				continue
			}
			th := new(big.Int).Add(t.Blocks[x].Work, new(big.Int).Div(t.Blocks[x].Diff, big.NewInt(5)))
			if t.Blocks[y].Work.Cmp(th) <= 0 {
				continue
			}
			py := t.PathFromRoot(y)
			k := 0
			for k < len(py) && onPathOf(t, x, py[k]) {
				k++
			}
			if uint64(k)+3 <= t.Blocks[x].Height && k >= 1 {
				a, b, forkH = x, y, uint64(k)
			}
		}
	}
	if a < 0 {
		return
	}
	store, tip, err := chain.NewDBStore(chain.NewMemDB(), t.Net.N, t.Net.Genesis, nil)
	if err != nil {
		return
	}
	gs := &gateStore{DBStore: store, kick: make(chan struct{})}
	cm := chain.NewManager(gs, tip)
	nd := &chainx.Node{Net: t.Net, Store: store, CM: cm}
	c := &vh.Case{Name: name, Tags: []string{"gated-poll-vs-reorg"}, Nontrivial: true, Key: name}
	if res := c01.Submit(nd, t.Get(t.PathFromRoot(a))); res != "ok" {
		return
	}
	tipA := cm.Tip()
	var wg sync.WaitGroup
	wg.Add(1)
	go func() {
		defer wg.Done()
		<-gs.kick
		c01.Submit(nd, t.Get(t.PathFromRoot(b)))
	}()
	gs.armed.Store(true)
	rus, aus, perr := cm.UpdatesSince(types.ChainIndex{}, 1000)
	gs.armed.Store(false)
	gs.once.Do(func() { close(gs.kick) })
	wg.Wait()
	if perr != nil {
		c.Oracle("updatessince-error", "gated poll from nothing: %v", perr)
	}
	if len(rus) != 0 {
		c.Oracle("revert-not-contiguous", "a poll from nothing returned %d revert(s) (first of block %v): the answer mixes two chains", len(rus), rus[0].Block.ID())
	}
	cur := types.ChainIndex{}
	for _, au := range aus {
		if cur != (types.ChainIndex{}) && au.Block.ParentID != cur.ID {
			c.Oracle("apply-not-contiguous", "gated poll: apply of a child of %v while at %v", au.Block.ParentID, cur)
			break
		}
		cur = au.State.Index
	}
	if perr == nil && len(rus) == 0 && cur != tipA && cur != cm.Tip() {
		c.Oracle("updatessince-ends-off-tip", "gated poll ended at %s, the tips were %s (during) and %s (after)", idxStr(t, cur), idxStr(t, tipA), idxStr(t, cm.Tip()))
	}
	c.Op(fmt.Sprintf("gated-poll a %d b %d fork-height %d", a, b, forkH), "ok")
	c.Info = map[string]any{"body_reads_in_poll": gs.reads.Load(), "applies": len(aus)}
	r.Add(c)
}

func onPathOf(t *chainx.Tree, leaf, x int) bool {
	for y := leaf; y != 0 && y != chainx.OrphanParent; y = t.Blocks[y].Parent {
		if y == x {
			return true
		}
	}
	return x == 0
}
