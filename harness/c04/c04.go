// Package c04: subscribers can always follow the chain through reorgs via the update stream.
//
// Subscribers with different chunk sizes poll UpdatesSince while fork trees are submitted; some
// lag so that they sit on reverted branches.  Every returned path is compared with the Lean
// model's updatesSince (T); each subscriber folds the carried element diffs into a shadow ledger
// which must equal the ledger of an independent linear twin at the tip, with verifying proofs (O).
package c04

import (
	"fmt"
	"strings"

	"go.sia.tech/core/types"
	"go.sia.tech/coreutils/chain"
	"verifharness/c01"
	"verifharness/c02"
	"verifharness/chainx"
	"verifharness/vh"
)

func init() { vh.Register("C04", Run) }

type sub struct {
	name  string
	chunk int
	led   *chainx.Ledger
	idx   types.ChainIndex // == led.Tip
	lazy  int              // polls only every lazy-th submission
	dead  bool
}

func idxStr(t *chainx.Tree, ci types.ChainIndex) string {
	if ci == (types.ChainIndex{}) {
		return "-"
	}
	i, ok := t.Lookup(ci.ID)
	if !ok {
		return "?"
	}
	return fmt.Sprint(i)
}

// poll performs one UpdatesSince call for s and checks the shape of the answer.
func poll(c *vh.Case, t *chainx.Tree, nd *chainx.Node, s *sub) (progress bool) {
	rus, aus, err := func() (rus []chain.RevertUpdate, aus []chain.ApplyUpdate, err error) {
		defer func() {
			if r := recover(); r != nil {
				err = fmt.Errorf("panic: %v", r)
			}
		}()
		return nd.CM.UpdatesSince(s.idx, s.chunk)
	}()
	op := fmt.Sprintf("updates %s %d", idxStr(t, s.idx), s.chunk)
	if err != nil {
		c.Op(op, "err")
		if strings.HasPrefix(err.Error(), "panic") {
			c.Oracle("updatessince-panic", "%s: %v", op, err)
		} else {
			c.Oracle("updatessince-error", "subscriber %s at %s (a block the manager stored and applied earlier) cannot be served: %v", s.name, idxStr(t, s.idx), err)
		}
		s.dead = true
		return false
	}
	var sb strings.Builder
	sb.WriteString("ok")
	cur := s.idx
	if len(rus)+len(aus) > s.chunk {
		c.Oracle("updatessince-exceeds-max", "%s returned %d updates", op, len(rus)+len(aus))
	}
	// a path that does not attach is reported and not folded into the shadow ledger (the ledger's own
	// bookkeeping assumes contiguity)
	bad := false
	defer func() {
		if r := recover(); r != nil {
			c.Oracle("updates-not-foldable", "%s: folding the returned updates into a subscriber's ledger panicked: %v", op, r)
			s.dead = true
			progress = false
		}
	}()
	for _, ru := range rus {
		fmt.Fprintf(&sb, " r%s", idxStr(t, types.ChainIndex{Height: ru.State.Index.Height + 1, ID: ru.Block.ID()}))
		if ru.Block.ID() != cur.ID {
			c.Oracle("revert-not-contiguous", "%s: revert of %v while the subscriber is at %v", op, ru.Block.ID(), cur)
			bad = true
			break
		}
		if ru.State.Index.ID != ru.Block.ParentID {
			c.Oracle("revert-state-not-parent", "%s", op)
		}
		cur = ru.State.Index
		s.led.Revert(ru)
	}
	for _, au := range aus {
		if bad {
			break
		}
		fmt.Fprintf(&sb, " a%s", idxStr(t, au.State.Index))
		if cur != (types.ChainIndex{}) && au.Block.ParentID != cur.ID {
			c.Oracle("apply-not-contiguous", "%s: apply of a block whose parent is %v while the subscriber is at %v", op, au.Block.ParentID, cur)
			bad = true
			break
		}
		if bi, ok := nd.CM.BestIndex(au.State.Index.Height); !ok || bi != au.State.Index {
			c.Oracle("apply-off-best-chain", "%s: applied %v is not on the best chain", op, au.State.Index)
		}
		cur = au.State.Index
		s.led.Apply(au)
	}
	c.Op(op, sb.String())
	if bad {
		s.dead = true
		return false
	}
	if len(rus)+len(aus) == 0 && s.idx != nd.CM.Tip() && s.chunk >= 1 {
		c.Oracle("updatessince-no-progress", "%s returned nothing although the subscriber is not at the tip %v", op, nd.CM.Tip())
		s.dead = true
		return false
	}
	s.idx = cur
	return len(rus)+len(aus) > 0
}

// atTip compares the subscriber's shadow ledger with the linear twin's.
func atTip(c *vh.Case, t *chainx.Tree, nd *chainx.Node, s *sub, twinDigest, twinLoose string, tainted bool) {
	if d := s.led.Digest(true); d != twinDigest {
		cls := "shadow-ledger-differs-from-linear-twin"
		// the known class explains different leaf indices / proofs only, never different elements
		if tainted && s.led.DigestNoLeaf() == twinLoose {
			cls = "exp-order-after-mid-list-revert"
		}
		c.Oracle(cls, "subscriber %s (chunk %d) at tip %s: ledger folded from the update stream differs from the ledger of a node that saw only the best chain:\n%s", s.name, s.chunk, idxStr(t, s.idx), firstDiff(d, twinDigest))
	}
	if err := s.led.VerifyProofs(nd.CM.TipState()); err != nil {
		c.Oracle("shadow-ledger-proof-invalid", "subscriber %s at tip %s: %v", s.name, idxStr(t, s.idx), err)
	}
}

func firstDiff(a, b string) string {
	la, lb := strings.Split(a, "\n"), strings.Split(b, "\n")
	for i := 0; i < len(la) && i < len(lb); i++ {
		if la[i] != lb[i] {
			return fmt.Sprintf("line %d: %q vs %q", i, la[i], lb[i])
		}
	}
	return fmt.Sprintf("lengths %d vs %d", len(la), len(lb))
}

// revertedBetween lists the blocks a move of the tip from a to b reverts.
func revertedBetween(t *chainx.Tree, a, b int) []int {
	anc := map[int]bool{0: true}
	for x := b; x != 0 && x != chainx.OrphanParent; x = t.Blocks[x].Parent {
		anc[x] = true
	}
	var out []int
	for x := a; !anc[x]; x = t.Blocks[x].Parent {
		out = append(out, x)
	}
	return out
}

func RunTree(r *vh.Run, rng *vh.RNG, name string, t *chainx.Tree, sched [][]int) {
	nd := t.Net.MustNode()
	flushFail := strings.HasSuffix(name, "/flushfail")
	if flushFail {
		// the store's Flush fails once during every other plain submission (Model/ChainFF.lean);
		// the batch is offered again afterwards; subscribers keep polling throughout
		nd = t.Net.NewProbedNode()
		var s2 [][]int
		for _, b := range sched {
			s2 = append(s2, b, b)
		}
		sched = s2
	}
	// C02's known class: once a block that removed a contract from the middle of an expiration
	// list has been reverted, the order of later expiry payouts (hence leaf indices) may differ
	// from a linear node's
	decls := c02.Declare(t, c02.NewIDs())
	tainted := false
	c := &vh.Case{Name: name, Model: "chain mgr"}
	for _, b := range t.Blocks[1:] {
		c.Op(b.DeclLine(), "ok")
	}
	chunks := []int{1, 2, 3, 7, 1000}
	var subs []*sub
	for i := 0; i < 4; i++ {
		subs = append(subs, &sub{name: fmt.Sprint("s", i), chunk: chunks[rng.Intn(len(chunks))], led: chainx.NewLedger(), lazy: 1 + rng.Intn(4)})
	}
	revertsSeen, polls := 0, 0
	catchUp := func(s *sub, maxPolls int) {
		for n := 0; !s.dead && s.idx != nd.CM.Tip() && n < maxPolls; n++ {
			before := s.idx
			poll(c, t, nd, s)
			polls++
			if bh, ah := before.Height, s.idx.Height; ah < bh {
				revertsSeen++
			}
		}
	}
	var twinDigest, twinLoose string
	var twinTip types.ChainIndex
	check := func(s *sub) {
		if s.dead || s.idx != nd.CM.Tip() {
			return
		}
		// a subscriber at the tip is told nothing
		if rus, aus, err := nd.CM.UpdatesSince(s.idx, s.chunk); err != nil || len(rus)+len(aus) != 0 {
			c.Oracle("updatessince-at-tip-returns-updates", "subscriber %s is at the tip %s and asks for %d updates: got %d reverts, %d applies, error %v", s.name, idxStr(t, s.idx), s.chunk, len(rus), len(aus), err)
			s.dead = true
			return
		}
		tid, _ := t.Lookup(nd.CM.Tip().ID)
		if !t.AllValid(tid) {
			return
		}
		if twinTip != nd.CM.Tip() {
			tl := chainx.LedgerOf(t.Twin(tid))
			twinDigest, twinLoose = tl.Digest(true), tl.DigestNoLeaf()
			twinTip = nd.CM.Tip()
		}
		atTip(c, t, nd, s, twinDigest, twinLoose, tainted)
	}
	for bi, batch := range sched {
		beforeTip, beforeN := nd.CM.Tip(), len(nd.Reorgs)
		var res string
		var sb strings.Builder
		// the syncer's pre-validated path, also with batches that overlap blocks already applied
		if c01.PreValidated(t, batch) && (len(batch)+bi)%2 == 0 {
			res = c01.SubmitV2(t, nd, batch, len(batch))
			fmt.Fprintf(&sb, "addv2 %d", len(batch))
			c.Tags = append(c.Tags, "addv2")
		} else {
			var ff bool
			res, ff = c01.SubmitFF(nd, t.Get(batch), flushFail && bi%4 == 0)
			if ff {
				sb.WriteString("addff")
				c.Tags = append(c.Tags, "flush-failed:"+res)
			} else {
				sb.WriteString("add")
			}
		}
		for _, id := range batch {
			fmt.Fprintf(&sb, " %d", id)
		}
		c.Op(sb.String(), c01.Observe(t, nd, res))
		if res == "panic" {
			c.Oracle("submission-panic", "submission of %v panicked: %s", batch, c01.LastPanic)
			break
		}
		if bt, ok := t.Lookup(beforeTip.ID); ok {
			at, _ := t.Lookup(nd.CM.Tip().ID)
			failedTarget := -1
			if res == "reorg-failed" || (flushFail && res == "rollback-failed") {
				failedTarget = batch[len(batch)-1]
			}
			for _, x := range t.Reverted(bt, at, failedTarget) {
				if d := decls[x]; d != nil && d.Unstable && !tainted {
					tainted = true
					c.KnownFrom, c.KnownClass = len(c.Ops)-1, "exp-order-after-mid-list-revert"
				}
			}
		}
		// reorg notifications are delivered whenever, and only when, the tip has changed
		switch moved, got := nd.CM.Tip() != beforeTip, len(nd.Reorgs)-beforeN; {
		case moved && got != 1:
			c.Oracle("reorg-not-notified", "tip changed %s -> %s but %d notification(s) were delivered", idxStr(t, beforeTip), idxStr(t, nd.CM.Tip()), got)
		case moved && nd.Reorgs[len(nd.Reorgs)-1] != nd.CM.Tip():
			c.Oracle("reorg-notified-wrong-tip", "notification carried %v, tip is %v", nd.Reorgs[len(nd.Reorgs)-1], nd.CM.Tip())
		case !moved && got != 0:
			c.Oracle("notified-without-tip-change", "%d notification(s) although the tip stayed at %s (result %s)", got, idxStr(t, beforeTip), res)
		}
		if strings.Contains(name, "/oldformat") && bi == len(sched)/2 {
			// the store was written by the previous release: its v2 blocks above the require height
			// are still in the previous record layout (migrateDB leaves them so); the node is reopened
			// on it and everything goes on — subscribers wherever they are
			if err := nd.Store.Flush(); err == nil {
				n, rerr := chainx.RewriteBlocksV2(nd.DB, t.Net.N.HardforkV2.RequireHeight)
				nd2, oerr := t.Net.NewNode(nd.DB)
				if rerr != nil || oerr != nil {
					c.Oracle("reopen-error", "rewriting %d records / reopening the store failed: %v %v", n, rerr, oerr)
				} else {
					before := c01.Observe(t, nd, "ok")
					nd2.Reorgs = nd.Reorgs
					nd = nd2
					if after := c01.Observe(t, nd, "ok"); after != before {
						c.Oracle("restart-changed-chain", "before: %s; after reopening on the old-format records: %s", before, after)
					}
					if n > 0 {
						c.Tags = append(c.Tags, "old-format-block-records")
					}
				}
			}
		}
		if strings.Contains(name, "/pruned") && bi == len(sched)/2 {
			// the operator prunes once every subscriber has processed the chain so far (PruneBlocks'
			// contract): all subscribers catch up, then every body below the tip's height + 1 goes;
			// later batches resubmit old (now pruned) blocks and grow the chain, and the
			// subscribers — sitting exactly at the last pruned height — must still be served
			for _, s := range subs {
				catchUp(s, 10000)
				check(s)
			}
			h := nd.CM.Tip().Height + 1
			if rng.Bool() && h > 1 {
				h-- // keep the tip's body
			}
			hadHdr, hadState := map[int]bool{}, map[int]bool{}
			for _, b := range t.Blocks {
				if b.Parent == chainx.OrphanParent {
					continue
				}
				_, hadHdr[b.ID] = nd.Store.Header(b.Block.ID())
				_, hadState[b.ID] = nd.CM.State(b.Block.ID())
			}
			func() {
				defer func() {
					if rec := recover(); rec != nil {
						c.Oracle("prune-panic", "PruneBlocks(%d) panicked: %v", h, rec)
					}
				}()
				nd.CM.PruneBlocks(h)
			}()
			c.Op(fmt.Sprintf("prune %d", h), c01.Observe(t, nd, "ok"))
			c.Tags = append(c.Tags, "pruned-under-subscribers")
			// pruning removes bodies only: every header and every state is still there
			for _, b := range t.Blocks {
				if b.Parent == chainx.OrphanParent {
					continue
				}
				_, hdr := nd.Store.Header(b.Block.ID())
				_, st := nd.CM.State(b.Block.ID())
				if (hadHdr[b.ID] && !hdr) || (hadState[b.ID] && !st) {
					c.Oracle("prune-lost-header-or-state", "block %d (height %d): header %v -> %v, state %v -> %v after PruneBlocks(%d)", b.ID, b.Height, hadHdr[b.ID], hdr, hadState[b.ID], st, h)
					break
				}
			}
		}
		for _, s := range subs {
			if bi%s.lazy != 0 {
				continue
			}
			// a lagging subscriber makes only partial progress sometimes (ends mid-path, also on a revert)
			if rng.Chance(1, 3) {
				catchUp(s, 1+rng.Intn(3))
			} else {
				catchUp(s, 10000)
			}
			check(s)
		}
	}
	for _, s := range subs {
		catchUp(s, 10000)
		if !s.dead && s.idx != nd.CM.Tip() {
			c.Oracle("subscriber-never-reaches-tip", "subscriber %s stuck at %s", s.name, idxStr(t, s.idx))
		}
		check(s)
	}
	// a late subscriber from nothing
	if !strings.Contains(name, "/pruned") {
		// (a node that has pruned its history cannot serve a subscriber from nothing: that is
		// PruneBlocks' documented contract, not a failure)
		late := &sub{name: "late", chunk: chunks[rng.Intn(len(chunks))], led: chainx.NewLedger()}
		catchUp(late, 10000)
		check(late)
	}
	if tainted {
		c.Tags = append(c.Tags, "history-class:exp-unstable-revert")
	}
	if t.Net.Volatile {
		c.Tags = append(c.Tags, "volatile-difficulty")
	}
	c.Nontrivial = revertsSeen > 0
	if revertsSeen > 0 {
		c.Tags = append(c.Tags, "subscriber-reverted")
	}
	c.Info = map[string]any{"polls": polls, "reverting_polls": revertsSeen}
	r.Add(c)
}

func Run(r *vh.Run) {
	r.Rule = "a case = one fork tree submitted in one schedule to a real Manager while 4 subscribers (chunk sizes from {1,2,3,7,1000}, different laziness, partial catch-ups that may end on a revert) and one late subscriber from nothing poll UpdatesSince; non-trivial = at least one poll made a subscriber walk back (a revert path was served); distinct = distinct op lists"
	rng := vh.NewRNG(r.Seed)
	trees := r.Pick(30, 400)
	for i := 0; i < trees; i++ {
		trng := rng.Fork()
		net := chainx.RandomNet(trng)
		t, gerr := chainx.SafeGenTree(trng, net, chainx.GenCfg{Main: 4 + trng.Intn(10), Forks: 1 + trng.Intn(3), MaxBranch: 3 + trng.Intn(8),
			Kinds: chainx.AllKinds(), TxPerBlk: 2, Corrupt: trng.Intn(2), Extend: 2})
		if gerr != nil {
			gc := &vh.Case{Name: fmt.Sprintf("tree%d/generator", i), Nontrivial: true}
			gc.Op("build-history", "panic")
			gc.Oracle("linear-node-panicked-while-building-history", "a node fed a linear chain of freshly mined blocks panicked or rejected a valid block: %v", gerr)
			r.Add(gc)
			continue
		}
		for s := 0; s < 2; s++ {
			RunTree(r, trng, fmt.Sprintf("tree%d/s%d", i, s), t, t.Schedule(trng))
		}
		if i%3 == 0 {
			runConcurrent(r, trng, fmt.Sprintf("tree%d/concurrent", i), t, t.Schedule(trng))
		}
		if i%3 == 1 {
			runListeners(r, trng, fmt.Sprintf("tree%d/listeners", i), t)
		}
		if i%3 == 2 {
			runListenerChurn(r, trng, fmt.Sprintf("tree%d/listener-churn", i), t)
		}
		runGated(r, trng, fmt.Sprintf("tree%d/gated-poll", i), t)
		// a store with block records in the previous layout (only matters once v2 blocks above the
		// require height exist)
		if i%2 == 1 && net.N.HardforkV2.RequireHeight < 20 {
			RunTree(r, trng, fmt.Sprintf("tree%d/oldformat", i), t, t.Schedule(trng))
		}
		// pruning under caught-up subscribers, old blocks offered again afterwards
		if i%2 == 0 {
			sched := t.Schedule(trng)
			leaves := t.Leaves()
			sched = append(sched, t.PathFromRoot(leaves[trng.Intn(len(leaves))]))
			RunTree(r, trng, fmt.Sprintf("tree%d/pruned", i), t, sched)
		}
		// a node that starts from a checkpoint instead of genesis
		runCheckpoint(r, trng, fmt.Sprintf("tree%d/checkpoint", i), t)
		// a store whose Flush fails in the middle of a submission
		if i%2 == 0 {
			RunTree(r, trng, fmt.Sprintf("tree%d/flushfail", i), t, t.Schedule(trng))
		}
		// a reorg to a SHORTER, heavier chain: subscribers sitting above the new tip's height
		if sh := t.ShorterHeavierSchedule(trng); sh != nil {
			RunTree(r, trng, fmt.Sprintf("tree%d/shorter-heavier", i), t, sh)
		}
	}
	// managers with a configured order of expiring contracts
	for i := 0; i < r.Pick(3, 30); i++ {
		runContractOrder(r, rng.Fork(), fmt.Sprintf("order%d", i))
	}
	r.Assume("Merkle proof values are checked by the oracle (core's accumulator) only; the model carries ids")
	r.Assume("concurrent polls are validated per answer (contiguity, bound) and by the final ledger; which interleavings occur is up to the Go scheduler")
}
