package c04

import (
	"fmt"

	"go.sia.tech/core/consensus"
	"go.sia.tech/core/types"
	"go.sia.tech/coreutils/chain"
	"verifharness/c01"
	"verifharness/chainx"
	"verifharness/vh"
)

// runCheckpoint: a node that starts from a CHECKPOINT (chain.NewDBStoreAtCheckpoint: a v2 block
// above the require height together with its parent's state, as instant sync does) instead of from
// genesis. The checkpoint block is then handed to AddBlocks again (peers resend it; a no-op), the
// rest of the chain follows, and subscribers that start AT the checkpoint must be led to the tip
// with every carried proof valid against the tip's accumulator. Oracle only (the model's chains
// start at genesis).
func runCheckpoint(r *vh.Run, rng *vh.RNG, name string, t *chainx.Tree) {
	best := 0
	for _, l := range t.Leaves() {
		if t.AllValid(l) && t.Blocks[l].Height > t.Blocks[best].Height {
			best = l
		}
	}
	path := t.PathFromRoot(best)
	// candidates: v2 blocks above the require height with at least two blocks after them
	var cands []int
	for k, id := range path {
		b := t.Blocks[id]
		if b.V2 && b.Height > t.Net.N.HardforkV2.RequireHeight && len(b.Block.Transactions) == 0 && k+2 < len(path) {
			cands = append(cands, k)
		}
	}
	if len(cands) == 0 {
		return
	}
	k := cands[rng.Intn(len(cands))]
	cp := t.Blocks[path[k]]
	parent := t.Blocks[cp.Parent]
	var ps consensus.State
	if parent.Full.Index.ID == parent.Block.ID() {
		ps = parent.Full
	} else {
		ps = t.Twin(parent.ID).CM.TipState()
	}
	c := &vh.Case{Name: name, Tags: []string{"checkpoint-start"}, Nontrivial: true, Key: name}
	store, tipState, err := chain.NewDBStoreAtCheckpoint(chain.NewMemDB(), ps, cp.Block, nil)
	if err != nil {
		c.Op("checkpoint", "err")
		c.Oracle("checkpoint-store-error", "NewDBStoreAtCheckpoint at block %d (height %d): %v", cp.ID, cp.Height, err)
		r.Add(c)
		return
	}
	cm := chain.NewManager(store, tipState)
	nd := &chainx.Node{Net: t.Net, Store: store, CM: cm}
	cm.OnReorg(func(ci types.ChainIndex) { nd.Reorgs = append(nd.Reorgs, ci) })
	c.Op(fmt.Sprintf("checkpoint %d", cp.ID), "ok")
	cpIndex := types.ChainIndex{Height: cp.Height, ID: cp.Block.ID()}
	if cm.Tip() != cpIndex {
		c.Oracle("checkpoint-tip-wrong", "node started at checkpoint %v reports tip %v", cpIndex, cm.Tip())
	}
	follow := func(when string) {
		for _, chunk := range []int{1, 3, 1000} {
			l := chainx.NewLedger()
			l.Tip = cpIndex
			var ferr error
			func() {
				defer func() {
					if rec := recover(); rec != nil {
						ferr = fmt.Errorf("panic: %v", rec)
					}
				}()
				ferr = l.Follow(cm, chunk)
			}()
			if ferr != nil {
				c.Oracle("checkpoint-subscriber-not-served", "%s: a subscriber starting at the checkpoint %v (chunk %d) cannot be led to the tip %v: %v", when, cpIndex, chunk, cm.Tip(), ferr)
				return
			}
			if err := l.VerifyProofs(cm.TipState()); err != nil {
				c.Oracle("checkpoint-subscriber-proof-invalid", "%s: subscriber from the checkpoint %v (chunk %d) at tip %v: %v", when, cpIndex, chunk, cm.Tip(), err)
				return
			}
		}
	}
	submit := func(ids []int) {
		before := cm.Tip()
		res := c01.Submit(nd, t.Get(ids))
		c.Op(fmt.Sprintf("add %v", ids), res)
		if res != "ok" {
			c.Oracle("checkpoint-submission-failed", "AddBlocks(%v) on a node started at checkpoint %d: %s (tip %v)", ids, cp.ID, res, before)
		}
	}
	// the checkpoint block again, alone and as the head of the next batch
	if rng.Bool() {
		submit([]int{cp.ID})
		follow("after the checkpoint block was offered again")
		submit(path[k+1 : k+2])
	} else {
		submit(path[k : k+2])
	}
	follow("one block above the checkpoint")
	for j := k + 2; j < len(path); {
		n := 1 + rng.Intn(3)
		if j+n > len(path) {
			n = len(path) - j
		}
		submit(path[j : j+n])
		j += n
	}
	want := types.ChainIndex{Height: t.Blocks[best].Height, ID: t.Blocks[best].Block.ID()}
	if cm.Tip() != want {
		c.Oracle("checkpoint-node-not-at-tip", "node started at checkpoint %d ends at %v, the chain's tip is %v", cp.ID, cm.Tip(), want)
	}
	follow("at the end")
	c.Info = map[string]any{"checkpoint_height": cp.Height, "blocks_after": len(path) - 1 - k}
	r.Add(c)
}
