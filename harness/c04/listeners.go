package c04

import (
	"fmt"
	"sort"

	"go.sia.tech/core/types"
	"verifharness/c01"
	"verifharness/chainx"
	"verifharness/vh"
)

// runListeners: several reorg listeners, one of which submits the next batch from inside its
// callback (AddBlocks releases the lock while notifying, so this is legal). Every listener must
// be told about every tip the chain had, each exactly once, with the tip of THAT change — also
// when a later change happens while the listeners of the earlier one are still being called.
// Oracle only.
func runListeners(r *vh.Run, rng *vh.RNG, name string, t *chainx.Tree) {
	leaves := t.Leaves()
	// the longest fully valid path
	best := 0
	for _, l := range leaves {
		if t.AllValid(l) && t.Blocks[l].Height > t.Blocks[best].Height {
			best = l
		}
	}
	path := t.PathFromRoot(best)
	if len(path) < 3 {
		return
	}
	var batches [][]int
	for k := 0; k < len(path); {
		n := 1 + rng.Intn(3)
		if k+n > len(path) {
			n = len(path) - k
		}
		batches = append(batches, path[k:k+n])
		k += n
	}
	nd := t.Net.MustNode()
	c := &vh.Case{Name: name, Tags: []string{"listeners-reentrant"}, Nontrivial: true, Key: name}
	var want []types.ChainIndex // tips after each tip-changing AddBlocks, in completion order
	next := 1
	nl := 3
	got := make([][]types.ChainIndex, nl)
	submit := func(b []int) {
		before := nd.CM.Tip()
		res := c01.Submit(nd, t.Get(b))
		if res != "ok" {
			c.Oracle("listener-scenario-submission-failed", "AddBlocks(%v) -> %s", b, res)
		}
		_ = before
	}
	reentrant := rng.Intn(nl)
	for i := 0; i < nl; i++ {
		i := i
		nd.CM.OnReorg(func(ci types.ChainIndex) {
			got[i] = append(got[i], ci)
			if i == reentrant && next < len(batches) {
				b := batches[next]
				next++
				submit(b) // a second tip change while the other listeners of this one are pending
			}
		})
	}
	for _, b := range batches {
		want = append(want, types.ChainIndex{Height: t.Blocks[b[len(b)-1]].Height, ID: t.Blocks[b[len(b)-1]].Block.ID()})
	}
	submit(batches[0])
	for next < len(batches) { // in case the chain of re-entrant submissions stopped
		b := batches[next]
		next++
		submit(b)
	}
	key := func(l []types.ChainIndex) string {
		s := make([]string, len(l))
		for i, ci := range l {
			s[i] = fmt.Sprintf("%d:%s", ci.Height, idxStr(t, ci))
		}
		sort.Strings(s)
		return fmt.Sprint(s)
	}
	for i := range got {
		if key(got[i]) != key(want) {
			c.Oracle("listener-notified-with-wrong-tip", "listener %d (re-entrant listener is %d) received tips %s, the chain's tips were %s", i, reentrant, key(got[i]), key(want))
		}
	}
	c.Op(fmt.Sprintf("listeners %d batches", len(batches)), "ok")
	c.Info = map[string]any{"batches": len(batches), "listeners": nl}
	r.Add(c)
}

// runListenerChurn: listeners come and go between submissions (cancel an EARLIER registration,
// then register a new one — not last-in-first-out). Every listener must be told exactly the tips
// of the changes that happened while it was registered; a cancelled one nothing more; a new one
// must not displace another (O). The set of listeners called at each tip change is compared with
// the Lean registry model (T; listener 0 is the node's own bookkeeping listener).
func runListenerChurn(r *vh.Run, rng *vh.RNG, name string, t *chainx.Tree) {
	best := 0
	for _, l := range t.Leaves() {
		if t.AllValid(l) && t.Blocks[l].Height > t.Blocks[best].Height {
			best = l
		}
	}
	path := t.PathFromRoot(best)
	if len(path) < 4 {
		return
	}
	nd := t.Net.MustNode()
	c := &vh.Case{Name: name, Model: "listeners reg", Tags: []string{"listeners-churn"}, Nontrivial: true}
	c.Op("reg 0", "ok")
	type lst struct {
		id     int
		got    []types.ChainIndex
		want   []types.ChainIndex
		cancel func()
		live   bool
	}
	var all []*lst
	var called []int
	register := func() *lst {
		l := &lst{id: len(all) + 1, live: true}
		l.cancel = nd.CM.OnReorg(func(ci types.ChainIndex) { l.got = append(l.got, ci); called = append(called, l.id) })
		all = append(all, l)
		c.Op(fmt.Sprintf("reg %d", l.id), "ok")
		return l
	}
	for i := 0; i < 2+rng.Intn(3); i++ {
		register()
	}
	steps := 0
	for k := 0; k < len(path); {
		n := 1 + rng.Intn(2)
		if k+n > len(path) {
			n = len(path) - k
		}
		before, beforeN := nd.CM.Tip(), len(nd.Reorgs)
		called = called[:0]
		if res := c01.Submit(nd, t.Get(path[k:k+n])); res != "ok" {
			c.Oracle("listener-scenario-submission-failed", "AddBlocks(%v) -> %s", path[k:k+n], res)
		}
		k += n
		if tip := nd.CM.Tip(); tip != before {
			for _, l := range all {
				if l.live {
					l.want = append(l.want, tip)
				}
			}
			ids := append([]int(nil), called...)
			if len(nd.Reorgs) > beforeN {
				ids = append(ids, 0)
			}
			sort.Ints(ids)
			out := "called"
			for _, id := range ids {
				out += fmt.Sprint(" ", id)
			}
			c.Op("tip", out)
		}
		// churn: cancel a live listener that is NOT the most recently registered one, then register
		// a new one (sometimes two)
		var live []*lst
		for _, l := range all {
			if l.live {
				live = append(live, l)
			}
		}
		if len(live) >= 2 && rng.Chance(2, 3) {
			v := live[rng.Intn(len(live)-1)]
			v.cancel()
			v.live = false
			c.Op(fmt.Sprintf("cancel %d", v.id), "ok")
			register()
			if rng.Chance(1, 3) {
				register()
			}
			steps++
		}
	}
	show := func(l []types.ChainIndex) string {
		s := make([]string, len(l))
		for i, ci := range l {
			s[i] = idxStr(t, ci)
		}
		return fmt.Sprint(s)
	}
	for _, l := range all {
		if show(l.got) != show(l.want) {
			c.Oracle("listener-churn-wrong-notifications", "listener %d (cancelled=%v) received tips %s, the tips that changed while it was registered were %s", l.id, !l.live, show(l.got), show(l.want))
		}
	}
	c.Info = map[string]any{"listeners": len(all), "churn_steps": steps}
	r.Add(c)
}
