package c04

import (
	"fmt"

	"go.sia.tech/core/types"
	"go.sia.tech/coreutils/chain"
	"verifharness/c01"
	"verifharness/chainx"
	"verifharness/vh"
)

// runContractOrder: a manager created with chain.WithExpiringContractOrder (the option that
// imposes, per block, an order on the v1 contracts expiring in it). For every block of a v1-only
// history in which two or more contracts expire, the configured order is the REVERSE of the store's
// natural one. The node then applies those blocks in the configured order, and what UpdatesSince
// hands to a subscriber must be what was applied: every carried proof verifies against the node's
// own tip accumulator. (The node's accumulator legitimately differs from a linear twin's in leaf
// positions, so nothing here is compared with the twin.) Oracle only.
func runContractOrder(r *vh.Run, rng *vh.RNG, name string) {
	net := chainx.NewNet(rng, 1000, 2000, 2) // v1 regime throughout: no commitment binds the leaf order
	kinds := append(append([]string{"v1pay"}, chainx.ContractKinds...), chainx.ContractKinds...)
	t, gerr := chainx.SafeGenTree(rng, net, chainx.GenCfg{Main: 14 + rng.Intn(8), Forks: 0, MaxBranch: 0, Kinds: kinds, TxPerBlk: 4, Corrupt: 0, Extend: 0})
	if gerr != nil {
		return
	}
	best := 0
	for _, l := range t.Leaves() {
		if t.AllValid(l) && t.Blocks[l].Height > t.Blocks[best].Height {
			best = l
		}
	}
	path := t.PathFromRoot(best)
	order := map[types.BlockID][]types.FileContractID{}
	multi := 0
	tw := t.Net.MustNode()
	for _, id := range path {
		b := t.Blocks[id]
		bs := tw.Store.SupplementTipBlock(b.Block)
		if n := len(bs.ExpiringFileContracts); n >= 2 {
			ids := make([]types.FileContractID, n)
			for i, fce := range bs.ExpiringFileContracts {
				ids[n-1-i] = fce.ID
			}
			order[b.Block.ID()] = ids
			multi++
		}
		if err := tw.CM.AddBlocks([]types.Block{b.Block}); err != nil {
			return
		}
	}
	c := &vh.Case{Name: name, Tags: []string{"expiring-contract-order-configured"}, Nontrivial: multi > 0, Key: name,
		Info: map[string]any{"blocks": len(path), "blocks_with_two_or_more_expiring_contracts": multi}}
	if multi == 0 {
		c.Tags = append(c.Tags, "no-block-with-two-expiring-contracts")
		c.Op("order 0", "ok")
		r.Add(c)
		return
	}
	store, tip, err := chain.NewDBStore(chain.NewMemDB(), t.Net.N, t.Net.Genesis, nil)
	if err != nil {
		return
	}
	cm := chain.NewManager(store, tip, chain.WithExpiringContractOrder(order))
	nd := &chainx.Node{Net: t.Net, Store: store, CM: cm}
	c.Op(fmt.Sprintf("order %d", multi), "ok")
	check := func(when string) bool {
		for _, chunk := range []int{1, 4, 1000} {
			l := chainx.NewLedger()
			var ferr error
			func() {
				defer func() {
					if rec := recover(); rec != nil {
						ferr = fmt.Errorf("panic: %v", rec)
					}
				}()
				ferr = l.Follow(cm, chunk)
			}()
			if ferr != nil {
				c.Oracle("configured-order-subscriber-not-served", "%s: a subscriber from nothing (chunk %d) on a manager with a configured expiring-contract order: %v", when, chunk, ferr)
				return false
			}
			if err := l.VerifyProofs(cm.TipState()); err != nil {
				c.Oracle("configured-order-proof-invalid", "%s: subscriber (chunk %d) at tip %v of a manager with a configured expiring-contract order: %v", when, chunk, cm.Tip(), err)
				return false
			}
		}
		return true
	}
	for k := 0; k < len(path); {
		n := 1 + rng.Intn(3)
		if k+n > len(path) {
			n = len(path) - k
		}
		res := c01.Submit(nd, t.Get(path[k:k+n]))
		c.Op(fmt.Sprintf("add %v", path[k:k+n]), res)
		if res != "ok" {
			c.Oracle("configured-order-submission-failed", "AddBlocks(%v) on a manager whose configured order is a permutation of the store's: %s", path[k:k+n], res)
			break
		}
		k += n
		if !check(fmt.Sprintf("after block %d", path[k-1])) {
			break
		}
	}
	r.Add(c)
}
