// Package c15: accounts and pools are a conserved ledger; service is paid before delivery.
//
// Drives the real rhp4.Server over the reference host (testutil) with a raw renter; recording
// wrappers around Contractor and Sectors log every credit, debit, read and store.  Every attempt
// is (T) replayed on the Lean model of the handlers and (O) checked against a ledger the harness
// keeps itself (credits = renter-signed transfers in the recorded revisions, debits = independently
// priced costs, own balance first then pools in attachment order).
package c15

import (
	"fmt"
	"math/big"
	"runtime"
	"sync"
	"time"

	proto4 "go.sia.tech/core/rhp/v4"
	"go.sia.tech/core/types"
	"verifharness/rhpx"
	"verifharness/vh"
)

func init() { vh.Register("C15", Run) }

const cid = 1

func cur(n uint64) types.Currency { return types.NewCurrency64(n) }

func bigOf(c types.Currency) *big.Int { return c.Big() }

// the harness's own price arithmetic (independent of core's RPC*Cost helpers)
func round4k(n uint64) uint64 { return (n + 4095) / 4096 * 4096 }

func readCost(p proto4.HostPrices, length uint64) types.Currency {
	return p.EgressPrice.Mul64(round4k(length))
}
func writeCost(p proto4.HostPrices, length uint64) types.Currency {
	return p.StoragePrice.Mul64(1 << 22).Mul64(432).Add(p.IngressPrice.Mul64(round4k(length)))
}
func verifyCost(p proto4.HostPrices) types.Currency { return p.EgressPrice.Mul64(1 << 22) }

// ledger: the harness's own account book
type ledger struct {
	acct     map[int]types.Currency
	pool     map[int]types.Currency
	poolSeen map[int]bool
	att      map[int][]int
}

func newLedger() *ledger {
	return &ledger{acct: map[int]types.Currency{}, pool: map[int]types.Currency{}, poolSeen: map[int]bool{}, att: map[int][]int{}}
}

func (l *ledger) drawable(a int) types.Currency {
	d := l.acct[a]
	for _, p := range l.att[a] {
		d = d.Add(l.pool[p])
	}
	return d
}

// debit applies the property's rule: own balance first, then pools in attachment order.
func (l *ledger) debit(a int, cost types.Currency) bool {
	if l.drawable(a).Cmp(cost) < 0 {
		return false
	}
	take := cost
	if l.acct[a].Cmp(take) < 0 {
		take = l.acct[a]
	}
	l.acct[a] = l.acct[a].Sub(take)
	rem := cost.Sub(take)
	for _, p := range l.att[a] {
		if rem.IsZero() {
			break
		}
		t := rem
		if l.pool[p].Cmp(t) < 0 {
			t = l.pool[p]
		}
		l.pool[p] = l.pool[p].Sub(t)
		rem = rem.Sub(t)
	}
	return true
}

type worker struct {
	id   int
	rig  *rhpx.Rig
	s    *rhpx.Sess
	out  chan<- *vh.Case
	next int // next fresh account id
}

func newWorker(id int) (*worker, error) {
	rig, err := rhpx.NewRig(rhpx.Key(rhpx.HostKeyID), rhpx.Key(rhpx.WalletKeyID))
	if err != nil {
		return nil, err
	}
	w := &worker{id: id, rig: rig, s: rhpx.NewSess(rig), next: 1000}
	c, err := rig.Form(rhpx.Key(rhpx.RenterKeyID), types.Siacoins(100000), types.Siacoins(200000), 400)
	if err != nil {
		return nil, err
	}
	w.s.AddContract(cid, c.ID)
	for i := 1; i <= 4; i++ {
		w.s.StoreSector(i)
	}
	return w, nil
}

func (w *worker) fresh(n int) []int {
	out := make([]int, n)
	for i := range out {
		out[i] = w.next
		w.next++
	}
	return out
}

// a case under construction
type kase struct {
	w     *worker
	c     *vh.Case
	led   *ledger
	accts []int
	pools []int
	// running totals for the conservation oracle
	credited, debited types.Currency
}

func (w *worker) begin(name string, accts, pools []int) *kase {
	c := &vh.Case{Name: fmt.Sprintf("w%d-%s", w.id, name), Model: w.s.CaseHeader()}
	for _, l := range w.s.AdoptLines(rhpx.Obs{Contracts: []int{cid}}) {
		c.Op(l, "ok")
	}
	for i := 1; i <= 4; i++ {
		c.Op(fmt.Sprintf("sector %d", i), "ok []")
	}
	w.rig.Rec.Take()
	return &kase{w: w, c: c, led: newLedger(), accts: accts, pools: pools}
}

func (k *kase) observe() {
	o, i := k.w.s.Observe(rhpx.Obs{Contracts: []int{cid}, Accounts: k.accts, Pools: k.pools})
	k.c.Op(o, i)
	// the ledger must agree with the host's balances
	for _, a := range k.accts {
		b, _ := k.w.rig.EC.AccountBalance(rhpx.Acct(a))
		if !b.Equals(k.led.acct[a]) {
			k.c.Oracle("ledger:account", "account %d: host balance %v, ledger %v", a, b.ExactString(), k.led.acct[a].ExactString())
			k.led.acct[a] = b
		}
	}
	if len(k.pools) > 0 {
		var keys []proto4.Account
		for _, p := range k.pools {
			keys = append(keys, rhpx.Acct(p))
		}
		bs, _ := k.w.rig.EC.PoolBalances(keys)
		for i, p := range k.pools {
			if !bs[i].Equals(k.led.pool[p]) {
				k.c.Oracle("ledger:pool", "pool %d: host balance %v, ledger %v", p, bs[i].ExactString(), k.led.pool[p].ExactString())
				k.led.pool[p] = bs[i]
			}
		}
	}
}

func (k *kase) total() types.Currency {
	var t types.Currency
	for _, a := range k.accts {
		b, _ := k.w.rig.EC.AccountBalance(rhpx.Acct(a))
		t = t.Add(b)
	}
	for _, p := range k.pools {
		bs, _ := k.w.rig.EC.PoolBalances([]proto4.Account{rhpx.Acct(p)})
		t = t.Add(bs[0])
	}
	return t
}

// creditOracle checks the calls recorded during a fund/replenish attempt: a credit must come with
// a renter-signed revision moving exactly the deposited total from renter to host.
func (k *kase) creditOracle(rpc string, before types.V2FileContract, calls []rhpx.Call, cls string) (credited []proto4.AccountDeposit, pool bool, ok bool) {
	for _, c := range calls {
		if c.Kind != "creditA" && c.Kind != "creditP" {
			continue
		}
		if c.Err != nil {
			continue
		}
		var total types.Currency
		for _, d := range c.Deposits {
			total = total.Add(d.Amount)
		}
		rev := c.Revision
		sigHash := k.w.rig.CM.TipState().ContractSigHash(rev)
		if !before.RenterPublicKey.VerifyHash(sigHash, rev.RenterSignature) {
			k.c.Oracle("credit-unsigned:"+rpc, "credit persisted with a revision the renter did not sign")
		}
		if before.RenterOutput.Value.Cmp(rev.RenterOutput.Value) < 0 || !before.RenterOutput.Value.Sub(rev.RenterOutput.Value).Equals(total) ||
			!rev.HostOutput.Value.Equals(before.HostOutput.Value.Add(total)) {
			k.c.Oracle("credit-unbacked:"+rpc, "credited %v but the revision moves %v -> %v (renter) / %v -> %v (host)", total.ExactString(),
				before.RenterOutput.Value.ExactString(), rev.RenterOutput.Value.ExactString(), before.HostOutput.Value.ExactString(), rev.HostOutput.Value.ExactString())
		}
		if rev.RevisionNumber <= before.RevisionNumber {
			k.c.Oracle("credit-stale-revision:"+rpc, "credit with revision number %d <= %d", rev.RevisionNumber, before.RevisionNumber)
		}
		if cls != "ok" && cls != "dropped" {
			k.c.Oracle("credit-on-failure:"+rpc, "%s answered %s but credited %v", rpc, cls, total.ExactString())
		}
		return c.Deposits, c.Kind == "creditP", true
	}
	return nil, false, false
}

func (k *kase) rev() types.V2FileContract {
	st, _ := k.w.rig.HostState(k.w.s.CID(cid))
	return st.Revision
}

// fund runs one RPCFundAccounts attempt and its oracle.
func (k *kase) fund(a rhpx.FundArgs) rhpx.Result {
	before, tot0 := k.rev(), k.total()
	a.Cid = cid
	// peek at the recorder through a wrapper: Fund() renders the events itself, so take a copy first
	res := k.fundRaw(a)
	k.afterCredit("fund", before, tot0, res)
	return res
}

// the session renders (and clears) recorded calls inside each op; to let the oracle see the raw
// calls the kase installs a tee on the recorder.
func (k *kase) fundRaw(a rhpx.FundArgs) rhpx.Result {
	k.w.rig.Rec.Tee(true)
	res := k.w.s.Fund(a)
	k.c.Op(res.Op, res.Impl)
	return res
}

func (k *kase) afterCredit(rpc string, before types.V2FileContract, tot0 types.Currency, res rhpx.Result) {
	calls := k.w.rig.Rec.TakeTee()
	deps, pool, credited := k.creditOracle(rpc, before, calls, res.Cls)
	tot1 := k.total()
	if credited {
		var sum types.Currency
		for _, d := range deps {
			id := rhpx.KeyID(types.PublicKey(d.Account))
			if pool {
				k.led.pool[id] = k.led.pool[id].Add(d.Amount)
				k.led.poolSeen[id] = true
			} else {
				k.led.acct[id] = k.led.acct[id].Add(d.Amount)
			}
			sum = sum.Add(d.Amount)
		}
		k.credited = k.credited.Add(sum)
		if !tot1.Equals(tot0.Add(sum)) {
			k.c.Oracle("credit-total:"+rpc, "balances grew by %v but %v was deposited", bigOf(tot1).Sub(bigOf(tot1), bigOf(tot0)), sum.ExactString())
		}
	} else {
		if !tot1.Equals(tot0) {
			k.c.Oracle("balance-moved-without-credit:"+rpc, "%s (%s) changed the balances %v -> %v without a credit call", rpc, res.Cls, tot0.ExactString(), tot1.ExactString())
		}
		if after := k.rev(); after != before {
			k.c.Oracle("revision-moved-without-credit:"+rpc, "%s (%s) changed the revision without crediting", rpc, res.Cls)
		}
	}
	for _, n := range res.Notes {
		k.c.Oracle("proof:"+rpc, "%s", n)
	}
}

func (k *kase) replenish(a rhpx.ReplArgs) rhpx.Result {
	before, tot0 := k.rev(), k.total()
	a.Cid = cid
	// balances before, for the top-up oracle
	pre := map[int]types.Currency{}
	for _, id := range a.Accounts {
		if a.Pool {
			pre[id] = k.led.pool[id]
		} else {
			pre[id] = k.led.acct[id]
		}
	}
	k.w.rig.Rec.Tee(true)
	res := k.w.s.Replenish(a)
	k.c.Op(res.Op, res.Impl)
	rpc := "replenish-accounts"
	if a.Pool {
		rpc = "replenish-pools"
	}
	k.afterCredit(rpc, before, tot0, res)
	// tops up to, and never beyond, the target
	for _, id := range a.Accounts {
		var now types.Currency
		if a.Pool {
			now = k.led.pool[id]
		} else {
			now = k.led.acct[id]
		}
		want := pre[id]
		if res.Cls == "ok" && want.Cmp(a.Target) < 0 {
			want = a.Target
		}
		if res.Cls == "ok" || res.Cls == "dropped" {
			hi := pre[id]
			if hi.Cmp(a.Target) < 0 {
				hi = a.Target
			}
			if now.Cmp(hi) > 0 {
				k.c.Oracle("replenish-beyond-target:"+rpc, "%d: balance %v -> %v with target %v", id, pre[id].ExactString(), now.ExactString(), a.Target.ExactString())
			}
		}
		if res.Cls == "ok" && !now.Equals(want) {
			k.c.Oracle("replenish-not-topped-up:"+rpc, "%d: balance %v -> %v with target %v", id, pre[id].ExactString(), now.ExactString(), a.Target.ExactString())
		}
		if res.Cls != "ok" && res.Cls != "dropped" && !now.Equals(pre[id]) {
			k.c.Oracle("replenish-failed-but-moved:"+rpc, "%d: balance %v -> %v although the RPC answered %s", id, pre[id].ExactString(), now.ExactString(), res.Cls)
		}
	}
	return res
}

func (k *kase) attach(links []rhpx.LinkSpec, validAll bool) rhpx.Result {
	res := k.w.s.Attach(links)
	k.c.Op(res.Op, res.Impl)
	if res.Cls == "ok" {
		if !validAll {
			k.c.Oracle("attach-without-valid-signature", "an attach batch with an invalid entry was accepted: %s", res.Op)
		}
		for _, l := range links {
			dup := false
			for _, p := range k.led.att[l.Account] {
				if p == l.Pool {
					dup = true
				}
			}
			if !dup {
				k.led.att[l.Account] = append(k.led.att[l.Account], l.Pool)
			}
		}
	}
	return res
}

func (k *kase) detach(links []rhpx.LinkSpec, validAll bool) rhpx.Result {
	res := k.w.s.Detach(links)
	k.c.Op(res.Op, res.Impl)
	if res.Cls == "ok" {
		if !validAll {
			k.c.Oracle("detach-without-valid-signature", "a detach batch with an invalid entry was accepted: %s", res.Op)
		}
		for _, l := range links {
			ps := k.led.att[l.Account]
			for i, p := range ps {
				if p == l.Pool {
					k.led.att[l.Account] = append(append([]int(nil), ps[:i]...), ps[i+1:]...)
					break
				}
			}
		}
	}
	return res
}

// service runs a read / write / verify attempt and its oracle. cost is the independently priced
// cost if the request is one the host should serve (valid = prices, token and parameters fine and
// the sector exists), account the paying account.
func (k *kase) service(rpc string, run func() rhpx.Result, valid bool, account int, cost types.Currency) rhpx.Result {
	tot0 := k.total()
	k.w.rig.Rec.Tee(true)
	res := run()
	k.c.Op(res.Op, res.Impl)
	calls := k.w.rig.Rec.TakeTee()
	tot1 := k.total()
	var debitIdx, svcIdx = -1, -1
	var debited types.Currency
	for i, c := range calls {
		switch c.Kind {
		case "debit":
			if c.Err == nil {
				debitIdx = i
				debited = c.Usage.RenterCost()
			}
		case "read", "store":
			if svcIdx < 0 {
				svcIdx = i
			}
			if c.Err != nil {
				k.c.Oracle("service-failed-after-debit:"+rpc, "%s: the sector store failed (%v) after the account had been debited", rpc, c.Err)
			}
		}
	}
	delivered := res.Cls == "ok"
	enough := k.led.drawable(account).Cmp(cost) >= 0
	switch {
	case svcIdx >= 0 && (debitIdx < 0 || debitIdx > svcIdx):
		k.c.Oracle("service-before-debit:"+rpc, "%s touched the sector store before a successful debit (calls %v)", rpc, kinds(calls))
	case delivered && debitIdx < 0:
		k.c.Oracle("service-without-debit:"+rpc, "%s answered ok without debiting", rpc)
	}
	if debitIdx >= 0 {
		if !debited.Equals(cost) {
			k.c.Oracle("debit-not-priced-cost:"+rpc, "%s debited %v, priced cost %v", rpc, debited.ExactString(), cost.ExactString())
		}
		if !delivered && res.Cls != "dropped" {
			k.c.Oracle("debit-without-service:"+rpc, "%s debited %v but answered %s", rpc, debited.ExactString(), res.Cls)
		}
		if !k.led.debit(account, debited) {
			k.c.Oracle("debit-beyond-funds:"+rpc, "%s debited %v from account %d whose drawable funds were %v", rpc, debited.ExactString(), account, k.led.drawable(account).ExactString())
		}
		k.debited = k.debited.Add(debited)
		if !tot0.Equals(tot1.Add(debited)) {
			k.c.Oracle("debit-total:"+rpc, "balances fell %v -> %v for a debit of %v", tot0.ExactString(), tot1.ExactString(), debited.ExactString())
		}
	} else {
		if !tot0.Equals(tot1) {
			k.c.Oracle("balance-moved-without-debit:"+rpc, "%s (%s) changed the balances %v -> %v", rpc, res.Cls, tot0.ExactString(), tot1.ExactString())
		}
		if delivered {
			k.c.Oracle("data-without-payment:"+rpc, "%s delivered without a debit", rpc)
		}
	}
	if valid && enough && !delivered {
		k.c.Oracle("funded-request-refused:"+rpc, "%s refused (%s) although drawable funds %v cover the cost %v", rpc, res.Cls, k.led.drawable(account).Add(debited).ExactString(), cost.ExactString())
	}
	if valid && !enough && (delivered || svcIdx >= 0 || debitIdx >= 0) {
		k.c.Oracle("insufficient-funds-served:"+rpc, "%s with insufficient funds: answered %s, calls %v", rpc, res.Cls, kinds(calls))
	}
	if !valid && (delivered || svcIdx >= 0 || debitIdx >= 0) {
		k.c.Oracle("invalid-request-served:"+rpc, "%s with an invalid request: answered %s, calls %v", rpc, res.Cls, kinds(calls))
	}
	for _, n := range res.Notes {
		k.c.Oracle("proof:"+rpc, "%s", n)
	}
	return res
}

func kinds(calls []rhpx.Call) []string {
	var out []string
	for _, c := range calls {
		out = append(out, c.Kind)
	}
	return out
}

func (k *kase) done(nontrivial bool, tags ...string) {
	k.observe()
	k.c.Nontrivial = nontrivial
	k.c.Tags = append(k.c.Tags, tags...)
	k.w.out <- k.c
}

// ---------------------------------------------------------------------------------------------
// case families

type job func(w *worker)

func good(s *rhpx.Sess) rhpx.PriceSpec { return s.GoodPrices() }

// setupFunds gives account a `own` and each pool its amount and attaches the pools in order; all
// through real RPCs that are part of the case.
func (k *kase) setupFunds(a int, own types.Currency, pools []int, amounts []types.Currency) {
	if !own.IsZero() {
		k.fund(rhpx.FundArgs{Deposits: []rhpx.Deposit{{Account: a, Amount: own}}, Sig: rhpx.Honest})
	}
	for i, p := range pools {
		// a pool exists once it has been credited; a pool meant to be empty is credited 1 H and
		// drained by nobody, so give it its amount + create separately
		amt := amounts[i]
		if amt.IsZero() {
			amt = cur(0)
		}
		if !amt.IsZero() {
			k.replenish(rhpx.ReplArgs{Pool: true, Accounts: []int{p}, Target: amt, Chal: rhpx.Honest, Second: rhpx.Honest})
		}
	}
	var links []rhpx.LinkSpec
	for i, p := range pools {
		if !amounts[i].IsZero() {
			links = append(links, rhpx.LinkSpec{Account: a, Pool: p, Delta: 3600, Sig: rhpx.PS{Kind: "s", Key: p}})
		}
	}
	if len(links) > 0 {
		k.attach(links, true)
	}
}

// boundary: one service RPC with own balance and pools placed at, just below and just above the cost.
func boundary(rpc string, ownSel, poolSel int) job {
	return func(w *worker) {
		ids := w.fresh(3)
		a, p1, p2 := ids[0], ids[1], ids[2]
		k := w.begin(fmt.Sprintf("svc-%s-own%d-pools%d", rpc, ownSel, poolSel), []int{a}, []int{p1, p2})
		prices := rhpx.DefaultPrices()
		var cost types.Currency
		switch rpc {
		case "read":
			cost = readCost(prices, 64)
		case "write":
			cost = writeCost(prices, 64)
		case "verify":
			cost = verifyCost(prices)
		}
		one := cur(1)
		half := cost.Div64(2)
		var own types.Currency
		switch ownSel {
		case 0:
			own = cur(0)
		case 1:
			own = cost.Sub(one)
		case 2:
			own = cost
		case 3:
			own = cost.Add(one)
		case 4:
			own = half
		case 5:
			own = one
		}
		missing := cur(0)
		if own.Cmp(cost) < 0 {
			missing = cost.Sub(own)
		}
		var amounts []types.Currency
		switch poolSel {
		case 0: // no pools
			amounts = []types.Currency{cur(0), cur(0)}
		case 1: // one pool, exactly the missing amount
			amounts = []types.Currency{missing, cur(0)}
		case 2: // one pool, one short
			if missing.IsZero() {
				amounts = []types.Currency{one, cur(0)}
			} else {
				amounts = []types.Currency{missing.Sub(one), cur(0)}
			}
		case 3: // two pools that together cover exactly
			h := missing.Div64(2)
			amounts = []types.Currency{h, missing.Sub(h)}
		case 4: // two pools, together one short
			h := missing.Div64(2)
			if missing.Cmp(cur(2)) < 0 {
				amounts = []types.Currency{cur(0), cur(0)}
			} else {
				amounts = []types.Currency{h, missing.Sub(h).Sub(one)}
			}
		case 5: // two pools, the first alone more than enough
			amounts = []types.Currency{cost.Add(one), cost}
		}
		k.setupFunds(a, own, []int{p1, p2}, amounts)
		k.observe()
		tok := k.w.s.GoodToken(a)
		switch rpc {
		case "read":
			k.service(rpc, func() rhpx.Result {
				return k.w.s.Read(rhpx.ReadArgs{Prices: good(k.w.s), Token: tok, Root: 1, Offset: 0, Len: 64})
			}, true, a, cost)
		case "write":
			k.service(rpc, func() rhpx.Result {
				return k.w.s.Write(rhpx.WriteArgs{Prices: good(k.w.s), Token: tok, Len: 64, Sector: 2})
			}, true, a, cost)
		case "verify":
			k.service(rpc, func() rhpx.Result {
				return k.w.s.Verify(rhpx.VerifyArgs{Prices: good(k.w.s), Token: tok, Root: 1, Leaf: 5})
			}, true, a, cost)
		}
		// a second attempt right away (what is left after the first)
		k.observe()
		k.service("read", func() rhpx.Result {
			return k.w.s.Read(rhpx.ReadArgs{Prices: good(k.w.s), Token: tok, Root: 1, Offset: 64, Len: 128})
		}, true, a, readCost(prices, 128))
		k.done(true, "kind:boundary", "rpc:"+rpc, fmt.Sprintf("own:%d", ownSel), fmt.Sprintf("pools:%d", poolSel))
	}
}

// invalid service requests: nothing may be debited or served.
func invalidService(variant int) job {
	return func(w *worker) {
		ids := w.fresh(1)
		a := ids[0]
		k := w.begin(fmt.Sprintf("svc-invalid-%d", variant), []int{a}, nil)
		k.fund(rhpx.FundArgs{Deposits: []rhpx.Deposit{{Account: a, Amount: types.Siacoins(1)}}, Sig: rhpx.Honest})
		ps, tok := good(k.w.s), k.w.s.GoodToken(a)
		root, off, length := 1, uint64(0), uint64(64)
		name := ""
		switch variant {
		case 0:
			ps.Delta, name = -3600, "prices-expired"
		case 1:
			ps.Sig, name = rhpx.PS{Kind: "s", Key: 5}, "prices-foreign"
		case 2:
			ps.Sig, name = rhpx.PS{Kind: "o", Key: rhpx.HostKeyID}, "prices-altered"
		case 3:
			tok.Delta, name = -3600, "token-expired"
		case 4:
			tok.Sig, name = rhpx.PS{Kind: "s", Key: 5}, "token-wrong-key"
		case 5:
			tok.HostKey, name = 5, "token-other-host"
		case 6:
			tok.Sig, name = rhpx.PS{Kind: "o", Key: a}, "token-altered"
		case 7:
			root, name = rhpx.FakeRootBase+7, "sector-unknown"
		case 8:
			length, name = 0, "length-zero"
		case 9:
			off, length, name = 1<<22-64, 128, "out-of-bounds"
		case 10:
			off, length, name = 32, 32, "offset-unaligned"
		case 11:
			off, length, name = 1, 63, "offset-odd"
		case 12:
			length, name = 100, "end-unaligned"
		case 13:
			tok.Sig, name = rhpx.PS{Kind: "z"}, "token-zero-sig"
		}
		k.c.Name += "-" + name
		k.service("read", func() rhpx.Result {
			return k.w.s.Read(rhpx.ReadArgs{Prices: ps, Token: tok, Root: root, Offset: off, Len: length})
		}, false, a, readCost(rhpx.DefaultPrices(), length))
		if variant <= 6 || variant == 13 {
			k.service("write", func() rhpx.Result {
				return k.w.s.Write(rhpx.WriteArgs{Prices: ps, Token: tok, Len: 64, Sector: 3})
			}, false, a, writeCost(rhpx.DefaultPrices(), 64))
			k.service("verify", func() rhpx.Result {
				return k.w.s.Verify(rhpx.VerifyArgs{Prices: ps, Token: tok, Root: 1, Leaf: 0})
			}, false, a, verifyCost(rhpx.DefaultPrices()))
		}
		if variant == 8 {
			k.service("write", func() rhpx.Result {
				return k.w.s.Write(rhpx.WriteArgs{Prices: ps, Token: tok, Len: 0, Sector: 3})
			}, false, a, cur(0))
			k.service("write", func() rhpx.Result {
				return k.w.s.Write(rhpx.WriteArgs{Prices: ps, Token: tok, Len: 100, Sector: 3})
			}, false, a, cur(0))
			k.service("write", func() rhpx.Result {
				return k.w.s.Write(rhpx.WriteArgs{Prices: ps, Token: tok, Len: 128, Sector: 3, Short: true})
			}, false, a, cur(0))
			k.service("verify", func() rhpx.Result {
				return k.w.s.Verify(rhpx.VerifyArgs{Prices: ps, Token: tok, Root: 1, Leaf: 1 << 16})
			}, false, a, cur(0))
		}
		k.done(true, "kind:invalid-service", "variant:"+name)
	}
}

// replenishCases: targets below/at/above balances, duplicates, faults; for accounts and pools.
func replenishCase(pool bool, variant int) job {
	return func(w *worker) {
		ids := w.fresh(3)
		x, y, z := ids[0], ids[1], ids[2]
		var accts, pools []int
		if pool {
			pools = ids
		} else {
			accts = ids
		}
		k := w.begin(fmt.Sprintf("repl-%v-%d", pool, variant), accts, pools)
		sc := types.Siacoins(1)
		seed := func(id int, amt types.Currency) {
			if pool {
				k.replenish(rhpx.ReplArgs{Pool: true, Accounts: []int{id}, Target: amt, Chal: rhpx.Honest, Second: rhpx.Honest})
			} else {
				k.fund(rhpx.FundArgs{Deposits: []rhpx.Deposit{{Account: id, Amount: amt}}, Sig: rhpx.Honest})
			}
		}
		seed(x, sc.Div64(2))
		seed(y, sc.Mul64(2))
		a := rhpx.ReplArgs{Pool: pool, Accounts: []int{x, y, z}, Target: sc, Chal: rhpx.Honest, Second: rhpx.Honest}
		name := "plain"
		switch variant {
		case 1:
			a.Accounts, name = []int{x, x}, "duplicate"
		case 2:
			a.Accounts, name = []int{z, x, z}, "duplicate-apart"
		case 3:
			a.Accounts, name = []int{y}, "nothing-to-do"
		case 4:
			a.Target, name = cur(0), "target-zero"
		case 5:
			a.Second, name = rhpx.Abort, "abort"
		case 6:
			a.Second, name = rhpx.SigSpec{Kind: "drop"}, "drop"
		case 7:
			a.Second, name = rhpx.BadS, "sig-garbage"
		case 8:
			a.Second, name = rhpx.SigSpec{Kind: "b", Key: rhpx.RenterKeyID, Mut: func(fc *types.V2FileContract) {
				fc.RenterOutput.Value = fc.RenterOutput.Value.Add(cur(1))
				fc.HostOutput.Value = fc.HostOutput.Value.Sub(cur(1))
			}}, "sig-pays-less"
		case 9:
			a.Chal, name = rhpx.BadS, "chal-garbage"
		case 10:
			a.Chal, name = rhpx.SigSpec{Kind: "q", Key: rhpx.RenterKeyID, Cid: cid, N: k.rev().RevisionNumber, Target: sc, Accts: []int{x}}, "chal-other-accounts"
		case 11:
			a.Chal, name = rhpx.SigSpec{Kind: "q", Key: 5, Cid: cid, N: k.rev().RevisionNumber, Target: sc, Accts: []int{x, y, z}}, "chal-wrong-key"
		case 12:
			a.Chal, name = rhpx.SigSpec{Kind: "q", Key: rhpx.RenterKeyID, Cid: cid, N: k.rev().RevisionNumber - 1, Target: sc, Accts: []int{x, y, z}}, "chal-stale"
		case 13:
			a.Second, a.Bang, name = rhpx.Honest, true, "sig-then-drop"
		case 14:
			a.Accounts, name = []int{x, 0}, "zero-account"
		case 15:
			a.Target, name = types.Siacoins(1000000), "unaffordable"
		case 16:
			a.Accounts, name = nil, "no-accounts"
		case 17:
			a.Chal, name = rhpx.ZeroS, "chal-zero"
		}
		k.c.Name += "-" + name
		k.replenish(a)
		k.observe()
		// again: now everything is at or above the target
		k.replenish(rhpx.ReplArgs{Pool: pool, Accounts: []int{x, y, z}, Target: sc, Chal: rhpx.Honest, Second: rhpx.Honest})
		k.done(true, "kind:replenish", fmt.Sprintf("pool:%v", pool), "variant:"+name)
	}
}

// fundCase: the fund RPC with good and bad inputs.
func fundCase(variant int) job {
	return func(w *worker) {
		ids := w.fresh(2)
		x, y := ids[0], ids[1]
		k := w.begin(fmt.Sprintf("fund-%d", variant), ids, nil)
		a := rhpx.FundArgs{Deposits: []rhpx.Deposit{{Account: x, Amount: cur(1000)}, {Account: y, Amount: cur(1)}}, Sig: rhpx.Honest}
		name := "plain"
		switch variant {
		case 1:
			a.Deposits, name = []rhpx.Deposit{{Account: x, Amount: cur(5)}, {Account: x, Amount: cur(7)}}, "same-account-twice"
		case 2:
			a.Deposits, name = []rhpx.Deposit{{Account: x, Amount: cur(0)}}, "zero-amount"
		case 3:
			a.Deposits, name = []rhpx.Deposit{{Account: 0, Amount: cur(5)}}, "zero-account"
		case 4:
			a.Deposits, name = nil, "no-deposits"
		case 5:
			a.Sig, name = rhpx.BadS, "sig-garbage"
		case 6:
			a.Sig, name = rhpx.ZeroS, "sig-zero"
		case 7:
			a.Sig, name = rhpx.SigSpec{Kind: "b", Key: 5}, "sig-wrong-key"
		case 8:
			a.Sig, name = rhpx.SigSpec{Kind: "b", Key: rhpx.RenterKeyID, Mut: func(fc *types.V2FileContract) {
				fc.RenterOutput.Value = fc.RenterOutput.Value.Add(cur(1))
				fc.HostOutput.Value = fc.HostOutput.Value.Sub(cur(1))
			}}, "sig-pays-less"
		case 9:
			a.Sig, name = rhpx.SigSpec{Kind: "b", Key: rhpx.RenterKeyID, Mut: func(fc *types.V2FileContract) { fc.RevisionNumber++ }}, "sig-other-revnum"
		case 10:
			a.Deposits, name = []rhpx.Deposit{{Account: x, Amount: types.Siacoins(1000000)}}, "unaffordable"
		case 11:
			a.Sig, name = rhpx.SigSpec{Kind: "b", Key: rhpx.RenterKeyID}, "sig-explicit-ok"
		}
		k.c.Name += "-" + name
		res := k.fund(a)
		if variant >= 2 && variant <= 10 && res.Cls == "ok" {
			k.c.Oracle("fund-invalid-accepted", "fund (%s) was accepted", name)
		}
		k.observe()
		// an unknown contract and a stale replay of the same signature
		b := a
		b.Cid = 9
		b.Sig = rhpx.Honest
		tot0, before := k.total(), k.rev()
		k.w.rig.Rec.Tee(true)
		r2 := k.w.s.Fund(b)
		k.c.Op(r2.Op, r2.Impl)
		k.afterCredit("fund", before, tot0, r2)
		k.done(true, "kind:fund", "variant:"+name)
	}
}

// linkCase: attach/detach need a valid signature by the right key.
func linkCase(variant int) job {
	return func(w *worker) {
		ids := w.fresh(4)
		a, b, p, q := ids[0], ids[1], ids[2], ids[3]
		k := w.begin(fmt.Sprintf("link-%d", variant), []int{a, b}, []int{p, q})
		cost := readCost(rhpx.DefaultPrices(), 64)
		// pool p holds two reads' worth, q does not exist yet
		k.replenish(rhpx.ReplArgs{Pool: true, Accounts: []int{p}, Target: cost.Mul64(2), Chal: rhpx.Honest, Second: rhpx.Honest})
		okSig := rhpx.PS{Kind: "s", Key: p}
		l := rhpx.LinkSpec{Account: a, Pool: p, Delta: 3600, Sig: okSig}
		valid := true
		name := "ok"
		switch variant {
		case 1:
			l.Sig, valid, name = rhpx.PS{Kind: "s", Key: a}, false, "signed-by-account"
		case 2:
			l.Sig, valid, name = rhpx.PS{Kind: "s", Key: 5}, false, "signed-by-stranger"
		case 3:
			l.Sig, valid, name = rhpx.PS{Kind: "o", Key: p}, false, "detach-signature-replayed"
		case 4:
			l.Sig, valid, name = rhpx.PS{Kind: "x"}, false, "garbage"
		case 5:
			l.Sig, valid, name = rhpx.PS{Kind: "z"}, false, "zero"
		case 6:
			l.Delta, valid, name = -3600, false, "expired"
		case 7:
			l.Pool, l.Sig, valid, name = q, rhpx.PS{Kind: "s", Key: q}, false, "pool-missing"
		case 8:
			l.Pool, l.Sig, valid, name = a, rhpx.PS{Kind: "s", Key: a}, false, "account-is-pool"
		case 9:
			l.Account, valid, name = 0, false, "zero-account"
		}
		k.c.Name += "-" + name
		links := []rhpx.LinkSpec{l}
		if variant == 10 { // a batch with one bad entry must be rejected as a whole
			links = []rhpx.LinkSpec{{Account: b, Pool: p, Delta: 3600, Sig: okSig}, {Account: a, Pool: p, Delta: 3600, Sig: rhpx.PS{Kind: "s", Key: 5}}}
			valid = false
			k.c.Name += "-batch-one-bad"
		}
		if variant == 11 { // attach twice: idempotent
			k.attach(links, true)
			k.c.Name += "-twice"
		}
		k.attach(links, valid)
		k.observe()
		tok := k.w.s.GoodToken(a)
		rd := func() rhpx.Result {
			return k.w.s.Read(rhpx.ReadArgs{Prices: good(k.w.s), Token: tok, Root: 1, Offset: 0, Len: 64})
		}
		// the account has no funds of its own: it can read iff the attach took effect
		k.service("read", rd, true, a, cost)
		k.observe()
		// detach variants on whatever is attached now
		d := rhpx.LinkSpec{Account: a, Pool: p, Delta: 3600, Sig: rhpx.PS{Kind: "s", Key: a}}
		dvalid := true
		switch variant % 6 {
		case 1:
			d.Sig = rhpx.PS{Kind: "s", Key: p}
		case 2:
			d.Sig, dvalid = rhpx.PS{Kind: "s", Key: 5}, false
		case 3:
			d.Sig, dvalid = rhpx.PS{Kind: "o", Key: p}, false // an attach signature replayed as detach
		case 4:
			d.Delta, dvalid = -3600, false
		case 5:
			d.Sig, dvalid = rhpx.PS{Kind: "x"}, false
		}
		k.detach([]rhpx.LinkSpec{d}, dvalid)
		k.observe()
		k.service("read", rd, true, a, cost)
		k.done(true, "kind:link", "variant:"+name)
	}
}


// linkOrder: several pools attached in one batch (optionally naming a link twice), a detach from
// the front / middle / end, then reads that drain the remaining pools only partially: the per-pool
// balances show whether attachment order survived and whether every pool is counted once.
func linkOrder(variant int) job {
	return func(w *worker) {
		ids := w.fresh(6)
		a, b := ids[0], ids[1]
		pools := ids[2:6]
		k := w.begin(fmt.Sprintf("linkorder-%d", variant), []int{a, b}, pools)
		prices := rhpx.DefaultPrices()
		c := readCost(prices, 64)
		half := c.Div64(2)
		dupBatch := variant >= 8
		// pool i holds a little more than half a read (distinct amounts), or 3/4 of a read in the
		// duplicate-link variants (so that one pool alone never pays for a read, twice it would)
		for i, p := range pools {
			amt := half.Add(cur(uint64(i + 1)))
			if dupBatch {
				amt = c.Mul64(3).Div64(4).Add(cur(uint64(i)))
			}
			k.replenish(rhpx.ReplArgs{Pool: true, Accounts: []int{p}, Target: amt, Chal: rhpx.Honest, Second: rhpx.Honest})
		}
		link := func(acct, p int) rhpx.LinkSpec {
			return rhpx.LinkSpec{Account: acct, Pool: p, Delta: 3600, Sig: rhpx.PS{Kind: "s", Key: p}}
		}
		tok := k.w.s.GoodToken(a)
		read := func(length uint64) {
			k.service("read", func() rhpx.Result {
				return k.w.s.Read(rhpx.ReadArgs{Prices: good(k.w.s), Token: tok, Root: 1, Offset: 0, Len: length})
			}, true, a, readCost(prices, length))
			k.observe()
		}
		name := ""
		if !dupBatch {
			// four pools in one batch, in order
			k.attach([]rhpx.LinkSpec{link(a, pools[0]), link(a, pools[1]), link(a, pools[2]), link(a, pools[3])}, true)
			k.observe()
			di := variant % 4 // which link is detached: front, middle, middle, end
			signer := a
			if variant >= 4 {
				signer = pools[di]
			}
			name = fmt.Sprintf("detach-%d-signer-%v", di, variant >= 4)
			k.detach([]rhpx.LinkSpec{{Account: a, Pool: pools[di], Delta: 3600, Sig: rhpx.PS{Kind: "s", Key: signer}}}, true)
			k.observe()
			read(64) // drains the first remaining pool and part of the second
			read(64) // the rest of the second and part of the third
			read(64) // nothing left that covers a read: refused
			// re-attach at the end and drain again
			k.attach([]rhpx.LinkSpec{link(a, pools[di])}, true)
			read(64)
		} else {
			var batch []rhpx.LinkSpec
			switch variant {
			case 8:
				batch, name = []rhpx.LinkSpec{link(a, pools[0]), link(a, pools[0])}, "same-link-twice"
			case 9:
				batch, name = []rhpx.LinkSpec{link(a, pools[0]), link(b, pools[0]), link(a, pools[0])}, "same-link-twice-apart"
			case 10:
				batch, name = []rhpx.LinkSpec{link(a, pools[0]), link(a, pools[0]), link(a, pools[0])}, "same-link-thrice"
			case 11:
				k.attach([]rhpx.LinkSpec{link(a, pools[0])}, true)
				batch, name = []rhpx.LinkSpec{link(a, pools[1]), link(a, pools[0]), link(a, pools[1])}, "second-batch-with-old-and-doubled-new"
			}
			k.attach(batch, true)
			k.observe()
			if variant != 11 {
				read(64) // costs more than the one pool holds, less than twice it: must be refused
			} else {
				read(64)  // two pools of 3/4 each: served, first pool emptied, second at 1/2
				read(128) // same price class; 1/2 left: refused
			}
			// one detach must cut the account off that pool entirely
			k.detach([]rhpx.LinkSpec{{Account: a, Pool: pools[0], Delta: 3600, Sig: rhpx.PS{Kind: "s", Key: a}}}, true)
			k.observe()
			read(64)
			// the other account of variant 9 is attached once
			if variant == 9 {
				k.service("read", func() rhpx.Result {
					return k.w.s.Read(rhpx.ReadArgs{Prices: good(k.w.s), Token: k.w.s.GoodToken(b), Root: 1, Offset: 0, Len: 64})
				}, true, b, c)
			}
		}
		k.c.Name += "-" + name
		k.done(true, "kind:linkorder", "variant:"+name)
	}
}


// racingReplenish: two replenishes of the same account through the same contract, the first one
// held right in front of the contract lock while the second completes; the first one's challenge
// is signed for the revision number the second leaves behind.  Whatever the first one does after it
// gets the lock has to start from the balances as they are then: the account ends at the target.
func racingReplenish(variant int) job {
	return func(w *worker) {
		ids := w.fresh(2)
		x, y := ids[0], ids[1]
		k := w.begin(fmt.Sprintf("racing-replenish-%d", variant), ids, nil)
		target := types.Siacoins(1)
		accts := []int{x}
		if variant%2 == 1 {
			accts = []int{x, y}
			k.fund(rhpx.FundArgs{Deposits: []rhpx.Deposit{{Account: y, Amount: target.Div64(4)}}, Sig: rhpx.Honest})
		}
		rev0 := k.rev()
		blocked, release := make(chan struct{}), make(chan struct{})
		w.rig.Con.GateNextLock(func() { close(blocked); <-release })
		var after types.V2FileContract
		done := make(chan rhpx.Result, 1)
		go func() {
			// A: sent first, reaches the host first, waits in front of the lock
			done <- w.s.Replenish(rhpx.ReplArgs{Cid: cid, Accounts: accts, Target: target,
				Chal:   rhpx.SigSpec{Kind: "q", Key: rhpx.RenterKeyID, Cid: cid, N: rev0.RevisionNumber + 1, Target: target, Accts: accts},
				Second: rhpx.Honest, Base: func() types.V2FileContract { return after }})
		}()
		select {
		case <-blocked:
		case <-time.After(10 * time.Second):
			k.c.Oracle("harness-setup", "the first replenish never reached the contract lock")
			close(release)
			<-done
			k.done(false)
			return
		}
		// B: runs to completion meanwhile
		k.replenish(rhpx.ReplArgs{Accounts: accts, Target: target, Chal: rhpx.Honest, Second: rhpx.Honest})
		after = k.rev()
		before, tot0 := k.rev(), k.total()
		w.rig.Rec.Tee(true)
		close(release)
		resA := <-done
		k.c.Op(resA.Op, resA.Impl)
		k.afterCredit("replenish-accounts", before, tot0, resA)
		for _, a := range accts {
			b, _ := w.rig.EC.AccountBalance(rhpx.Acct(a))
			if b.Cmp(target) > 0 {
				k.c.Oracle("replenish-beyond-target:replenish-accounts", "%d: two racing replenishes to %v left the balance at %v", a, target.ExactString(), b.ExactString())
			}
		}
		k.done(true, "kind:racing-replenish")
	}
}


// replenishMany: one replenish request naming several hundred accounts (the protocol allows 1000)
// with mixed balances: empty, below, at and above the target, placed at the start, around position
// 256, in the middle and at the end of the list.  Every account ends at max(balance, target).
func replenishMany(n int, pool bool) job {
	return func(w *worker) {
		ids := w.fresh(n)
		var accts, pools []int
		if pool {
			pools = ids
		} else {
			accts = ids
		}
		k := w.begin(fmt.Sprintf("repl-many-%d-%v", n, pool), accts, pools)
		target := cur(1000)
		seed := func(pos int, amt types.Currency) {
			if pos < 0 || pos >= len(ids) {
				return
			}
			if pool {
				k.replenish(rhpx.ReplArgs{Pool: true, Accounts: []int{ids[pos]}, Target: amt, Chal: rhpx.Honest, Second: rhpx.Honest})
			} else {
				k.fund(rhpx.FundArgs{Deposits: []rhpx.Deposit{{Account: ids[pos], Amount: amt}}, Sig: rhpx.Honest})
			}
		}
		if n <= 1000 {
			seed(0, cur(400))
			seed(1, cur(1000))
			seed(3, cur(2500))
			seed(255, cur(999))
			seed(256, cur(700))
			seed(257, cur(1))
			seed(300, cur(5000))
			seed(511, cur(600))
			seed(512, cur(1000))
			seed(n-2, cur(123))
			seed(n-1, cur(1001))
			k.observe()
		}
		res := k.replenish(rhpx.ReplArgs{Pool: pool, Accounts: ids, Target: target, Chal: rhpx.Honest, Second: rhpx.Honest})
		if n > 1000 && res.Cls == "ok" {
			k.c.Oracle("replenish-batch-limit", "a replenish naming %d accounts was accepted", n)
		}
		if n <= 1000 && res.Cls != "ok" {
			k.c.Oracle("funded-request-refused:replenish", "a replenish naming %d accounts was refused: %s", n, res.Cls)
		}
		k.done(true, "kind:replenish-many", fmt.Sprintf("accounts:%d", n))
	}
}

// history: a random sequence over a small universe of accounts and pools.
func history(idx int, rng *vh.RNG, steps int) job {
	return func(w *worker) {
		ids := w.fresh(7)
		accts, pools := ids[:3], ids[3:]
		k := w.begin(fmt.Sprintf("hist%d", idx), accts, pools)
		prices := rhpx.DefaultPrices()
		rc := readCost(prices, 64)
		for step := 0; step < steps; step++ {
			a := accts[rng.Intn(len(accts))]
			switch rng.Intn(14) {
			case 12:
				fallthrough
			case 13: // attach and detach are what the order of pools depends on: twice as likely
				if rng.Bool() {
					p := pools[rng.Intn(len(pools))]
					k.attach([]rhpx.LinkSpec{{Account: a, Pool: p, Delta: 3600, Sig: rhpx.PS{Kind: "s", Key: p}}}, k.led.poolSeen[p])
				} else if att := k.led.att[a]; len(att) > 0 {
					p := att[rng.Intn(len(att))] // an attached pool, often not the last one
					k.detach([]rhpx.LinkSpec{{Account: a, Pool: p, Delta: 3600, Sig: rhpx.PS{Kind: "s", Key: a}}}, true)
				}
			case 0, 1: // fund around the read cost
				amt := rc.Mul64(uint64(rng.Intn(3))).Add(cur(uint64(rng.Intn(3))))
				if amt.IsZero() {
					amt = cur(1)
				}
				ds := []rhpx.Deposit{{Account: a, Amount: amt}}
				if rng.Chance(1, 4) {
					ds = append(ds, rhpx.Deposit{Account: accts[rng.Intn(len(accts))], Amount: cur(uint64(1 + rng.Intn(5)))})
				}
				sig := rhpx.Honest
				if rng.Chance(1, 6) {
					sig = rhpx.BadS
				}
				k.fund(rhpx.FundArgs{Deposits: ds, Sig: sig})
			case 2: // replenish accounts
				n := 1 + rng.Intn(3)
				var l []int
				for i := 0; i < n; i++ {
					l = append(l, accts[rng.Intn(len(accts))]) // duplicates happen
				}
				sec := rhpx.Honest
				switch rng.Intn(8) {
				case 0:
					sec = rhpx.Abort
				case 1:
					sec = rhpx.BadS
				}
				k.replenish(rhpx.ReplArgs{Accounts: l, Target: rc.Mul64(uint64(1 + rng.Intn(3))), Chal: rhpx.Honest, Second: sec})
			case 3: // replenish pools
				n := 1 + rng.Intn(2)
				var l []int
				for i := 0; i < n; i++ {
					l = append(l, pools[rng.Intn(len(pools))])
				}
				k.replenish(rhpx.ReplArgs{Pool: true, Accounts: l, Target: rc.Mul64(uint64(1+rng.Intn(2))).Add(cur(uint64(rng.Intn(2)))), Chal: rhpx.Honest, Second: rhpx.Honest})
			case 4: // attach a batch of 1-3 links; the same link may occur twice in it
				n := 1 + rng.Intn(3)
				var batch []rhpx.LinkSpec
				valid := true
				for i := 0; i < n; i++ {
					p := pools[rng.Intn(len(pools))]
					if i > 0 && rng.Chance(1, 3) {
						p = batch[rng.Intn(len(batch))].Pool
					}
					l := rhpx.LinkSpec{Account: a, Pool: p, Delta: 3600, Sig: rhpx.PS{Kind: "s", Key: p}}
					if !k.led.poolSeen[p] {
						valid = false
					}
					if rng.Chance(1, 8) {
						l.Sig, valid = rhpx.PS{Kind: "s", Key: a}, false
					}
					batch = append(batch, l)
				}
				k.attach(batch, valid)
			case 5: // detach
				p := pools[rng.Intn(len(pools))]
				signer := a
				if rng.Bool() {
					signer = p
				}
				valid := true
				if rng.Chance(1, 5) {
					signer, valid = 5, false
				}
				k.detach([]rhpx.LinkSpec{{Account: a, Pool: p, Delta: 3600, Sig: rhpx.PS{Kind: "s", Key: signer}}}, valid)
			case 6: // write (expensive: usually insufficient)
				k.service("write", func() rhpx.Result {
					return k.w.s.Write(rhpx.WriteArgs{Prices: good(k.w.s), Token: k.w.s.GoodToken(a), Len: 64, Sector: 1 + rng.Intn(4)})
				}, true, a, writeCost(prices, 64))
			case 7: // verify
				k.service("verify", func() rhpx.Result {
					return k.w.s.Verify(rhpx.VerifyArgs{Prices: good(k.w.s), Token: k.w.s.GoodToken(a), Root: 1 + rng.Intn(4), Leaf: uint64(rng.Intn(1 << 16))})
				}, true, a, verifyCost(prices))
			default: // read
				length := uint64(64 * (1 + rng.Intn(3)))
				k.service("read", func() rhpx.Result {
					return k.w.s.Read(rhpx.ReadArgs{Prices: good(k.w.s), Token: k.w.s.GoodToken(a), Root: 1 + rng.Intn(4), Offset: uint64(64 * rng.Intn(8)), Len: length})
				}, true, a, readCost(prices, length))
			}
			k.observe()
		}
		k.done(true, "kind:history")
	}
}

func Run(r *vh.Run) {
	r.Rule = "a case is a short history on fresh accounts and pools of a real host: funds placed at, just below or just above the priced cost (own balance and attached pools in order) followed by a read/write/verify, a replenish or fund attempt (well-formed, with duplicates, or broken at one message), an attach/detach with a valid or an invalid signature, or a random mix; distinct by (family, variant); all are non-trivial (each moves or tries to move money)"
	rng := vh.NewRNG(r.Seed)
	var jobs []job
	for _, rpc := range []string{"read", "write", "verify"} {
		for own := 0; own <= 5; own++ {
			for pools := 0; pools <= 5; pools++ {
				jobs = append(jobs, boundary(rpc, own, pools))
			}
		}
	}
	for v := 0; v <= 13; v++ {
		jobs = append(jobs, invalidService(v))
	}
	for v := 0; v <= 17; v++ {
		jobs = append(jobs, replenishCase(false, v), replenishCase(true, v))
	}
	for v := 0; v <= 11; v++ {
		jobs = append(jobs, fundCase(v), linkCase(v), linkOrder(v))
	}
	for v := 0; v < 4; v++ {
		jobs = append(jobs, racingReplenish(v))
	}
	for _, n := range []int{256, 257, 300, 513, 1000, 1001} {
		jobs = append(jobs, replenishMany(n, false))
	}
	jobs = append(jobs, replenishMany(300, true))
	nh := r.Pick(1500, 20000)
	steps := r.Pick(30, 60)
	for i := 0; i < nh; i++ {
		jobs = append(jobs, history(i, rng.Fork(), steps))
	}

	nw := min(runtime.NumCPU(), 12)
	var wg sync.WaitGroup
	errs := make([]error, nw)
	out := make(chan *vh.Case, 256)
	for wi := 0; wi < nw; wi++ {
		wg.Add(1)
		go func(wi int) {
			defer wg.Done()
			w, err := newWorker(wi)
			if err != nil {
				errs[wi] = err
				return
			}
			w.out = out
			defer w.rig.Close()
			for ji := wi; ji < len(jobs); ji += nw {
				jobs[ji](w)
			}
		}(wi)
	}
	go func() { wg.Wait(); close(out) }()
	for c := range out {
		r.Add(c)
	}
	for wi, err := range errs {
		if err != nil {
			c := &vh.Case{Name: fmt.Sprintf("w%d-setup", wi)}
			c.Oracle("harness-setup", "worker could not start: %v", err)
			r.Add(c)
		}
	}
	r.Extra("workers", nw)
	r.Extra("boundary_grid", "3 rpcs x 6 own-balance placements x 6 pool placements")
	r.Assume("price tables signed with the host key carry a TipHeight not above the chain tip")
	r.Assume("the reference host's sector store never fails a store and fails a read only for an unaligned range")
}
