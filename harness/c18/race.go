package c18

import (
	"fmt"
	"os"
	"os/exec"
	"path/filepath"
	"strings"
	"time"

	"verifharness/vh"
)

// raceChild (thorough tier) builds the harness a second time with the race detector and runs the
// quick-size scenario set under it: the schedules the runtime produces under the race detector's
// slowdown are checked by the same oracles and trace replay, and any data race the detector
// reports in the code under test is a failure of its own.
func raceChild(r *vh.Run) {
	c := &vh.Case{Name: "race-detector", Tags: []string{"scen:race"}, Nontrivial: true}
	defer func() { r.Add(c) }()
	exe, err := os.Executable()
	if err != nil {
		c.Info = map[string]any{"skipped": err.Error()}
		return
	}
	harness := filepath.Dir(filepath.Dir(exe))
	bin := filepath.Join(harness, "bin", "vh-race")
	build := exec.Command("go", "build", "-race", "-tags", "verif", "-o", bin, "./cmd/vh")
	build.Dir = harness
	build.Env = append(os.Environ(), "GOFLAGS=-mod=mod", "GOPROXY=off")
	if out, err := build.CombinedOutput(); err != nil {
		// no cgo toolchain: the race run is optional
		c.Info = map[string]any{"skipped": "go build -race failed: " + firstLines(string(out), 4)}
		r.Extra("race_run", "skipped (build failed)")
		return
	}
	tmp, err := os.MkdirTemp(r.OutDir, "race")
	if err != nil {
		c.Info = map[string]any{"skipped": err.Error()}
		return
	}
	defer os.RemoveAll(tmp)
	t0 := time.Now()
	cmd := exec.Command(bin, "C18", "-tier", "racechild", "-seed", fmt.Sprint(r.Seed), "-drv", r.Drv, "-out", tmp)
	cmd.Env = append(os.Environ(), "GORACE=halt_on_error=0")
	out, err := cmd.CombinedOutput()
	text := string(out)
	r.Extra("race_run", fmt.Sprintf("%d bytes of output, %.0fs", len(text), time.Since(t0).Seconds()))
	if i := strings.Index(text, "WARNING: DATA RACE"); i >= 0 {
		c.Oracle("data-race", "the race detector reported a data race during the stress scenarios: %s", firstLines(text[i:], 30))
	}
	for _, line := range strings.Split(text, "\n") {
		if strings.HasPrefix(line, "VIOLATION") {
			c.Oracle("violation-under-race-detector", "under the race detector: %s", line)
		}
	}
	if err != nil && len(c.Fails) == 0 {
		c.Oracle("race-child-failed", "the run under the race detector failed: %v: %s", err, firstLines(tail(text, 2000), 20))
	}
}

func tail(s string, n int) string {
	if len(s) > n {
		return s[len(s)-n:]
	}
	return s
}
