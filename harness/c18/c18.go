// Package c18: limits and shutdown are honoured under any schedule.
//
// Stress runs of the REAL ThreadGroup, syncers on loopback, the rhp4 server and the wallet, with
// limits in {-1,0,1,2,64}, bursts of RPCs and connections, and Close/Stop at random moments.
// (T) every run records the atomic steps of the real code (verifEvent hooks, build tag verif,
// called inside the critical sections) and the recorded linearisation is replayed step by step
// through the Lean transition systems of Verif/Model/Conc.lean (driver family `conc`): each step
// must be enabled in the model and the model's counters must equal the real counters.
// (O) independent oracles: concurrency observed by a gating ChainManager, no request lost on the
// per-peer path, Close/Stop return only when no work is inside and within a deadline, work after
// Close is rejected, remote ends see their connections closed, no goroutine of the code under
// test survives.
package c18

import (
	"context"
	"encoding/json"
	"errors"
	"fmt"
	"net"
	"os"
	"os/exec"
	"runtime"
	"strings"
	"sync"
	"sync/atomic"
	"time"
	"verifharness/minex"

	"go.sia.tech/core/gateway"
	proto4 "go.sia.tech/core/rhp/v4"
	"go.sia.tech/core/types"
	"go.sia.tech/coreutils/chain"
	rhp4 "go.sia.tech/coreutils/rhp/v4"
	"go.sia.tech/coreutils/rhp/v4/siamux"
	"go.sia.tech/coreutils/syncer"
	"go.sia.tech/coreutils/testutil"
	"go.sia.tech/coreutils/threadgroup"
	"go.sia.tech/coreutils/wallet"
	"go.uber.org/zap"
	"go.uber.org/zap/zaptest/observer"
	"verifharness/vh"
)

func init() { vh.Register("C18", Run) }

var limits = []int{-1, 0, 1, 2, 64}

const (
	closeDeadline  = 30 * time.Second // generous: Close of a healthy syncer takes milliseconds
	settleDeadline = 15 * time.Second
	rpcTimeout     = 40 * time.Second
	stagger        = 4 * time.Millisecond
)

// holStalled recognises the known head-of-line stall (known_findings: per-peer-backpressure-hol-stall):
// an RPC handler that holds a per-peer slot is blocked reading its request while the mux read loop
// is blocked handing a frame to a stream nobody reads.
func holStalled() bool {
	var handlerWaits, readLoopBlocked bool
	for _, g := range repoGoroutines() {
		if strings.Contains(g, "decodeRequest") && strings.Contains(g, "handleRPC") {
			handlerWaits = true
		}
		if strings.Contains(g, "consumeFrame") {
			readLoopBlocked = true
		}
	}
	return handlerWaits && readLoopBlocked
}

const holClass = "per-peer-backpressure-hol-stall"

func eff(n int) int { // effective limit: <= 0 disables
	if n <= 0 {
		return 1 << 30
	}
	return n
}

func Run(r *vh.Run) {
	r.Rule = "each case is one stress run of real code (ThreadGroup / syncer in-flight limits / peer caps / syncer shutdown / rhp4 server Close / wallet Close) with limits drawn from {-1,0,1,2,64}, random numbers of peers, subnets and RPC bursts and Close/Stop at a random moment; its recorded verifEvent linearisation is one trace per thread group, per subnet key and per syncer. A case is non-trivial when work and a Stop/limit interact (distinct = distinct trace)"
	r.Assume("the Go scheduler, channel semantics and real blocking are NOT in the model: the theorems are about the transition systems of Verif/Model/Conc.lean; the implementation-level assurance is the trace inclusion of the sampled schedules plus the oracles (lost wake-ups can only be sampled)")
	r.Assume("verifEvent is called inside the critical section of each step, so the recorded order is a linearisation of the steps (checked structurally by Extracted/ConcFacts.lean)")
	r.Assume("an explicit Syncer.Connect is not subject to MaxOutboundPeers (by design); the outbound cap is checked for the automatic dialer only")
	rng := vh.NewRNG(r.Seed)

	threadgroup.VerifStop()
	if left := settleGoroutines(2 * time.Second); len(left) > 0 {
		// nothing of ours should be running yet
		c := &vh.Case{Name: "baseline"}
		orc(c, "goroutine-baseline", "goroutines of the code under test before the first scenario: %s", firstLines(left[0], 6))
		r.Add(c)
	}

	type scen struct {
		name string
		n    int
		f    func(name string, rng *vh.RNG, r *vh.Run)
		// isolated scenarios run in a child process of the harness: a configuration that makes a
		// goroutine of the code under test panic takes the process down, which must be an
		// observation (oracle class process-crashed) with the configuration as failing input
		isolated bool
	}
	child := os.Getenv("VERIF_C18_CHILD")
	scens := []scen{
		{"tg", r.Pick(8, 150), scenTG, false},
		{"inflight", r.Pick(10, 220), scenInflight, false},
		{"holstall", r.Pick(6, 80), scenHOL, false},
		{"churn", r.Pick(6, 200), scenChurn, false},
		{"rejects", r.Pick(5, 80), scenRejects, false},
		{"unknownid", r.Pick(3, 40), scenUnknownID, false},
		{"matrix", r.Pick(20, 60), scenMatrix, true},
		{"syncclose", r.Pick(6, 42), scenSyncClose, false},
		{"relay", r.Pick(3, 30), scenRelay, false},
		{"caps", r.Pick(6, 120), scenCaps, false},
		{"capsout", r.Pick(3, 32), scenCapsOut, false},
		{"storefail", r.Pick(4, 40), scenStoreFail, false},
		{"banlock", r.Pick(2, 20), scenBanLock, false},
		{"slowrpc", r.Pick(2, 20), scenSlowRPC, false},
		{"shutdown", r.Pick(14, 252), scenShutdown, false},
		{"srv", r.Pick(3, 60), scenSrv, false},
		{"wallet", r.Pick(3, 30), scenWallet, false},
		{"walletnow", r.Pick(2, 12), scenWalletNow, false},
	}
	var slow []string
	var isolated, inproc []func()
	for _, s := range scens {
		for i := 0; i < s.n; i++ {
			name := fmt.Sprintf("%s%02d", s.name, i)
			sub := rng.Fork()
			if r.Only != "" && !hasPrefix(r.Only, name) {
				continue
			}
			if child != "" {
				if child == name {
					s.f(name, sub, r)
				}
				continue
			}
			if s.isolated {
				isolated = append(isolated, func() { runChild(name, r) })
				continue
			}
			f := s.f
			inproc = append(inproc, func() {
				t0 := time.Now()
				f(name, sub, r)
				if d := time.Since(t0); d > 3*time.Second {
					slow = append(slow, fmt.Sprintf("%s %.1fs %s", name, d.Seconds(), slowInfo))
				}
			})
		}
	}
	if child != "" {
		return
	}
	// the isolated scenarios first: child processes, a few at a time.  If a configuration kills
	// its process (a panic in a goroutine of the code under test) that is the finding; the
	// in-process scenarios draw from the same configurations and would take the harness down
	// with them, so they are not run in that case.
	os.MkdirAll(r.OutDir, 0o755)
	sem := make(chan struct{}, 6)
	var iwg sync.WaitGroup
	for _, f := range isolated {
		iwg.Add(1)
		sem <- struct{}{}
		go func() { defer iwg.Done(); f(); <-sem }()
	}
	iwg.Wait()
	if childCrashed.Load() {
		r.Extra("in_process_scenarios", "not run: an isolated configuration crashed its process")
	} else {
		for _, f := range inproc {
			f()
		}
	}
	r.Extra("slow_scenarios", slow)
	if !r.Quick() {
		raceChild(r)
	}
}

var slowInfo string

var oracleMu sync.Mutex

// orc records an oracle failure; scenario goroutines report concurrently.
func orc(c *vh.Case, class, format string, a ...any) {
	oracleMu.Lock()
	defer oracleMu.Unlock()
	c.Oracle(class, format, a...)
}

// fmtEvents renders the recorded steps (for replay files of failing cases).
func fmtEvents(events []ev, tgID int, limit int) []string {
	var out []string
	for _, e := range events {
		if len(e.Kind) > 3 && e.Kind[:3] == "tg." && e.A != tgID {
			continue
		}
		out = append(out, fmt.Sprintf("%d g%d %s a=%d b=%d", e.Seq, e.G, e.Kind, e.A%100000, e.B%100000))
	}
	if len(out) > limit {
		out = out[len(out)-limit:]
	}
	return out
}

func hasPrefix(s, p string) bool { return len(s) >= len(p) && s[:len(p)] == p }

// inventory checks that nothing of the code under test is still running.
func inventory(c *vh.Case) {
	if left := settleGoroutines(settleDeadline); len(left) > 0 {
		orc(c, "goroutine-left-after-close", "%d goroutine(s) of the code under test still running %v after everything was closed; first: %s", len(left), settleDeadline, firstLines(left[0], 8))
	}
}

// ---------------------------------------------------------------------------------------------
// ThreadGroup

func scenTG(name string, rng *vh.RNG, r *vh.Run) {
	workers := 2 + rng.Intn(40)
	stoppers := 1 + rng.Intn(3)
	useCtx := rng.Bool()
	stopAfter := time.Duration(rng.Intn(3000)) * time.Microsecond
	holds := make([]time.Duration, workers)
	delays := make([]time.Duration, workers)
	for i := range holds {
		holds[i] = time.Duration(rng.Intn(2000)) * time.Microsecond
		delays[i] = time.Duration(rng.Intn(4000)) * time.Microsecond
	}
	c := &vh.Case{Name: name, Tags: []string{"scen:tg", fmt.Sprintf("tg-workers:%d", workers/10*10)},
		Info: map[string]any{"workers": workers, "stoppers": stoppers, "ctx": useCtx, "stop_after_us": stopAfter.Microseconds()}}

	threadgroup.VerifStart()
	tg := threadgroup.New()
	var live, okAdds, rejAdds atomic.Int64
	var stopReturned atomic.Bool
	var liveAtReturn atomic.Int64
	liveAtReturn.Store(-1)
	var lateOK atomic.Int64 // Add succeeded after some Stop had returned
	var wg sync.WaitGroup
	for i := 0; i < workers; i++ {
		wg.Add(1)
		go func(i int) {
			defer wg.Done()
			time.Sleep(delays[i])
			after := stopReturned.Load()
			var done func()
			var err error
			if useCtx && i%2 == 0 {
				var ctx context.Context
				ctx, done, err = tg.AddContext(context.Background())
				if err == nil {
					live.Add(1)
					select {
					case <-ctx.Done():
					case <-time.After(holds[i]):
					}
				}
			} else {
				done, err = tg.Add()
				if err == nil {
					live.Add(1)
					time.Sleep(holds[i])
				}
			}
			if err != nil {
				if !errors.Is(err, threadgroup.ErrClosed) {
					orc(c, "tg-add-error", "Add returned %v", err)
				}
				rejAdds.Add(1)
				return
			}
			if after {
				lateOK.Add(1)
			}
			okAdds.Add(1)
			live.Add(-1)
			done()
		}(i)
	}
	time.Sleep(stopAfter)
	var swg sync.WaitGroup
	stopOK := make([]bool, stoppers)
	for j := 0; j < stoppers; j++ {
		swg.Add(1)
		go func(j int) {
			defer swg.Done()
			ok, _ := closeWithin(func() {
				tg.Stop()
				// `live` is decremented before done(): a thread counted here is inside the group
				if n := live.Load(); n != 0 {
					liveAtReturn.Store(n)
				}
				stopReturned.Store(true)
			}, closeDeadline)
			stopOK[j] = ok
		}(j)
	}
	swg.Wait()
	wg.Wait()
	for j, ok := range stopOK {
		if !ok {
			orc(c, "tg-stop-hung", "Stop call %d did not return within %v", j, closeDeadline)
		}
	}
	if n := liveAtReturn.Load(); n > 0 {
		orc(c, "tg-stop-returned-with-live-threads", "Stop returned while %d thread(s) were between Add and done", n)
	}
	if n := lateOK.Load(); n > 0 {
		orc(c, "tg-add-after-stop", "%d Add call(s) that started after Stop had returned succeeded", n)
	}
	if _, err := tg.Add(); !errors.Is(err, threadgroup.ErrClosed) {
		orc(c, "tg-add-after-stop", "Add after Stop returned %v", err)
	}
	if _, _, err := tg.AddContext(context.Background()); !errors.Is(err, threadgroup.ErrClosed) {
		orc(c, "tg-add-after-stop", "AddContext after Stop returned %v", err)
	}
	select {
	case <-tg.Done():
	default:
		orc(c, "tg-done-open", "Done() is not closed after Stop")
	}
	// a second Stop must return at once
	if ok, _ := closeWithin(tg.Stop, closeDeadline); !ok {
		orc(c, "tg-stop-hung", "second Stop did not return")
	}
	events := threadgroup.VerifStop()
	c.Nontrivial = okAdds.Load() > 0
	if rejAdds.Load() > 0 {
		c.Tags = append(c.Tags, "tg:add-refused")
	}
	c.Key = fmt.Sprintf("%s/%d/%d", name, okAdds.Load(), rejAdds.Load())
	inventory(c)
	r.Add(c)
	for _, tc := range tgCases(name, events, map[int]bool{tg.VerifID(): true}, []string{"scen:tg"}) {
		r.Add(tc)
	}
}

// ---------------------------------------------------------------------------------------------
// syncer: in-flight limits, back-pressure, Close with handlers in flight

type rpcResult struct {
	cli int
	err error
}

func scenInflight(name string, rng *vh.RNG, r *vh.Run) {
	maxPeer := limits[rng.Intn(len(limits))]
	maxSub := limits[rng.Intn(len(limits))]
	if rng.Chance(1, 4) { // a burst larger than 64 is too slow for the quick tier: bias to small limits
		maxPeer, maxSub = limits[rng.Intn(4)], limits[rng.Intn(4)]
	}
	nSub := 1 + rng.Intn(3)
	var cliSub []int
	for s := 0; s < nSub; s++ {
		for j := 0; j < 1+rng.Intn(3); j++ {
			cliSub = append(cliSub, s)
		}
	}
	bursts := make([]int, len(cliSub))
	total := 0
	for i := range bursts {
		bursts[i] = 1 + rng.Intn(6)
		total += bursts[i]
	}
	closeMode := rng.Intn(4) // 0: drain fully then close; 1: close while all held; 2: close mid-release; 3: close after partial release
	c := &vh.Case{Name: name, Tags: []string{"scen:inflight", fmt.Sprintf("maxPeer:%d", maxPeer), fmt.Sprintf("maxSub:%d", maxSub), fmt.Sprintf("closeMode:%d", closeMode)},
		Info: map[string]any{"maxPeer": maxPeer, "maxSub": maxSub, "clientSubnets": cliSub, "bursts": bursts, "closeMode": closeMode}}
	defer func() { r.Add(c) }()

	threadgroup.VerifStart()
	subOf := func(cli int) int {
		if cli >= 0 && cli < len(cliSub) {
			return cliSub[cli]
		}
		return -1
	}
	srv, err := newNode("127.0.0.1", "", subOf, true,
		syncer.WithMaxInflightRPCs(maxPeer), syncer.WithMaxInflightRPCsPerSubnet(maxSub),
		syncer.WithInflightRPCSubnetPrefixes(24, 48))
	if err != nil {
		orc(c, "setup", "server: %v", err)
		return
	}
	genesis := srv.cm.Tip().ID
	var clients []*node
	var peers []*syncer.Peer
	perSubSeen := map[int]int{}
	for i, s := range cliSub {
		perSubSeen[s]++
		ip := fmt.Sprintf("127.0.%d.%d", 10+s, perSubSeen[s])
		cl, err := newNode(ip, ip, nil, false)
		if err != nil {
			orc(c, "setup", "client %d: %v", i, err)
			return
		}
		clients = append(clients, cl)
		p, err := cl.s.Connect(context.Background(), srv.s.Addr())
		if err != nil {
			orc(c, "setup", "client %d connect: %v", i, err)
			return
		}
		peers = append(peers, p)
	}

	// burst.  The RPCs of ONE peer are issued one after the other (the next one only after the
	// previous request was written: confirmed by its handler entering the chain manager, or after
	// a pause for requests that must wait for a slot); different peers issue concurrently.  Fully
	// concurrent requests of one peer can wedge the connection for RPCTimeout (known finding
	// per-peer-backpressure-hol-stall, exercised by the scenario `holstall`).
	results := make(chan rpcResult, total)
	rpcN := 0
	var launchWG sync.WaitGroup
	for i, p := range peers {
		ids := make([]int, bursts[i])
		for k := range ids {
			ids[k] = rpcN
			rpcN++
		}
		launchWG.Add(1)
		go func(i int, p *syncer.Peer, ids []int) {
			defer launchWG.Done()
			for k, id := range ids {
				before := srv.gate.enteredBy(i)
				go func(id int) {
					results <- rpcResult{i, rpcBlocks(context.Background(), p, i, id, genesis, rpcTimeout)}
				}(id)
				if k+1 == len(ids) {
					break
				}
				deadline := time.Now().Add(stagger)
				for time.Now().Before(deadline) && srv.gate.enteredBy(i) == before {
					time.Sleep(200 * time.Microsecond)
				}
				if srv.gate.enteredBy(i) != before {
					continue // request read by its handler: safe to issue the next one
				}
				time.Sleep(stagger)
			}
		}(i, p, ids)
	}
	launchWG.Wait()
	// expected number of handlers that can be inside at once (see the comment in DESIGN/C18):
	// per subnet min(sum over its clients of min(burst, maxPeer), maxSub)
	expected := 0
	for s := 0; s < nSub; s++ {
		sum := 0
		for i, cs := range cliSub {
			if cs == s {
				sum += min(bursts[i], eff(maxPeer))
			}
		}
		expected += min(sum, eff(maxSub))
	}
	got := srv.gate.waitInside(expected, settleDeadline)
	got = srv.gate.waitStable(100*time.Millisecond, 3*time.Second)
	stalled := false
	if got != expected && holStalled() {
		stalled = true
		orc(c, holClass, "a handler that holds the per-peer slot waits for its request while the connection's read loop is blocked on a stream that waits for a slot (maxPeer %d, bursts %v): %d of %d handlers inside", maxPeer, bursts, got, expected)
	} else if got != expected {
		c.Info["events_at_failure"] = fmtEvents(threadgroup.VerifSnapshot(), srv.s.VerifTG(), 400)
		var stacks []string
		for _, g := range repoGoroutines() {
			if strings.Contains(g, "handleRPC") || strings.Contains(g, "callRPCContext") {
				stacks = append(stacks, firstLines(g, 24))
			}
		}
		c.Info["stacks_at_failure"] = stacks
		orc(c, "inflight-handlers-inside", "with every handler held, %d handler(s) are inside the chain manager, expected %d (maxPeer %d, maxSub %d, bursts %v, subnets %v)", got, expected, maxPeer, maxSub, bursts, cliSub)
	}
	checkMax := func() {
		srv.gate.mu.Lock()
		defer srv.gate.mu.Unlock()
		for cli, m := range srv.gate.maxCli {
			if maxPeer > 0 && m > maxPeer {
				orc(c, "inflight-peer-limit-exceeded", "client %d had %d handlers running at once, MaxInflightRPCs = %d", cli, m, maxPeer)
			}
		}
		for sub, m := range srv.gate.maxSub {
			if maxSub > 0 && m > maxSub {
				orc(c, "inflight-subnet-limit-exceeded", "subnet %d had %d handlers running at once, MaxInflightRPCsPerSubnet = %d", sub, m, maxSub)
			}
		}
	}
	checkMax()

	fails, succ := 0, 0
	collect := func(n int, d time.Duration) bool {
		deadline := time.After(d)
		for ; n > 0; n-- {
			select {
			case res := <-results:
				if res.err != nil {
					fails++
				} else {
					succ++
				}
			case <-deadline:
				return false
			}
		}
		return true
	}
	closed := false
	var closeDone chan struct{}
	startClose := func() {
		closeDone = make(chan struct{})
		go func() {
			srv.s.Close()
			if n := srv.gate.insideNow(); n > 0 {
				orc(c, "close-returned-with-handlers-running", "Syncer.Close returned while %d RPC handler(s) were inside the chain manager", n)
			}
			close(closeDone)
		}()
		closed = true
	}
	if stalled {
		closeMode = 1 // the connection is wedged: only Close (which closes the peers) resolves it
	}
	switch closeMode {
	case 0:
		// release in random chunks until everything has been answered
		drainStart := time.Now()
		for left := total; left > 0; {
			srv.gate.release(1 + rng.Intn(4))
			time.Sleep(time.Duration(rng.Intn(1500)) * time.Microsecond)
			for {
				select {
				case res := <-results:
					if res.err != nil {
						fails++
					} else {
						succ++
					}
					left--
					continue
				default:
				}
				break
			}
			if srv.gate.insideNow() == 0 && left > 0 {
				// nothing is held right now: wait for the next arrival or result
				select {
				case res := <-results:
					if res.err != nil {
						fails++
					} else {
						succ++
					}
					left--
				case <-time.After(20 * time.Millisecond):
				}
			}
			if time.Since(drainStart) > rpcTimeout+settleDeadline || (time.Since(drainStart) > settleDeadline && holStalled()) {
				break
			}
		}
		checkMax()
		rej := 0
		for _, e := range threadgroup.VerifSnapshot() {
			if e.Kind == "s.sub.rej" {
				rej++
			}
		}
		if (succ+fails != total || fails != rej) && holStalled() {
			orc(c, holClass, "RPCs of a peer stalled behind the per-peer limit (maxPeer %d, bursts %v): %d answered, %d failed, %d rejected by the subnet limit", maxPeer, bursts, succ, fails, rej)
		} else if succ+fails != total {
			orc(c, "rpc-lost", "%d of %d RPCs never completed", total-succ-fails, total)
		} else if fails != rej {
			orc(c, "rpc-dropped-on-per-peer-path", "%d RPC(s) failed but the subnet limit rejected only %d (maxPeer %d, maxSub %d): a request was dropped although no subnet was over budget", fails, rej, maxPeer, maxSub)
		}
		if maxSub <= 0 && fails > 0 && !holStalled() {
			orc(c, "rpc-dropped-on-per-peer-path", "%d RPC(s) failed with the subnet limit disabled (per-peer limit %d must back-pressure, not drop)", fails, maxPeer)
		}
	case 1:
		startClose()
	case 2:
		srv.gate.release(1 + rng.Intn(expected+1))
		time.Sleep(time.Duration(rng.Intn(1000)) * time.Microsecond)
		startClose()
	case 3:
		srv.gate.release(1 + rng.Intn(expected+1))
		srv.gate.waitStable(30*time.Millisecond, time.Second)
		startClose()
	}
	if !closed {
		startClose()
	} else {
		// Close must still be waiting while handlers are held
		time.Sleep(time.Duration(rng.Intn(3000)) * time.Microsecond)
	}
	srv.gate.setOpen(true)
	select {
	case <-closeDone:
	case <-time.After(closeDeadline):
		orc(c, "syncer-close-hung", "Syncer.Close did not return within %v after every handler was released", closeDeadline)
	}
	if !collect(total-succ-fails, settleDeadline) {
		orc(c, "rpc-hung-after-close", "%d RPC call(s) still blocked %v after the server was closed", total-succ-fails, settleDeadline)
	}
	select {
	case <-srv.run:
	case <-time.After(settleDeadline):
		orc(c, "run-not-returned", "Syncer.Run has not returned %v after Close returned", settleDeadline)
	}
	if _, err := srv.s.Connect(context.Background(), clients[0].s.Addr()); !errors.Is(err, threadgroup.ErrClosed) {
		orc(c, "connect-after-close", "Connect after Close returned %v, want ErrClosed", err)
	}
	checkMax()
	remotesDisconnected(c, clients)
	for _, cl := range clients {
		if ok, _ := closeWithin(func() { cl.s.Close() }, closeDeadline); !ok {
			orc(c, "syncer-close-hung", "client Close did not return within %v", closeDeadline)
		}
	}
	events := threadgroup.VerifStop()
	c.Nontrivial = true
	c.Key = fmt.Sprintf("%s/%d/%d/%d", name, succ, fails, len(events))
	c.Tags = append(c.Tags, fmt.Sprintf("rpcs:%d", total/8*8))
	if closeMode == 0 && fails > 0 {
		c.Tags = append(c.Tags, "inflight:subnet-drop")
	}
	inventory(c)
	tags := []string{"scen:inflight"}
	for _, tc := range inflightCases(name, events, srv.s.VerifID(), srv.s.VerifTG(), maxPeer, maxSub, tags) {
		r.Add(tc)
	}
	for _, tc := range tgCases(name, events, nil, tags) {
		r.Add(tc)
	}
}

// scenChurn: handlers are never held; every client issues RPCs one after the other as fast as it
// can while Close is called at a random moment, so that Close lands between "handler goroutine
// started" and its tg.Add (the exit "thread group already closed"), between the slot being taken
// and acquireInflight, and in the select that waits for a slot.
func scenChurn(name string, rng *vh.RNG, r *vh.Run) {
	maxPeer := limits[rng.Intn(len(limits))]
	maxSub := limits[rng.Intn(len(limits))]
	nCli := 1 + rng.Intn(5)
	closeAfter := time.Duration(500+rng.Intn(12000)) * time.Microsecond
	c := &vh.Case{Name: name, Tags: []string{"scen:churn", fmt.Sprintf("maxPeer:%d", maxPeer), fmt.Sprintf("maxSub:%d", maxSub)},
		Info: map[string]any{"maxPeer": maxPeer, "maxSub": maxSub, "clients": nCli, "close_after_us": closeAfter.Microseconds()}}
	defer func() { r.Add(c) }()
	threadgroup.VerifStart()
	srv, err := newNode("127.0.0.1", "", func(int) int { return 0 }, true,
		syncer.WithMaxInflightRPCs(maxPeer), syncer.WithMaxInflightRPCsPerSubnet(maxSub), syncer.WithInflightRPCSubnetPrefixes(24, 48))
	if err != nil {
		orc(c, "setup", "server: %v", err)
		return
	}
	srv.gate.setOpen(true)
	genesis := srv.cm.Tip().ID
	var clients []*node
	var stop atomic.Bool
	var wg sync.WaitGroup
	var okN, errN atomic.Int64
	for i := 0; i < nCli; i++ {
		ip := fmt.Sprintf("127.0.20.%d", i+1)
		cl, err := newNode(ip, ip, nil, false)
		if err != nil {
			orc(c, "setup", "client: %v", err)
			return
		}
		clients = append(clients, cl)
		p, err := cl.s.Connect(context.Background(), srv.s.Addr())
		if err != nil {
			orc(c, "setup", "connect: %v", err)
			return
		}
		wg.Add(1)
		go func(i int) {
			defer wg.Done()
			for k := 0; !stop.Load() && k < 100000; k++ {
				if err := rpcBlocks(context.Background(), p, i, k, genesis, rpcTimeout); err != nil {
					errN.Add(1)
					if p.Err() != nil {
						return
					}
				} else {
					okN.Add(1)
				}
			}
		}(i)
	}
	time.Sleep(closeAfter)
	closeDone := make(chan struct{})
	go func() {
		srv.s.Close()
		if n := srv.gate.insideNow(); n > 0 {
			orc(c, "close-returned-with-handlers-running", "Syncer.Close returned while %d RPC handler(s) were inside the chain manager", n)
		}
		close(closeDone)
	}()
	select {
	case <-closeDone:
	case <-time.After(closeDeadline):
		orc(c, "syncer-close-hung", "Syncer.Close did not return within %v under RPC load", closeDeadline)
	}
	stop.Store(true)
	wg.Wait()
	srv.gate.mu.Lock()
	for cli, m := range srv.gate.maxCli {
		if maxPeer > 0 && m > maxPeer {
			orc(c, "inflight-peer-limit-exceeded", "client %d had %d handlers running at once, MaxInflightRPCs = %d", cli, m, maxPeer)
		}
	}
	if m := srv.gate.maxSub[0]; maxSub > 0 && m > maxSub {
		orc(c, "inflight-subnet-limit-exceeded", "the subnet had %d handlers running at once, MaxInflightRPCsPerSubnet = %d", m, maxSub)
	}
	srv.gate.mu.Unlock()
	remotesDisconnected(c, clients)
	for _, cl := range clients {
		closeWithin(func() { cl.s.Close() }, closeDeadline)
	}
	events := threadgroup.VerifStop()
	c.Nontrivial = okN.Load() > 0
	c.Key = fmt.Sprintf("%s/%d", name, len(events))
	c.Info["rpcs_ok"], c.Info["rpcs_failed"] = okN.Load(), errN.Load()
	inventory(c)
	tags := []string{"scen:churn"}
	for _, tc := range inflightCases(name, events, srv.s.VerifID(), srv.s.VerifTG(), maxPeer, maxSub, tags) {
		for _, op := range tc.Impl {
			if op == "closed" {
				tc.Tags = append(tc.Tags, "exit:handler-refused-by-thread-group")
				break
			}
		}
		r.Add(tc)
	}
	for _, tc := range tgCases(name, events, map[int]bool{srv.s.VerifTG(): true}, tags) {
		r.Add(tc)
	}
	if tc := teardownCase(name, events, srv.s.VerifID(), srv.s.VerifTG(), tags); tc != nil {
		r.Add(tc)
	}
}

// scenRejects: one connection collects at least MaxInflightRPCs requests that the subnet limit
// drops (another peer of the subnet pins the subnet's slots), then the subnet drains and the SAME
// connection must be served again.  A per-peer slot that is not given back on the over-budget
// path exceeds no limit; it shows only here: the peer is never served again, and the number of
// per-peer slots in use that the real code reports at a quiescent moment is not zero.
func scenRejects(name string, rng *vh.RNG, r *vh.Run) {
	maxPeer := 1 + rng.Intn(3)
	maxSub := 1 + rng.Intn(2)
	rejects := 1 + rng.Intn(maxPeer+2) // fewer than MaxInflightRPCs: the peer is still served, only the count shows a leak
	c := &vh.Case{Name: name, Tags: []string{"scen:rejects", fmt.Sprintf("maxPeer:%d", maxPeer), fmt.Sprintf("maxSub:%d", maxSub)},
		Info: map[string]any{"maxPeer": maxPeer, "maxSub": maxSub, "rejects": rejects}}
	defer func() { r.Add(c) }()
	threadgroup.VerifStart()
	srv, err := newNode("127.0.0.1", "", func(int) int { return 0 }, true,
		syncer.WithMaxInflightRPCs(maxPeer), syncer.WithMaxInflightRPCsPerSubnet(maxSub), syncer.WithInflightRPCSubnetPrefixes(24, 48))
	if err != nil {
		orc(c, "setup", "server: %v", err)
		return
	}
	genesis := srv.cm.Tip().ID
	var clients []*node
	var peers []*syncer.Peer
	// the pinning peers: each holds at most maxPeer handlers, together they fill the subnet
	nPin := (maxSub + maxPeer - 1) / maxPeer
	for i := 0; i <= nPin; i++ { // the last one is the peer whose requests are rejected
		ip := fmt.Sprintf("127.0.30.%d", i+1)
		cl, err := newNode(ip, ip, nil, false)
		if err != nil {
			orc(c, "setup", "client: %v", err)
			return
		}
		clients = append(clients, cl)
		p, err := cl.s.Connect(context.Background(), srv.s.Addr())
		if err != nil {
			orc(c, "setup", "connect: %v", err)
			return
		}
		peers = append(peers, p)
	}
	victim := nPin
	teardown := func() {
		srv.gate.setOpen(true)
		closeWithin(func() { srv.s.Close() }, closeDeadline)
		for _, cl := range clients {
			closeWithin(func() { cl.s.Close() }, closeDeadline)
		}
	}
	// phase 1: pin the subnet's slots (requests issued one after the other, handlers held)
	pinned := make(chan error, maxSub)
	for k := 0; k < maxSub; k++ {
		cli := k / maxPeer
		go func(k int) { pinned <- rpcBlocks(context.Background(), peers[cli], cli, k, genesis, rpcTimeout) }(k)
		if got := srv.gate.waitInside(k+1, settleDeadline); got != k+1 {
			orc(c, "inflight-handlers-inside", "pinning request %d did not reach its handler (%d inside)", k, got)
			teardown()
			threadgroup.VerifStop()
			return
		}
	}
	// phase 2: the victim's requests, one after the other; every one must be dropped promptly
	const promptly = 10 * time.Second
	for k := 0; k < rejects; k++ {
		t0 := time.Now()
		err := rpcBlocks(context.Background(), peers[victim], victim, 100+k, genesis, promptly)
		if err == nil {
			orc(c, "inflight-subnet-limit-exceeded", "request %d of the victim was served although the subnet's %d slot(s) are held", k, maxSub)
		} else if time.Since(t0) > promptly-time.Second {
			orc(c, "peer-never-served-again", "request %d of a peer whose earlier %d request(s) were dropped by the subnet limit was neither served nor dropped within %v (MaxInflightRPCs %d, MaxInflightRPCsPerSubnet %d): its accept loop no longer takes requests although it has nothing in flight", k, k, promptly, maxPeer, maxSub)
			break
		}
	}
	// phase 3: drain the subnet
	srv.gate.setOpen(true)
	for k := 0; k < maxSub; k++ {
		select {
		case err := <-pinned:
			if err != nil {
				orc(c, "rpc-lost", "a pinning request failed: %v", err)
			}
		case <-time.After(settleDeadline):
			orc(c, "rpc-lost", "a pinning request did not complete %v after its handler was released", settleDeadline)
		}
	}
	// quiescence: every handler has executed its release hook (one s.slot.ret with b=1 per
	// started handler), then a pause that is long compared with the two statements between the
	// hook and the release
	deadline := time.Now().Add(settleDeadline)
	for time.Now().Before(deadline) {
		started, released := 0, 0
		for _, e := range threadgroup.VerifSnapshot() {
			switch {
			case e.Kind == "s.h.start":
				started++
			case e.Kind == "s.slot.ret" && e.B == 1:
				released++
			}
		}
		if started == released {
			break
		}
		time.Sleep(2 * time.Millisecond)
	}
	time.Sleep(150 * time.Millisecond)
	quietFrom := len(threadgroup.VerifSnapshot())
	// phase 4: the victim (and then a pinning peer) must be served again
	for _, cli := range []int{victim, 0} {
		if len(c.Fails) > 0 && cli != victim {
			break
		}
		if err := rpcBlocks(context.Background(), peers[cli], cli, 200+cli, genesis, promptly); err != nil {
			orc(c, "peer-never-served-again", "after the subnet drained, a request of the peer that had %d request(s) dropped by the subnet limit was not served within %v (%v) although nothing is in flight (MaxInflightRPCs %d, MaxInflightRPCsPerSubnet %d)", rejects, promptly, err, maxPeer, maxSub)
		}
		time.Sleep(150 * time.Millisecond)
	}
	// the real code's own count of per-peer slots in use, reported at the quiescent moments
	for _, e := range threadgroup.VerifSnapshot() {
		if e.Seq >= quietFrom && e.Kind == "s.slot.want" && e.B != 0 {
			orc(c, "per-peer-slot-leaked", "len(inflight) = %d when a request arrived at a moment at which the peer has nothing in flight (after %d request(s) dropped by the subnet limit, MaxInflightRPCs %d)", e.B, rejects, maxPeer)
			break
		}
	}
	if ok, _ := closeWithin(func() { srv.s.Close() }, closeDeadline); !ok {
		orc(c, "syncer-close-hung", "Syncer.Close did not return within %v", closeDeadline)
	}
	remotesDisconnected(c, clients)
	for _, cl := range clients {
		closeWithin(func() { cl.s.Close() }, closeDeadline)
	}
	events := threadgroup.VerifStop()
	c.Nontrivial = true
	c.Key = fmt.Sprintf("%s/%d", name, len(events))
	inventory(c)
	for _, tc := range inflightCasesQ(name, events, srv.s.VerifID(), srv.s.VerifTG(), maxPeer, maxSub, quietFrom, []string{"scen:rejects"}) {
		r.Add(tc)
	}
}

var childMu sync.Mutex

// runChild executes one isolated scenario in a child process and turns what the child reports
// (oracle / correspondence failures, or its death) into a case of this run.
func runChild(name string, r *vh.Run) {
	c := &vh.Case{Name: name, Nontrivial: true, Key: name, Tags: []string{"scen:matrix", "isolated:child-process"}}
	defer func() { childMu.Lock(); r.Add(c); childMu.Unlock() }()
	dir, err := os.MkdirTemp(r.OutDir, "c18child")
	if err != nil {
		c.Oracle("harness-isolate", "%v", err)
		return
	}
	defer os.RemoveAll(dir)
	ctx, cancel := context.WithTimeout(context.Background(), 4*time.Minute)
	defer cancel()
	cmd := exec.CommandContext(ctx, os.Args[0], "C18", "-tier", r.Tier, "-seed", fmt.Sprint(r.Seed), "-drv", r.Drv, "-out", dir)
	cmd.Env = append(os.Environ(), "VERIF_C18_CHILD="+name)
	out, _ := cmd.CombinedOutput()
	code := cmd.ProcessState.ExitCode()
	text := string(out)
	c.Info = map[string]any{"child_exit": code}
	switch code {
	case 0:
	case 1:
		for _, l := range strings.Split(text, "\n") {
			t := strings.TrimSpace(l)
			for _, kind := range []string{"oracle", "corr"} {
				if strings.HasPrefix(t, kind+"[") {
					if i := strings.Index(t, "]"); i > 0 {
						c.Fail(kind, t[len(kind)+1:i], strings.TrimSpace(t[i+1:]))
					}
				}
			}
		}
		if len(c.Fails) == 0 {
			c.Oracle("child-failed", "%s", tail(text, 600))
		}
	default:
		msg := text
		if i := strings.Index(text, "panic:"); i >= 0 {
			msg = text[i:]
		}
		if len(msg) > 900 {
			msg = msg[:900]
		}
		childCrashed.Store(true)
		c.Oracle("process-crashed", "the process running the code under test died (exit %d) in this configuration: %s", code, msg)
	}
	// add the child's tie figures to this run's
	if b, err := os.ReadFile(dir + "/C18.part.json"); err == nil {
		var part struct {
			Ops    int `json:"model_ops_compared"`
			Traces int `json:"traces_validated_against_impl"`
		}
		if json.Unmarshal(b, &part) == nil {
			childMu.Lock()
			childOps += part.Ops
			childTraces += part.Traces
			r.Extra("isolated_children_model_ops_compared", childOps)
			r.Extra("isolated_children_traces_validated", childTraces)
			childMu.Unlock()
		}
	}
}

var childOps, childTraces int
var childCrashed atomic.Bool

// the configuration matrix: every combination of per-peer and per-subnet limit
var matrixPeer = []int{-1, 0, 1, 2, 64}
var matrixSub = []int{-1, 0, 1, 2}

// scenMatrix (runs in a child process): one configuration (MaxInflightRPCs, MaxInflightRPCsPerSubnet)
// of the matrix, chosen by the scenario's number so that every quick run covers all 20.  Whatever
// the limits (a limit >= 1, or <= 0 = disabled): a request that arrives while nothing is in flight
// must be served; with the handlers held, the number of handlers inside and the number of requests
// dropped are exactly what the two limits allow.
func scenMatrix(name string, rng *vh.RNG, r *vh.Run) {
	idx := 0
	fmt.Sscanf(name[len("matrix"):], "%d", &idx)
	maxPeer := matrixPeer[idx%len(matrixPeer)]
	maxSub := matrixSub[(idx/len(matrixPeer))%len(matrixSub)]
	burst := 3 + rng.Intn(2)
	c := &vh.Case{Name: name, Tags: []string{"scen:matrix", fmt.Sprintf("matrix:%d/%d", maxPeer, maxSub)},
		Info: map[string]any{"maxPeer": maxPeer, "maxSub": maxSub, "burst": burst}}
	defer func() { r.Add(c) }()
	threadgroup.VerifStart()
	srv, err := newNode("127.0.0.1", "", func(int) int { return 0 }, true,
		syncer.WithMaxInflightRPCs(maxPeer), syncer.WithMaxInflightRPCsPerSubnet(maxSub), syncer.WithInflightRPCSubnetPrefixes(24, 48))
	if err != nil {
		orc(c, "setup", "server: %v", err)
		return
	}
	srv.gate.setOpen(true)
	genesis := srv.cm.Tip().ID
	var clients []*node
	var peers []*syncer.Peer
	for i := 0; i < 2; i++ {
		ip := fmt.Sprintf("127.0.40.%d", i+1)
		cl, err := newNode(ip, ip, nil, false)
		if err != nil {
			orc(c, "setup", "client: %v", err)
			return
		}
		clients = append(clients, cl)
		p, err := cl.s.Connect(context.Background(), srv.s.Addr())
		if err != nil {
			orc(c, "setup", "connect: %v", err)
			return
		}
		peers = append(peers, p)
	}
	const promptly = 10 * time.Second
	// phase 1: one request at a time, nothing else in flight: no limit can bind
	for k, cli := range []int{0, 1, 0} {
		if err := rpcBlocks(context.Background(), peers[cli], cli, k, genesis, promptly); err != nil {
			orc(c, "rpc-never-served", "a request that arrived while nothing was in flight was not served within %v (%v) with MaxInflightRPCs = %d, MaxInflightRPCsPerSubnet = %d (<= 0 disables a limit)", promptly, err, maxPeer, maxSub)
			break
		}
		time.Sleep(20 * time.Millisecond)
	}
	// phase 2: handlers held, one peer issues `burst` requests one after the other
	if len(c.Fails) == 0 {
		srv.gate.setOpen(false)
		results := make(chan error, burst)
		for k := 0; k < burst; k++ {
			before := srv.gate.enteredBy(0)
			go func(k int) { results <- rpcBlocks(context.Background(), peers[0], 0, 10+k, genesis, rpcTimeout) }(k)
			deadline := time.Now().Add(stagger)
			for time.Now().Before(deadline) && srv.gate.enteredBy(0) == before {
				time.Sleep(200 * time.Microsecond)
			}
			if srv.gate.enteredBy(0) == before {
				time.Sleep(stagger)
			}
		}
		p, s := eff(maxPeer), eff(maxSub)
		expected := min(burst, p, s)
		// the subnet fills before the peer's own limit: every further request is dropped;
		// otherwise the further requests wait for a per-peer slot
		wantDropped := 0
		if s < p && s < burst {
			wantDropped = burst - s
		}
		srv.gate.waitInside(expected, settleDeadline)
		got := srv.gate.waitStable(100*time.Millisecond, 3*time.Second)
		dropped := 0
		deadline := time.Now().Add(settleDeadline)
		for dropped < wantDropped && time.Now().Before(deadline) {
			select {
			case err := <-results:
				if err != nil {
					dropped++
				} else {
					orc(c, "inflight-handlers-inside", "a request completed although every handler is held")
				}
			case <-time.After(50 * time.Millisecond):
			}
		}
		select {
		case err := <-results:
			if err != nil {
				dropped++
			}
		case <-time.After(150 * time.Millisecond):
		}
		switch {
		case (got != expected || dropped != wantDropped) && holStalled():
			orc(c, holClass, "stalled with maxPeer %d, maxSub %d", maxPeer, maxSub)
		case got != expected:
			orc(c, "inflight-handlers-inside", "with every handler held and %d requests of one peer, %d handler(s) are inside, expected %d (MaxInflightRPCs %d, MaxInflightRPCsPerSubnet %d)", burst, got, expected, maxPeer, maxSub)
		case dropped != wantDropped:
			orc(c, "inflight-drop-count", "with every handler held and %d requests of one peer, %d request(s) were dropped, expected %d: requests beyond the subnet's budget are dropped, requests beyond the peer's own limit wait (MaxInflightRPCs %d, MaxInflightRPCsPerSubnet %d)", burst, dropped, wantDropped, maxPeer, maxSub)
		}
		srv.gate.mu.Lock()
		if m := srv.gate.maxCli[0]; maxPeer > 0 && m > maxPeer {
			orc(c, "inflight-peer-limit-exceeded", "%d handlers of one peer ran at once, MaxInflightRPCs = %d", m, maxPeer)
		}
		if m := srv.gate.maxSub[0]; maxSub > 0 && m > maxSub {
			orc(c, "inflight-subnet-limit-exceeded", "%d handlers of the subnet ran at once, MaxInflightRPCsPerSubnet = %d", m, maxSub)
		}
		srv.gate.mu.Unlock()
		srv.gate.setOpen(true)
		left := burst - dropped
		deadline = time.Now().Add(rpcTimeout + settleDeadline)
		for left > 0 && time.Now().Before(deadline) {
			select {
			case err := <-results:
				left--
				if err != nil && !holStalled() {
					orc(c, "rpc-dropped-on-per-peer-path", "a request that was waiting for a slot failed after the handlers were released: %v", err)
				}
			case <-time.After(100 * time.Millisecond):
			}
		}
		if left > 0 {
			orc(c, "rpc-lost", "%d request(s) never completed", left)
		}
	}
	srv.gate.setOpen(true)
	if ok, _ := closeWithin(func() { srv.s.Close() }, closeDeadline); !ok {
		orc(c, "syncer-close-hung", "Syncer.Close did not return within %v", closeDeadline)
	}
	for _, cl := range clients {
		closeWithin(func() { cl.s.Close() }, closeDeadline)
	}
	events := threadgroup.VerifStop()
	c.Nontrivial = true
	c.Key = fmt.Sprintf("%s/%d/%d", name, maxPeer, maxSub)
	inventory(c)
	tags := []string{"scen:matrix"}
	for _, tc := range inflightCases(name, events, srv.s.VerifID(), srv.s.VerifTG(), maxPeer, maxSub, tags) {
		r.Add(tc)
	}
	if tc := teardownCase(name, events, srv.s.VerifID(), srv.s.VerifTG(), tags); tc != nil {
		r.Add(tc)
	}
}

// scenSyncClose: Close while a sync round is in progress.  The node under test connects to peers
// that are ahead; its syncLoop starts a round (parallelSync): one worker per peer downloads
// blocks, the round's ingestion goroutine hands them to the (gated) chain manager.
//
//	variant 0  one peer; the manager call is held while Close is called
//	variant 1  one peer; Close at a random moment of the round
//	variant 2  two or three peers whose block requests are held on the serving side; Close when at
//	           least two requests (a request and its end-of-round duplicate) are in flight
//	variant 4  17 to 22 peers, one block per request and at least as many requests as peers, all
//	           held on the serving side; Close when every peer has a request in flight (every
//	           worker owes one more response after the orchestrator has stopped reading)
//	variant 5  like 4 with 129 to 140 peers: more than the response channel's capacity
//	variant 3  four peers, two requests: one peer answers, the manager rejects the blocks
//	           (ingestion error aborts the round) while the other peers' requests are in flight;
//	           then Close
//
// Close must not return while a call into the manager is in progress, must return once the round's
// goroutines can end (every worker's response must find room although nobody reads any more), and
// nothing of the closed syncer may call into the manager afterwards.
func scenSyncClose(name string, rng *vh.RNG, r *vh.Run) {
	idx := 0
	fmt.Sscanf(name[len("syncclose"):], "%d", &idx)
	variant := []int{0, 2, 3, 1, 4, 5}[idx%6]
	if v := os.Getenv("VERIF_C18_SYNCCLOSE_PEERS"); v != "" {
		variant = 4 // manual experiment: a chosen number of peers (see DESIGN C18)
	}
	hold := variant == 0
	nBlocks := 8 + rng.Intn(30)
	closeAfter := time.Duration(rng.Intn(4000)) * time.Microsecond
	nPeers := 1
	switch variant {
	case 2:
		nPeers = 2 + rng.Intn(2)
	case 3:
		nPeers = 4
	case 4:
		// more peers than a small response buffer holds; one block per request, at least as many
		// requests as peers: every peer has a request in flight when the round is aborted
		nPeers = 17 + rng.Intn(6)
		if v := os.Getenv("VERIF_C18_SYNCCLOSE_PEERS"); v != "" {
			fmt.Sscanf(v, "%d", &nPeers)
		}
		nBlocks = nPeers + 4
	case 5:
		// more peers in one round than parallelSync's response channel holds (128): before the
		// repair 18a3fb1 Close hung here
		nPeers = 129 + rng.Intn(12)
		nBlocks = nPeers + 4
	}
	c := &vh.Case{Name: name, Tags: []string{"scen:syncclose", fmt.Sprintf("syncclose-variant:%d", variant)},
		Info: map[string]any{"variant": variant, "blocks": nBlocks, "peers": nPeers, "close_after_us": closeAfter.Microseconds()}}
	defer func() { r.Add(c) }()
	threadgroup.VerifStart()
	var ahead []*node
	var chain0 []types.Block
	for i := 0; i < nPeers; i++ {
		// in the multi-peer variants the serving side holds the block requests (variant 3: all but peer 0)
		gated := variant >= 2
		nd, err := newNode("127.0.0.1", "", nil, gated)
		if err != nil {
			orc(c, "setup", "peer: %v", err)
			return
		}
		if gated {
			nd.gate.setOpen(variant == 3 && i == 0)
		}
		ahead = append(ahead, nd)
		if i == 0 {
			for k := 0; k < nBlocks; k++ {
				b, ok := minex.MineBlock(nd.cm, types.VoidAddress)
				if !ok {
					orc(c, "setup", "mining failed")
					return
				}
				if err := nd.cm.AddBlocks([]types.Block{b}); err != nil {
					orc(c, "setup", "mined block rejected: %v", err)
					return
				}
				chain0 = append(chain0, b)
			}
		} else if err := nd.cm.AddBlocks(chain0); err != nil {
			orc(c, "setup", "peer chain: %v", err)
			return
		}
	}
	closeAll := func() {
		for _, nd := range ahead {
			if nd.gate != nil {
				nd.gate.setOpen(true)
			}
			closeWithin(func() { nd.s.Close() }, closeDeadline)
		}
	}
	opts := []syncer.Option{syncer.WithSyncInterval(20 * time.Millisecond)}
	switch variant {
	case 0, 1:
		opts = append(opts, syncer.WithMaxSendBlocks(uint64(3+rng.Intn(6))))
	case 3:
		opts = append(opts, syncer.WithMaxSendBlocks(uint64((nBlocks+1)/2))) // two requests
	case 4, 5:
		opts = append(opts, syncer.WithMaxSendBlocks(1))
	}
	srv, err := newNode("127.0.0.1", "", nil, true, opts...)
	if err != nil {
		orc(c, "setup", "server: %v", err)
		return
	}
	srv.gate.setOpen(true)
	srv.gate.setIngestShut(hold)
	if variant == 3 {
		srv.gate.mu.Lock()
		srv.gate.failIngest = true
		srv.gate.mu.Unlock()
	}
	for _, nd := range ahead {
		if _, err := srv.s.Connect(context.Background(), nd.s.Addr()); err != nil {
			orc(c, "setup", "connect: %v", err)
			return
		}
	}
	inFlight := func() int {
		n := 0
		for _, nd := range ahead {
			if nd.gate != nil {
				n += nd.gate.insideNow()
			}
		}
		return n
	}
	// wait for the moment
	deadline := time.Now().Add(settleDeadline)
	reached := false
	for !reached && time.Now().Before(deadline) {
		switch variant {
		case 0, 1:
			_, entered := srv.gate.ingestNow()
			reached = entered > 0
		case 2:
			reached = inFlight() >= 2
		case 4, 5:
			reached = inFlight() >= nPeers
		case 3:
			_, entered := srv.gate.ingestNow()
			// the answered request may be the second one (nothing to ingest yet): three
			// requests in flight and none answered any more is the moment as well
			reached = entered > 0 || (inFlight() >= 3 && time.Until(deadline) < settleDeadline-3*time.Second)
		}
		if !reached {
			time.Sleep(time.Millisecond)
		}
	}
	if !reached {
		// the rig could not set the scene (the round took another course, e.g. fewer requests than
		// the variant waits for): nothing has been observed about the property, so this is recorded
		// in the coverage, not reported as a violation; Close must still return
		c.Tags = append(c.Tags, fmt.Sprintf("setup-not-reached:syncclose-variant-%d", variant))
		c.Info["setup_not_reached"] = fmt.Sprintf("variant %d: the moment was not reached within %v (%d block requests in flight)", variant, settleDeadline, inFlight())
		srv.gate.setIngestShut(false)
		closeWithin(func() { srv.s.Close() }, closeDeadline)
		closeAll()
		threadgroup.VerifStop()
		return
	}
	c.Info["requests_in_flight_at_close"] = inFlight()
	if variant == 1 || variant == 3 {
		time.Sleep(closeAfter)
	}
	closeDone := make(chan struct{})
	go func() {
		srv.s.Close()
		if inside, _ := srv.gate.ingestNow(); inside > 0 {
			orc(c, "close-returned-with-chain-manager-call-in-progress", "Syncer.Close returned while %d call(s) of a sync round into the chain manager (AddBlocks / AddValidatedV2Blocks) were still in progress", inside)
		}
		close(closeDone)
	}()
	if hold {
		// Close has to wait for the held call
		select {
		case <-closeDone:
		case <-time.After(time.Duration(100+rng.Intn(200)) * time.Millisecond):
		}
		srv.gate.setIngestShut(false)
	}
	select {
	case <-closeDone:
	case <-time.After(closeDeadline):
		orc(c, "syncer-close-hung", "Syncer.Close did not return within %v during a sync round with %d peer(s) (variant %d, %d block request(s) in flight when Close was called): the round's goroutines cannot end", closeDeadline, nPeers, variant, c.Info["requests_in_flight_at_close"])
	}
	// nothing of the closed syncer calls into the manager afterwards
	_, enteredAtClose := srv.gate.ingestNow()
	time.Sleep(300 * time.Millisecond)
	if inside, entered := srv.gate.ingestNow(); entered > enteredAtClose || inside > 0 {
		orc(c, "calls-into-chain-manager-after-close", "%d call(s) into the chain manager began after Syncer.Close had returned (%d still in progress)", entered-enteredAtClose, inside)
	}
	select {
	case <-srv.run:
	case <-time.After(settleDeadline):
		orc(c, "run-not-returned", "Syncer.Run has not returned %v after Close returned", settleDeadline)
	}
	closeAll()
	events := threadgroup.VerifStop()
	c.Nontrivial = true
	c.Key = fmt.Sprintf("%s/%d", name, len(events))
	inventory(c)
	tags := []string{"scen:syncclose"}
	if tc := teardownCase(name, events, srv.s.VerifID(), srv.s.VerifTG(), tags); tc != nil {
		r.Add(tc)
	}
	for _, tc := range tgCases(name, events, map[int]bool{srv.s.VerifTG(): true}, tags) {
		r.Add(tc)
	}
}

// smallBufDialer dials with a tiny socket send buffer (so that a peer that stops reading blocks
// the sender after a few kilobytes).
type smallBufDialer struct{ net.Dialer }

func (d *smallBufDialer) DialContext(ctx context.Context, network, addr string) (net.Conn, error) {
	conn, err := d.Dialer.DialContext(ctx, network, addr)
	if tc, ok := conn.(*net.TCPConn); ok && err == nil {
		tc.SetWriteBuffer(2048)
	}
	return conn, err
}

// scenRelay: a broadcast to several peers returns at the first successful relay; the relays to the
// other peers go on in goroutines of their own, which must be members of the thread group (Close
// has to wait for them).  One peer is a regular node (fast), the others are raw gateway peers that
// complete the handshake and then never read: a multi-megabyte transaction set cannot be written
// to them, their relay stays in flight.  Close is called in that window.
func scenRelay(name string, rng *vh.RNG, r *vh.Run) {
	nSlow := 1 + rng.Intn(2)
	size := (3 + rng.Intn(2)) << 20
	c := &vh.Case{Name: name, Tags: []string{"scen:relay"}, Info: map[string]any{"slow_peers": nSlow, "payload": size}}
	defer func() { r.Add(c) }()
	threadgroup.VerifStart()
	srv, err := newNode("127.0.0.1", "", nil, false, syncer.WithDialer(&smallBufDialer{}))
	if err != nil {
		orc(c, "setup", "server: %v", err)
		return
	}
	fast, err := newNode("127.0.0.1", "", nil, false)
	if err != nil {
		orc(c, "setup", "peer: %v", err)
		return
	}
	if _, err := srv.s.Connect(context.Background(), fast.s.Addr()); err != nil {
		orc(c, "setup", "connect: %v", err)
		return
	}
	var listeners []net.Listener
	var transports []*gateway.Transport
	var tmu sync.Mutex
	for i := 0; i < nSlow; i++ {
		lr, err := net.Listen("tcp", "127.0.0.1:0")
		if err != nil {
			orc(c, "setup", "listen: %v", err)
			return
		}
		listeners = append(listeners, lr)
		hdr := srv.hdr
		hdr.UniqueID = gateway.GenerateUniqueID()
		hdr.NetAddress = lr.Addr().String()
		accepted := make(chan error, 1)
		go func() {
			conn, err := lr.Accept()
			if err != nil {
				accepted <- err
				return
			}
			if tc, ok := conn.(*net.TCPConn); ok {
				tc.SetReadBuffer(2048)
			}
			conn.SetDeadline(time.Now().Add(10 * time.Second))
			t, err := gateway.Accept(conn, hdr)
			if err == nil {
				conn.SetDeadline(time.Time{})
				tmu.Lock()
				transports = append(transports, t)
				tmu.Unlock()
			}
			accepted <- err
		}()
		if _, err := srv.s.Connect(context.Background(), lr.Addr().String()); err != nil {
			orc(c, "setup", "connect to the slow peer: %v", err)
			return
		}
		if err := <-accepted; err != nil {
			orc(c, "setup", "slow peer handshake: %v", err)
			return
		}
	}
	cleanup := func() {
		tmu.Lock()
		for _, t := range transports {
			t.Close()
		}
		tmu.Unlock()
		for _, l := range listeners {
			l.Close()
		}
		closeWithin(func() { fast.s.Close() }, closeDeadline)
	}
	nPeers := 1 + nSlow
	txns := []types.V2Transaction{{ArbitraryData: make([]byte, size)}}
	mark := len(threadgroup.VerifSnapshot())
	bdone := make(chan error, 1)
	go func() { bdone <- srv.s.BroadcastV2TransactionSet(srv.cm.Tip(), txns) }()
	select {
	case err := <-bdone:
		if err != nil {
			orc(c, "broadcast-failed", "BroadcastV2TransactionSet with one fast peer returned %v", err)
		}
	case <-time.After(settleDeadline):
		orc(c, "broadcast-failed", "BroadcastV2TransactionSet with one fast peer did not return within %v", settleDeadline)
	}
	time.Sleep(50 * time.Millisecond)
	// every relay goroutine of the broadcast must have joined the thread group
	joined := map[int]bool{}
	for _, e := range threadgroup.VerifSnapshot()[mark:] {
		if e.Kind == "tg.add" && e.A == srv.s.VerifTG() && e.B == 1 {
			joined[e.G] = true
		}
	}
	inFlight := 0
	for _, g := range repoGoroutines() {
		if strings.Contains(g, "RelayV2TransactionSet") {
			inFlight++
		}
	}
	c.Info["relays_in_flight_after_broadcast_returned"] = inFlight
	if len(joined) < nPeers {
		orc(c, "relay-goroutine-outside-thread-group", "a broadcast to %d peers started %d relay goroutine(s) that joined the thread group (%d relay(s) still in flight after the broadcast returned): relays that outlive the broadcast run outside the thread group, Close does not wait for them", nPeers, len(joined), inFlight)
	}
	if inFlight > 0 {
		c.Tags = append(c.Tags, "relay:straggler-in-flight-at-close")
	}
	time.Sleep(time.Duration(rng.Intn(3000)) * time.Microsecond)
	closeDone := make(chan struct{})
	var after []string
	go func() {
		srv.s.Close()
		for _, g := range repoGoroutines() {
			if strings.Contains(g, "withPeers") {
				after = append(after, firstLines(g, 10))
			}
		}
		close(closeDone)
	}()
	select {
	case <-closeDone:
		if len(after) > 0 {
			orc(c, "relay-running-after-close", "%d relay goroutine(s) of a broadcast were still running when Syncer.Close returned: %s", len(after), after[0])
		}
	case <-time.After(closeDeadline):
		orc(c, "syncer-close-hung", "Syncer.Close did not return within %v with a relay in flight", closeDeadline)
	}
	if err := srv.s.BroadcastV2TransactionSet(srv.cm.Tip(), txns[:1]); err == nil {
		orc(c, "broadcast-after-close", "a broadcast after Close was not rejected")
	}
	cleanup()
	events := threadgroup.VerifStop()
	c.Nontrivial = true
	c.Key = fmt.Sprintf("%s/%d", name, len(events))
	inventory(c)
	tags := []string{"scen:relay"}
	if tc := teardownCase(name, events, srv.s.VerifID(), srv.s.VerifTG(), tags); tc != nil {
		r.Add(tc)
	}
	for _, tc := range tgCases(name, events, map[int]bool{srv.s.VerifTG(): true}, tags) {
		r.Add(tc)
	}
}

// scenUnknownID: raw peers that complete the handshake and send RPC ids the syncer has no handler
// for (an unknown specifier, garbage, and — as the last act of a connection — a truncated one).
// Limits are accounting, not leaks: once nothing runs, the per-subnet counter is back at zero, and
// an ordinary RPC from the same subnet is served.  At least MaxInflightRPCsPerSubnet unknown ids
// are sent, over several connections (the slot must survive neither disconnect nor reconnect).
func scenUnknownID(name string, rng *vh.RNG, r *vh.Run) {
	maxPeer := 1 + rng.Intn(3)
	maxSub := 1 + rng.Intn(3)
	nBad := maxSub + rng.Intn(3)
	nConns := 1 + rng.Intn(2)
	c := &vh.Case{Name: name, Tags: []string{"scen:unknownid", fmt.Sprintf("maxSub:%d", maxSub)},
		Info: map[string]any{"maxPeer": maxPeer, "maxSub": maxSub, "unknown_ids": nBad, "connections": nConns}}
	defer func() { r.Add(c) }()
	threadgroup.VerifStart()
	srv, err := newNode("127.0.0.1", "", func(int) int { return 0 }, true,
		syncer.WithMaxInflightRPCs(maxPeer), syncer.WithMaxInflightRPCsPerSubnet(maxSub), syncer.WithInflightRPCSubnetPrefixes(24, 48))
	if err != nil {
		orc(c, "setup", "server: %v", err)
		return
	}
	srv.gate.setOpen(true)
	genesis := srv.cm.Tip().ID
	sent := 0
	for k := 0; k < nConns; k++ {
		hdr := srv.hdr
		hdr.UniqueID = gateway.GenerateUniqueID()
		hdr.NetAddress = fmt.Sprintf("127.0.50.%d:%d", 10+k, 30000+k)
		rp, err := dialRaw(fmt.Sprintf("127.0.50.%d", 10+k), srv.s.Addr(), hdr)
		if err != nil {
			orc(c, "setup", "raw peer: %v", err)
			return
		}
		// one id at a time: each must be answered (the stream is closed) before the next
		share := (nBad + nConns - 1) / nConns
		for i := 0; i < share && sent < nBad; i++ {
			var id [16]byte
			switch rng.Intn(3) {
			case 0:
				copy(id[:], "NoSuchRPC")
			case 1:
				rng.Bytes(id[:])
				id[0] |= 0x80 // not one of the nine ASCII specifiers
			default:
				copy(id[:], "SendV2Blocksx")
			}
			rp.send(id[:], 5*time.Second)
			sent++
		}
		if rng.Bool() {
			rp.send([]byte{'T', 'r', 'u', 'n'}, 2*time.Second) // truncated specifier: the connection is dropped
		}
		rp.close()
	}
	// quiescence: every started handler has executed its release hook
	deadline := time.Now().Add(settleDeadline)
	for time.Now().Before(deadline) {
		started, released := 0, 0
		for _, e := range threadgroup.VerifSnapshot() {
			switch {
			case e.Kind == "s.h.start":
				started++
			case e.Kind == "s.slot.ret" && e.B == 1:
				released++
			}
		}
		if started == released {
			break
		}
		time.Sleep(2 * time.Millisecond)
	}
	time.Sleep(100 * time.Millisecond)
	quietFrom := len(threadgroup.VerifSnapshot())
	// an ordinary peer of the same subnet
	cl, err := newNode("127.0.50.2", "127.0.50.2", nil, false)
	if err != nil {
		orc(c, "setup", "client: %v", err)
		return
	}
	p, err := cl.s.Connect(context.Background(), srv.s.Addr())
	if err != nil {
		orc(c, "setup", "connect: %v", err)
		return
	}
	const promptly = 10 * time.Second
	if err := rpcBlocks(context.Background(), p, 0, 1, genesis, promptly); err != nil {
		orc(c, "subnet-never-served-again", "after %d RPC(s) with unknown ids from the subnet (all answered, nothing in flight) an ordinary RPC from the same subnet was not served (%v), MaxInflightRPCsPerSubnet = %d: every request of the subnet is dropped although no handler runs", sent, err, maxSub)
	}
	// the real counter, as the code reports it under inflightMu at the next acquisition / rejection
	for _, e := range threadgroup.VerifSnapshot()[quietFrom:] {
		if e.Kind == "s.sub.acq" && e.B != 1 {
			orc(c, "subnet-slot-leaked", "inflightSubnet = %d after acquiring ONE slot at a moment at which no handler of the subnet runs (after %d unknown ids): the per-subnet counter does not return to zero", e.B, sent)
			break
		} else if e.Kind == "s.sub.rej" {
			orc(c, "subnet-slot-leaked", "an RPC was rejected with inflightSubnet = %d at a moment at which no handler of the subnet runs (after %d unknown ids)", e.B, sent)
			break
		}
	}
	if ok, _ := closeWithin(func() { srv.s.Close() }, closeDeadline); !ok {
		orc(c, "syncer-close-hung", "Syncer.Close did not return within %v", closeDeadline)
	}
	closeWithin(func() { cl.s.Close() }, closeDeadline)
	events := threadgroup.VerifStop()
	c.Nontrivial = true
	c.Key = fmt.Sprintf("%s/%d", name, len(events))
	inventory(c)
	for _, tc := range inflightCasesQ(name, events, srv.s.VerifID(), srv.s.VerifTG(), maxPeer, maxSub, quietFrom, []string{"scen:unknownid"}) {
		r.Add(tc)
	}
}

// reorgCM records whether the wallet's OnReorg subscription has been cancelled.
type reorgCM struct {
	*chain.Manager
	subscribed, cancelled atomic.Int64
}

func (m *reorgCM) OnReorg(fn func(types.ChainIndex)) func() {
	m.subscribed.Add(1)
	cancel := m.Manager.OnReorg(fn)
	return func() { cancel(); m.cancelled.Add(1) }
}

// scenWalletNow: a wallet is constructed and closed AT ONCE, many times.  Close must wait for the
// rebroadcast goroutine that the constructor starts, also when that goroutine has not been
// scheduled yet.  The verdict needs no sleeping: at the moment Close returns the wallet's reorg
// subscription must have been cancelled (the goroutine's last act), and the goroutine must never
// find the thread group already stopped (it logs "failed to add context" when it does).  Half of
// the iterations run with GOMAXPROCS(1): there the goroutine cannot run before Close unless
// Close waits for it.
func scenWalletNow(name string, rng *vh.RNG, r *vh.Run) {
	iters := 100 + rng.Intn(100)
	c := &vh.Case{Name: name, Tags: []string{"scen:walletnow"}, Info: map[string]any{"iterations": iters}}
	defer func() { r.Add(c) }()
	threadgroup.VerifStart()
	n, genesis := testutil.V2Network()
	store, ts, err := chain.NewDBStore(chain.NewMemDB(), n, genesis, nil)
	if err != nil {
		orc(c, "setup", "%v", err)
		return
	}
	cm := &reorgCM{Manager: chain.NewManager(store, ts)}
	core, logs := observer.New(zap.DebugLevel)
	log := zap.New(core)
	notCancelled, first := 0, -1
	// every wallet stays reachable until the recording has been read: recorded events identify a
	// thread group by its address, which the allocator reuses for a later wallet's group once the
	// earlier one is garbage (seen once as a spurious "Add after Stop" in this family)
	var keep []*wallet.SingleAddressWallet
	if v := os.Getenv("VERIF_C18_WALLETNOW_ITERS"); v != "" {
		fmt.Sscanf(v, "%d", &iters)
	}
	prev := runtime.GOMAXPROCS(0)
	for i := 0; i < iters; i++ {
		if i == 0 {
			runtime.GOMAXPROCS(1)
		} else if i == iters/2 {
			runtime.GOMAXPROCS(prev)
		}
		before := cm.cancelled.Load()
		w, err := wallet.NewSingleAddressWallet(types.GeneratePrivateKey(), cm, testutil.NewEphemeralWalletStore(), &testutil.MockSyncer{}, wallet.WithLogger(log))
		if err != nil {
			runtime.GOMAXPROCS(prev)
			orc(c, "setup", "%v", err)
			return
		}
		w.Close()
		if os.Getenv("VERIF_C18_WALLETNOW_NORETAIN") == "" {
			keep = append(keep, w)
		}
		if cm.cancelled.Load() == before {
			notCancelled++
			if first < 0 {
				first = i
			}
		}
	}
	runtime.GOMAXPROCS(prev)
	events := threadgroup.VerifStop()
	inventory(c) // lets goroutines that were never waited for run to their end
	late := 0
	for _, e := range logs.All() {
		if strings.Contains(e.Message, "failed to add context") {
			late++
		}
	}
	if notCancelled > 0 || late > 0 {
		orc(c, "wallet-work-after-close", "in %d of %d construct-and-close iterations SingleAddressWallet.Close returned while the wallet's reorg subscription was still registered (first: iteration %d), and %d time(s) the rebroadcast goroutine started only after Close and found the thread group stopped (\"failed to add context\"): Close does not wait for the goroutine the constructor starts", notCancelled, iters, first, late)
	}
	c.Nontrivial = true
	c.Key = fmt.Sprintf("%s/%d", name, iters)
	runtime.KeepAlive(keep)
	tcs := tgCases(name, events, nil, []string{"scen:walletnow"})
	reused := 0
	for _, b := range tgBoundaries {
		reused += len(b)
	}
	c.Info["thread_group_addresses_reused"] = reused
	if os.Getenv("VERIF_C18_WALLETNOW_ITERS") == "" && len(tcs) > 8 {
		tcs = tcs[:8]
	}
	for _, tc := range tcs {
		r.Add(tc)
	}
}

// scenHOL: fully concurrent requests of one peer against a small per-peer limit, handlers never
// held by the harness.  The per-peer limit is meant to back-pressure; because the transport hands
// frames to streams one at a time, a request frame of a stream that still waits for a slot can sit
// in front of the request of a handler that holds the slot, and the connection is wedged until
// RPCTimeout (known finding).  Anything else that makes an RPC fail here is a violation.
func scenHOL(name string, rng *vh.RNG, r *vh.Run) {
	limit := 1 + rng.Intn(2)
	k := limit + 1 + rng.Intn(4)
	c := &vh.Case{Name: name, Tags: []string{"scen:holstall", fmt.Sprintf("maxPeer:%d", limit)}, Info: map[string]any{"maxPeer": limit, "concurrent": k}}
	defer func() { r.Add(c) }()
	threadgroup.VerifStart()
	srv, err := newNode("127.0.0.1", "", nil, true, syncer.WithMaxInflightRPCs(limit), syncer.WithMaxInflightRPCsPerSubnet(0))
	if err != nil {
		orc(c, "setup", "server: %v", err)
		return
	}
	srv.gate.setOpen(true)
	cl, err := newNode("127.0.0.1", "", nil, false)
	if err != nil {
		orc(c, "setup", "client: %v", err)
		return
	}
	p, err := cl.s.Connect(context.Background(), srv.s.Addr())
	if err != nil {
		orc(c, "setup", "connect: %v", err)
		return
	}
	genesis := srv.cm.Tip().ID
	var wg sync.WaitGroup
	var failed atomic.Int64
	for i := 0; i < k; i++ {
		wg.Add(1)
		go func(i int) {
			defer wg.Done()
			if err := rpcBlocks(context.Background(), p, 0, i, genesis, 4*time.Second); err != nil {
				failed.Add(1)
			}
		}(i)
	}
	wg.Wait()
	if n := failed.Load(); n > 0 {
		if holStalled() {
			orc(c, holClass, "%d of %d concurrent RPCs of one peer timed out with MaxInflightRPCs = %d although no handler was ever held: the handler that owns the slot waits for its request behind the frame of a request that waits for the slot", n, k, limit)
			c.Tags = append(c.Tags, "holstall:hit")
		} else {
			orc(c, "rpc-dropped-on-per-peer-path", "%d of %d concurrent RPCs of one peer failed with MaxInflightRPCs = %d and the subnet limit disabled", n, k, limit)
		}
	}
	srv.gate.mu.Lock()
	maxSeen := srv.gate.maxCli[0]
	srv.gate.mu.Unlock()
	if maxSeen > limit {
		orc(c, "inflight-peer-limit-exceeded", "%d handlers of one peer ran at once, MaxInflightRPCs = %d", maxSeen, limit)
	}
	if ok, _ := closeWithin(func() { srv.s.Close() }, closeDeadline); !ok {
		orc(c, "syncer-close-hung", "Syncer.Close did not return within %v", closeDeadline)
	}
	closeWithin(func() { cl.s.Close() }, closeDeadline)
	events := threadgroup.VerifStop()
	c.Nontrivial = true
	c.Key = fmt.Sprintf("%s/%d", name, len(events))
	inventory(c)
	for _, tc := range inflightCases(name, events, srv.s.VerifID(), srv.s.VerifTG(), limit, 0, []string{"scen:holstall"}) {
		r.Add(tc)
	}
}

// remotesDisconnected: once a syncer's Close has returned every connection it had must be closed,
// i.e. every remote end loses its peer.
func remotesDisconnected(c *vh.Case, remotes []*node) {
	deadline := time.Now().Add(settleDeadline)
	for {
		left := 0
		for _, rm := range remotes {
			left += len(rm.s.Peers())
		}
		if left == 0 {
			return
		}
		if time.Now().After(deadline) {
			orc(c, "connection-left-open-after-close", "%d remote end(s) still hold an open connection %v after Syncer.Close returned", left, settleDeadline)
			return
		}
		time.Sleep(5 * time.Millisecond)
	}
}

// ---------------------------------------------------------------------------------------------
// syncer: peer caps under simultaneous connects

func countDir(s *syncer.Syncer) (in, out int) {
	for _, p := range s.Peers() {
		if p.Inbound {
			in++
		} else {
			out++
		}
	}
	return
}

func scenCaps(name string, rng *vh.RNG, r *vh.Run) {
	maxIns := []int{-1, 0, 1, 2, 3, 5, 64}
	maxIn := maxIns[rng.Intn(len(maxIns))]
	n := 4 + rng.Intn(13)
	rounds := 1 + rng.Intn(3)
	c := &vh.Case{Name: name, Tags: []string{"scen:caps", fmt.Sprintf("maxIn:%d", maxIn), fmt.Sprintf("dials:%d", n/4*4)},
		Info: map[string]any{"maxIn": maxIn, "dials": n, "rounds": rounds}}
	defer func() { r.Add(c) }()
	threadgroup.VerifStart()
	srv, err := newNode("127.0.0.1", "", nil, false, syncer.WithMaxInboundPeers(maxIn))
	if err != nil {
		orc(c, "setup", "server: %v", err)
		return
	}
	limit := max(maxIn, 0)
	var maxSeen atomic.Int64
	stopPoll := make(chan struct{})
	var pollWG sync.WaitGroup
	pollWG.Add(1)
	go func() {
		defer pollWG.Done()
		for {
			select {
			case <-stopPoll:
				return
			default:
			}
			in, _ := countDir(srv.s)
			if int64(in) > maxSeen.Load() {
				maxSeen.Store(int64(in))
			}
			time.Sleep(200 * time.Microsecond)
		}
	}()
	var all []*node
	alive := 0
	for round := 0; round < rounds; round++ {
		var batch []*node
		for i := 0; i < n; i++ {
			cl, err := newNode("127.0.0.1", "", nil, false)
			if err != nil {
				orc(c, "setup", "client: %v", err)
				return
			}
			batch = append(batch, cl)
		}
		all = append(all, batch...)
		start := make(chan struct{})
		var wg sync.WaitGroup
		for _, cl := range batch {
			wg.Add(1)
			jitter := time.Duration(rng.Intn(300)) * time.Microsecond
			go func(cl *node) {
				defer wg.Done()
				<-start
				time.Sleep(jitter)
				cl.s.Connect(context.Background(), srv.s.Addr())
			}(cl)
		}
		close(start)
		wg.Wait()
		// settle: the number of inbound peers must reach min(attempts, limit) and never exceed it
		want := min(alive+n, limit)
		deadline := time.Now().Add(settleDeadline)
		in := 0
		for {
			in, _ = countDir(srv.s)
			if in == want || time.Now().After(deadline) {
				break
			}
			time.Sleep(2 * time.Millisecond)
		}
		time.Sleep(20 * time.Millisecond)
		in, _ = countDir(srv.s)
		if in > limit {
			orc(c, "inbound-cap-exceeded", "%d inbound peers after %d simultaneous dials, MaxInboundPeers = %d", in, n, maxIn)
		} else if in != want {
			orc(c, "inbound-cap-underfilled", "%d inbound peers after %d simultaneous dials (round %d), expected %d with MaxInboundPeers = %d", in, n, round, want, maxIn)
		}
		alive = in
		// churn: close some of the connected clients so that the next round refills
		if round+1 < rounds {
			k := 0
			for _, cl := range all {
				if len(cl.s.Peers()) > 0 && rng.Bool() {
					cl.s.Close()
					k++
				}
			}
			deadline := time.Now().Add(settleDeadline)
			for {
				in, _ = countDir(srv.s)
				if in == alive-k || time.Now().After(deadline) {
					break
				}
				time.Sleep(2 * time.Millisecond)
			}
			alive = in
		}
	}
	close(stopPoll)
	pollWG.Wait()
	if int(maxSeen.Load()) > limit {
		orc(c, "inbound-cap-exceeded", "%d inbound peers observed at one moment, MaxInboundPeers = %d", maxSeen.Load(), maxIn)
	}
	if ok, _ := closeWithin(func() { srv.s.Close() }, closeDeadline); !ok {
		orc(c, "syncer-close-hung", "Syncer.Close did not return within %v", closeDeadline)
	}
	remotesDisconnected(c, all)
	for _, cl := range all {
		closeWithin(func() { cl.s.Close() }, closeDeadline)
	}
	events := threadgroup.VerifStop()
	c.Nontrivial = n > limit
	c.Key = fmt.Sprintf("%s/%d", name, len(events))
	inventory(c)
	tags := []string{"scen:caps"}
	r.Add(capsCase(name, events, srv.s.VerifID(), maxIn, 16, tags))
	if tc := teardownCase(name, events, srv.s.VerifID(), srv.s.VerifTG(), tags); tc != nil {
		r.Add(tc)
	}
	for _, tc := range tgCases(name, events, map[int]bool{srv.s.VerifTG(): true}, tags) {
		r.Add(tc)
	}
}

// scenStoreFail: the peer store fails (AddPeer or UpdatePeerInfo) for ONE connection after its
// handshake, inbound or outbound.  That connection is refused; it must leave no trace: Peers() does
// not list it, its cap slot is free again (further peers up to the cap are admitted), and Close —
// whose Run waits for the peer set to drain — returns.
func scenStoreFail(name string, rng *vh.RNG, r *vh.Run) {
	idx := 0
	fmt.Sscanf(name[len("storefail"):], "%d", &idx)
	failUpdate := idx%2 == 1 // even: AddPeer fails, odd: UpdatePeerInfo fails
	outbound := idx%4 >= 2   // 0,1: an inbound connection is hit; 2,3: an outbound one
	maxIn := 1 + rng.Intn(2)
	c := &vh.Case{Name: name, Tags: []string{"scen:storefail", fmt.Sprintf("storefail:update=%v,outbound=%v", failUpdate, outbound)},
		Info: map[string]any{"fail_update": failUpdate, "outbound": outbound, "maxIn": maxIn}}
	defer func() { r.Add(c) }()
	threadgroup.VerifStart()
	fs := &failStore{PeerStore: testutil.NewEphemeralPeerStore()}
	if failUpdate {
		fs.failUpdate = 1
	} else {
		fs.failAdd = 1
	}
	srv, err := newNodeFull("127.0.0.1", "", nil, false, fs, syncer.WithMaxInboundPeers(maxIn))
	if err != nil {
		orc(c, "setup", "server: %v", err)
		return
	}
	var remotes []*node
	for i := 0; i < maxIn+2; i++ {
		rm, err := newNode("127.0.0.1", "", nil, false, syncer.WithConnectTimeout(1500*time.Millisecond))
		if err != nil {
			orc(c, "setup", "remote: %v", err)
			return
		}
		remotes = append(remotes, rm)
	}
	// the connection that hits the failing store
	if outbound {
		if _, err := srv.s.Connect(context.Background(), remotes[0].s.Addr()); err == nil {
			orc(c, "storefail-connect-succeeded", "Connect returned no error although the peer store failed")
		}
	} else {
		remotes[0].s.Connect(context.Background(), srv.s.Addr())
	}
	deadline := time.Now().Add(settleDeadline)
	for fs.failed() == 0 && time.Now().Before(deadline) {
		time.Sleep(time.Millisecond)
	}
	if fs.failed() == 0 {
		orc(c, "setup", "the peer store was not reached")
	}
	// the refused connection leaves no trace (the refusal is complete when the remote end has lost it)
	deadline = time.Now().Add(settleDeadline)
	for (len(remotes[0].s.Peers()) != 0 || len(srv.s.Peers()) != 0) && time.Now().Before(deadline) {
		time.Sleep(2 * time.Millisecond)
	}
	if n := len(srv.s.Peers()); n != 0 {
		orc(c, "refused-peer-still-registered", "Peers() lists %d peer(s) after the only connection was refused because the peer store failed (%s): the peer is registered but never served or removed", n, map[bool]string{true: "UpdatePeerInfo", false: "AddPeer"}[failUpdate])
	}
	// its cap slot is free: maxIn further inbound peers are admitted, one more is not
	for i := 1; i <= maxIn+1; i++ {
		remotes[i].s.Connect(context.Background(), srv.s.Addr())
	}
	want := maxIn
	deadline = time.Now().Add(settleDeadline)
	in := 0
	for time.Now().Before(deadline) {
		in, _ = countDir(srv.s)
		if in == want {
			break
		}
		time.Sleep(2 * time.Millisecond)
	}
	time.Sleep(20 * time.Millisecond)
	in, _ = countDir(srv.s)
	live := 0
	for i := 1; i <= maxIn+1; i++ {
		live += len(remotes[i].s.Peers())
	}
	if in != want || live != want {
		orc(c, "cap-slot-held-by-refused-peer", "after a connection refused by a failing peer store, %d inbound peer(s) are registered and %d remote end(s) are connected, expected %d (MaxInboundPeers): the refused peer still occupies a slot", in, live, want)
	}
	if ok, _ := closeWithin(func() { srv.s.Close() }, closeDeadline); !ok {
		orc(c, "syncer-close-hung", "Syncer.Close did not return within %v after a connection was refused because the peer store failed: Run waits for a peer that nobody removes", closeDeadline)
	}
	select {
	case <-srv.run:
	case <-time.After(settleDeadline):
		orc(c, "run-not-returned", "Syncer.Run has not returned %v after Close", settleDeadline)
	}
	for _, rm := range remotes {
		closeWithin(func() { rm.s.Close() }, closeDeadline)
	}
	events := threadgroup.VerifStop()
	c.Nontrivial = true
	c.Key = fmt.Sprintf("%s/%d", name, len(events))
	inventory(c)
	tags := []string{"scen:storefail"}
	r.Add(capsCase(name, events, srv.s.VerifID(), maxIn, 16, tags))
	if tc := teardownCase(name, events, srv.s.VerifID(), srv.s.VerifTG(), tags); tc != nil {
		r.Add(tc)
	}
}

// scenBanLock: two connections of one address offend one after the other (an empty transaction set
// is a ban-worthy offence): the second strike bans the /32, i.e. the syncer calls PeerStore.Ban for
// the subnet.  The rig's store calls back into the syncer (Peers()) from every store call, as a
// store that drops the peers it bans would: the syncer must not hold its mutex while it calls the
// store.  Then Close.
func scenBanLock(name string, rng *vh.RNG, r *vh.Run) {
	strikes := 2 + rng.Intn(2)
	c := &vh.Case{Name: name, Tags: []string{"scen:banlock"}, Info: map[string]any{"offences": strikes}}
	defer func() { r.Add(c) }()
	threadgroup.VerifStart()
	fs := &failStore{PeerStore: testutil.NewEphemeralPeerStore()}
	srv, err := newNodeFull("127.0.0.1", "", nil, false, fs)
	if err != nil {
		orc(c, "setup", "server: %v", err)
		return
	}
	fs.mu.Lock()
	fs.probe = func() { srv.s.Peers() }
	fs.mu.Unlock()
	cl, err := newNode("127.0.60.1", "127.0.60.1", nil, false)
	if err != nil {
		orc(c, "setup", "client: %v", err)
		return
	}
	for k := 0; k < strikes; k++ {
		p, err := cl.s.Connect(context.Background(), srv.s.Addr())
		if err != nil {
			orc(c, "setup", "connect %d: %v", k, err)
			break
		}
		p.RelayV2TransactionSet(srv.cm.Tip(), nil, 5*time.Second)
		// the offender is dropped
		deadline := time.Now().Add(settleDeadline)
		for (len(srv.s.Peers()) != 0 || len(cl.s.Peers()) != 0) && time.Now().Before(deadline) {
			time.Sleep(2 * time.Millisecond)
		}
		if n := len(srv.s.Peers()); n != 0 {
			orc(c, "banned-peer-still-connected", "%d peer(s) still connected %v after an empty transaction set", n, settleDeadline)
			break
		}
	}
	fs.mu.Lock()
	held, bans := append([]string(nil), fs.lockHeld...), len(fs.bans)
	fs.mu.Unlock()
	c.Info["store_bans"] = bans
	if len(held) > 0 {
		orc(c, "peer-store-called-with-lock-held", "the syncer called the peer store with its mutex held: a callback into the syncer (Peers()) from %s did not return within 2s (a store that reacts to a ban by looking at the connected peers deadlocks; the RPC handler hangs with its thread-group slot)", held[0])
	}
	if bans < strikes+1 {
		orc(c, "subnet-not-banned", "the peer store saw %d Ban call(s) after %d offences of one address, expected at least %d (each peer, then the /32 at the second strike)", bans, strikes, strikes+1)
	}
	if ok, _ := closeWithin(func() { srv.s.Close() }, closeDeadline); !ok {
		orc(c, "syncer-close-hung", "Syncer.Close did not return within %v after a subnet ban", closeDeadline)
	}
	select {
	case <-srv.run:
	case <-time.After(settleDeadline):
		orc(c, "run-not-returned", "Syncer.Run has not returned %v after Close", settleDeadline)
	}
	closeWithin(func() { cl.s.Close() }, closeDeadline)
	events := threadgroup.VerifStop()
	c.Nontrivial = true
	c.Key = fmt.Sprintf("%s/%d", name, len(events))
	inventory(c)
	if tc := teardownCase(name, events, srv.s.VerifID(), srv.s.VerifTG(), []string{"scen:banlock"}); tc != nil {
		r.Add(tc)
	}
}

// scenSlowRPC: a SHORT RPCTimeout relative to the handlers' duration.  The per-peer limit is
// saturated by handlers that are held for longer than RPCTimeout; a further RPC of the same peer
// waits for a slot (back-pressure) for longer than RPCTimeout.  When the slot frees, that RPC must
// be served: its handler has the full timeout from the moment it starts.
func scenSlowRPC(name string, rng *vh.RNG, r *vh.Run) {
	maxPeer := 1 + rng.Intn(2)
	timeout := 500 * time.Millisecond
	hold := timeout + time.Duration(300+rng.Intn(200))*time.Millisecond
	c := &vh.Case{Name: name, Tags: []string{"scen:slowrpc", fmt.Sprintf("maxPeer:%d", maxPeer)},
		Info: map[string]any{"maxPeer": maxPeer, "rpc_timeout_ms": timeout.Milliseconds(), "hold_ms": hold.Milliseconds()}}
	defer func() { r.Add(c) }()
	threadgroup.VerifStart()
	srv, err := newNode("127.0.0.1", "", func(int) int { return 0 }, true,
		syncer.WithMaxInflightRPCs(maxPeer), syncer.WithMaxInflightRPCsPerSubnet(0), syncer.WithRPCTimeout(timeout))
	if err != nil {
		orc(c, "setup", "server: %v", err)
		return
	}
	cl, err := newNode("127.0.0.1", "", nil, false)
	if err != nil {
		orc(c, "setup", "client: %v", err)
		return
	}
	p, err := cl.s.Connect(context.Background(), srv.s.Addr())
	if err != nil {
		orc(c, "setup", "connect: %v", err)
		return
	}
	genesis := srv.cm.Tip().ID
	// saturate the per-peer limit with held handlers (issued one after the other)
	held := make(chan error, maxPeer)
	for k := 0; k < maxPeer; k++ {
		go func(k int) { held <- rpcBlocks(context.Background(), p, 0, k, genesis, rpcTimeout) }(k)
		if got := srv.gate.waitInside(k+1, settleDeadline); got != k+1 {
			orc(c, "setup", "handler %d did not start", k)
			srv.gate.setOpen(true)
			closeWithin(func() { srv.s.Close() }, closeDeadline)
			closeWithin(func() { cl.s.Close() }, closeDeadline)
			threadgroup.VerifStop()
			return
		}
	}
	// the back-pressured request
	waited := make(chan error, 1)
	t0 := time.Now()
	go func() { waited <- rpcBlocks(context.Background(), p, 0, 99, genesis, rpcTimeout) }()
	time.Sleep(hold)
	srv.gate.setOpen(true)
	select {
	case err := <-waited:
		if err != nil && !holStalled() {
			orc(c, "backpressured-rpc-dropped", "an RPC that waited %v for a per-peer slot (MaxInflightRPCs %d, RPCTimeout %v, the handlers ahead of it were held %v) was not served when the slot freed: %v — the per-peer limit must back-pressure, the waiting time is not part of the handler's timeout", time.Since(t0).Round(time.Millisecond), maxPeer, timeout, hold, err)
		}
	case <-time.After(rpcTimeout + settleDeadline):
		orc(c, "rpc-lost", "the back-pressured RPC never completed")
	}
	for k := 0; k < maxPeer; k++ {
		select {
		case <-held: // these were held past their own timeout: their outcome is not judged
		case <-time.After(settleDeadline):
		}
	}
	if ok, _ := closeWithin(func() { srv.s.Close() }, closeDeadline); !ok {
		orc(c, "syncer-close-hung", "Syncer.Close did not return within %v", closeDeadline)
	}
	closeWithin(func() { cl.s.Close() }, closeDeadline)
	events := threadgroup.VerifStop()
	c.Nontrivial = true
	c.Key = fmt.Sprintf("%s/%d", name, len(events))
	inventory(c)
	for _, tc := range inflightCases(name, events, srv.s.VerifID(), srv.s.VerifTG(), maxPeer, 0, []string{"scen:slowrpc"}) {
		r.Add(tc)
	}
}

// delayDialer delays the i-th dial by delays[i].
type delayDialer struct {
	net.Dialer
	n      atomic.Int32
	delays []time.Duration
}

func (d *delayDialer) DialContext(ctx context.Context, network, addr string) (net.Conn, error) {
	i := int(d.n.Add(1)) - 1
	select {
	case <-time.After(d.delays[i%len(d.delays)]):
	case <-ctx.Done():
		return nil, ctx.Err()
	}
	return d.Dialer.DialContext(ctx, network, addr)
}

// outbound: the automatic dialer must respect MaxOutboundPeers.
func scenCapsOut(name string, rng *vh.RNG, r *vh.Run) {
	// the limit is the scenario's number (2, 1, 3, 0, …): every quick run covers 1, 2 and 3; there
	// are always more reachable candidates than free slots, and dials take different times (a
	// dialer that delays each dial), so that a dial can complete while another would be in flight
	idx := 0
	fmt.Sscanf(name[len("capsout"):], "%d", &idx)
	maxOut := []int{2, 1, 3, 0}[idx%4]
	k := maxOut + 3 + rng.Intn(4)
	delays := make([]time.Duration, 64)
	for i := range delays {
		delays[i] = time.Duration(2+rng.Intn(40)) * time.Millisecond
	}
	c := &vh.Case{Name: name, Tags: []string{"scen:capsout", fmt.Sprintf("maxOut:%d", maxOut)}, Info: map[string]any{"maxOut": maxOut, "candidates": k}}
	defer func() { r.Add(c) }()
	threadgroup.VerifStart()
	var remotes []*node
	ps := testutil.NewEphemeralPeerStore()
	for i := 0; i < k; i++ {
		rm, err := newNode("127.0.0.1", "", nil, false)
		if err != nil {
			orc(c, "setup", "remote: %v", err)
			return
		}
		remotes = append(remotes, rm)
		ps.AddPeer(rm.s.Addr())
	}
	srv, err := newNodeStore("127.0.0.1", ps, syncer.WithMaxOutboundPeers(maxOut), syncer.WithPeerDiscoveryInterval(20*time.Millisecond),
		syncer.WithDialer(&delayDialer{delays: delays}))
	if err != nil {
		orc(c, "setup", "server: %v", err)
		return
	}
	want := min(k, maxOut)
	deadline := time.Now().Add(settleDeadline)
	maxSeen := 0
	var reached time.Time
	for {
		_, out := countDir(srv.s)
		maxSeen = max(maxSeen, out)
		if out == want && reached.IsZero() {
			reached = time.Now()
		}
		// keep watching for a while after the target was reached: the dialer keeps running
		if (!reached.IsZero() && time.Since(reached) > 300*time.Millisecond) || time.Now().After(deadline) {
			break
		}
		time.Sleep(time.Millisecond)
	}
	_, out := countDir(srv.s)
	if maxSeen > maxOut {
		orc(c, "outbound-cap-exceeded", "%d outbound peers formed by the automatic dialer, MaxOutboundPeers = %d", maxSeen, maxOut)
	} else if out != want {
		orc(c, "outbound-cap-underfilled", "%d outbound peers, expected %d of %d candidates with MaxOutboundPeers = %d", out, want, k, maxOut)
	}
	if ok, _ := closeWithin(func() { srv.s.Close() }, closeDeadline); !ok {
		orc(c, "syncer-close-hung", "Syncer.Close did not return within %v", closeDeadline)
	}
	remotesDisconnected(c, remotes)
	for _, rm := range remotes {
		closeWithin(func() { rm.s.Close() }, closeDeadline)
	}
	events := threadgroup.VerifStop()
	// exact: the number of outbound peers the code itself counted under s.mu at every insertion
	for _, e := range events {
		if e.Kind == "s.addpeer" && e.A == srv.s.VerifID() && e.B&1 == 0 && e.B>>1 > maxOut {
			orc(c, "outbound-cap-exceeded", "the automatic dialer inserted outbound peer number %d, MaxOutboundPeers = %d (%d reachable candidates)", e.B>>1, maxOut, k)
			break
		}
	}
	c.Nontrivial = k > maxOut
	c.Key = fmt.Sprintf("%s/%d", name, len(events))
	inventory(c)
	r.Add(capsCase(name, events, srv.s.VerifID(), 64, maxOut, []string{"scen:capsout"}))
}

// ---------------------------------------------------------------------------------------------
// syncer: Close at random moments relative to connections being established

func scenShutdown(name string, rng *vh.RNG, r *vh.Run) {
	// the mode is the scenario's number modulo 7, so that every quick run covers every mode
	idx := 0
	fmt.Sscanf(name[len("shutdown"):], "%d", &idx)
	mode := idx % 7 // 0: outbound Connects racing Close; 1: inbound dials racing Close; 2: fatal sync error, then Connect, then Close; 3: mixed + RPC traffic; 4: connections that complete the handshake but are not added (duplicate id / inbound limit) and send a frame at once; 5: the owner closes the net.Listener itself before Close (the listener is already closed when Close runs); 6: a fatal sync error makes Run close the listener, then Close
	nRem := 2 + rng.Intn(6)
	closeAfter := time.Duration(rng.Intn(2500)) * time.Microsecond
	c := &vh.Case{Name: name, Tags: []string{"scen:shutdown", fmt.Sprintf("shutdown-mode:%d", mode)},
		Info: map[string]any{"mode": mode, "remotes": nRem, "close_after_us": closeAfter.Microseconds()}}
	defer func() { r.Add(c) }()
	threadgroup.VerifStart()
	opts := []syncer.Option{}
	if mode == 2 || mode == 6 {
		opts = append(opts, syncer.WithSyncInterval(5*time.Millisecond))
	}
	maxIn := 64
	if mode == 4 {
		maxIn = 1 + rng.Intn(2)
		opts = append(opts, syncer.WithMaxInboundPeers(maxIn))
	}
	var ps syncer.PeerStore = testutil.NewEphemeralPeerStore()
	if mode == 4 {
		ps = slowStore{ps, 3 * time.Millisecond}
	}
	srv, err := newNodeFull("127.0.0.1", "", nil, true, ps, opts...)
	if err != nil {
		orc(c, "setup", "server: %v", err)
		return
	}
	srv.gate.setOpen(true)
	var remotes []*node
	for i := 0; i < nRem; i++ {
		// (a dial that reaches the listener's backlog just before the listener is closed is
		// never answered; the dialing side gives up after its own ConnectTimeout)
		rm, err := newNode("127.0.0.1", "", nil, false, syncer.WithConnectTimeout(1500*time.Millisecond))
		if err != nil {
			orc(c, "setup", "remote: %v", err)
			return
		}
		remotes = append(remotes, rm)
	}
	genesis := srv.cm.Tip().ID
	var wg sync.WaitGroup
	dial := func(i int, outbound bool, delay time.Duration) {
		wg.Add(1)
		go func() {
			defer wg.Done()
			time.Sleep(delay)
			if outbound {
				srv.s.Connect(context.Background(), remotes[i].s.Addr())
			} else {
				p, err := remotes[i].s.Connect(context.Background(), srv.s.Addr())
				if err == nil && mode == 3 {
					rpcBlocks(context.Background(), p, i, i, genesis, 30*time.Second)
				}
			}
		}()
	}
	switch mode {
	case 0:
		for i := range remotes {
			dial(i, true, time.Duration(rng.Intn(2000))*time.Microsecond)
		}
	case 1:
		for i := range remotes {
			dial(i, false, time.Duration(rng.Intn(2000))*time.Microsecond)
		}
	case 2:
		srv.gate.mu.Lock()
		srv.gate.failHist = true
		srv.gate.mu.Unlock()
		time.Sleep(30 * time.Millisecond) // syncLoop fails, Run closes the connected peers once
		for i := range remotes {
			dial(i, true, 0)
		}
		wg.Wait()
		time.Sleep(time.Duration(rng.Intn(20)) * time.Millisecond)
	case 3:
		for i := range remotes {
			dial(i, rng.Bool(), time.Duration(rng.Intn(2000))*time.Microsecond)
		}
	case 5, 6:
		// Close must stop the thread group although closing the listener reports an error
		for i := range remotes {
			if i%2 == 0 {
				dial(i, true, 0)
			}
		}
		wg.Wait()
		if mode == 5 {
			threadgroup.VerifRecord("x.listener.closed", srv.s.VerifID(), 0) // harness marker: environment step
			srv.l.Close()
		} else {
			srv.gate.mu.Lock()
			srv.gate.failHist = true
			srv.gate.mu.Unlock()
		}
		time.Sleep(time.Duration(10+rng.Intn(30)) * time.Millisecond) // Run notices, closes the listener and the peers
		for i := range remotes {
			if i%2 == 1 && rng.Bool() {
				dial(i, true, 0) // Connect still works until Close
			}
		}
		wg.Wait()
	case 4:
		// one regular peer, then raw connections: the first ones reuse its unique id (refused as
		// "already connected" after the handshake), the others have fresh ids and hit the inbound
		// limit at insertion or at allowConnect; each sends an RPC id right after the handshake and
		// then hangs up
		if rng.Bool() {
			remotes[0].s.Connect(context.Background(), srv.s.Addr())
		}
		for i := 0; i < 3+rng.Intn(6); i++ {
			// every connection advertises its own address (peers are keyed by advertised address;
			// several connections advertising one address are C11's subject, not this one's)
			hdr := remotes[0].hdr
			hdr.NetAddress = fmt.Sprintf("127.0.0.1:%d", 20000+i)
			if i%3 != 0 {
				hdr.UniqueID = gateway.GenerateUniqueID()
			}
			wg.Add(1)
			go func() {
				defer wg.Done()
				conn, err := net.DialTimeout("tcp", srv.s.Addr(), 5*time.Second)
				if err != nil {
					return
				}
				defer conn.Close()
				conn.SetDeadline(time.Now().Add(5 * time.Second))
				t, err := gateway.Dial(conn, hdr)
				if err != nil {
					return
				}
				// (the harness's own transport must be closed, not just its connection: its read
				// loop may be handing over the server's answer, which nobody reads)
				defer t.Close()
				if st, err := t.DialStream(); err == nil {
					st.WriteID(&gateway.RPCShareNodes{})
				}
				time.Sleep(5 * time.Millisecond)
			}()
		}
		wg.Wait()
	}
	time.Sleep(closeAfter)
	phase := time.Now()
	mark := func(k string) { c.Info["t_"+k+"_ms"] = time.Since(phase).Milliseconds(); phase = time.Now() }
	ok, took := closeWithin(func() { srv.s.Close() }, closeDeadline)
	mark("close")
	if !ok {
		orc(c, "syncer-close-hung", "Syncer.Close did not return within %v (mode %d: %s)", closeDeadline, mode,
			[]string{"outbound Connects racing Close", "inbound dials racing Close", "peer connected after a fatal sync error", "mixed dials and RPCs racing Close", "connections refused after the handshake", "listener closed by its owner before Close", "listener closed by Run after a fatal sync error"}[mode])
	}
	wg.Wait()
	mark("dials")
	if ok {
		select {
		case <-srv.run:
		case <-time.After(settleDeadline):
			orc(c, "run-not-returned", "Syncer.Run has not returned %v after Close returned", settleDeadline)
		}
		if n := len(srv.s.Peers()); n != 0 {
			// peers may be removed a moment after Close (runPeer that never joined the group)
			deadline := time.Now().Add(settleDeadline)
			for len(srv.s.Peers()) != 0 && time.Now().Before(deadline) {
				time.Sleep(2 * time.Millisecond)
			}
			if n := len(srv.s.Peers()); n != 0 {
				orc(c, "peers-left-after-close", "%d peer(s) still registered %v after Close returned", n, settleDeadline)
			}
		}
		remotesDisconnected(c, remotes)
		if _, err := srv.s.Connect(context.Background(), remotes[0].s.Addr()); !errors.Is(err, threadgroup.ErrClosed) {
			orc(c, "connect-after-close", "Connect after Close returned %v, want ErrClosed", err)
		}
	}
	mark("after")
	for _, rm := range remotes {
		if ok, _ := closeWithin(func() { rm.s.Close() }, closeDeadline); !ok {
			orc(c, "syncer-close-hung", "remote Close did not return within %v", closeDeadline)
		}
	}
	mark("remotes")
	events := threadgroup.VerifStop()
	c.Nontrivial = true
	c.Key = fmt.Sprintf("%s/%d", name, len(events))
	c.Info["close_took_ms"] = took.Milliseconds()
	inventory(c)
	mark("inventory")
	if time.Since(phase) > 0 {
		slowInfo = fmt.Sprintf("%v", c.Info)
	}
	tags := []string{"scen:shutdown"}
	r.Add(capsCase(name, events, srv.s.VerifID(), maxIn, 16, tags))
	if tc := teardownCase(name, events, srv.s.VerifID(), srv.s.VerifTG(), tags); tc != nil {
		r.Add(tc)
	} else {
		r.CountTag("teardown:not-started-before-close", 1)
	}
	for _, tc := range inflightCases(name, events, srv.s.VerifID(), srv.s.VerifTG(), 64, 256, tags) {
		r.Add(tc)
	}
	for _, tc := range tgCases(name, events, nil, tags) {
		r.Add(tc)
	}
}

// ---------------------------------------------------------------------------------------------
// rhp4 server: Close with in-flight RPCs

type gateSettings struct {
	*testutil.EphemeralSettingsReporter
	mu     sync.Mutex
	cond   *sync.Cond
	open   bool
	inside int
	max    int
}

func (g *gateSettings) RHP4Settings() proto4.HostSettings {
	g.mu.Lock()
	g.inside++
	g.max = max(g.max, g.inside)
	g.cond.Broadcast()
	for !g.open {
		g.cond.Wait()
	}
	g.inside--
	g.mu.Unlock()
	return g.EphemeralSettingsReporter.RHP4Settings()
}

func (g *gateSettings) insideNow() int { g.mu.Lock(); defer g.mu.Unlock(); return g.inside }
func (g *gateSettings) setOpen(v bool) { g.mu.Lock(); g.open = v; g.cond.Broadcast(); g.mu.Unlock() }

func scenSrv(name string, rng *vh.RNG, r *vh.Run) {
	nConn := 1 + rng.Intn(3)
	nRPC := 1 + rng.Intn(12)
	closeAfter := time.Duration(rng.Intn(3000)) * time.Microsecond
	holdAll := rng.Bool()
	c := &vh.Case{Name: name, Tags: []string{"scen:srv"}, Info: map[string]any{"conns": nConn, "rpcs": nRPC, "hold": holdAll, "close_after_us": closeAfter.Microseconds()}}
	defer func() { r.Add(c) }()
	threadgroup.VerifStart()
	n, genesis := testutil.V2Network()
	store, ts, err := chain.NewDBStore(chain.NewMemDB(), n, genesis, nil)
	if err != nil {
		orc(c, "setup", "%v", err)
		return
	}
	cm := chain.NewManager(store, ts)
	hostKey := types.NewPrivateKeyFromSeed(make([]byte, 32))
	ws := testutil.NewEphemeralWalletStore()
	w, err := wallet.NewSingleAddressWallet(hostKey, cm, ws, &testutil.MockSyncer{})
	if err != nil {
		orc(c, "setup", "%v", err)
		return
	}
	gs := &gateSettings{EphemeralSettingsReporter: testutil.NewEphemeralSettingsReporter()}
	gs.cond = sync.NewCond(&gs.mu)
	gs.open = !holdAll
	contractor := testutil.NewEphemeralContractor(cm)
	srv := rhp4.NewServer(hostKey, cm, contractor, w, gs, testutil.NewEphemeralSectorStore())
	l, err := net.Listen("tcp", "127.0.0.1:0")
	if err != nil {
		orc(c, "setup", "%v", err)
		return
	}
	go siamux.Serve(l, srv, zap.NewNop())
	var transports []rhp4.TransportClient
	for i := 0; i < nConn; i++ {
		t, err := siamux.Dial(context.Background(), l.Addr().String(), hostKey.PublicKey())
		if err != nil {
			orc(c, "setup", "dial: %v", err)
			return
		}
		transports = append(transports, t)
	}
	var wg sync.WaitGroup
	var okN, errN atomic.Int64
	for i := 0; i < nRPC; i++ {
		wg.Add(1)
		delay := time.Duration(rng.Intn(3000)) * time.Microsecond
		t := transports[i%nConn]
		go func() {
			defer wg.Done()
			time.Sleep(delay)
			ctx, cancel := context.WithTimeout(context.Background(), 60*time.Second)
			defer cancel()
			threadgroup.VerifRecord("x.srv.stream", 0, 0) // harness marker: a stream is about to reach Serve
			if _, err := rhp4.RPCSettings(ctx, t); err != nil {
				errN.Add(1)
			} else {
				okN.Add(1)
			}
		}()
	}
	time.Sleep(closeAfter)
	closeDone := make(chan struct{})
	go func() {
		threadgroup.VerifRecord("x.srv.close", 0, 0) // harness marker: names the goroutine that stops the server's group
		srv.Close()
		if k := gs.insideNow(); k > 0 {
			orc(c, "server-close-returned-with-handlers-running", "Server.Close returned while %d handler(s) were running", k)
		}
		close(closeDone)
	}()
	if holdAll {
		// Close must wait for the held handlers
		time.Sleep(time.Duration(2+rng.Intn(20)) * time.Millisecond)
		if gs.insideNow() > 0 {
			select {
			case <-closeDone:
				orc(c, "server-close-returned-with-handlers-running", "Server.Close returned although handlers are held")
			default:
			}
		}
		gs.setOpen(true)
	}
	select {
	case <-closeDone:
	case <-time.After(closeDeadline):
		orc(c, "server-close-hung", "Server.Close did not return within %v", closeDeadline)
	}
	wg.Wait()
	// work submitted after Close is refused
	for _, t := range transports {
		ctx, cancel := context.WithTimeout(context.Background(), 20*time.Second)
		threadgroup.VerifRecord("x.srv.stream", 0, 0)
		_, err := rhp4.RPCSettings(ctx, t)
		cancel()
		if err == nil {
			orc(c, "server-rpc-after-close", "an RPC submitted after Server.Close returned succeeded")
		}
	}
	for _, t := range transports {
		t.Close()
	}
	l.Close()
	closeWithin(func() { w.Close() }, closeDeadline)
	contractor.Close()
	events := threadgroup.VerifStop()
	c.Nontrivial = okN.Load() > 0 || errN.Load() > 0
	c.Key = fmt.Sprintf("%s/%d/%d", name, okN.Load(), errN.Load())
	if errN.Load() > 0 {
		c.Tags = append(c.Tags, "srv:refused-during-close")
	}
	inventory(c)
	if tc := srvCase(name, events, []string{"scen:srv"}); tc != nil {
		r.Add(tc)
	}
	for _, tc := range tgCases(name, events, nil, []string{"scen:srv"}) {
		r.Add(tc)
	}
}

// ---------------------------------------------------------------------------------------------
// wallet: Close with the rebroadcast loop busy

type gateWalletStore struct {
	*testutil.EphemeralWalletStore
	mu     sync.Mutex
	cond   *sync.Cond
	open   bool
	inside int
	calls  int
	// the first passFirst calls pass even when the gate is shut (the constructor's own call)
	passFirst int
}

func (g *gateWalletStore) BroadcastedSets() ([]wallet.BroadcastedSet, error) {
	g.mu.Lock()
	g.inside++
	g.calls++
	n := g.calls
	g.cond.Broadcast()
	for !g.open && n > g.passFirst {
		g.cond.Wait()
	}
	g.inside--
	g.mu.Unlock()
	return g.EphemeralWalletStore.BroadcastedSets()
}

func scenWallet(name string, rng *vh.RNG, r *vh.Run) {
	idx := 0
	fmt.Sscanf(name[len("wallet"):], "%d", &idx)
	// 0: a rebroadcast round is held inside the store while Close is called; 1: Close at a random
	// moment; 2: like 0 for a wallet REOPENED on a store that already holds a broadcasted set (the
	// store is gated from the constructor's own read on, so whatever the wallet starts first is held)
	variant := idx % 3
	hold := variant != 1
	c := &vh.Case{Name: name, Tags: []string{"scen:wallet", fmt.Sprintf("wallet-variant:%d", variant)}, Info: map[string]any{"variant": variant}}
	defer func() { r.Add(c) }()
	threadgroup.VerifStart()
	n, genesis := testutil.V2Network()
	store, ts, err := chain.NewDBStore(chain.NewMemDB(), n, genesis, nil)
	if err != nil {
		orc(c, "setup", "%v", err)
		return
	}
	cm := chain.NewManager(store, ts)
	gw := &gateWalletStore{EphemeralWalletStore: testutil.NewEphemeralWalletStore(), open: true}
	gw.cond = sync.NewCond(&gw.mu)
	if variant == 2 {
		gw.EphemeralWalletStore.AddBroadcastedSet(wallet.BroadcastedSet{Basis: cm.Tip(), BroadcastedAt: time.Now(),
			Transactions: []types.V2Transaction{{ArbitraryData: []byte("c18")}}})
		gw.open, gw.passFirst = false, 1
	}
	w, err := wallet.NewSingleAddressWallet(types.GeneratePrivateKey(), cm, gw, &testutil.MockSyncer{}, wallet.WithDebounceInterval(2*time.Millisecond))
	if err != nil {
		orc(c, "setup", "%v", err)
		return
	}
	if hold {
		gw.mu.Lock()
		gw.open = false
		gw.mu.Unlock()
		// the rebroadcast loop fires after the debounce interval and blocks in the store
		deadline := time.Now().Add(settleDeadline)
		for {
			gw.mu.Lock()
			in := gw.inside
			gw.mu.Unlock()
			if in > 0 || time.Now().After(deadline) {
				break
			}
			time.Sleep(time.Millisecond)
		}
	} else {
		time.Sleep(time.Duration(rng.Intn(6000)) * time.Microsecond)
	}
	closeDone := make(chan struct{})
	go func() {
		w.Close()
		gw.mu.Lock()
		in := gw.inside
		gw.mu.Unlock()
		if in > 0 {
			orc(c, "wallet-close-returned-with-work-running", "SingleAddressWallet.Close returned while the rebroadcast loop was inside the store")
		}
		close(closeDone)
	}()
	if hold {
		// (the verdict is taken by the closing goroutine at the moment Close returns)
		time.Sleep(time.Duration(2+rng.Intn(10)) * time.Millisecond)
		gw.mu.Lock()
		if gw.inside == 0 {
			c.Tags = append(c.Tags, "wallet:rebroadcast-not-started")
		}
		gw.mu.Unlock()
		gw.mu.Lock()
		gw.open = true
		gw.cond.Broadcast()
		gw.mu.Unlock()
	}
	select {
	case <-closeDone:
	case <-time.After(closeDeadline):
		orc(c, "wallet-close-hung", "SingleAddressWallet.Close did not return within %v", closeDeadline)
	}
	// nothing of the closed wallet uses the store afterwards
	gw.mu.Lock()
	callsAtClose := gw.calls
	gw.mu.Unlock()
	time.Sleep(150 * time.Millisecond)
	gw.mu.Lock()
	if gw.calls > callsAtClose || gw.inside > 0 {
		orc(c, "calls-into-store-after-close", "%d call(s) of the rebroadcast loop into the wallet store began after SingleAddressWallet.Close had returned (%d in progress)", gw.calls-callsAtClose, gw.inside)
	}
	gw.mu.Unlock()
	events := threadgroup.VerifStop()
	c.Nontrivial = true
	c.Key = fmt.Sprintf("%s/%v", name, hold)
	inventory(c)
	for _, tc := range tgCases(name, events, nil, []string{"scen:wallet"}) {
		r.Add(tc)
	}
}
