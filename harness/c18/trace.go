package c18

import (
	"fmt"

	"go.sia.tech/coreutils/threadgroup"
	"verifharness/vh"
)

// Translation of recorded verifEvent traces (threadgroup.VerifEvent, recorded inside the critical
// sections of the real code, see /repo threadgroup/verif_on.go and syncer/verif_on.go) into op
// lines of the `conc` model family.  Each event becomes one op line; the "impl" column is what
// the REAL code did at that step (its branch and, where the step runs under a mutex, the value of
// the real counter).  The model answers the same line from its own state, or `not-enabled`.

type ev = threadgroup.VerifEvent

// tgCases replays, for every thread group that appears in the trace, its projection through the
// ThreadGroup model.
func tgCases(name string, events []ev, only map[int]bool, tags []string) []*vh.Case {
	// A thread group is identified by its address, and an address is reused once a group has been
	// garbage collected.  `close(tg.closed)` can happen once per object, so a second "stop that
	// closed the channel" (tg.stop with b = 1) under one address proves a NEW object: the events
	// after the last Stop-return that precedes it belong to the new incarnation and are replayed
	// as a case of their own.  (An Add that succeeds after Stop on ONE object has no second
	// closing stop and is still reported.)
	incarnation := map[int]int{} // address -> current incarnation
	{
		type pos struct{ closes, lastRet int }
		seen := map[int]*pos{}
		boundary := map[int][]int{} // address -> Seq after which the next incarnation starts
		for _, e := range events {
			if len(e.Kind) < 3 || e.Kind[:3] != "tg." {
				continue
			}
			p := seen[e.A]
			if p == nil {
				p = &pos{lastRet: -1}
				seen[e.A] = p
			}
			switch {
			case e.Kind == "tg.stopped":
				p.lastRet = e.Seq
			case e.Kind == "tg.stop" && e.B == 1:
				p.closes++
				if p.closes > 1 && p.lastRet >= 0 {
					boundary[e.A] = append(boundary[e.A], p.lastRet)
					p.lastRet = -1
				}
			}
		}
		tgBoundaries = boundary
	}
	next := map[int]int{} // address -> index of the next boundary
	byTG := map[int]*vh.Case{}
	var order []int
	var all []*vh.Case
	for _, e := range events {
		if len(e.Kind) < 3 || e.Kind[:3] != "tg." {
			continue
		}
		if only != nil && !only[e.A] {
			continue
		}
		if bs := tgBoundaries[e.A]; next[e.A] < len(bs) && e.Seq > bs[next[e.A]] {
			next[e.A]++
			incarnation[e.A]++
			delete(byTG, e.A) // the events from here on are another object's
		}
		c := byTG[e.A]
		if c == nil {
			c = &vh.Case{Name: fmt.Sprintf("%s/tg%d", name, len(order)), Model: "conc tg", Nontrivial: true,
				Tags: append([]string{"trace:tg"}, tags...)}
			byTG[e.A] = c
			order = append(order, e.A)
			all = append(all, c)
		}
		switch e.Kind {
		case "tg.add":
			if e.B == 1 {
				c.Op("add", "ok")
			} else {
				c.Op("add", "closed")
			}
		case "tg.done":
			c.Op("done", "ok")
		case "tg.stop":
			if e.B == 1 {
				c.Op("stop", "first")
			} else {
				c.Op("stop", "again")
			}
		case "tg.stopped":
			c.Op("ret", "ok")
		}
	}
	for _, c := range all {
		// a trace is non-trivial when work and a stop interleave
		c.Key = fmt.Sprintf("%s#%d", c.Name, len(c.Ops))
	}
	return all
}

var tgBoundaries map[int][]int

// capsCase replays the allowConnect / addPeer / removal steps of one syncer through the peer-cap
// model.
func capsCase(name string, events []ev, syncerID int, maxIn, maxOut int, tags []string) *vh.Case {
	c := &vh.Case{Name: name + "/caps", Model: fmt.Sprintf("conc caps %d %d", maxIn, maxOut), Nontrivial: true,
		Tags: append([]string{"trace:caps"}, tags...)}
	dir := func(b int) string {
		if b&1 == 1 {
			return "in"
		}
		return "out"
	}
	for _, e := range events {
		if e.A != syncerID {
			continue
		}
		switch e.Kind {
		case "s.allow.ok":
			c.Op("allow "+dir(e.B), fmt.Sprintf("ok %d", e.B>>1))
		case "s.allow.rej":
			c.Op("allow "+dir(e.B), fmt.Sprintf("rej %d", e.B>>1))
		case "s.addpeer":
			c.Op("add "+dir(e.B), fmt.Sprintf("ok %d", e.B>>1))
		case "s.addpeer.rej":
			c.Op("add "+dir(e.B), fmt.Sprintf("rej %d", e.B>>1))
		case "s.rmpeer":
			c.Op("rm "+dir(e.B), fmt.Sprintf("ok %d", e.B>>1))
		}
	}
	c.Key = fmt.Sprintf("%s#%d", c.Name, len(c.Ops))
	return c
}

// inflightCases replays the in-flight accounting of one syncer, one case per subnet key
// (projection: the entries of inflightSubnet are independent).
func inflightCases(name string, events []ev, syncerID, tgID int, maxPeer, maxSub int, tags []string) []*vh.Case {
	return inflightCasesQ(name, events, syncerID, tgID, maxPeer, maxSub, -1, tags)
}

// inflightCasesQ: from event number quietFrom on (if >= 0) the harness guarantees that the
// slot.want / slot.take steps happen at quiescent moments (no handler of that peer is between its
// release hook and the release itself), so the real len(inflight) recorded by those steps is
// compared with the model's semaphore count (ops wantq / takeq).
func inflightCasesQ(name string, events []ev, syncerID, tgID int, maxPeer, maxSub int, quietFrom int, tags []string) []*vh.Case {
	// pass 1: roles of goroutines.
	type role struct {
		kind    int // 0 other, 1 runPeer loop, 2 handler
		peer    int // peer serial
		startAt int // loop: Seq of the tg.add that is runPeer's; handler: unused
		runAt   int // loop: Seq of s.peer.run
		exitAt  int // loop: Seq of the tg.done that is runPeer's (-1 unknown)
	}
	roles := map[int]*role{}
	lastAdd := map[int]int{} // G -> Seq of its latest successful tg.add on tgID
	peerOfPtr := map[int]int{}
	nPeers := 0
	peerSub := map[int]int{} // peer serial -> subnet id
	for _, e := range events {
		switch e.Kind {
		case "tg.add":
			if e.A == tgID && e.B == 1 {
				lastAdd[e.G] = e.Seq
			}
		case "tg.done":
			if e.A == tgID {
				if r := roles[e.G]; r != nil && r.kind == 1 && r.exitAt < 0 && e.Seq > r.runAt {
					r.exitAt = e.Seq
				}
			}
		case "s.peer.run":
			if e.A != syncerID {
				continue
			}
			peerOfPtr[e.B] = nPeers
			roles[e.G] = &role{kind: 1, peer: nPeers, startAt: lastAdd[e.G], runAt: e.Seq, exitAt: -1}
			nPeers++
		case "s.h.start":
			if p, ok := peerOfPtr[e.A]; ok {
				roles[e.G] = &role{kind: 2, peer: p}
			}
		case "s.sub.acq", "s.sub.rej", "s.sub.off", "s.sub.rel", "s.sub.reloff":
			if r := roles[e.G]; r != nil {
				if _, ok := peerSub[r.peer]; !ok {
					peerSub[r.peer] = e.A
				}
			}
		}
	}
	// the events of a goroutine are only a runPeer's from its start on
	subs := map[int]bool{}
	for _, s := range peerSub {
		subs[s] = true
	}
	var out []*vh.Case
	subIDs := make([]int, 0, len(subs))
	for s := range subs {
		subIDs = append(subIDs, s)
	}
	sortInts(subIDs)
	for si, sub := range subIDs {
		c := &vh.Case{Name: fmt.Sprintf("%s/inflight-sub%d", name, si), Model: fmt.Sprintf("conc inflight %d %d", maxPeer, maxSub),
			Nontrivial: true, Tags: append([]string{"trace:inflight"}, tags...)}
		idx := map[int]int{} // peer serial -> index in this projection
		// replay with roles re-derived in order (a goroutine is "other" until its runPeer tg.add)
		cur := map[int]*role{}
		ptr := map[int]int{}
		serial := 0
		inSub := func(p int) bool { s, ok := peerSub[p]; return ok && s == sub }
		for _, e := range events {
			switch e.Kind {
			case "tg.add":
				if e.A != tgID {
					continue
				}
				r := roles[e.G]
				if r != nil && r.kind == 1 && e.Seq == r.startAt && inSub(r.peer) {
					idx[r.peer] = len(idx)
					c.Op("peer", fmt.Sprintf("ok %d", idx[r.peer]))
					continue
				}
				if h := cur[e.G]; h != nil && h.kind == 2 && inSub(h.peer) {
					if e.B == 1 {
						c.Op(fmt.Sprintf("hadd %d", idx[h.peer]), "ok")
					} else {
						c.Op(fmt.Sprintf("hadd %d", idx[h.peer]), "closed")
					}
					continue
				}
				if e.B == 1 {
					c.Op("oadd", "ok")
				} else {
					c.Op("oadd", "closed")
				}
			case "tg.done":
				if e.A != tgID {
					continue
				}
				r := roles[e.G]
				if r != nil && r.kind == 1 && e.Seq == r.exitAt && inSub(r.peer) {
					c.Op(fmt.Sprintf("exit %d", idx[r.peer]), "ok")
					continue
				}
				if h := cur[e.G]; h != nil && h.kind == 2 && inSub(h.peer) {
					c.Op(fmt.Sprintf("hdone %d", idx[h.peer]), "ok")
					continue
				}
				c.Op("odone", "ok")
			case "tg.stop":
				if e.A == tgID {
					if e.B == 1 {
						c.Op("stop", "first")
					} else {
						c.Op("stop", "again")
					}
				}
			case "tg.stopped":
				if e.A == tgID {
					c.Op("tgret", "ok")
				}
			case "s.peer.run":
				if e.A == syncerID {
					ptr[e.B] = serial
					cur[e.G] = &role{kind: 1, peer: serial}
					serial++
				}
			case "s.h.start":
				if p, ok := ptr[e.A]; ok {
					cur[e.G] = &role{kind: 2, peer: p}
				}
			case "s.slot.want", "s.slot.take", "s.slot.closed", "s.slot.ret":
				p, ok := ptr[e.A]
				if !ok || !inSub(p) {
					continue
				}
				switch {
				case e.Kind == "s.slot.want" && quietFrom >= 0 && e.Seq >= quietFrom:
					c.Op(fmt.Sprintf("wantq %d", idx[p]), fmt.Sprintf("ok %d", e.B))
				case e.Kind == "s.slot.take" && quietFrom >= 0 && e.Seq >= quietFrom:
					c.Op(fmt.Sprintf("takeq %d", idx[p]), fmt.Sprintf("ok %d", e.B))
				case e.Kind == "s.slot.want":
					c.Op(fmt.Sprintf("want %d", idx[p]), "ok")
				case e.Kind == "s.slot.take":
					c.Op(fmt.Sprintf("take %d", idx[p]), "ok")
				case e.Kind == "s.slot.closed":
					c.Op(fmt.Sprintf("closed %d", idx[p]), "ok")
				case e.B == 0:
					c.Op(fmt.Sprintf("ret %d", idx[p]), "ok")
				default:
					c.Op(fmt.Sprintf("hret %d", idx[p]), "ok")
				}
			case "s.sub.acq", "s.sub.rej", "s.sub.off":
				if e.A != sub {
					continue
				}
				r := cur[e.G]
				if r == nil {
					c.Fail("corr", "corr:conc", fmt.Sprintf("event %s by a goroutine that is no runPeer loop", e.Kind))
					continue
				}
				switch e.Kind {
				case "s.sub.acq":
					c.Op(fmt.Sprintf("acq %d", idx[r.peer]), fmt.Sprintf("ok %d", e.B))
				case "s.sub.rej":
					c.Op(fmt.Sprintf("acq %d", idx[r.peer]), fmt.Sprintf("rej %d", e.B))
				default:
					c.Op(fmt.Sprintf("acq %d", idx[r.peer]), "off")
				}
			case "s.sub.rel", "s.sub.reloff":
				if e.A != sub {
					continue
				}
				r := cur[e.G]
				if r == nil {
					c.Fail("corr", "corr:conc", fmt.Sprintf("event %s by a goroutine that is no handler", e.Kind))
					continue
				}
				if e.Kind == "s.sub.rel" {
					c.Op(fmt.Sprintf("rel %d", idx[r.peer]), fmt.Sprintf("ok %d", e.B))
				} else {
					c.Op(fmt.Sprintf("rel %d", idx[r.peer]), "off")
				}
			}
		}
		c.Key = fmt.Sprintf("%s#%d", c.Name, len(c.Ops))
		out = append(out, c)
	}
	return out
}

func sortInts(a []int) {
	for i := 1; i < len(a); i++ {
		for j := i; j > 0 && a[j-1] > a[j]; j-- {
			a[j-1], a[j] = a[j], a[j-1]
		}
	}
}

// teardownCase replays the Run/Close teardown of one syncer (steps of Run, the three loops,
// connection goroutines, the life cycle of every peer, Close) through the TD system (repaired
// code).  The model's state is the multiset of thread program counters; which peer is "open" or
// "closed" is tracked here from the events that close transports (Run's sweep, the shutdown
// watcher); a peer that leaves its loop while its transport is, as far as the syncer's own steps
// go, still open was closed by the environment (remote end): that environment step is inserted.
// The model starts as a RUNNING syncer, so the case is only produced when the trace shows Run and
// its three loops started before anything else happened.
func teardownCase(name string, events []ev, syncerID, tgID int, tags []string) *vh.Case {
	c := &vh.Case{Name: name + "/teardown", Model: "conc teardown", Nontrivial: true, Tags: append([]string{"trace:teardown"}, tags...)}
	// pass 1: goroutine roles
	runG := -1
	loopG := map[int]bool{}
	type rp struct{ startAt, exitAt, runAt, pid int }
	inner := map[int]*rp{}      // runPeer goroutine -> its own tg.add / tg.done
	refusedAdd := map[int]int{} // goroutine -> Seq of the rejected tg.add that belongs to a refused runPeer
	lastAdd := map[int]int{}
	lastRej := map[int]int{}
	started := 0
	firstOther := -1
	for _, e := range events {
		switch {
		case e.Kind == "s.run.start" && e.A == syncerID:
			runG = e.G
		case e.Kind == "s.loop.start" && e.A == syncerID:
			loopG[e.G] = true
			started++
		case e.Kind == "tg.add" && e.A == tgID:
			if e.B == 1 {
				lastAdd[e.G] = e.Seq
			} else {
				lastRej[e.G] = e.Seq
			}
		case e.Kind == "tg.done" && e.A == tgID:
			if r := inner[e.G]; r != nil && r.exitAt < 0 && e.Seq > r.runAt {
				r.exitAt = e.Seq
			}
		case e.Kind == "s.peer.run" && e.A == syncerID:
			inner[e.G] = &rp{startAt: lastAdd[e.G], exitAt: -1, runAt: e.Seq, pid: e.B}
		case e.Kind == "s.peer.refused" && e.A == syncerID:
			refusedAdd[e.G] = lastRej[e.G]
		}
		if firstOther < 0 && e.A == syncerID && (e.Kind == "s.close.l" || e.Kind == "s.loop.exit" || e.Kind == "s.peer.add") && started < 3 {
			firstOther = e.Seq
		}
		if firstOther < 0 && e.A == tgID && e.Kind == "tg.stop" && started < 3 {
			firstOther = e.Seq
		}
	}
	if runG < 0 || started != 3 || firstOther >= 0 {
		return nil // Close overtook the start of Run: not a run of the model's initial state
	}
	type peer struct{ serving, closed, unwound bool }
	peers := map[int]*peer{}
	peerOfG = map[int]int{}
	handlerG := map[int]bool{}
	connOpen := map[int]int{}
	stopped := false
	for _, e := range events {
		if e.Kind == "s.h.start" {
			if _, ok := peers[e.A]; ok {
				handlerG[e.G] = true
			}
			continue
		}
		switch {
		case e.A == tgID && e.Kind == "tg.add":
			switch {
			case e.G == runG || loopG[e.G] || handlerG[e.G]:
			case inner[e.G] != nil && inner[e.G].startAt == e.Seq:
				// runPeer joins the group (the peer is named by the s.peer.run that follows)
				pid := inner[e.G].pid
				peerOfG[e.G] = pid
				if p := peers[pid]; p != nil {
					if p.closed {
						c.Op("peeradd closed", "ok")
					} else {
						c.Op("peeradd open", "ok")
					}
					p.serving = true
				}
			case e.B == 0 && refusedAdd[e.G] == e.Seq:
			case e.B == 1:
				connOpen[e.G]++
				c.Op("connstart", "ok")
			default:
				c.Op("connstart", "closed")
			}
		case e.A == tgID && e.Kind == "tg.done":
			switch {
			case e.G == runG:
				c.Op("runreturn", "ok")
			case loopG[e.G] || handlerG[e.G]:
			case inner[e.G] != nil && inner[e.G].exitAt == e.Seq:
				// handled at the peer's own events below (needs the peer): see s.peer.run bookkeeping
				if pid, ok := peerOfG[e.G]; ok {
					if p := peers[pid]; p != nil {
						if !p.closed {
							if stopped {
								c.Op("watch", "ok")
							} else {
								c.Op("remoteclose serving", "ok")
							}
							p.closed = true
						}
						c.Op("peererr", "ok")
						p.serving, p.unwound = false, true
					}
				}
			case connOpen[e.G] > 0:
				connOpen[e.G]--
				c.Op("connfail", "ok")
			}
		case e.A == tgID && e.Kind == "tg.stop":
			if e.B == 1 {
				stopped = true
				c.Op("closestop", "ok")
			}
		case e.A == tgID && e.Kind == "tg.stopped":
			c.Op("closeret", "ok")
		case e.A != syncerID:
		case e.Kind == "x.listener.closed":
			c.Op("envclosel", "ok")
		case e.Kind == "s.peer.add":
			peers[e.B] = &peer{}
			if connOpen[e.G] > 0 {
				connOpen[e.G]--
				c.Op("connadd", "ok")
			} else {
				c.Fail("corr", "corr:conc", "a peer was added by a goroutine that holds no slot of the thread group")
			}
		case e.Kind == "s.peer.run":
			// already replayed at the position of runPeer's tg.Add
		case e.Kind == "s.peer.refused":
			if p := peers[e.B]; p != nil {
				if p.closed {
					c.Op("peeradd closed", "refused")
				} else {
					c.Op("peeradd open", "refused")
				}
				p.unwound, p.closed = true, true
			}
		case e.Kind == "s.peer.watch":
			if p := peers[e.B]; p != nil && p.serving && !p.closed {
				c.Op("watch", "ok")
				p.closed = true
			}
		case e.Kind == "s.peer.rm":
			if _, ok := peers[e.B]; ok {
				c.Op("peerremove", "ok")
				delete(peers, e.B)
			}
		case e.Kind == "s.loop.exit":
			switch e.B {
			case 0:
				c.Op("loopexit accept", "ok")
			case 1:
				c.Op("loopexit peer", "ok")
			default:
				c.Op("loopexit sync", "ok")
			}
		case e.Kind == "s.ingest.start":
			c.Op("syncstart", "ok")
		case e.Kind == "s.ingest.done":
			c.Op("ingestdone", "ok")
		case e.Kind == "s.run.recv":
			c.Op("recv", "ok")
		case e.Kind == "s.run.lclose":
			c.Op("lclose", "ok")
		case e.Kind == "s.run.sweep":
			for _, p := range peers {
				p.closed = true
			}
			c.Op("sweep", fmt.Sprintf("ok %d", e.B))
		case e.Kind == "s.run.drained":
			c.Op("drained", "ok")
		case e.Kind == "s.close.l":
			c.Op("closel", "ok")
		}
	}
	c.Key = fmt.Sprintf("%s#%d", c.Name, len(c.Ops))
	return c
}

// peerOfG: runPeer goroutine -> peer (filled while replaying; reset per case)
var peerOfG = map[int]int{}

// srvCase replays the rhp4 server's thread group as the Srv system: the harness records a marker
// when it issues an RPC (a stream the Serve loop will accept) and when it calls Close; the
// server's thread group is the one stopped by the goroutine that recorded the Close marker.
func srvCase(name string, events []ev, tags []string) *vh.Case {
	closeG, tgID := -1, 0
	for _, e := range events {
		if e.Kind == "x.srv.close" {
			closeG = e.G
		}
		if e.Kind == "tg.stop" && e.G == closeG && tgID == 0 {
			tgID = e.A
		}
	}
	if tgID == 0 {
		return nil
	}
	c := &vh.Case{Name: name + "/srv", Model: "conc srv", Nontrivial: true, Tags: append([]string{"trace:srv"}, tags...)}
	for _, e := range events {
		switch {
		case e.Kind == "x.srv.stream":
			c.Op("stream", "ok")
		case e.A != tgID:
		case e.Kind == "tg.add" && e.B == 1:
			c.Op("enter", "ok")
		case e.Kind == "tg.add":
			c.Op("enter", "refused")
		case e.Kind == "tg.done":
			c.Op("finish", "ok")
		case e.Kind == "tg.stop" && e.B == 1:
			c.Op("close", "first")
		case e.Kind == "tg.stop":
			c.Op("close", "again")
		case e.Kind == "tg.stopped":
			c.Op("closeret", "ok")
		}
	}
	c.Key = fmt.Sprintf("%s#%d", c.Name, len(c.Ops))
	return c
}
