package c18

import (
	"bytes"
	"encoding/binary"
	"fmt"
	"io"
	"net"
	"time"

	"go.sia.tech/core/gateway"
	"go.sia.tech/core/types"
	"go.sia.tech/mux"
)

// rawPeer is a gateway peer that speaks the wire format itself (the library client can only emit
// the known RPC ids): it performs the gateway handshake of core/gateway.Dial by hand (version
// exchange, header exchange, anonymous mux) and then writes arbitrary bytes on new streams.
type rawPeer struct {
	conn net.Conn
	m    *mux.Mux
}

func v1Write(w io.Writer, fn func(*types.Encoder)) error {
	var buf bytes.Buffer
	e := types.NewEncoder(&buf)
	e.WriteUint64(0)
	fn(e)
	e.Flush()
	b := buf.Bytes()
	binary.LittleEndian.PutUint64(b, uint64(buf.Len()-8))
	_, err := w.Write(b)
	return err
}

func v1Read(r io.Reader, maxLen int, fn func(*types.Decoder)) error {
	d := types.NewDecoder(io.LimitedReader{R: r, N: int64(8 + maxLen)})
	d.ReadUint64()
	fn(d)
	return d.Err()
}

// dialRaw connects from the local address `from` and completes the handshake.
func dialRaw(from, addr string, hdr gateway.Header) (*rawPeer, error) {
	d := net.Dialer{Timeout: 5 * time.Second}
	if from != "" {
		d.LocalAddr = &net.TCPAddr{IP: net.ParseIP(from)}
	}
	conn, err := d.Dial("tcp", addr)
	if err != nil {
		return nil, err
	}
	conn.SetDeadline(time.Now().Add(5 * time.Second))
	fail := func(err error) (*rawPeer, error) { conn.Close(); return nil, err }
	var s string
	if err := v1Write(conn, func(e *types.Encoder) { e.WriteString("2.0.0") }); err != nil {
		return fail(err)
	} else if err := v1Read(conn, 128, func(d *types.Decoder) { s = d.ReadString() }); err != nil {
		return fail(err)
	}
	if err := v1Write(conn, func(e *types.Encoder) {
		hdr.GenesisID.EncodeTo(e)
		e.Write(hdr.UniqueID[:])
		e.WriteString(hdr.NetAddress)
	}); err != nil {
		return fail(err)
	} else if err := v1Read(conn, 128, func(d *types.Decoder) { s = d.ReadString() }); err != nil {
		return fail(err)
	} else if s != "accept" {
		return fail(fmt.Errorf("header rejected: %s", s))
	}
	if err := v1Read(conn, 32+8+128, func(d *types.Decoder) {
		var id types.BlockID
		id.DecodeFrom(d)
		var u [8]byte
		d.Read(u[:])
		d.ReadString()
	}); err != nil {
		return fail(err)
	} else if err := v1Write(conn, func(e *types.Encoder) { e.WriteString("accept") }); err != nil {
		return fail(err)
	}
	conn.SetDeadline(time.Time{})
	m, err := mux.DialAnonymous(conn)
	if err != nil {
		return fail(err)
	}
	return &rawPeer{conn: conn, m: m}, nil
}

// send opens a stream, writes b, waits until the other side closes the stream (or d passes) and
// closes it.
func (p *rawPeer) send(b []byte, d time.Duration) {
	st := p.m.DialStream()
	defer st.Close()
	st.SetDeadline(time.Now().Add(d))
	if _, err := st.Write(b); err != nil {
		return
	}
	var buf [64]byte
	for {
		if _, err := st.Read(buf[:]); err != nil {
			return
		}
	}
}

func (p *rawPeer) close() { p.m.Close() }
