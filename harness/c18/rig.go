package c18

import (
	"context"
	"fmt"
	"net"
	"runtime"
	"sort"
	"strings"
	"sync"
	"time"

	"go.sia.tech/core/consensus"
	"go.sia.tech/core/gateway"
	"go.sia.tech/core/types"
	"go.sia.tech/coreutils/chain"
	"go.sia.tech/coreutils/syncer"
	"go.sia.tech/coreutils/testutil"
)

// gateCM wraps a chain.Manager. BlocksForHistory is the one entry point the harness's RPCs
// (SendV2Blocks) reach; the wrapper counts how many calls are inside it at the same time, per
// calling client and per subnet, and holds each call until the harness lets it go. The caller's
// identity travels in history[0] (a fake block id written by the harness's client).
type gateCM struct {
	*chain.Manager

	mu                          sync.Mutex
	cond                        *sync.Cond
	open                        bool        // gate open: calls pass without waiting
	tickets                     int         // number of waiting calls allowed to pass while the gate is shut
	inside                      int         // calls currently inside
	perCli                      map[int]int // client -> calls inside
	perSub                      map[int]int // subnet -> calls inside
	maxCli                      map[int]int // client -> max concurrent observed
	maxSub                      map[int]int // subnet -> max concurrent observed
	maxAll                      int
	entered                     int         // total calls that entered
	enteredCli                  map[int]int // client -> calls that entered
	left                        int         // total calls that returned
	subOf                       func(cli int) int
	failHist                    bool // History() returns an error (fatal for syncLoop)
	ingestShut                  bool
	ingestInside, ingestEntered int
	failIngest                  bool // AddBlocks returns an error
}

func newGateCM(cm *chain.Manager, subOf func(int) int) *gateCM {
	g := &gateCM{Manager: cm, perCli: map[int]int{}, perSub: map[int]int{}, maxCli: map[int]int{}, maxSub: map[int]int{}, enteredCli: map[int]int{}, subOf: subOf}
	g.cond = sync.NewCond(&g.mu)
	return g
}

func fakeID(cli, rpc int) (id types.BlockID) {
	id[0] = 0xC1
	id[1], id[2] = byte(cli>>8), byte(cli)
	id[3], id[4], id[5] = byte(rpc>>16), byte(rpc>>8), byte(rpc)
	return
}

func (g *gateCM) BlocksForHistory(history []types.BlockID, max uint64) ([]types.Block, uint64, error) {
	// the harness's own requests carry the caller in a fake first id (0xC1, client, rpc, then
	// zeros); a request of a real sync round carries real block ids and is passed on unchanged
	cli := -1
	marked := len(history) > 0 && history[0][0] == 0xC1
	for i := 6; marked && i < len(history[0]); i++ {
		marked = history[0][i] == 0
	}
	if marked {
		cli = int(history[0][1])<<8 | int(history[0][2])
	}
	sub := -1
	if cli >= 0 && g.subOf != nil {
		sub = g.subOf(cli)
	}
	g.mu.Lock()
	g.inside++
	g.entered++
	g.enteredCli[cli]++
	g.perCli[cli]++
	g.perSub[sub]++
	if g.perCli[cli] > g.maxCli[cli] {
		g.maxCli[cli] = g.perCli[cli]
	}
	if g.perSub[sub] > g.maxSub[sub] {
		g.maxSub[sub] = g.perSub[sub]
	}
	if g.inside > g.maxAll {
		g.maxAll = g.inside
	}
	g.cond.Broadcast()
	for !g.open && g.tickets == 0 {
		g.cond.Wait()
	}
	if !g.open {
		g.tickets--
	}
	g.inside--
	g.left++
	g.perCli[cli]--
	g.perSub[sub]--
	g.cond.Broadcast()
	g.mu.Unlock()
	if marked {
		history = history[1:]
	}
	return g.Manager.BlocksForHistory(history, max)
}

// the block-ingestion side (AddBlocks / AddValidatedV2Blocks, called by a sync round): calls are
// counted and, when the ingest gate is shut, held until it opens
func (g *gateCM) ingest() func() {
	g.mu.Lock()
	g.ingestInside++
	g.ingestEntered++
	g.cond.Broadcast()
	for g.ingestShut {
		g.cond.Wait()
	}
	g.mu.Unlock()
	return func() {
		g.mu.Lock()
		g.ingestInside--
		g.mu.Unlock()
	}
}

func (g *gateCM) AddBlocks(blocks []types.Block) error {
	defer g.ingest()()
	g.mu.Lock()
	fail := g.failIngest
	g.mu.Unlock()
	if fail {
		return fmt.Errorf("store failure")
	}
	return g.Manager.AddBlocks(blocks)
}

func (g *gateCM) AddValidatedV2Blocks(blocks []types.Block, states []consensus.State) error {
	defer g.ingest()()
	return g.Manager.AddValidatedV2Blocks(blocks, states)
}

func (g *gateCM) ingestNow() (inside, entered int) {
	g.mu.Lock()
	defer g.mu.Unlock()
	return g.ingestInside, g.ingestEntered
}

func (g *gateCM) setIngestShut(v bool) {
	g.mu.Lock()
	g.ingestShut = v
	g.cond.Broadcast()
	g.mu.Unlock()
}

func (g *gateCM) History() ([32]types.BlockID, error) {
	g.mu.Lock()
	f := g.failHist
	g.mu.Unlock()
	if f {
		return [32]types.BlockID{}, fmt.Errorf("history unavailable")
	}
	return g.Manager.History()
}

func (g *gateCM) setOpen(v bool) {
	g.mu.Lock()
	g.open = v
	g.cond.Broadcast()
	g.mu.Unlock()
}

func (g *gateCM) release(n int) {
	g.mu.Lock()
	g.tickets += n
	g.cond.Broadcast()
	g.mu.Unlock()
}

// enteredBy returns how many calls of one client have entered so far.
func (g *gateCM) enteredBy(cli int) int {
	g.mu.Lock()
	defer g.mu.Unlock()
	return g.enteredCli[cli]
}

func (g *gateCM) insideNow() int {
	g.mu.Lock()
	defer g.mu.Unlock()
	return g.inside
}

// waitInside waits until at least n calls are inside (or the deadline passes) and returns the
// number inside.
func (g *gateCM) waitInside(n int, d time.Duration) int {
	deadline := time.Now().Add(d)
	for {
		if k := g.insideNow(); k >= n || time.Now().After(deadline) {
			return k
		}
		time.Sleep(2 * time.Millisecond)
	}
}

// waitStable waits until the number of calls inside has not changed for `quiet` and returns it.
func (g *gateCM) waitStable(quiet, max time.Duration) int {
	deadline := time.Now().Add(max)
	g.mu.Lock()
	last, lastEntered := g.inside, g.entered
	g.mu.Unlock()
	since := time.Now()
	for time.Now().Before(deadline) {
		time.Sleep(5 * time.Millisecond)
		g.mu.Lock()
		cur, curEntered := g.inside, g.entered
		g.mu.Unlock()
		if cur != last || curEntered != lastEntered {
			last, lastEntered, since = cur, curEntered, time.Now()
		} else if time.Since(since) >= quiet {
			break
		}
	}
	return last
}

type node struct {
	s    *syncer.Syncer
	cm   *chain.Manager
	gate *gateCM // nil for plain clients
	l    net.Listener
	run  chan error // result of Run
	ip   string
	hdr  gateway.Header
}

// newNode starts a syncer listening on ip:0. With gate != nil the syncer's ChainManager is the
// gate wrapper around its own manager.
func newNode(ip string, dialFrom string, subOf func(int) int, gated bool, opts ...syncer.Option) (*node, error) {
	return newNodeFull(ip, dialFrom, subOf, gated, testutil.NewEphemeralPeerStore(), opts...)
}

// newNodeStore starts a plain syncer that uses the given peer store.
func newNodeStore(ip string, ps syncer.PeerStore, opts ...syncer.Option) (*node, error) {
	return newNodeFull(ip, "", nil, false, ps, opts...)
}

func newNodeFull(ip string, dialFrom string, subOf func(int) int, gated bool, ps syncer.PeerStore, opts ...syncer.Option) (*node, error) {
	n, genesis := testutil.Network()
	store, ts, err := chain.NewDBStore(chain.NewMemDB(), n, genesis, nil)
	if err != nil {
		return nil, err
	}
	cm := chain.NewManager(store, ts)
	l, err := net.Listen("tcp", ip+":0")
	if err != nil {
		return nil, err
	}
	nd := &node{cm: cm, l: l, run: make(chan error, 1), ip: ip}
	base := []syncer.Option{
		syncer.WithSyncInterval(time.Hour),
		syncer.WithPeerDiscoveryInterval(time.Hour),
		syncer.WithMaxSendBlocks(1 << 20),
		// a handshake that the other side abandons is waited for up to ConnectTimeout by Close;
		// keep that wait short (loopback handshakes take well under a millisecond)
		syncer.WithConnectTimeout(4 * time.Second),
		// no automatic dialing and no peer discovery RPCs (ShareNodes) of its own: every RPC and
		// every connection in a scenario is the harness's (explicit Connect is not limited)
		syncer.WithMaxOutboundPeers(0),
	}
	if dialFrom != "" {
		base = append(base, syncer.WithDialer(&net.Dialer{LocalAddr: &net.TCPAddr{IP: net.ParseIP(dialFrom)}}))
	}
	var scm syncer.ChainManager = cm
	if gated {
		nd.gate = newGateCM(cm, subOf)
		scm = nd.gate
	}
	nd.hdr = gateway.Header{
		GenesisID:  genesis.ID(),
		UniqueID:   gateway.GenerateUniqueID(),
		NetAddress: l.Addr().String(),
	}
	nd.s = syncer.New(l, scm, ps, nd.hdr, append(base, opts...)...)
	go func() { nd.run <- nd.s.Run() }()
	return nd, nil
}

// slowStore delays AddPeer, which addPeer calls before it inserts the peer: frames that a peer
// sends right after the handshake reach the transport before the peer is inserted or refused.
type slowStore struct {
	syncer.PeerStore
	d time.Duration
}

func (s slowStore) AddPeer(addr string) error {
	time.Sleep(s.d)
	return s.PeerStore.AddPeer(addr)
}

// failStore makes the n-th AddPeer (failAdd) or the n-th UpdatePeerInfo (failUpdate) fail once
// (n counted from 1; 0 = never): a peer store that is unavailable for one connection.
type failStore struct {
	syncer.PeerStore
	mu                   sync.Mutex
	adds, updates        int
	failAdd, failUpdate  int
	failedAdd, failedUpd int
	probe                func()
	lockHeld             []string // store calls during which the syncer's mutex was held
	bans                 []string
}

func (f *failStore) AddPeer(addr string) error {
	f.mu.Lock()
	f.adds++
	fail := f.adds == f.failAdd
	if fail {
		f.failedAdd++
	}
	f.mu.Unlock()
	f.probeLock("AddPeer")
	if fail {
		return fmt.Errorf("peer store unavailable")
	}
	return f.PeerStore.AddPeer(addr)
}

func (f *failStore) UpdatePeerInfo(addr string, fn func(*syncer.PeerInfo)) error {
	f.mu.Lock()
	f.updates++
	fail := f.updates == f.failUpdate
	if fail {
		f.failedUpd++
	}
	f.mu.Unlock()
	f.probeLock("UpdatePeerInfo")
	if fail {
		return fmt.Errorf("peer store unavailable")
	}
	return f.PeerStore.UpdatePeerInfo(addr, fn)
}

// probeLock: a peer store may call back into the syncer (for instance Peers(), to drop the peers
// it has just banned).  Every store call does that here; if the syncer calls the store with its
// mutex held the callback cannot return — reported after a timeout, then the store call returns so
// that the run goes on.
func (f *failStore) probeLock(call string) {
	f.mu.Lock()
	probe := f.probe
	f.mu.Unlock()
	if probe == nil {
		return
	}
	done := make(chan struct{})
	go func() { probe(); close(done) }()
	select {
	case <-done:
	case <-time.After(2 * time.Second):
		f.mu.Lock()
		f.lockHeld = append(f.lockHeld, call)
		f.mu.Unlock()
		// (not waited for: it returns when the syncer releases its mutex, which it does only
		// after this store call has returned)
	}
}

func (f *failStore) Ban(addr string, d time.Duration, reason string) error {
	f.mu.Lock()
	f.bans = append(f.bans, addr)
	f.mu.Unlock()
	f.probeLock("Ban(" + addr + ")")
	return f.PeerStore.Ban(addr, d, reason)
}

func (f *failStore) failed() int {
	f.mu.Lock()
	defer f.mu.Unlock()
	return f.failedAdd + f.failedUpd
}

// closeWithin calls s.Close() and reports whether it returned within d.
func closeWithin(f func(), d time.Duration) (returned bool, took time.Duration) {
	done := make(chan struct{})
	t0 := time.Now()
	go func() { f(); close(done) }()
	select {
	case <-done:
		return true, time.Since(t0)
	case <-time.After(d):
		return false, time.Since(t0)
	}
}

func rpcBlocks(ctx context.Context, p *syncer.Peer, cli, rpc int, genesis types.BlockID, timeout time.Duration) error {
	_, _, err := p.SendV2Blocks(ctx, []types.BlockID{fakeID(cli, rpc), genesis}, 10, timeout)
	return err
}

// goroutine inventory -------------------------------------------------------------------------

// repoGoroutines returns the stacks of goroutines that are executing code of the packages under
// test (anything of go.sia.tech/coreutils or the mux/gateway transports it owns).
// goroutines already reported as left behind by an earlier scenario (by id): they are not waited
// for again, so one leak costs one settle period and is reported once
var reportedLeaks = map[string]bool{}

func goroutineID(stack string) string {
	f := strings.Fields(stack)
	if len(f) >= 2 {
		return f[1]
	}
	return stack
}

func repoGoroutines() []string {
	buf := make([]byte, 1<<20)
	for {
		n := runtime.Stack(buf, true)
		if n < len(buf) {
			buf = buf[:n]
			break
		}
		buf = make([]byte, 2*len(buf))
	}
	var out []string
	for _, g := range strings.Split(string(buf), "\n\n") {
		if strings.Contains(g, "verifharness/c18.repoGoroutines") {
			continue
		}
		if reportedLeaks[goroutineID(g)] {
			continue
		}
		if strings.Contains(g, "go.sia.tech/coreutils/") || strings.Contains(g, "go.sia.tech/mux") || strings.Contains(g, "go.sia.tech/core/gateway") {
			out = append(out, g)
		}
	}
	sort.Strings(out)
	return out
}

// settleGoroutines waits until no goroutine of the code under test is left (or until d passes)
// and returns the survivors.
func settleGoroutines(d time.Duration) []string {
	deadline := time.Now().Add(d)
	for {
		gs := repoGoroutines()
		if len(gs) == 0 {
			return gs
		}
		if time.Now().After(deadline) {
			for _, g := range gs {
				reportedLeaks[goroutineID(g)] = true
			}
			return gs
		}
		time.Sleep(10 * time.Millisecond)
	}
}

func firstLines(s string, n int) string {
	ls := strings.Split(s, "\n")
	if len(ls) > n {
		ls = ls[:n]
	}
	return strings.Join(ls, " | ")
}
