package c11

import (
	"fmt"
	"strings"
	"sync"
	"time"

	"go.sia.tech/core/consensus"
	"go.sia.tech/core/types"
	"verifharness/netx"
)

// typed answers of the scripted peer, before encoding; a mutation edits them
type hAns struct {
	fail      bool // close the stream without answering (the victim sees EOF)
	raw       []byte
	headers   []types.BlockHeader
	remaining uint64
}

type cAns struct {
	fail  bool
	raw   []byte
	block types.Block
	state consensus.State
}

type bAns struct {
	fail      bool
	raw       []byte
	blocks    []types.Block
	remaining uint64
}

// a script: how the peer deviates from serving its view honestly. Ordinals count distinct
// requests of the first sync round (the victim duplicates unfinished requests, a duplicate gets
// the same answer).
type script struct {
	mutH func(ord int, a *hAns)
	mutC func(ord int, a *cAns)
	mutB func(ord int, a *bAns)
}

type batchLog struct {
	base      types.BlockID
	cpAsked   bool
	cp        *cAns
	blAsked   bool
	bl        *bAns
	honestTip types.BlockID // last block an honest answer would have carried
}

// session drives one scripted peer against one victim for exactly one sync round.
type session struct {
	nt     *netx.Net
	reg    *netx.Reg
	view   *netx.View
	sc     script
	victim *netx.Node

	mu        sync.Mutex
	phase     int // 0 = header phase of round 1, 1 = batch phase of round 1, 2 = round over
	hLog      []*hAns
	hBases    []types.BlockID
	hCache    map[types.BlockID]*hAns
	batches   []*batchLog
	byBase    map[types.BlockID]*batchLog
	roundEnd  chan struct{}
	endOnce   sync.Once
	hold      chan struct{}
	sawRound2 bool
}

func newSession(nt *netx.Net, reg *netx.Reg, view *netx.View, sc script, victim *netx.Node) *session {
	return &session{nt: nt, reg: reg, view: view, sc: sc, victim: victim, hCache: map[types.BlockID]*hAns{},
		byBase: map[types.BlockID]*batchLog{}, roundEnd: make(chan struct{}), hold: make(chan struct{})}
}

func (s *session) end() { s.endOnce.Do(func() { close(s.roundEnd) }) }

func (s *session) handle(req *netx.Request) netx.Reply {
	s.mu.Lock()
	defer s.mu.Unlock()
	switch req.RPC {
	case netx.RPCSendHeaders:
		if s.phase != 0 {
			// the victim's sync loop came back: round 1 is over. Freeze it here.
			s.phase = 2
			s.sawRound2 = true
			s.end()
			return netx.Reply{Hold: s.hold}
		}
		a := &hAns{}
		hs, rem, ok := s.view.Headers(req.Index, req.Max)
		if !ok {
			a.fail = true
		} else {
			a.headers, a.remaining = hs, rem
		}
		if s.sc.mutH != nil {
			s.sc.mutH(len(s.hLog), a)
		}
		s.hLog = append(s.hLog, a)
		s.hBases = append(s.hBases, req.Index.ID)
		if !a.fail && a.raw == nil {
			s.phase = 1
		}
		if a.fail {
			return netx.Reply{}
		} else if a.raw != nil {
			return netx.Reply{Raw: a.raw}
		}
		return netx.Reply{Raw: netx.EncHeaders(a.headers, a.remaining)}
	case netx.RPCSendCheckpoint:
		bl := s.batch(req.Index.ID)
		if bl.cp == nil {
			a := &cAns{}
			b, cs, ok := s.view.Checkpoint(req.Index)
			if !ok {
				a.fail = true
			} else {
				a.block, a.state = b, cs
			}
			if s.sc.mutC != nil {
				s.sc.mutC(s.ordOf(bl), a)
			}
			bl.cp, bl.cpAsked = a, true
		}
		a := bl.cp
		if a.fail {
			return netx.Reply{}
		} else if a.raw != nil {
			return netx.Reply{Raw: a.raw}
		}
		return netx.Reply{Raw: netx.EncCheckpoint(a.block, a.state)}
	case netx.RPCSendV2Blocks:
		var base types.BlockID
		if len(req.History) > 0 {
			base = req.History[0]
		}
		bl := s.batch(base)
		if bl.bl == nil {
			a := &bAns{}
			a.blocks, a.remaining = s.view.BlocksFor(req.History, req.Max)
			if len(a.blocks) > 0 {
				bl.honestTip = a.blocks[len(a.blocks)-1].ID()
			}
			if s.sc.mutB != nil {
				s.sc.mutB(s.ordOf(bl), a)
			}
			bl.bl, bl.blAsked = a, true
		}
		a := bl.bl
		if a.fail {
			return netx.Reply{}
		} else if a.raw != nil {
			return netx.Reply{Raw: a.raw}
		}
		return netx.Reply{Raw: netx.EncBlocks(a.blocks, a.remaining)}
	case netx.RPCShareNodes:
		return netx.Reply{Raw: netx.EncPeers(nil)}
	}
	return netx.Reply{}
}

func (s *session) batch(base types.BlockID) *batchLog {
	if bl, ok := s.byBase[base]; ok {
		return bl
	}
	bl := &batchLog{base: base}
	s.byBase[base] = bl
	s.batches = append(s.batches, bl)
	return bl
}

func (s *session) ordOf(bl *batchLog) int {
	for i, x := range s.batches {
		if x == bl {
			return i
		}
	}
	return -1
}

// outcome of one round as observed on the implementation
type outcome struct {
	dec     string
	tip     int
	synced  bool
	asked   []int
	reqs    int
	timeout bool
}

func idList(ids []int) string {
	if len(ids) == 0 {
		return "e"
	}
	ss := make([]string, len(ids))
	for i, v := range ids {
		ss[i] = fmt.Sprint(v)
	}
	return strings.Join(ss, ",")
}

// opLine renders the peer's answers of round 1 as the model's `sync` operation.
func (s *session) opLine() string {
	s.mu.Lock()
	defer s.mu.Unlock()
	var sb strings.Builder
	sb.WriteString("sync")
	for _, a := range s.hLog {
		switch {
		case a.fail:
			sb.WriteString(" h:eof")
		case a.raw != nil:
			sb.WriteString(" h:err")
		default:
			ids := make([]int, len(a.headers))
			for i, h := range a.headers {
				ids[i] = s.reg.AddHeader(h)
			}
			fmt.Fprintf(&sb, " h:%d:%s", a.remaining, idList(ids))
		}
	}
	for _, bl := range s.batches {
		cp := "-"
		if bl.cpAsked && !bl.cp.fail && bl.cp.raw == nil {
			b, st := bl.cp.block, bl.cp.state
			id := s.reg.AddBlock(b)
			isV2 := b.V2 != nil
			one := len(b.MinerPayouts) == 1
			commit := isV2 && one && b.V2.Commitment == st.Commitment(b.MinerPayouts[0].Address, b.Transactions, b.V2Transactions())
			genuine := false
			if rb := s.reg.Get(s.reg.Get(id).Cid); rb != nil && rb.Parent != netx.UnknownParent {
				if ps, ok := s.reg.FullState(rb.Parent); ok {
					genuine = stateEq(ps, st)
				}
			}
			cp = fmt.Sprintf("%d.%d%d%d%d%d", id, b2i(isV2), b2i(one), b2i(commit), b2i(genuine), b2i(len(b.Transactions) == 0))
		}
		blocks := "-"
		if bl.blAsked && !bl.bl.fail && bl.bl.raw == nil {
			ids := make([]int, len(bl.bl.blocks))
			for i, b := range bl.bl.blocks {
				ids[i] = s.reg.AddBlock(b)
			}
			blocks = idList(ids)
		}
		fmt.Fprintf(&sb, " b:%s:%s", cp, blocks)
	}
	return sb.String()
}

func b2i(b bool) int {
	if b {
		return 1
	}
	return 0
}

func stateEq(a, b consensus.State) bool {
	h := types.NewHasher()
	a.EncodeTo(h.E)
	x := h.Sum()
	h.Reset()
	b.EncodeTo(h.E)
	return x == h.Sum()
}

// run connects the peer, lets exactly one sync round happen and observes the victim.
func (s *session) run(localIP string) (*netx.Byz, outcome, error) {
	bz, err := netx.DialByz(s.nt, s.victim.Addr(), localIP, s.handle)
	if err != nil {
		return nil, outcome{}, err
	}
	peerSynced := func() (found, synced bool) {
		for _, p := range s.victim.S.Peers() {
			if p.ConnAddr == bz.LocalAddr {
				return true, p.Synced()
			}
		}
		return false, false
	}
	deadline := time.After(20 * time.Second)
	tick := time.NewTicker(20 * time.Millisecond)
	defer tick.Stop()
	var out outcome
loop:
	for {
		select {
		case <-s.roundEnd:
			break loop
		case <-bz.Closed():
			break loop
		case <-deadline:
			out.timeout = true
			break loop
		case <-tick.C:
			if _, sy := peerSynced(); sy {
				break loop
			}
		}
	}
	closed := bz.IsClosed()
	if closed {
		// The victim dropped us from a worker goroutine while its finisher may still be applying
		// earlier batches. Its sync loop is sequential: when it asks a *new* peer for headers, the
		// round with us is over for good. Connect a probe and wait for that request.
		probed := make(chan struct{})
		var once sync.Once
		probe, perr := netx.DialByz(s.nt, s.victim.Addr(), "", func(req *netx.Request) netx.Reply {
			if req.RPC == netx.RPCSendHeaders {
				once.Do(func() { close(probed) })
				return netx.Reply{Raw: netx.EncHeaders(nil, 0)}
			}
			return netx.Reply{}
		})
		if perr == nil {
			select {
			case <-probed:
			case <-time.After(15 * time.Second):
				out.timeout = true
			}
			probe.Close()
		}
	}
	// ban() closes the connection before it calls the peer store: give the Ban call time to land
	banned := false
	if closed {
		banned = netx.WaitFor(2*time.Second, func() bool { return s.victim.Store.BannedAddr(bz.LocalAddr) })
	} else {
		banned = s.victim.Store.BannedAddr(bz.LocalAddr)
	}
	_, out.synced = peerSynced()
	s.mu.Lock()
	for _, id := range s.hBases {
		out.asked = append(out.asked, s.reg.IDOfHeader(id))
	}
	out.reqs = len(s.batches)
	var lastTip types.BlockID
	answered := false
	if n := len(s.batches); n > 0 {
		bl := s.batches[n-1]
		lastTip = bl.honestTip
		answered = bl.blAsked && !bl.bl.fail && bl.bl.raw == nil
	}
	noHeaders := true
	for _, a := range s.hLog {
		if !a.fail && a.raw == nil && len(a.headers) > 0 {
			noHeaders = false
		}
	}
	s.mu.Unlock()
	out.tip = s.reg.IDOfHeader(s.victim.CM.Tip().ID)
	switch {
	case banned:
		out.dec = "ban"
	case closed:
		out.dec = "drop"
	case noHeaders:
		out.dec = "ignore"
	default:
		// the round reached the manager for its last request iff the requested tip is now stored
		_, stored := s.victim.CM.Block(lastTip)
		if answered && stored {
			out.dec = "apply"
		} else {
			out.dec = "ignore"
		}
	}
	return bz, out, nil
}

func (o outcome) line() string {
	// when the manager rejects a batch (ban), requests after it may or may not have been issued
	// already (blocks are fetched while earlier batches are being applied): not compared
	reqs := fmt.Sprint(o.reqs)
	if o.dec == "ban" {
		reqs = "-"
	}
	return fmt.Sprintf("dec %s tip %d synced %d asked %s reqs %s", o.dec, o.tip, b2i(o.synced), idList(o.asked), reqs)
}

// workTrace: the victim's total work at every reorg notification (netx.WorkTrace).
type workTrace = netx.WorkTrace

func traceWork(n *netx.Node) *workTrace { return netx.TraceWork(n) }
