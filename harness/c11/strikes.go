package c11

import (
	"context"
	"fmt"
	"strings"
	"time"

	"go.sia.tech/core/gateway"
	"go.sia.tech/core/types"
	"verifharness/netx"
	"verifharness/vh"
)

// strikesCase: "a Byzantine peer cannot stall an honest syncer". Two scripted peers connect from
// the SAME IP address, both look like synced peers on the victim's chain, and each commits one
// provable offence. The second offence takes the address's /32 to its strike limit: besides the
// two connections the subnet is reported to the peer store — a caller-supplied interface; the
// rig's store consults the syncer from inside Ban (netx.RecStore). Afterwards the victim must
// still answer, follow its honest peer's next block and shut down.
type strikesCase struct {
	name     string
	tags     []string
	w        *world
	s        int
	offences [2]string // "empty-txnset" | "weak-header" | "invalid-outline"
	// fail: which Ban calls the victim's peer store answers with an error: "" none, "subnet" the
	// calls for a CIDR entry (the per-peer ones succeed), "all" every call, "second" the second call
	fail string
}

func (sc *strikesCase) run(ip string) *vh.Case {
	c := &vh.Case{Name: sc.name, Tags: sc.tags, Nontrivial: true, Key: sc.name}
	w := sc.w
	nt := w.nt
	main := w.main
	victim := nt.NewNode(ip + ".1")
	victim.Load(main.Blocks[:sc.s])
	switch sc.fail {
	case "subnet":
		victim.Store.FailBans(func(addr string, n int) bool { return strings.Contains(addr, "/") })
	case "all":
		victim.Store.FailBans(func(addr string, n int) bool { return true })
	case "second":
		victim.Store.FailBans(func(addr string, n int) bool { return n == 2 })
	}
	trace := traceWork(victim)
	startWork := netx.WorkOf(victim.CM.TipState().TotalWork)
	hon := nt.NewNode(ip + ".3")
	hon.Load(main.Blocks[:sc.s])
	defer hon.Close()
	own := netx.ViewOf(main)
	own.Blocks, own.States = own.Blocks[:sc.s], own.States[:sc.s]
	handler := func(req *netx.Request) netx.Reply {
		switch req.RPC {
		case netx.RPCSendHeaders:
			hs, rem, ok := own.Headers(req.Index, req.Max)
			if !ok {
				return netx.Reply{}
			}
			return netx.Reply{Raw: netx.EncHeaders(hs, rem)}
		case netx.RPCShareNodes:
			return netx.Reply{Raw: netx.EncPeers(nil)}
		}
		return netx.Reply{}
	}
	var peers [2]*netx.Byz
	for i := range peers {
		bz, err := netx.DialByz(nt, victim.Addr(), ip+".2", handler) // same IP, another port
		if err != nil {
			c.Oracle("harness-connect", "scripted peer %d could not connect: %v", i, err)
			victim.Close()
			return c
		}
		defer bz.Close()
		peers[i] = bz
	}
	ctx, cancel := context.WithTimeout(context.Background(), 5*time.Second)
	_, cerr := hon.S.Connect(ctx, victim.Addr())
	cancel()
	if cerr != nil {
		c.Oracle("harness-connect", "honest node could not connect: %v", cerr)
	}
	settled := netx.WaitFor(15*time.Second, func() bool {
		ps := victim.S.Peers()
		if len(ps) != 3 {
			return false
		}
		for _, p := range ps {
			if !p.Synced() {
				return false
			}
		}
		return true
	})
	if !settled {
		c.Oracle("settle-phase-stalled", "the victim did not mark its three peers (same tip) synced within 15 s")
	}
	tipState := main.States[sc.s-1]
	offend := func(i int) {
		bz := peers[i]
		switch sc.offences[i] {
		case "empty-txnset":
			bz.Call(netx.RPCRelayV2Txns, netx.EncTxnSet(types.ChainIndex{Height: uint64(sc.s), ID: main.Blocks[sc.s-1].ID()}, nil), false, 10*time.Second)
		case "weak-header":
			bz.Call(netx.RPCRelayV2Header, netx.EncHeader(badNonce(main.Blocks[sc.s].Header(), tipState)), false, 10*time.Second)
		case "invalid-outline":
			bad := types.V2Transaction{SiacoinOutputs: []types.SiacoinOutput{{Value: types.Siacoins(1), Address: types.Address{9}}}}
			b := blockWith(nt, tipState, types.Address{0xF5, byte(i)}, []types.V2Transaction{bad}, nil)
			bz.Call(netx.RPCRelayV2Outline, netx.EncOutline(gateway.OutlineBlock(b, nil, nil)), false, 10*time.Second)
		}
	}
	// the calls return when the victim's handler has finished (or, with a store that gets no answer
	// from the syncer, when the store gives up): issue them without waiting for each other's end
	done := make(chan struct{}, 2)
	go func() { offend(0); done <- struct{}{} }()
	reported := func(addr string) bool { return victim.Store.BannedAddr(addr) }
	netx.WaitFor(10*time.Second, func() bool { return reported(peers[0].LocalAddr) })
	go func() { offend(1); done <- struct{}{} }()
	both := netx.WaitFor(10*time.Second, func() bool { return reported(peers[0].LocalAddr) && reported(peers[1].LocalAddr) })
	subnet := ""
	netx.WaitFor(2*time.Second, func() bool {
		for _, b := range victim.Store.Bans() {
			if strings.Contains(b.Addr, "/") {
				subnet = b.Addr
				return true
			}
		}
		return false
	})
	c.Op("two offences from one address: "+sc.offences[0]+", "+sc.offences[1], fmt.Sprintf("both-reported %v subnet-reported %v", both, subnet != ""))
	if !both {
		c.Oracle("misbehaviour-not-banned:two-offences-one-address", "two peers from one address committed one provable offence each (%s, %s); reported: %v", sc.offences[0], sc.offences[1], victim.Store.Bans())
	}
	// the victim still answers
	answered := make(chan int, 1)
	go func() { answered <- len(victim.S.Peers()) }()
	select {
	case <-answered:
	case <-time.After(3 * time.Second):
		c.Oracle("syncer-unresponsive", "after two offences from one address (reported to the peer store: %v) Syncer.Peers() of the victim did not return within 3 s", victim.Store.Bans())
	}
	// and follows its honest peer
	y := nt.BuildOn(tipState, netx.MineOpts{Addr: types.Address{0xF6, byte(sc.s)}, Dt: 2 * time.Second})
	if err := hon.CM.AddBlocks([]types.Block{y}); err != nil {
		c.Oracle("harness-late-block", "the honest node rejected its own block: %v", err)
	}
	want := hon.CM.Tip()
	tipOf := func() (types.ChainIndex, bool) {
		got := make(chan types.ChainIndex, 1)
		go func() { got <- victim.CM.Tip() }()
		select {
		case t := <-got:
			return t, true
		case <-time.After(5 * time.Second):
			return types.ChainIndex{}, false
		}
	}
	deadline := time.Now().Add(4 * time.Second) // shorter than the store's patience: a stall must show
	reached := false
	for time.Now().Before(deadline) {
		t, ok := tipOf()
		if !ok {
			c.Oracle("manager-unresponsive", "Manager.Tip() of the victim did not return within 5 s")
			break
		}
		if t == want {
			reached = true
			break
		}
		go func() {
			hon.S.BroadcastV2Header(y.Header())
			if y.V2 != nil {
				hon.S.BroadcastV2BlockOutline(gateway.OutlineBlock(y, nil, nil))
			}
		}()
		time.Sleep(200 * time.Millisecond)
	}
	if !reached {
		c.Oracle("stalled-below-honest-chain", "an honest peer announced (header/outline, repeatedly, for 4 s) block %v on top of the victim's tip after two scripted peers from one address had been reported (%v): the victim did not move", want, victim.Store.Bans())
	}
	for _, b := range victim.Store.Bans() {
		if b.Addr != peers[0].LocalAddr && b.Addr != peers[1].LocalAddr && !strings.Contains(b.Addr, "/") {
			c.Oracle("honest-peer-banned:two-offences-one-address", "the honest node was reported: %s (%s)", b.Addr, b.Reason)
		}
	}
	for i := 0; i < 2; i++ {
		select {
		case <-done:
		case <-time.After(12 * time.Second):
		}
	}
	finishVictim(c, victim, trace, startWork)
	return c
}

func strikesJobs(w *world) []job {
	var jobs []job
	allow := int(w.nt.N.HardforkV2.AllowHeight)
	for _, x := range []struct {
		s    int
		offs [2]string
	}{
		{14, [2]string{"empty-txnset", "empty-txnset"}},
		{14, [2]string{"weak-header", "invalid-outline"}},
		{allow - 2, [2]string{"weak-header", "empty-txnset"}},
	} {
		sc := &strikesCase{name: fmt.Sprintf("two-offences-one-address-%s+%s-at-%d", x.offs[0], x.offs[1], x.s),
			tags: []string{"kind:honest+byzantine", "byz:two-peers-one-address", "strikes:subnet-limit-reached", regime(w, x.s)}, w: w, s: x.s, offences: x.offs}
		jobs = append(jobs, job{name: sc.name, quick: true, run: sc.run})
	}
	// the victim's peer store fails: a dependency's failure in the middle of reporting
	for _, x := range []struct {
		s    int
		offs [2]string
		fail string
	}{
		{14, [2]string{"weak-header", "weak-header"}, "subnet"},
		{allow - 2, [2]string{"empty-txnset", "weak-header"}, "subnet"},
		{14, [2]string{"invalid-outline", "empty-txnset"}, "all"},
		{allow + 1, [2]string{"empty-txnset", "empty-txnset"}, "second"},
	} {
		sc := &strikesCase{name: fmt.Sprintf("two-offences-one-address-%s+%s-at-%d-store-fails-%s", x.offs[0], x.offs[1], x.s, x.fail),
			tags: []string{"kind:honest+byzantine", "byz:two-peers-one-address", "peer-store:ban-fails-" + x.fail, regime(w, x.s)}, w: w, s: x.s, offences: x.offs, fail: x.fail}
		jobs = append(jobs, job{name: sc.name, quick: true, run: sc.run})
	}
	return jobs
}
