package c11

import (
	"fmt"
	"sync"
	"time"

	"go.sia.tech/core/consensus"
	"go.sia.tech/core/gateway"
	"go.sia.tech/core/types"
	"verifharness/netx"
	"verifharness/vh"
)

// relayCase: the scripted peer first looks like a synced peer on the victim's own chain, then
// sends one relay RPC; for an outline with missing transactions it also answers the victim's
// SendTransactions.
type relayCase struct {
	name string
	tags []string
	w    *world
	s    int // victim height
	// build returns the model operation, the RPC and its request bytes, how SendTransactions is answered
	build func(rc *relayCase, reg *netx.Reg, victim *netx.Node) relayPlan
	tie   bool
	side  func() []types.Block // blocks the victim stores as a side chain (never applied) beforehand
}

type relayPlan struct {
	op        string // model op (without the trailing observation)
	rpc       string
	req       []byte
	txAnswer  func(req *netx.Request) netx.Reply
	kind      string // "hdr" | "out" | "txn"
	wantTxn   *types.TransactionID
	repeat    bool // send the same relay twice, observe the second
	mustBan   bool
	honest    bool // the relayed object is perfectly valid: the peer must not be reported
	truncated bool // the request is incomplete: close the stream after writing it
}

func (rc *relayCase) run(ip string) *vh.Case {
	c := &vh.Case{Name: rc.name, Tags: rc.tags, Nontrivial: true, Key: rc.name}
	w := rc.w
	if rc.tie {
		c.Model = fmt.Sprintf("sync gate %d %d", w.nt.N.HardforkV2.RequireHeight, perReq)
	}
	reg := netx.NewReg(w.nt)
	var vids []int
	for _, b := range w.main.Blocks[:rc.s] {
		vids = append(vids, reg.AddBlock(b))
	}
	victim := w.nt.NewNode(ip + ".1")
	victim.Load(w.main.Blocks[:rc.s])
	trace := traceWork(victim)
	startWork := netx.WorkOf(victim.CM.TipState().TotalWork)
	var sideIDs []int
	var sideBlocks []types.Block
	if rc.side != nil {
		sideBlocks = rc.side()
		for _, b := range sideBlocks {
			sideIDs = append(sideIDs, reg.AddBlock(b))
		}
	}
	plan := rc.build(rc, reg, victim)
	for _, l := range reg.Lines {
		c.Op(l, "ok")
	}
	have := "have"
	for _, id := range vids {
		have += fmt.Sprintf(" %d", id)
	}
	c.Op(have, fmt.Sprintf("tip %d", reg.IDOfHeader(victim.CM.Tip().ID)))
	if len(sideBlocks) > 0 {
		res := "ok"
		if err := victim.CM.AddBlocks(sideBlocks); err != nil {
			res = "err"
		}
		op := "add"
		for _, id := range sideIDs {
			op += fmt.Sprintf(" %d", id)
		}
		c.Op(op, fmt.Sprintf("err %s tip %d", res, reg.IDOfHeader(victim.CM.Tip().ID)))
	}

	own := netx.ViewOf(w.main)
	own.Blocks, own.States = own.Blocks[:rc.s], own.States[:rc.s]
	var mu sync.Mutex
	resyncAsked := 0
	bz, err := netx.DialByz(w.nt, victim.Addr(), ip+".2", func(req *netx.Request) netx.Reply {
		switch req.RPC {
		case netx.RPCSendHeaders:
			mu.Lock()
			resyncAsked++
			mu.Unlock()
			hs, rem, ok := own.Headers(req.Index, req.Max)
			if !ok {
				return netx.Reply{}
			}
			return netx.Reply{Raw: netx.EncHeaders(hs, rem)}
		case netx.RPCSendTransactions:
			if plan.txAnswer != nil {
				return plan.txAnswer(req)
			}
		case netx.RPCShareNodes:
			return netx.Reply{Raw: netx.EncPeers(nil)}
		}
		return netx.Reply{}
	})
	if err != nil {
		c.Oracle("harness-connect", "scripted peer could not connect: %v", err)
		victim.Close()
		return c
	}
	defer bz.Close()
	peer := func() (found, synced bool) {
		for _, p := range victim.S.Peers() {
			if p.ConnAddr == bz.LocalAddr {
				return true, p.Synced()
			}
		}
		return false, false
	}
	if !netx.WaitFor(15*time.Second, func() bool { _, s := peer(); return s }) {
		c.Oracle("sync-round-stalled", "an honest-looking peer on the victim's own chain was not marked synced within 15 s")
		finishVictim(c, victim, trace, startWork)
		return c
	}
	tipBefore := victim.CM.Tip()
	n := 1
	if plan.repeat {
		n = 2
	}
	returned, connClosed := true, false
	for i := 0; i < n; i++ {
		returned, connClosed = bz.Call(plan.rpc, plan.req, plan.truncated, 15*time.Second)
	}
	if !returned {
		c.Oracle("handler-stalled", "the victim's %s handler did not finish within 15 s", plan.rpc)
	}
	closed := connClosed || bz.IsClosed()
	banned := false
	if closed {
		banned = netx.WaitFor(3*time.Second, func() bool { return victim.Store.BannedAddr(bz.LocalAddr) })
	} else {
		banned = victim.Store.BannedAddr(bz.LocalAddr)
	}
	found, synced := peer()
	tip := victim.CM.Tip()
	dec := "ignore"
	switch {
	case banned:
		dec = "ban"
	case closed || !found:
		dec = "drop"
	case !synced:
		dec = "resync"
	case tip != tipBefore:
		dec = "apply"
	case plan.wantTxn != nil:
		for _, t := range victim.CM.V2PoolTransactions() {
			if t.ID() == *plan.wantTxn {
				dec = "apply"
			}
		}
	}
	if plan.repeat && plan.kind == "txn" && dec == "apply" {
		// the second delivery of a known set is a no-op: the transaction is in the pool from the first
		dec = "ignore"
	}
	switch plan.kind {
	case "out":
		c.Op(plan.op, fmt.Sprintf("dec %s tip %d", dec, reg.IDOfHeader(tip.ID)))
	default:
		c.Op(plan.op, "dec "+dec)
	}
	if plan.honest && dec == "ban" {
		c.Oracle("honest-peer-banned:"+rc.tags[1], "a peer relaying a perfectly valid %s (%s) was reported to the peer store for banning: %v", plan.rpc, rc.tags[1], victim.Store.Bans())
	}
	if plan.mustBan && dec != "ban" {
		c.Oracle("misbehaviour-not-banned:"+rc.tags[1], "provable misbehaviour (%s) was not reported to the peer store (decision %s)", rc.tags[1], dec)
	}
	finishVictim(c, victim, trace, startWork)
	return c
}

func arbTxn(tag string) types.V2Transaction {
	return types.V2Transaction{ArbitraryData: []byte(tag)}
}

// blockWith builds a v2 child of state cs carrying txns.
func blockWith(nt *netx.Net, cs consensus.State, addr types.Address, txns []types.V2Transaction, mut func(b *types.Block)) types.Block {
	return nt.BuildOn(cs, netx.MineOpts{Addr: addr, Mut: func(b *types.Block, cs consensus.State) {
		b.V2.Transactions = txns
		b.V2.Commitment = cs.Commitment(addr, nil, txns)
		if mut != nil {
			mut(b)
		}
	}})
}

func relayJobs(w *world) []job {
	var jobs []job
	const s = 14
	main := w.main
	nt := w.nt
	add := func(quick bool, rc *relayCase) {
		rc.w = w
		if rc.s == 0 {
			rc.s = s
		}
		jobs = append(jobs, job{name: rc.name, quick: quick, run: rc.run})
	}
	tipState := main.States[s-1]
	hdrCase := func(quick bool, kind string, mustBan bool, mk func() types.BlockHeader) {
		add(quick, &relayCase{name: "relay-header-" + kind, tags: []string{"rpc:RelayV2Header", "relay:" + kind}, tie: true,
			build: func(rc *relayCase, reg *netx.Reg, victim *netx.Node) relayPlan {
				h := mk()
				id := reg.AddHeader(h)
				return relayPlan{op: fmt.Sprintf("rhdr %d", id), rpc: netx.RPCRelayV2Header, req: netx.EncHeader(h), kind: "hdr", mustBan: mustBan}
			}})
	}
	hdrCase(true, "unknown-parent", false, func() types.BlockHeader { return main.Blocks[s+2].Header() })
	hdrCase(true, "insufficient-work", true, func() types.BlockHeader { return badNonce(main.Blocks[s].Header(), tipState) })
	hdrCase(false, "already-seen", false, func() types.BlockHeader { return main.Blocks[s-1].Header() })
	hdrCase(true, "sidechain", false, func() types.BlockHeader {
		b := nt.BuildOn(main.States[s-3], netx.MineOpts{Addr: types.Address{0x91}, Dt: 2 * time.Second})
		return b.Header()
	})
	hdrCase(false, "attaches-to-tip", false, func() types.BlockHeader { return main.Blocks[s].Header() })
	add(false, &relayCase{name: "relay-header-malformed", tags: []string{"rpc:RelayV2Header", "relay:malformed"}, tie: false,
		build: func(rc *relayCase, reg *netx.Reg, victim *netx.Node) relayPlan {
			return relayPlan{op: "rhdr 0", rpc: netx.RPCRelayV2Header, req: []byte{1, 2, 3}, kind: "hdr", truncated: true}
		}})
	add(false, &relayCase{name: "unknown-rpc-id", tags: []string{"rpc:unknown", "relay:garbage-id"}, tie: false,
		build: func(rc *relayCase, reg *netx.Reg, victim *netx.Node) relayPlan {
			return relayPlan{op: "rhdr 0", rpc: "NoSuchRPC", req: []byte{9, 9, 9, 9}, kind: "hdr"}
		}})

	// outlines
	outCase := func(quick bool, kind string, missing string, mustBan bool, mk func() (types.Block, gateway.V2BlockOutline, func(req *netx.Request) netx.Reply)) {
		add(quick, &relayCase{name: "relay-outline-" + kind, tags: []string{"rpc:RelayV2Outline", "relay:" + kind}, tie: true,
			build: func(rc *relayCase, reg *netx.Reg, victim *netx.Node) relayPlan {
				b, ol, tx := mk()
				id := reg.AddBlock(b)
				return relayPlan{op: fmt.Sprintf("rout %d %s", id, missing), rpc: netx.RPCRelayV2Outline, req: netx.EncOutline(ol), txAnswer: tx, kind: "out", mustBan: mustBan}
			}})
	}
	full := func(b types.Block) gateway.V2BlockOutline { return gateway.OutlineBlock(b, nil, nil) }
	outCase(true, "complete-valid", "complete", false, func() (types.Block, gateway.V2BlockOutline, func(*netx.Request) netx.Reply) {
		b := blockWith(nt, tipState, types.Address{0xA1}, []types.V2Transaction{arbTxn("a1")}, nil)
		return b, full(b), nil
	})
	outCase(false, "unknown-parent", "complete", false, func() (types.Block, gateway.V2BlockOutline, func(*netx.Request) netx.Reply) {
		b := main.Blocks[s+2]
		return b, full(b), nil
	})
	outCase(true, "insufficient-work", "complete", true, func() (types.Block, gateway.V2BlockOutline, func(*netx.Request) netx.Reply) {
		b := blockWith(nt, tipState, types.Address{0xA2}, []types.V2Transaction{arbTxn("a2")}, nil)
		h := badNonce(b.Header(), tipState)
		b.Nonce = h.Nonce
		return b, full(b), nil
	})
	outCase(false, "already-seen", "complete", false, func() (types.Block, gateway.V2BlockOutline, func(*netx.Request) netx.Reply) {
		b := main.Blocks[s-1]
		return b, full(b), nil
	})
	outCase(false, "sidechain", "complete", false, func() (types.Block, gateway.V2BlockOutline, func(*netx.Request) netx.Reply) {
		b := blockWith(nt, main.States[s-3], types.Address{0xA3}, nil, nil)
		return b, full(b), nil
	})
	outCase(true, "invalid-txn", "complete", true, func() (types.Block, gateway.V2BlockOutline, func(*netx.Request) netx.Reply) {
		bad := types.V2Transaction{SiacoinOutputs: []types.SiacoinOutput{{Value: types.Siacoins(1), Address: types.Address{9}}}}
		b := blockWith(nt, tipState, types.Address{0xA4}, []types.V2Transaction{bad}, nil)
		return b, full(b), nil
	})
	outCase(false, "future-timestamp", "complete", true, func() (types.Block, gateway.V2BlockOutline, func(*netx.Request) netx.Reply) {
		b := blockWith(nt, tipState, types.Address{0xA5}, nil, func(b *types.Block) { b.Timestamp = time.Now().Add(6 * time.Hour) })
		return b, full(b), nil
	})
	outCase(false, "wrong-height", "complete", true, func() (types.Block, gateway.V2BlockOutline, func(*netx.Request) netx.Reply) {
		b := blockWith(nt, tipState, types.Address{0xA6}, nil, func(b *types.Block) { b.V2.Height += 2 })
		return b, full(b), nil
	})
	// missing transactions
	mkMissing := func(addr byte) (types.Block, gateway.V2BlockOutline, types.V2Transaction) {
		t1, t2 := arbTxn(fmt.Sprintf("m1-%d", addr)), arbTxn(fmt.Sprintf("m2-%d", addr))
		b := blockWith(nt, tipState, types.Address{addr}, []types.V2Transaction{t1, t2}, nil)
		ol := gateway.OutlineBlock(b, nil, []types.V2Transaction{t2}) // t2 is left out: hash only
		return b, ol, t2
	}
	outCase(true, "missing-fetched", "fetched", false, func() (types.Block, gateway.V2BlockOutline, func(*netx.Request) netx.Reply) {
		b, ol, t2 := mkMissing(0xB1)
		return b, ol, func(*netx.Request) netx.Reply {
			return netx.Reply{Raw: netx.EncTransactions(nil, []types.V2Transaction{t2})}
		}
	})
	outCase(true, "missing-wrong", "wrong", true, func() (types.Block, gateway.V2BlockOutline, func(*netx.Request) netx.Reply) {
		b, ol, _ := mkMissing(0xB2)
		return b, ol, func(*netx.Request) netx.Reply {
			return netx.Reply{Raw: netx.EncTransactions(nil, []types.V2Transaction{arbTxn("something else")})}
		}
	})
	outCase(false, "missing-none-sent", "wrong", true, func() (types.Block, gateway.V2BlockOutline, func(*netx.Request) netx.Reply) {
		b, ol, _ := mkMissing(0xB3)
		return b, ol, func(*netx.Request) netx.Reply { return netx.Reply{Raw: netx.EncTransactions(nil, nil)} }
	})
	outCase(true, "missing-no-answer", "fetchfail", false, func() (types.Block, gateway.V2BlockOutline, func(*netx.Request) netx.Reply) {
		b, ol, _ := mkMissing(0xB4)
		return b, ol, func(*netx.Request) netx.Reply { return netx.Reply{} }
	})
	add(false, &relayCase{name: "relay-outline-malformed", tags: []string{"rpc:RelayV2Outline", "relay:malformed"}, tie: false,
		build: func(rc *relayCase, reg *netx.Reg, victim *netx.Node) relayPlan {
			return relayPlan{op: "rout 0 complete", rpc: netx.RPCRelayV2Outline, req: []byte{0xff, 0xff, 0xff, 0xff, 0xff, 0xff, 0xff, 0xff, 1, 2, 3, 4, 5}, kind: "out", truncated: true}
		}})

	// the victim has downloaded a fork without adopting it (stored, never applied: only header-level
	// states exist for it); an honest peer on that fork announces its next block / its tip
	sideFork := func() *netx.Chain {
		f := main.Fork(s - 3)
		f.MineN(2, 3*time.Second, 0xC1) // lighter than the victim's chain
		return f
	}
	add(true, &relayCase{name: "relay-outline-on-unapplied-fork", tags: []string{"rpc:RelayV2Outline", "relay:valid-child-of-unapplied-sidechain-block"}, tie: true,
		side: func() []types.Block { return sideFork().Blocks[s-3:] },
		build: func(rc *relayCase, reg *netx.Reg, victim *netx.Node) relayPlan {
			f := sideFork()
			b := f.Build(netx.MineOpts{Addr: types.Address{0xC2}, Dt: 3 * time.Second})
			id := reg.AddBlock(b)
			return relayPlan{op: fmt.Sprintf("rout %d complete", id), rpc: netx.RPCRelayV2Outline, req: netx.EncOutline(full(b)), kind: "out", honest: true}
		}})
	add(true, &relayCase{name: "relay-outline-stored-unapplied-tip", tags: []string{"rpc:RelayV2Outline", "relay:re-announced-unapplied-sidechain-block"}, tie: true,
		side: func() []types.Block { return sideFork().Blocks[s-3:] },
		build: func(rc *relayCase, reg *netx.Reg, victim *netx.Node) relayPlan {
			f := sideFork()
			b := f.Blocks[len(f.Blocks)-1]
			id := reg.AddBlock(b)
			return relayPlan{op: fmt.Sprintf("rout %d complete", id), rpc: netx.RPCRelayV2Outline, req: netx.EncOutline(full(b)), kind: "out", honest: true}
		}})
	// a header that misses the work target of a KNOWN parent that is not the tip: an earlier block
	// of the best chain, and a stored side-chain block (provable misbehaviour wherever it attaches)
	for _, back := range []int{1, 4, 11} {
		back := back
		add(back == 4, &relayCase{name: fmt.Sprintf("relay-header-weak-on-earlier-block-%d", back), tags: []string{"rpc:RelayV2Header", "relay:insufficient-work-off-tip"}, tie: true,
			build: func(rc *relayCase, reg *netx.Reg, victim *netx.Node) relayPlan {
				ps := main.States[s-1-back] // state after the block `back` below the tip
				b := nt.BuildOn(ps, netx.MineOpts{Addr: types.Address{0xD1, byte(back)}, Dt: 2 * time.Second})
				h := badNonce(b.Header(), ps)
				id := reg.AddHeader(h)
				return relayPlan{op: fmt.Sprintf("rhdr %d", id), rpc: netx.RPCRelayV2Header, req: netx.EncHeader(h), kind: "hdr", mustBan: true}
			}})
	}
	add(true, &relayCase{name: "relay-header-weak-on-unapplied-fork", tags: []string{"rpc:RelayV2Header", "relay:insufficient-work-on-sidechain"}, tie: true,
		side: func() []types.Block { return sideFork().Blocks[s-3:] },
		build: func(rc *relayCase, reg *netx.Reg, victim *netx.Node) relayPlan {
			f := sideFork()
			ps := f.CM.TipState()
			b := f.Build(netx.MineOpts{Addr: types.Address{0xD2}, Dt: 3 * time.Second})
			h := badNonce(b.Header(), ps)
			id := reg.AddHeader(h)
			return relayPlan{op: fmt.Sprintf("rhdr %d", id), rpc: netx.RPCRelayV2Header, req: netx.EncHeader(h), kind: "hdr", mustBan: true}
		}})
	// … and the honest counterpart: a valid header on the same parents is a resync, not a ban
	add(false, &relayCase{name: "relay-header-valid-on-unapplied-fork", tags: []string{"rpc:RelayV2Header", "relay:valid-child-of-unapplied-sidechain-block"}, tie: true,
		side: func() []types.Block { return sideFork().Blocks[s-3:] },
		build: func(rc *relayCase, reg *netx.Reg, victim *netx.Node) relayPlan {
			f := sideFork()
			b := f.Build(netx.MineOpts{Addr: types.Address{0xD3}, Dt: 3 * time.Second})
			id := reg.AddHeader(b.Header())
			return relayPlan{op: fmt.Sprintf("rhdr %d", id), rpc: netx.RPCRelayV2Header, req: netx.EncHeader(b.Header()), kind: "hdr", honest: true}
		}})
	// below the require height: a valid header that attaches to the tip (the block may be a v1 block)
	for _, vs := range []int{3, 8} {
		vs := vs
		add(vs == 3, &relayCase{name: fmt.Sprintf("relay-header-attaches-below-require-%d", vs), tags: []string{"rpc:RelayV2Header", "relay:attaches-to-tip-below-require"}, tie: true, s: vs,
			build: func(rc *relayCase, reg *netx.Reg, victim *netx.Node) relayPlan {
				h := main.Blocks[vs].Header()
				id := reg.AddHeader(h)
				return relayPlan{op: fmt.Sprintf("rhdr %d", id), rpc: netx.RPCRelayV2Header, req: netx.EncHeader(h), kind: "hdr", honest: true}
			}})
	}

	// transaction sets
	txnCase := func(quick bool, kind string, mustBan bool, mk func(victim *netx.Node) (types.ChainIndex, []types.V2Transaction, bool)) {
		add(quick, &relayCase{name: "relay-txnset-" + kind, tags: []string{"rpc:RelayV2Txns", "relay:" + kind}, tie: true,
			build: func(rc *relayCase, reg *netx.Reg, victim *netx.Node) relayPlan {
				idx, txns, repeat := mk(victim)
				basisKnown := main.Blocks[s-1].ID() == idx.ID || reg.IDOfHeader(idx.ID) >= 0
				valid := false
				if basisKnown && len(txns) > 0 {
					// ground truth: an independent manager holding the same chain
					twin := main.Fork(s)
					_, err := twin.CM.AddV2PoolTransactions(idx, txns)
					valid = err == nil
				}
				p := relayPlan{op: fmt.Sprintf("rtxn %d %d %d %d", b2i(basisKnown), b2i(len(txns) == 0), b2i(repeat), b2i(valid)),
					rpc: netx.RPCRelayV2Txns, req: netx.EncTxnSet(idx, txns), kind: "txn", repeat: repeat, mustBan: mustBan}
				if len(txns) > 0 {
					id := txns[0].ID()
					p.wantTxn = &id
				}
				return p
			}})
	}
	tipIdx := types.ChainIndex{Height: s, ID: main.Blocks[s-1].ID()}
	txnCase(true, "unknown-basis", false, func(*netx.Node) (types.ChainIndex, []types.V2Transaction, bool) {
		return types.ChainIndex{Height: s, ID: types.BlockID{0xDD}}, []types.V2Transaction{arbTxn("t0")}, false
	})
	txnCase(true, "empty", true, func(*netx.Node) (types.ChainIndex, []types.V2Transaction, bool) { return tipIdx, nil, false })
	txnCase(true, "valid", false, func(*netx.Node) (types.ChainIndex, []types.V2Transaction, bool) {
		return tipIdx, []types.V2Transaction{arbTxn("t1")}, false
	})
	txnCase(false, "valid-twice", false, func(*netx.Node) (types.ChainIndex, []types.V2Transaction, bool) {
		return tipIdx, []types.V2Transaction{arbTxn("t2")}, true
	})
	txnCase(true, "invalid", false, func(*netx.Node) (types.ChainIndex, []types.V2Transaction, bool) {
		bad := types.V2Transaction{SiacoinOutputs: []types.SiacoinOutput{{Value: types.Siacoins(1), Address: types.Address{9}}}}
		return tipIdx, []types.V2Transaction{bad}, false
	})
	return jobs
}

var _ = vh.NewRNG
