package c11

import (
	"context"
	"fmt"
	"time"

	"go.sia.tech/core/types"
	"go.sia.tech/coreutils/chain"
	"go.sia.tech/coreutils/syncer"
	"verifharness/netx"
	"verifharness/vh"
)

// bootstrapCase: instant sync. syncer.RetrieveCheckpoint asks a (Byzantine) peer for the
// checkpoint at a trusted index; whatever it returns is what chain.NewDBStoreAtCheckpoint builds
// the node from, without validation. Oracle: if a checkpoint is returned, the node bootstrapped
// from it must be in exactly the state the honest chain has after that block, and must be able to
// sync to the honest tip from an honest node afterwards.
type bootstrapCase struct {
	name string
	tags []string
	w    *world
	at   int // checkpoint height
	mut  func(a *cAns)
	// accept: an honest answer (control): a checkpoint MUST be returned
	accept bool
}

func (bc *bootstrapCase) run(ip string) *vh.Case {
	c := &vh.Case{Name: bc.name, Tags: bc.tags, Nontrivial: true, Key: bc.name}
	w := bc.w
	nt := w.nt
	view := netx.ViewOf(w.main)
	bl, err := netx.ListenByz(nt, ip+".2", func(req *netx.Request) netx.Reply {
		if req.RPC != netx.RPCSendCheckpoint {
			return netx.Reply{}
		}
		a := &cAns{}
		b, cs, ok := view.Checkpoint(req.Index)
		if !ok {
			return netx.Reply{}
		}
		a.block, a.state = b, cs
		if bc.mut != nil {
			bc.mut(a)
		}
		if a.fail {
			return netx.Reply{}
		}
		return netx.Reply{Raw: netx.EncCheckpoint(a.block, a.state)}
	})
	if err != nil {
		c.Oracle("harness-connect", "listen: %v", err)
		return c
	}
	defer bl.Close()
	index := types.ChainIndex{Height: uint64(bc.at), ID: w.main.Blocks[bc.at-1].ID()}
	ctx, cancel := context.WithTimeout(context.Background(), 20*time.Second)
	defer cancel()
	cs, b, err := syncer.RetrieveCheckpoint(ctx, []string{bl.Addr()}, index, nt.N, nt.Genesis.ID())
	c.Op("bootstrap "+bc.name, fmt.Sprintf("returned %v", err == nil))
	if err != nil {
		if bc.accept {
			c.Oracle("genuine-checkpoint-rejected", "RetrieveCheckpoint rejected a genuine checkpoint: %v", err)
		}
		return c
	}
	want := w.main.States[bc.at-1]
	store, tipState, err := chain.NewDBStoreAtCheckpoint(chain.NewMemDB(), cs, b, nil)
	if err != nil {
		if bc.accept {
			c.Oracle("genuine-checkpoint-rejected", "NewDBStoreAtCheckpoint: %v", err)
		}
		return c
	}
	if !stateEq(tipState, want) || len(b.MinerPayouts) != 1 {
		c.Oracle("bootstrap-state-differs:"+bc.tags[1], "RetrieveCheckpoint returned a checkpoint (%d miner payouts) from which the node bootstraps into a state that is not the honest chain's state after block %d (elements: %d leaves, honest %d)",
			len(b.MinerPayouts), bc.at, tipState.Elements.NumLeaves, want.Elements.NumLeaves)
	}
	// can the bootstrapped node follow the honest chain?
	cm := chain.NewManager(store, tipState)
	node := nt.NewNodeWith(cm, ip+".1")
	defer node.Close()
	hon := nt.NewNode(ip + ".3")
	hon.Load(w.main.Blocks)
	defer hon.Close()
	cctx, ccancel := context.WithTimeout(context.Background(), 5*time.Second)
	_, cerr := node.S.Connect(cctx, hon.Addr())
	ccancel()
	if cerr != nil {
		c.Oracle("harness-connect", "connect: %v", cerr)
		return c
	}
	if !netx.WaitFor(20*time.Second, func() bool { return node.CM.Tip() == hon.CM.Tip() }) {
		c.Oracle("bootstrapped-node-cannot-sync:"+bc.tags[1], "the node bootstrapped from the returned checkpoint is stuck at %v, the honest chain's tip is %v (bans: %v)", node.CM.Tip(), hon.CM.Tip(), node.Store.Bans())
	}
	return c
}

func bootstrapJobs(r *vh.Run, w *world) []job {
	var jobs []job
	const at = 16
	add := func(isol bool, bc *bootstrapCase) {
		bc.w, bc.at = w, at
		j := job{name: bc.name, quick: true, run: bc.run}
		if isol {
			j = isolate(r, j)
		}
		jobs = append(jobs, j)
	}
	add(false, &bootstrapCase{name: "bootstrap-genuine", tags: []string{"rpc:SendCheckpoint", "bootstrap:genuine"}, accept: true})
	add(false, &bootstrapCase{name: "bootstrap-two-payouts", tags: []string{"rpc:SendCheckpoint", "bootstrap:extra-payout"}, mut: func(a *cAns) {
		a.block.MinerPayouts = append(append([]types.SiacoinOutput(nil), a.block.MinerPayouts...), types.SiacoinOutput{Address: types.Address{0xEE}, Value: types.Siacoins(1000000000)})
	}})
	add(true, &bootstrapCase{name: "bootstrap-no-payouts", tags: []string{"rpc:SendCheckpoint", "bootstrap:no-payouts"}, mut: func(a *cAns) { a.block.MinerPayouts = nil }})
	add(false, &bootstrapCase{name: "bootstrap-bogus-state", tags: []string{"rpc:SendCheckpoint", "bootstrap:state-siafundpool"}, mut: func(a *cAns) { a.state.SiafundTaxRevenue = types.Siacoins(99) }})
	add(false, &bootstrapCase{name: "bootstrap-other-block", tags: []string{"rpc:SendCheckpoint", "bootstrap:other-block"}, mut: func(a *cAns) {
		a.block, a.state = w.main.Blocks[at-3], w.main.StateBefore(at-3)
	}})
	add(false, &bootstrapCase{name: "bootstrap-payout-value", tags: []string{"rpc:SendCheckpoint", "bootstrap:payout-value"}, mut: func(a *cAns) {
		mp := append([]types.SiacoinOutput(nil), a.block.MinerPayouts...)
		mp[0].Value = mp[0].Value.Add(types.Siacoins(5))
		a.block.MinerPayouts = mp
	}})
	return jobs
}
