package c11

import (
	"context"
	"fmt"
	"strings"
	"sync"
	"time"

	"go.sia.tech/core/consensus"
	"go.sia.tech/core/gateway"
	"go.sia.tech/core/types"
	"verifharness/netx"
	"verifharness/vh"
)

// Two-step scenarios: what one peer did to the victim earlier must not change how the victim
// judges what another peer sends later.
//
//   - "stored is not validated": the chain manager stores a relayed block (and a header-level
//     state for it) before it validates it, and the block stays stored when the reorg fails. A
//     second peer then offers a chain that contains that block, built on exactly the state the
//     manager holds for it. The victim must validate the block again (and report the second peer).
//   - "an outline is judged by the block it determines, not by its ID": the ID of an outline does
//     not cover its height field. A peer relays an honest block's outline with another height
//     (same ID, same proof of work); it is rejected and the peer reported. The honest peers that
//     relay the real block afterwards must be treated as if that had never happened.

// outlineRelay connects a fresh scripted peer that looks like a synced peer on `own`, lets it relay
// one outline and observes the victim's decision the way relayCase does.
func outlineRelay(nt *netx.Net, victim *netx.Node, own *netx.View, localIP string, ol gateway.V2BlockOutline) (dec string, err error) {
	bz, err := netx.DialByz(nt, victim.Addr(), localIP, func(req *netx.Request) netx.Reply {
		switch req.RPC {
		case netx.RPCSendHeaders:
			hs, rem, ok := own.Headers(req.Index, req.Max)
			if !ok {
				return netx.Reply{}
			}
			return netx.Reply{Raw: netx.EncHeaders(hs, rem)}
		case netx.RPCShareNodes:
			return netx.Reply{Raw: netx.EncPeers(nil)}
		}
		return netx.Reply{}
	})
	if err != nil {
		return "", err
	}
	defer bz.Close()
	return relayOn(bz, victim, ol), nil
}

// relayOn: the connected scripted peer relays one outline; decision as in relayCase.
func relayOn(bz *netx.Byz, victim *netx.Node, ol gateway.V2BlockOutline) string {
	peer := func() (found, synced bool) {
		for _, p := range victim.S.Peers() {
			if p.ConnAddr == bz.LocalAddr {
				return true, p.Synced()
			}
		}
		return false, false
	}
	if !netx.WaitFor(15*time.Second, func() bool { _, s := peer(); return s }) {
		return "not-synced"
	}
	tipBefore := victim.CM.Tip()
	returned, connClosed := bz.Call(netx.RPCRelayV2Outline, netx.EncOutline(ol), false, 15*time.Second)
	if !returned {
		return "stalled"
	}
	closed := connClosed || bz.IsClosed()
	banned := false
	if closed {
		banned = netx.WaitFor(3*time.Second, func() bool { return victim.Store.BannedAddr(bz.LocalAddr) })
	} else {
		banned = victim.Store.BannedAddr(bz.LocalAddr)
	}
	found, synced := peer()
	switch {
	case banned:
		return "ban"
	case closed || !found:
		return "drop"
	case !synced:
		return "resync"
	case victim.CM.Tip() != tipBefore:
		return "apply"
	}
	return "ignore"
}

// storedState returns what a manager on `blocks` holds as State(x) after AddBlocks([x]) (whether
// or not the reorg onto x succeeded): the header-level state.
func storedState(nt *netx.Net, blocks []types.Block, x types.Block) consensus.State {
	own := nt.ChainFrom(blocks)
	own.CM.AddBlocks([]types.Block{x}) // may fail in the reorg; the block stays stored
	cs, ok := own.CM.State(x.ID())
	if !ok {
		panic("c11: the manager holds no state for a block that passed ValidateOrphan")
	}
	return cs
}

// launderJobs: "stored is not validated".
func launderJobs(w *world) []job {
	var jobs []job
	nt := w.nt
	main := w.main
	const s = 14 // at/above the require height of the base network: the round takes the checkpoint path
	badTxns := map[string]types.V2Transaction{
		"minted-output":    {SiacoinOutputs: []types.SiacoinOutput{{Value: types.Siacoins(1000), Address: types.Address{9}}}},
		"fee-from-nothing": {MinerFee: types.Siacoins(3)},
	}
	for _, kind := range []string{"minted-output", "fee-from-nothing"} {
		for _, sendCap := range []uint64{0, 3} {
			kind, sendCap := kind, sendCap
			name := fmt.Sprintf("stored-invalid-block-then-chain-on-it-%s-split%d", kind, sendCap)
			rc := &roundCase{name: name, tags: []string{"attack:chain-on-stored-unvalidated-block", "rpc:SendV2Blocks", "regime:v2-checkpoint", "corrupt:" + kind, "two-step:outline-then-round"},
				w: w, tie: true, mustBan: true, sendCap: sendCap}
			jobs = append(jobs, job{name: name, quick: kind == "minted-output" || sendCap == 3, run: func(ip string) *vh.Case {
				tipState := main.States[s-1]
				addr := types.Address{0xE1, byte(sendCap)}
				x := blockWith(nt, tipState, addr, []types.V2Transaction{badTxns[kind]}, func(b *types.Block) {
					// the payout matches reward + fees: the block passes ValidateOrphan
					b.MinerPayouts[0].Value = b.MinerPayouts[0].Value.Add(badTxns[kind].MinerFee)
				})
				// the chain the second peer serves: the victim's chain, x, and children that commit to
				// the state the victim's manager holds for x
				v := netx.ViewOf(main)
				v.Blocks = append([]types.Block(nil), v.Blocks[:s]...)
				v.States = append([]consensus.State(nil), v.States[:s]...)
				cs := storedState(nt, main.Blocks[:s], x)
				v.Blocks = append(v.Blocks, x)
				v.States = append(v.States, cs)
				for i := 0; i < 5; i++ {
					b := nt.BuildOn(cs, netx.MineOpts{Addr: types.Address{0xE2, byte(i)}})
					cs = applyOn(nt, cs, b)
					v.Blocks = append(v.Blocks, b)
					v.States = append(v.States, cs)
				}
				rc.view = v
				rc.victim = main.Blocks[:s]
				rc.pre = func(c *vh.Case, reg *netx.Reg, victim *netx.Node, ip string, flush func()) {
					own := netx.ViewOf(main)
					own.Blocks, own.States = own.Blocks[:s], own.States[:s]
					dec, err := outlineRelay(nt, victim, own, ip+".3", gateway.OutlineBlock(x, nil, nil))
					if err != nil {
						c.Oracle("harness-connect", "first scripted peer could not connect: %v", err)
						return
					}
					c.Op(fmt.Sprintf("rout %d complete", reg.AddBlock(x)), fmt.Sprintf("dec %s tip %d", dec, reg.IDOfHeader(victim.CM.Tip().ID)))
					if dec != "ban" {
						c.Oracle("misbehaviour-not-banned:relayed-invalid-block", "a peer relayed the outline of a block with an invalid transaction (%s) on the victim's tip and was not reported (decision %s)", kind, dec)
					}
					if _, ok := victim.CM.State(x.ID()); !ok {
						c.Tags = append(c.Tags, "rejected-block:not-stored")
					} else {
						c.Tags = append(c.Tags, "rejected-block:stored")
					}
				}
				return rc.run(ip)
			}})
		}
	}

	// the benign counterpart: blocks that are stored but were never applied (a valid fork the victim
	// downloaded without adopting it) are offered again by an honest peer whose chain has grown
	// past the victim's; base of the round at/above the require height
	for _, stored := range []int{1, 2} {
		stored := stored
		name := fmt.Sprintf("honest-heavier-fork-first-%d-stored-unapplied", stored)
		rc := &roundCase{name: name, tags: []string{"kind:honest-heavier-fork-partly-stored", "regime:v2-checkpoint"}, w: w, tie: true, honest: true}
		jobs = append(jobs, job{name: name, quick: stored == 2, run: func(ip string) *vh.Case {
			f := main.Fork(s - 3)
			f.MineN(2, 3*time.Second, 0xE4) // two blocks: lighter than the victim's three
			rc.side = append([]types.Block(nil), f.Blocks[s-3:s-3+stored]...)
			f.MineN(5, time.Second, 0xE5)
			rc.view = netx.ViewOf(f)
			rc.victim = main.Blocks[:s]
			return rc.run(ip)
		}})
	}
	return jobs
}

// redeliveryJobs: "still syncs to the heaviest chain offered by its honest peers" after a failed
// attempt. Below the require height a first peer serves a valid branch with one invalid block on
// top (valid header and ValidateOrphan, invalid transaction): AddBlocks stores everything, applies
// the branch (every applied block now has a supplement), fails at the last block, rolls back and
// the peer is reported. An honest peer then serves the valid branch alone: every block of the
// batch is already stored, and the victim must adopt it all the same.
func redeliveryJobs(w *world) []job {
	var jobs []job
	nt := w.nt
	main := w.main
	for _, x := range []struct{ vs, k int }{{4, 8}, {0, 5}, {2, 9}} {
		x := x
		name := fmt.Sprintf("valid-prefix-redelivered-after-failed-reorg-%d-%d", x.vs, x.k)
		rc := &roundCase{name: name, tags: []string{"kind:honest-after-byzantine", "regime:v1-addblocks", "two-step:round-then-round", "redelivery:all-blocks-stored"},
			w: w, tie: true, honest: true}
		jobs = append(jobs, job{name: name, quick: true, run: func(ip string) *vh.Case {
			bad := types.V2Transaction{SiacoinOutputs: []types.SiacoinOutput{{Value: types.Siacoins(7), Address: types.Address{9}}}}
			evil := bogusView(w, main, x.k, func(b *types.Block, cs consensus.State) {
				if b.V2 != nil {
					b.V2.Transactions = []types.V2Transaction{bad}
					b.V2.Commitment = cs.Commitment(b.MinerPayouts[0].Address, nil, b.V2.Transactions)
				} else {
					b.Transactions = []types.Transaction{{SiacoinOutputs: []types.SiacoinOutput{{Value: types.Siacoins(7), Address: types.Address{9}}}}}
				}
			}, 0, 0xE7)
			good := netx.ViewOf(main)
			good.Blocks, good.States = good.Blocks[:x.k], good.States[:x.k]
			rc.victim = main.Blocks[:x.vs]
			rc.view = good
			rc.pre = func(c *vh.Case, reg *netx.Reg, victim *netx.Node, ip string, flush func()) {
				for _, b := range evil.Blocks {
					reg.AddBlock(b)
				}
				s := newSession(nt, reg, evil, script{}, victim)
				bz, out, err := s.run(ip + ".3")
				if err != nil {
					c.Oracle("harness-connect", "first scripted peer could not connect: %v", err)
					return
				}
				op := s.opLine()
				flush()
				c.Op(op, out.line())
				if out.dec != "ban" {
					c.Oracle("misbehaviour-not-banned:invalid-block-on-valid-branch", "a peer delivered a valid branch with an invalid block on top and was not reported (decision %s)", out.dec)
				}
				close(s.hold)
				bz.Close()
			}
			return rc.run(ip)
		}})
	}
	return jobs
}

// poisonCase: victim, honest node H and scripted peer B on one tip, everybody marked synced. H
// finds the next block Y. B has it first and relays its outline with the height field changed
// (the outline's ID, and so its proof of work, are Y's). Then H adds Y and relays it.
type poisonCase struct {
	name  string
	tags  []string
	w     *world
	s     int // common height
	delta int // change of the height field
}

func (pc *poisonCase) run(ip string) *vh.Case {
	w := pc.w
	nt := w.nt
	main := w.main
	c := &vh.Case{Name: pc.name, Tags: pc.tags, Nontrivial: true, Key: pc.name,
		Model: fmt.Sprintf("sync gate %d %d", nt.N.HardforkV2.RequireHeight, perReq)}
	reg := netx.NewReg(nt)
	var vids []int
	for _, b := range main.Blocks[:pc.s] {
		vids = append(vids, reg.AddBlock(b))
	}
	y := blockWith(nt, main.States[pc.s-1], types.Address{0xF3, byte(pc.s)}, []types.V2Transaction{arbTxn("y")}, nil)
	yBad := y
	v2 := *y.V2
	v2.Height = uint64(int(v2.Height) + pc.delta)
	yBad.V2 = &v2
	idY, idBad := reg.AddBlock(y), reg.AddBlock(yBad)
	victim := nt.NewNode(ip + ".1")
	victim.Load(main.Blocks[:pc.s])
	trace := traceWork(victim)
	startWork := netx.WorkOf(victim.CM.TipState().TotalWork)
	hon := nt.NewNode(ip + ".3")
	hon.Load(main.Blocks[:pc.s])
	defer hon.Close()
	for _, l := range reg.Lines {
		c.Op(l, "ok")
	}
	have := "have"
	for _, id := range vids {
		have += fmt.Sprintf(" %d", id)
	}
	c.Op(have, fmt.Sprintf("tip %d", reg.IDOfHeader(victim.CM.Tip().ID)))

	own := netx.ViewOf(main)
	own.Blocks, own.States = own.Blocks[:pc.s], own.States[:pc.s]
	bz, err := netx.DialByz(nt, victim.Addr(), ip+".2", func(req *netx.Request) netx.Reply {
		switch req.RPC {
		case netx.RPCSendHeaders:
			hs, rem, ok := own.Headers(req.Index, req.Max)
			if !ok {
				return netx.Reply{}
			}
			return netx.Reply{Raw: netx.EncHeaders(hs, rem)}
		case netx.RPCShareNodes:
			return netx.Reply{Raw: netx.EncPeers(nil)}
		}
		return netx.Reply{}
	})
	if err != nil {
		c.Oracle("harness-connect", "scripted peer could not connect: %v", err)
		victim.Close()
		return c
	}
	defer bz.Close()
	ctx, cancel := context.WithTimeout(context.Background(), 5*time.Second)
	_, cerr := hon.S.Connect(ctx, victim.Addr())
	cancel()
	if cerr != nil {
		c.Oracle("harness-connect", "honest node could not connect: %v", cerr)
	}
	settled := netx.WaitFor(15*time.Second, func() bool {
		ps := victim.S.Peers()
		if len(ps) != 2 {
			return false
		}
		for _, p := range ps {
			if !p.Synced() {
				return false
			}
		}
		return true
	})
	if !settled {
		c.Oracle("settle-phase-stalled", "the victim did not mark its two peers (same tip) synced within 15 s")
	}

	// step 1: B relays Y's outline with another height
	dec1 := relayOn(bz, victim, gateway.OutlineBlock(yBad, nil, nil))
	c.Op(fmt.Sprintf("rout %d complete", idBad), fmt.Sprintf("dec %s tip %d", dec1, reg.IDOfHeader(victim.CM.Tip().ID)))
	if dec1 != "ban" {
		c.Oracle("misbehaviour-not-banned:outline-wrong-height", "a peer relayed an outline whose height field does not follow the parent's (block rejected by ValidateOrphan) and was not reported (decision %s)", dec1)
	}

	// step 2: H adds Y and relays it, again and again
	if err := hon.CM.AddBlocks([]types.Block{y}); err != nil {
		c.Oracle("harness-late-block", "the honest node rejected its own block: %v", err)
	}
	honestBanned := func() string {
		for _, b := range victim.Store.Bans() {
			if b.Addr != bz.LocalAddr && !strings.Contains(b.Addr, "/") {
				return fmt.Sprintf("%s (%s)", b.Addr, b.Reason)
			}
		}
		return ""
	}
	want := hon.CM.Tip()
	deadline := time.Now().Add(15 * time.Second)
	for time.Now().Before(deadline) && victim.CM.Tip() != want && honestBanned() == "" {
		hon.S.BroadcastV2BlockOutline(gateway.OutlineBlock(y, nil, nil))
		time.Sleep(200 * time.Millisecond)
	}
	dec2 := "ignore"
	hb := honestBanned()
	switch {
	case hb != "":
		dec2 = "ban"
	case victim.CM.Tip() == want:
		dec2 = "apply"
	}
	c.Op(fmt.Sprintf("rout %d complete", idY), fmt.Sprintf("dec %s tip %d", dec2, reg.IDOfHeader(victim.CM.Tip().ID)))
	if hb != "" {
		c.Oracle("honest-peer-banned:outline-after-rejected-same-id", "an honest node relayed its valid block after another peer had relayed an outline with the same ID and another height: the honest node was reported: %s", hb)
	}
	if victim.CM.Tip() != want {
		c.Oracle("stalled-below-honest-chain", "an honest peer relayed (outline, repeatedly, for 15 s) the valid block %v on top of the victim's tip, after a scripted peer had relayed an outline with the same ID and another height: the victim is still on %v, connected peers: %s", want, victim.CM.Tip(), peersSynced(victim))
	}
	finishVictim(c, victim, trace, startWork)
	return c
}

func poisonJobs(w *world) []job {
	var jobs []job
	allow := int(w.nt.N.HardforkV2.AllowHeight)
	for _, x := range []struct {
		s, delta int
		quick    bool
	}{{14, 1, true}, {14, -1, false}, {allow, 1, true}, {17, 5, false}} {
		pc := &poisonCase{name: fmt.Sprintf("outline-same-id-other-height-%+d-then-honest-relay-at-%d", x.delta, x.s),
			tags: []string{"kind:honest+byzantine", "byz:relays-honest-outline-with-other-height", regime(w, x.s), "two-step:outline-then-outline"}, w: w, s: x.s, delta: x.delta}
		jobs = append(jobs, job{name: pc.name, quick: x.quick, run: pc.run})
	}
	return jobs
}

// headerBatchCase: "still syncs to the heaviest chain offered by its honest peers" when that chain
// needs more than one header reply. A SendHeaders reply holds what the SERVING side allows (it
// clamps the request to its own limit; the default of 10000 cannot be changed through an option,
// but a peer configured lower is perfectly conformant): the scripted peer serves a valid chain
// honestly, at most `batch` headers per reply with the true number of remaining headers, and never
// announces anything. The victim must keep asking until it is on the peer's tip.
type headerBatchCase struct {
	name  string
	tags  []string
	w     *world
	s     int // victim height
	batch uint64
}

func (hc *headerBatchCase) run(ip string) *vh.Case {
	c := &vh.Case{Name: hc.name, Tags: hc.tags, Nontrivial: true, Key: hc.name}
	nt := hc.w.nt
	main := hc.w.main
	victim := nt.NewNode(ip + ".1")
	victim.Load(main.Blocks[:hc.s])
	trace := traceWork(victim)
	startWork := netx.WorkOf(victim.CM.TipState().TotalWork)
	view := netx.ViewOf(main)
	replies := 0
	var mu sync.Mutex
	bz, err := netx.DialByz(nt, victim.Addr(), ip+".2", func(req *netx.Request) netx.Reply {
		switch req.RPC {
		case netx.RPCSendHeaders:
			max := req.Max
			if max > hc.batch {
				max = hc.batch
			}
			hs, rem, ok := view.Headers(req.Index, max)
			if !ok {
				return netx.Reply{}
			}
			mu.Lock()
			replies++
			mu.Unlock()
			return netx.Reply{Raw: netx.EncHeaders(hs, rem)}
		case netx.RPCSendCheckpoint:
			b, cs, ok := view.Checkpoint(req.Index)
			if !ok {
				return netx.Reply{}
			}
			return netx.Reply{Raw: netx.EncCheckpoint(b, cs)}
		case netx.RPCSendV2Blocks:
			bs, rem := view.BlocksFor(req.History, req.Max)
			return netx.Reply{Raw: netx.EncBlocks(bs, rem)}
		case netx.RPCShareNodes:
			return netx.Reply{Raw: netx.EncPeers(nil)}
		}
		return netx.Reply{}
	})
	if err != nil {
		c.Oracle("harness-connect", "scripted peer could not connect: %v", err)
		victim.Close()
		return c
	}
	defer bz.Close()
	want := main.Tip()
	reached := netx.WaitFor(20*time.Second, func() bool { return victim.CM.Tip() == want })
	mu.Lock()
	n := replies
	mu.Unlock()
	c.Op(fmt.Sprintf("headers in batches of %d from %d", hc.batch, hc.s), fmt.Sprintf("reached-honest-tip %v", reached))
	if !reached {
		c.Oracle("stalled-below-honest-chain", "an honest peer serves the valid chain up to %v, at most %d headers per reply (it answered %d header requests, each with the true number of remaining headers): after 20 s the victim is on %v, peers: %s", want, hc.batch, n, victim.CM.Tip(), peersSynced(victim))
	}
	for _, b := range victim.Store.Bans() {
		c.Oracle("honest-peer-banned:header-batches", "nobody misbehaved, yet %s was reported: %s", b.Addr, b.Reason)
		break
	}
	finishVictim(c, victim, trace, startWork)
	return c
}

func headerBatchJobs(w *world) []job {
	var jobs []job
	for _, x := range []struct {
		s     int
		batch uint64
	}{{0, 7}, {4, 5}, {12, 5}, {2, 12}} {
		hc := &headerBatchCase{name: fmt.Sprintf("honest-headers-in-batches-of-%d-from-%d", x.batch, x.s),
			tags: []string{"kind:honest", "headers:several-replies-needed", regime(w, x.s)}, w: w, s: x.s, batch: x.batch}
		jobs = append(jobs, job{name: hc.name, quick: true, run: hc.run})
	}
	return jobs
}
