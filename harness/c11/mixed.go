package c11

import (
	"context"
	"fmt"
	"strings"
	"sync"
	"time"

	"go.sia.tech/core/consensus"
	"go.sia.tech/core/types"
	"go.sia.tech/coreutils/syncer"
	"verifharness/netx"
	"verifharness/vh"
)

// freePeer serves a view with a persistent corruption for as long as the victim talks to it.
func freePeer(view *netx.View, sc script) func(req *netx.Request) netx.Reply {
	var mu sync.Mutex
	return func(req *netx.Request) netx.Reply {
		mu.Lock()
		defer mu.Unlock()
		switch req.RPC {
		case netx.RPCSendHeaders:
			a := &hAns{}
			hs, rem, ok := view.Headers(req.Index, req.Max)
			if !ok {
				return netx.Reply{}
			}
			a.headers, a.remaining = hs, rem
			if sc.mutH != nil && len(a.headers) > 0 {
				sc.mutH(0, a)
			}
			if a.fail {
				return netx.Reply{}
			} else if a.raw != nil {
				return netx.Reply{Raw: a.raw}
			}
			return netx.Reply{Raw: netx.EncHeaders(a.headers, a.remaining)}
		case netx.RPCSendCheckpoint:
			a := &cAns{}
			b, cs, ok := view.Checkpoint(req.Index)
			if !ok {
				return netx.Reply{}
			}
			a.block, a.state = b, cs
			if sc.mutC != nil {
				sc.mutC(0, a)
			}
			if a.fail {
				return netx.Reply{}
			} else if a.raw != nil {
				return netx.Reply{Raw: a.raw}
			}
			return netx.Reply{Raw: netx.EncCheckpoint(a.block, a.state)}
		case netx.RPCSendV2Blocks:
			a := &bAns{}
			a.blocks, a.remaining = view.BlocksFor(req.History, req.Max)
			if sc.mutB != nil && len(a.blocks) > 0 {
				sc.mutB(0, a)
			}
			if a.fail {
				return netx.Reply{}
			} else if a.raw != nil {
				return netx.Reply{Raw: a.raw}
			}
			return netx.Reply{Raw: netx.EncBlocks(a.blocks, a.remaining)}
		case netx.RPCShareNodes:
			return netx.Reply{Raw: netx.EncPeers([]string{"not an address", "256.1.1.1:99999", ":0", "127.0.0.1:1"})}
		}
		return netx.Reply{}
	}
}

type byzSpec struct {
	label string
	view  func() *netx.View
	sc    script
}

// mixedCase: the victim is connected to one honest node holding the heaviest valid chain and to
// several scripted peers at once. Oracle only: it must end on the honest tip.
type mixedCase struct {
	name    string
	tags    []string
	w       *world
	victim  []types.Block
	honest  []types.Block
	byz     []byzSpec
	sendCap uint64 // victim's (and the honest node's) WithMaxSendBlocks
}

func (mc *mixedCase) run(ip string) *vh.Case {
	c := &vh.Case{Name: mc.name, Tags: mc.tags, Nontrivial: true, Key: mc.name}
	nt := mc.w.nt
	var nopts []syncer.Option
	if mc.sendCap > 0 {
		nopts = append(nopts, syncer.WithMaxSendBlocks(mc.sendCap))
	}
	victim := nt.NewNode(ip+".1", nopts...)
	victim.Load(mc.victim)
	trace := traceWork(victim)
	startWork := netx.WorkOf(victim.CM.TipState().TotalWork)
	hon := nt.NewNode(ip+".3", nopts...)
	hon.Load(mc.honest)
	defer hon.Close()
	var peers []*netx.Byz
	for i, bs := range mc.byz {
		bz, err := netx.DialByz(nt, victim.Addr(), fmt.Sprintf("%s.%d", ip, 10+i), freePeer(bs.view(), bs.sc))
		if err != nil {
			c.Oracle("harness-connect", "scripted peer could not connect: %v", err)
			continue
		}
		peers = append(peers, bz)
	}
	// the honest node connects a little later, so the scripted peers are asked first
	time.Sleep(150 * time.Millisecond)
	if _, err := hon.S.Connect(ctxTimeout(5*time.Second), victim.Addr()); err != nil {
		c.Oracle("harness-connect", "honest node could not connect: %v", err)
	}
	want := hon.CM.Tip()
	ok := netx.WaitFor(25*time.Second, func() bool { return victim.CM.Tip() == want })
	info := fmt.Sprintf("victim tip %v, honest tip %v, bans %d", victim.CM.Tip(), want, len(victim.Store.Bans()))
	c.Op("mixed "+mc.name, info)
	c.Ops[len(c.Ops)-1] = "mixed " + mc.name // keep the op free of hashes
	c.Impl[len(c.Impl)-1] = fmt.Sprintf("reached-honest-tip %v", ok)
	if !ok {
		hw := hon.CM.TipState()
		vw := victim.CM.TipState()
		if hw.SufficientlyHeavierThan(vw) {
			c.Oracle("stalled-below-honest-chain", "with an honest peer on a sufficiently heavier valid chain connected, the victim did not reach it within 25 s (%s)", info)
		}
	}
	// every ban must be a ban of one of the scripted peers: the honest node did nothing wrong
	byzAddr := map[string]bool{}
	for _, bz := range peers {
		byzAddr[bz.LocalAddr] = true
	}
	for _, b := range victim.Store.Bans() {
		if !byzAddr[b.Addr] && !strings.Contains(b.Addr, "/") {
			c.Oracle("honest-peer-banned:mixed", "the victim reported the honest node (%s) for banning: %s", b.Addr, b.Reason)
			break
		}
	}
	for _, bz := range peers {
		bz.Close()
	}
	finishVictim(c, victim, trace, startWork)
	return c
}

func mixedJobs(w, wl *world, rng *vh.RNG) []job {
	var jobs []job
	main := w.main
	L := main.Len()
	honest := func() *netx.View { return netx.ViewOf(main) }
	sameID := script{mutB: func(ord int, a *bAns) {
		k := len(a.blocks) - 1
		b := a.blocks[k]
		if b.V2 == nil {
			return
		}
		b.Transactions = []types.Transaction{{ArbitraryData: [][]byte{[]byte("oops")}}}
		a.blocks = append([]types.Block(nil), a.blocks...)
		a.blocks[k] = b
	}}
	badState := script{mutC: func(ord int, a *cAns) { a.state.SiafundTaxRevenue = types.Siacoins(5) }}
	stall := script{mutB: func(ord int, a *bAns) { a.fail = true }, mutC: func(ord int, a *cAns) { a.fail = true }}
	garbage := script{mutB: func(ord int, a *bAns) { a.raw = []byte{0xff, 0xff, 0xff, 0xff, 0xff, 0xff, 0xff, 0x7f, 0} },
		mutH: func(ord int, a *hAns) {}}
	badHdr := script{mutH: func(ord int, a *hAns) { a.headers[len(a.headers)-1].ParentID = types.BlockID{1} }}
	// a longer chain than the honest one, but with an invalid block in it
	longBogus := func(k int, kind int) func() *netx.View {
		return func() *netx.View {
			mut := func(b *types.Block, cs consensus.State) {
				if kind == 0 || b.V2 == nil {
					b.MinerPayouts[0].Value = b.MinerPayouts[0].Value.Add(types.NewCurrency64(1))
				} else {
					b.V2.Commitment = types.Hash256{0xBA, 0xD0}
				}
			}
			return bogusView(w, main, k, mut, L-k+6, 0x77)
		}
	}
	// a genuine PREFIX of the requested batch (no field corrupted): on its own it is a wrong
	// count; if it were accepted, the next batch — from an honest peer — would lack its parent
	prefix := script{mutB: func(ord int, a *bAns) {
		if len(a.blocks) >= 2 {
			a.blocks = a.blocks[:len(a.blocks)-1]
		}
	}}
	specs := []byzSpec{
		{"same-id-other-body", honest, sameID},
		{"bad-checkpoint-state", honest, badState},
		{"stalls-blocks", honest, stall},
		{"malformed-blocks", honest, garbage},
		{"bad-headers", honest, badHdr},
		{"longer-invalid-chain-early", longBogus(5, 0), script{}},
		{"longer-invalid-chain-late", longBogus(L-3, 1), script{}},
		{"longer-invalid-chain-mid", longBogus(16, 1), script{}},
	}
	add := func(quick bool, mc *mixedCase) {
		jobs = append(jobs, job{name: mc.name, quick: quick, run: mc.run})
	}
	for i, sp := range specs {
		for _, s := range []int{2, 14} {
			sp, s := sp, s
			add((i+s)%5 == 0, &mixedCase{name: fmt.Sprintf("mixed-%s-from-%d", sp.label, s), tags: []string{"kind:honest+byzantine", "byz:" + sp.label, regime(w, s)},
				w: w, victim: main.Blocks[:s], honest: main.Blocks, byz: []byzSpec{sp}})
		}
	}
	// several Byzantine peers at once, drawn from the seed
	for j := 0; j < 4; j++ {
		perm := rng.Perm(len(specs))
		s := []int{0, 7, 12, 19}[rng.Intn(4)]
		three := []byzSpec{specs[perm[0]], specs[perm[1]], specs[perm[2]]}
		add(j == 0, &mixedCase{name: fmt.Sprintf("mixed-3byz-%d", j), tags: []string{"kind:honest+3byzantine", regime(w, s)},
			w: w, victim: main.Blocks[:s], honest: main.Blocks, byz: three})
	}
	// victim on a lighter fork, honest on main, a Byzantine peer serving a same-ID corruption
	light := main.Fork(11)
	light.MineN(4, 2*time.Second, 0x79)
	add(true, &mixedCase{name: "mixed-victim-on-fork", tags: []string{"kind:honest+byzantine", "byz:same-id-other-body", "regime:v2-checkpoint"},
		w: w, victim: light.Blocks, honest: main.Blocks, byz: []byzSpec{specs[0], specs[7]}})
	// truncated-but-genuine batches among several peers: several requests per round (request sizes
	// 3, 5, 7), an honest node and one or two peers that answer every block request with all but
	// the last block
	for _, k := range []uint64{3, 5, 7} {
		for _, nb := range []int{1, 2} {
			k, nb := k, nb
			bz := []byzSpec{{"genuine-prefix", honest, prefix}}
			if nb == 2 {
				bz = append(bz, byzSpec{"genuine-prefix", honest, prefix})
			}
			add(true, &mixedCase{name: fmt.Sprintf("mixed-genuine-prefix-split%d-%dbyz", k, nb), tags: []string{"kind:honest+byzantine", "byz:genuine-prefix", fmt.Sprintf("split:%d", k), "regime:v1-then-v2"},
				w: w, victim: nil, honest: main.Blocks, byz: bz, sendCap: k})
		}
	}
	// only an honest node, request bases exactly on the require height (tip there / request boundary there)
	reqH := int(w.nt.N.HardforkV2.RequireHeight)
	for _, d := range []int{-1, 0, 1} {
		add(d == 0, &mixedCase{name: fmt.Sprintf("honest-only-tip-at-require%+d", d), tags: []string{"kind:honest-only", "boundary:victim-tip-vs-require", fmt.Sprintf("base:require%+d", d)},
			w: w, victim: main.Blocks[:reqH+d], honest: main.Blocks})
	}
	add(true, &mixedCase{name: "honest-only-split5-boundary-on-require", tags: []string{"kind:honest-only", "boundary:request-base-on-require", "split:5"},
		w: w, victim: nil, honest: main.Blocks, sendCap: 5})
	add(false, &mixedCase{name: "honest-only-split2-boundary-on-require", tags: []string{"kind:honest-only", "boundary:request-base-on-require", "split:2"},
		w: w, victim: main.Blocks[:2], honest: main.Blocks, sendCap: 2})
	// long chains: three requests, one Byzantine peer corrupting checkpoints, one stalling
	add(false, &mixedCase{name: "mixed-long", tags: []string{"kind:honest+byzantine", "regime:v1-then-v2", "requests:3"},
		w: wl, victim: nil, honest: wl.main.Blocks, byz: []byzSpec{
			{"bad-checkpoint-state", func() *netx.View { return netx.ViewOf(wl.main) }, badState},
			{"stalls-blocks", func() *netx.View { return netx.ViewOf(wl.main) }, stall}}})
	return jobs
}

func ctxTimeout(d time.Duration) context.Context {
	ctx, cancel := context.WithTimeout(context.Background(), d)
	time.AfterFunc(d+time.Second, cancel)
	return ctx
}
