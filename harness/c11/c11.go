// Package c11: a Byzantine peer cannot corrupt, crash or stall an honest syncer's chain.
//
// Real syncer.Syncer victims (real chain.Manager over MemDB, loopback TCP) on test networks whose
// v2 allow/require heights are small enough that short chains cross both. A scripted peer built
// directly on the gateway wire protocol (netx.Byz) answers every RPC the victim issues from a
// view of a chain, deviating in exactly one scripted way, or sends relay messages.
//
//	(T) the victim's decision for every interaction (apply | ignore | drop | resync | ban, its tip,
//	    the peer's synced flag, which history entries it asked, how many block requests it made) is
//	    compared with lean/Verif/Model/Sync.lean (driver family "sync gate"), which is given the
//	    peer's answers as model ids with consensus-computed attributes (netx.Reg).
//	(O) the victim's best chain is re-validated block by block on an independent manager, its total
//	    work never decreases (reorg trace), it shuts down cleanly, Ban calls are recorded through a
//	    wrapping PeerStore, and with an honest peer also connected it ends on the heaviest honest chain.
package c11

import (
	"context"
	"fmt"
	"math/big"
	"os"
	"os/exec"
	"sort"
	"strings"
	"sync"
	"time"

	"go.sia.tech/core/consensus"
	"go.sia.tech/core/types"
	"go.sia.tech/coreutils/syncer"
	"verifharness/netx"
	"verifharness/vh"
)

func init() { vh.Register("C11", Run) }

const perReq = 100

// a job produces one executed case
type job struct {
	name  string
	quick bool // part of the quick tier's fixed core
	run   func(ip string) *vh.Case
}

func Run(r *vh.Run) {
	r.Rule = "one case = one victim node + one scripted peer (+ optionally one honest node): a (network, victim chain, peer view, RPC, corruption kind, position) tuple enumerated from a fixed catalogue (every gateway RPC x every corruption x first/middle/last position x below/above the v2 require height), plus seeded random draws of (victim height, chain length, position). Non-trivial = the victim issued or served at least one RPC to the scripted peer and the case's (RPC, corruption, position, regime) tuple is distinct."
	rng := vh.NewRNG(r.Seed)
	jobs := catalogue(r, rng)
	// both tiers run the whole catalogue they are given (the quick tier's is the base network's)
	if r.Only != "" {
		var sel []job
		for _, j := range jobs {
			if j.name == r.Only {
				sel = append(sel, j)
			}
		}
		jobs = sel
	}
	cases := make([]*vh.Case, len(jobs))
	par := 28
	sem := make(chan struct{}, par)
	var wg sync.WaitGroup
	for i := range jobs {
		wg.Add(1)
		sem <- struct{}{}
		go func(i int) {
			defer wg.Done()
			defer func() { <-sem }()
			ip := fmt.Sprintf("127.%d.%d", 11+(i/200)%50, i%200+1)
			cases[i] = jobs[i].run(ip)
		}(i)
	}
	wg.Wait()
	for _, c := range cases {
		if c != nil {
			if os.Getenv("VERIF_DEBUG") != "" && len(c.Ops) > 0 {
				fmt.Printf("%-44s %s => %s %v\n", c.Name, trunc(c.Ops[len(c.Ops)-1], 70), c.Impl[len(c.Impl)-1], c.Fails)
			}
			r.Add(c)
		}
	}
	r.Extra("catalogue_size", len(jobs))
	r.Assume("consensus (ValidateHeader/ValidateOrphan/ValidateBlock, work, difficulty) is a parameter: block attributes are computed with go.sia.tech/core on an independent linear replay")
	r.Assume("hash injectivity (a checkpoint block's ID binds its commitment, the commitment binds the supplied state) is a hypothesis of gate_v2_prevalidated (HashBinds); the harness cannot build a counterexample")
	r.Assume("network timing, timeouts and resource exhaustion are not modelled; liveness on the implementation is observed within a deadline (20 s per round, 25 s for reaching the honest tip)")
	r.Assume("a stored block body replaced by another body with the same ID (Store.AddBlock overwrites) is not modelled; such cases are oracle-only")
}

// ---- worlds ----

type world struct {
	nt   *netx.Net
	main *netx.Chain
}

var (
	worldMu sync.Mutex
	worlds  = map[string]*world{}
)

// getWorld returns (and caches) a network and its main honest chain.
func getWorld(allow, require uint64, n int) *world {
	key := fmt.Sprintf("%d/%d/%d", allow, require, n)
	worldMu.Lock()
	defer worldMu.Unlock()
	if w, ok := worlds[key]; ok {
		return w
	}
	nt := netx.NewNet(allow, require, 0x00, 0x40)
	c := nt.NewChain()
	c.MineN(n, time.Second, 1)
	w := &world{nt: nt, main: c}
	worlds[key] = w
	return w
}

func applyOn(nt *netx.Net, ps consensus.State, b types.Block) (cs consensus.State) {
	var anc time.Time
	if ps.Index.Height <= nt.N.HardforkOak.Height {
		anc = nt.Genesis.Timestamp
	}
	defer func() {
		// ApplyBlock panics on some invalid blocks; what is built below such a block only needs a
		// header-level state
		if recover() != nil {
			cs = consensus.ApplyHeader(ps, b.Header(), anc)
		}
	}()
	cs, _ = consensus.ApplyBlock(ps, b, netx.EmptySupplement(ps, b), anc)
	return cs
}

// bogusView: the first k blocks of base, then a block built with mut (possibly invalid), then
// `more` children mined on the state obtained by applying the blocks regardless of validity.
func bogusView(w *world, base *netx.Chain, k int, mut func(b *types.Block, cs consensus.State), more int, seed byte) *netx.View {
	v := netx.ViewOf(base)
	v.Blocks = append([]types.Block(nil), v.Blocks[:k]...)
	v.States = append([]consensus.State(nil), v.States[:k]...)
	ps := base.StateBefore(k)
	x := w.nt.BuildOn(ps, netx.MineOpts{Addr: types.Address{seed, 0xBB}, Mut: mut})
	cs := applyOn(w.nt, ps, x)
	v.Blocks = append(v.Blocks, x)
	v.States = append(v.States, cs)
	for i := 0; i < more; i++ {
		b := w.nt.BuildOn(cs, netx.MineOpts{Addr: types.Address{seed, 0xBC, byte(i)}})
		cs = applyOn(w.nt, cs, b)
		v.Blocks = append(v.Blocks, b)
		v.States = append(v.States, cs)
	}
	return v
}

// ---- the generic sync-round case ----

type roundCase struct {
	name   string
	tags   []string
	w      *world
	victim []types.Block // victim's initial best chain
	view   *netx.View
	sc     script
	tie    bool
	// expectBan / expectTip are sanity expectations of the catalogue author, checked as oracles
	// only where stated (mustBan: a provably misbehaving peer must be reported)
	mustBan bool
	// honest: the peer serves a valid chain without any deviation; it must not be reported, and if
	// its chain is sufficiently heavier the victim must end the round on it
	honest  bool
	sendCap uint64 // victim's WithMaxSendBlocks (0 = default 100): the request split size
	// side: a fork the victim has ingested through AddBlocks without adopting it (stored, never
	// applied: header-level states only)
	side []types.Block
	// pre: something another peer does to the victim before the round (its operations and
	// observations are recorded in the case)
	pre func(c *vh.Case, reg *netx.Reg, victim *netx.Node, ip string, flush func())
}

func (rc *roundCase) run(ip string) *vh.Case {
	c := &vh.Case{Name: rc.name, Tags: rc.tags, Nontrivial: true, Key: rc.name}
	split := uint64(perReq)
	var vopts []syncer.Option
	if rc.sendCap > 0 && rc.sendCap < split {
		split = rc.sendCap
		vopts = append(vopts, syncer.WithMaxSendBlocks(rc.sendCap))
	}
	if rc.tie {
		c.Model = fmt.Sprintf("sync gate %d %d", rc.w.nt.N.HardforkV2.RequireHeight, split)
	}
	reg := netx.NewReg(rc.w.nt)
	emitted := 0
	flush := func() {
		for ; emitted < len(reg.Lines); emitted++ {
			c.Op(reg.Lines[emitted], "ok")
		}
	}
	var vids []int
	for _, b := range rc.victim {
		vids = append(vids, reg.AddBlock(b))
	}
	for _, b := range rc.view.Blocks {
		reg.AddBlock(b)
	}
	victim := rc.w.nt.NewNode(ip+".1", vopts...)
	victim.Load(rc.victim)
	trace := traceWork(victim)
	startWork := netx.WorkOf(victim.CM.TipState().TotalWork)
	flush()
	have := "have"
	for _, id := range vids {
		have += fmt.Sprintf(" %d", id)
	}
	c.Op(have, fmt.Sprintf("tip %d", reg.IDOfHeader(victim.CM.Tip().ID)))
	if len(rc.side) > 0 {
		op, res := "add", "ok"
		for _, b := range rc.side {
			op += fmt.Sprintf(" %d", reg.AddBlock(b))
		}
		if err := victim.CM.AddBlocks(rc.side); err != nil {
			res = "err"
		}
		flush()
		c.Op(op, fmt.Sprintf("err %s tip %d", res, reg.IDOfHeader(victim.CM.Tip().ID)))
	}

	if rc.pre != nil {
		rc.pre(c, reg, victim, ip, flush)
		flush()
	}

	s := newSession(rc.w.nt, reg, rc.view, rc.sc, victim)
	bz, out, err := s.run(ip + ".2")
	if err != nil {
		c.Oracle("harness-connect", "scripted peer could not connect: %v", err)
		victim.Close()
		return c
	}
	op := s.opLine()
	flush()
	c.Op(op, out.line())
	if out.timeout {
		c.Oracle("sync-round-stalled", "the victim's sync round with the scripted peer did not end within 20 s (%s)", op)
	}
	if rc.honest {
		if out.dec == "ban" || victim.Store.BannedAddr(bz.LocalAddr) {
			c.Oracle("honest-peer-banned:sync-round", "a peer that served a valid chain without any deviation was reported for banning: %v (%s)", victim.Store.Bans(), strings.Join(rc.tags, " "))
		}
		if n := len(rc.view.States); n > 0 {
			pt, vt := rc.view.States[n-1], victim.CM.TipState()
			if pt.SufficientlyHeavierThan(vt) && victim.CM.Tip() != pt.Index {
				c.Oracle("stalled-below-honest-chain", "one sync round with an honest peer on a sufficiently heavier valid chain (tip %v) left the victim on %v (decision %s)", pt.Index, victim.CM.Tip(), out.dec)
			}
		}
	}
	// a peer must not end the round marked synced while the victim is short of the chain whose
	// headers it validated and that chain is sufficiently heavier than what it is on
	if out.synced && out.dec != "ban" {
		if n := len(rc.view.States); n > 0 && rc.sc.mutH == nil {
			pt, vt := rc.view.States[n-1], victim.CM.TipState()
			if pt.SufficientlyHeavierThan(vt) && victim.CM.Tip() != pt.Index {
				c.Oracle("marked-synced-short-of-tip", "the peer is marked synced although the victim is on %v and the header chain it accepted from that peer ends in %v (sufficiently heavier)", victim.CM.Tip(), pt.Index)
			}
		}
	}
	if rc.mustBan && out.dec != "ban" {
		c.Oracle("misbehaviour-not-banned:"+rc.tags[0], "peer delivered a provably invalid block but was not reported (decision %s)", out.dec)
	}
	finishVictim(c, victim, trace, startWork)
	close(s.hold)
	bz.Close()
	return c
}

// finishVictim evaluates the implementation-side oracles common to all cases and stops the node.
func finishVictim(c *vh.Case, victim *netx.Node, trace *workTrace, startWork *big.Int) {
	if msg := victim.Audit(); msg != "" {
		c.Oracle("best-chain-invalid", "%s", msg)
	}
	if msg := trace.Decreasing(); msg != "" {
		c.Oracle("tip-work-decreased", "%s", msg)
	}
	if msg := trace.Stuck(); msg != "" {
		c.Oracle("listener-called-with-lock-held", "%s", msg)
	}
	victim.Store.WaitIdle()
	if msg := victim.Store.Stuck(); msg != "" {
		c.Oracle("peer-store-called-with-lock-held", "%s", msg)
	}
	end := netx.WorkOf(victim.CM.TipState().TotalWork)
	if end.Cmp(startWork) < 0 {
		c.Oracle("tip-work-decreased", "final total work %v below initial %v", end, startWork)
	}
	if !victim.Close() {
		c.Oracle("node-not-alive", "Syncer.Close / Run did not return within 15 s")
	}
}

func sortedKeys(m map[string]int) []string {
	ks := make([]string, 0, len(m))
	for k := range m {
		ks = append(ks, k)
	}
	sort.Strings(ks)
	return ks
}

func trunc(s string, n int) string {
	if len(s) > n {
		return s[:n] + "…"
	}
	return s
}

// isolate runs a case in a child process of the harness: a corruption that makes the node panic
// in a goroutine without recover takes the whole process down, which must be an observation
// ("process-crashed") with the case as failing input, not the end of the run.
func isolate(r *vh.Run, j job) job {
	if r == nil || os.Getenv("VERIF_C11_CHILD") != "" {
		return j
	}
	name := j.name
	j.run = func(ip string) *vh.Case {
		c := &vh.Case{Name: name, Nontrivial: true, Key: name, Tags: []string{"isolated:child-process"}}
		dir, err := os.MkdirTemp("", "c11child")
		if err != nil {
			c.Oracle("harness-isolate", "%v", err)
			return c
		}
		defer os.RemoveAll(dir)
		ctx, cancel := context.WithTimeout(context.Background(), 150*time.Second)
		defer cancel()
		var out []byte
		code := 0
		for attempt := 0; attempt < 4; attempt++ {
			cmd := exec.CommandContext(ctx, os.Args[0], "C11", "-tier", r.Tier, "-seed", fmt.Sprint(r.Seed), "-drv", r.Drv, "-out", dir, "-only", name)
			cmd.Env = append(os.Environ(), "VERIF_C11_CHILD=1")
			out, _ = cmd.CombinedOutput()
			code = cmd.ProcessState.ExitCode()
			// an abnormal exit that is not a Go panic / runtime fatal error is the harness's own
			// trouble (e.g. the model driver binary being relinked by a concurrent build): try again
			if code == 0 || code == 1 || strings.Contains(string(out), "panic:") || strings.Contains(string(out), "fatal error:") {
				break
			}
			time.Sleep(3 * time.Second)
		}
		c.Op("isolated "+name, fmt.Sprintf("exit %d", code))
		text := string(out)
		switch code {
		case 0:
		case 1:
			for _, l := range strings.Split(text, "\n") {
				t := strings.TrimSpace(l)
				for _, kind := range []string{"oracle", "corr"} {
					if strings.HasPrefix(t, kind+"[") {
						if i := strings.Index(t, "]"); i > 0 {
							c.Fail(kind, t[len(kind)+1:i], t[i+1:])
						}
					}
				}
			}
			if len(c.Fails) == 0 {
				c.Oracle("child-failed", "%s", trunc(text, 600))
			}
		default:
			msg := text
			if i := strings.Index(text, "panic:"); i >= 0 {
				msg = text[i:]
			}
			c.Oracle("process-crashed", "the node process died (exit %d) while running this case: %s", code, trunc(msg, 900))
		}
		return c
	}
	return j
}
