package c11

import (
	"fmt"
	"sync"
	"time"

	"go.sia.tech/core/types"
	"go.sia.tech/coreutils/syncer"
	"verifharness/netx"
	"verifharness/vh"
)

// hitRunCase: "every provably misbehaving peer is reported to the peer store even if it has
// disconnected". The victim (request size `split`, so the round has several requests) is connected
// to two scripted peers that follow the same script; which of them is handed which request is the
// victim's choice. The peer that is asked for request `poison` delivers it at once with the last
// block's transactions replaced (a v2 block below the require height: same ID, passes the ID
// comparison and ValidateOrphan, fails with a commitment mismatch when AddBlocks tries the reorg)
// and hangs up. Requests before it are served correctly but late (`delay`), so that — batches being
// applied strictly in order — the verdict on the poisoned batch falls long after its sender has
// gone. Oracle: the sender's connection address is reported to the peer store nevertheless, and
// nobody else is.
type hitRunCase struct {
	name   string
	tags   []string
	w      *world
	split  uint64
	poison int // index of the poisoned request
	delay  time.Duration
}

func (hc *hitRunCase) run(ip string) *vh.Case {
	c := &vh.Case{Name: hc.name, Tags: hc.tags, Nontrivial: true, Key: hc.name}
	w := hc.w
	nt := w.nt
	main := w.main
	victim := nt.NewNode(ip+".1", syncer.WithMaxSendBlocks(hc.split))
	trace := traceWork(victim)
	startWork := netx.WorkOf(victim.CM.TipState().TotalWork)
	view := netx.ViewOf(main)
	poisonBase := types.BlockID{}
	if k := hc.poison * int(hc.split); k == 0 {
		poisonBase = nt.Genesis.ID()
	} else {
		poisonBase = main.Blocks[k-1].ID()
	}
	var mu sync.Mutex
	culprit := "" // connection address of the peer that delivered the poisoned batch
	var peers [2]*netx.Byz
	mk := func(i int) func(req *netx.Request) netx.Reply {
		return func(req *netx.Request) netx.Reply {
			switch req.RPC {
			case netx.RPCSendHeaders:
				hs, rem, ok := view.Headers(req.Index, req.Max)
				if !ok {
					return netx.Reply{}
				}
				return netx.Reply{Raw: netx.EncHeaders(hs, rem)}
			case netx.RPCSendCheckpoint:
				b, cs, ok := view.Checkpoint(req.Index)
				if !ok {
					return netx.Reply{}
				}
				return netx.Reply{Raw: netx.EncCheckpoint(b, cs)}
			case netx.RPCSendV2Blocks:
				bs, rem := view.BlocksFor(req.History, req.Max)
				if len(req.History) > 0 && req.History[0] == poisonBase && len(bs) > 0 {
					mu.Lock()
					first := culprit == ""
					if first {
						culprit = peers[i].LocalAddr
					}
					mu.Unlock()
					if first {
						k := len(bs) - 1
						b := bs[k]
						if b.V2 != nil {
							b.Transactions = []types.Transaction{{ArbitraryData: [][]byte{[]byte("hit and run")}}}
							bs = append([]types.Block(nil), bs...)
							bs[k] = b
						}
						return netx.Reply{Raw: netx.EncBlocks(bs, rem), HangUp: true}
					}
				}
				// everything else is served correctly, but late
				hold := make(chan struct{})
				time.AfterFunc(hc.delay, func() { close(hold) })
				return netx.Reply{Raw: netx.EncBlocks(bs, rem), Hold: hold}
			case netx.RPCShareNodes:
				return netx.Reply{Raw: netx.EncPeers(nil)}
			}
			return netx.Reply{}
		}
	}
	for i := range peers {
		bz, err := netx.DialByz(nt, victim.Addr(), fmt.Sprintf("%s.%d", ip, 10+i), nil)
		if err != nil {
			c.Oracle("harness-connect", "scripted peer could not connect: %v", err)
			victim.Close()
			return c
		}
		peers[i] = bz
	}
	for i := range peers {
		peers[i].SetHandler(mk(i))
	}
	// wait for the verdict: a Ban call, or the deadline
	reported := netx.WaitFor(20*time.Second, func() bool {
		mu.Lock()
		cu := culprit
		mu.Unlock()
		return cu != "" && victim.Store.BannedAddr(cu)
	})
	mu.Lock()
	cu := culprit
	mu.Unlock()
	c.Op("hit-and-run "+hc.name, fmt.Sprintf("poisoned-batch-delivered %v reported %v", cu != "", reported))
	if cu == "" {
		c.Oracle("sync-round-stalled", "the poisoned request (%d) was never asked for within 20 s", hc.poison)
	} else if !reported {
		c.Oracle("misbehaviour-not-banned:hit-and-run", "the peer that delivered a batch with an invalid block (same ID, other body; rejected by AddBlocks) and hung up was never reported to the peer store; bans: %v", victim.Store.Bans())
	}
	for _, b := range victim.Store.Bans() {
		if b.Addr != cu && (b.Addr == peers[0].LocalAddr || b.Addr == peers[1].LocalAddr) {
			c.Oracle("honest-peer-banned:hit-and-run", "the peer that served every request correctly was reported: %s (%s)", b.Addr, b.Reason)
		}
	}
	for _, bz := range peers {
		bz.Close()
	}
	finishVictim(c, victim, trace, startWork)
	return c
}

func hitRunJobs(w *world) []job {
	var jobs []job
	add := func(hc *hitRunCase) {
		hc.w = w
		jobs = append(jobs, job{name: hc.name, quick: true, run: hc.run})
	}
	// base network: v2 allowed at 6, required at 10. Request size 7: request 1 = blocks 8..14 (base 7,
	// below the require height, last block a v2 block); request size 4: request 1 = blocks 5..8, request 2 = 9..12
	add(&hitRunCase{name: "hit-and-run-split7-request1", tags: []string{"kind:hit-and-run", "corrupt:same-id-other-body", "split:7"}, split: 7, poison: 1, delay: 700 * time.Millisecond})
	add(&hitRunCase{name: "hit-and-run-split4-request1", tags: []string{"kind:hit-and-run", "corrupt:same-id-other-body", "split:4"}, split: 4, poison: 1, delay: 500 * time.Millisecond})
	add(&hitRunCase{name: "hit-and-run-split4-request2", tags: []string{"kind:hit-and-run", "corrupt:same-id-other-body", "split:4"}, split: 4, poison: 2, delay: 400 * time.Millisecond})
	return jobs
}
