package c11

import (
	"fmt"
	"time"

	"go.sia.tech/core/consensus"
	"go.sia.tech/core/types"
	"verifharness/netx"
	"verifharness/vh"
)

// positions first / middle / last of a list of length n
func positions(n int) []int {
	if n <= 1 {
		return []int{0}
	}
	if n == 2 {
		return []int{0, 1}
	}
	return []int{0, n / 2, n - 1}
}

func posName(k, n int) string {
	switch {
	case k == 0:
		return "first"
	case k == n-1:
		return "last"
	}
	return "mid"
}

// badNonce returns a copy of h whose ID fails the PoW target of the state it is built on.
func badNonce(h types.BlockHeader, ps consensus.State) types.BlockHeader {
	for i := 0; i < 100000; i++ {
		h.Nonce += ps.NonceFactor()
		if h.ID().CmpWork(ps.PoWTarget()) < 0 {
			return h
		}
	}
	panic("no failing nonce")
}

func regime(w *world, baseHeight int) string {
	if uint64(baseHeight) >= w.nt.N.HardforkV2.RequireHeight {
		return "regime:v2-checkpoint"
	}
	return "regime:v1-addblocks"
}

// catalogue: the fixed catalogue on the base network (v2 allowed at 6, required at 10) and on a
// second one (3/5) is the quick tier; the thorough tier repeats it on two more networks (1/1 and
// 8/20, other victim heights) and adds seeded random draws of the victim heights.
func catalogue(r *vh.Run, rng *vh.RNG) []job {
	w := getWorld(6, 10, 26)
	wl := getWorld(6, 10, 232)
	jobs := roundJobs(w, 4, 14, "", true)
	jobs = append(jobs, longJobs(wl)...)
	jobs = append(jobs, splitJobs(w)...)
	jobs = append(jobs, boundaryJobs(w, getWorld(3, 5, 20))...)
	for _, j := range crashJobs(w) {
		jobs = append(jobs, isolate(r, j))
	}
	jobs = append(jobs, bootstrapJobs(r, w)...)
	jobs = append(jobs, hitRunJobs(w)...)
	jobs = append(jobs, fakeStateJob(wl))
	jobs = append(jobs, headerStateJob(w))
	jobs = append(jobs, frontRunJobs(w)...)
	jobs = append(jobs, launderJobs(w)...)
	jobs = append(jobs, poisonJobs(w)...)
	jobs = append(jobs, strikesJobs(w)...)
	jobs = append(jobs, redeliveryJobs(w)...)
	jobs = append(jobs, headerBatchJobs(w)...)
	jobs = append(jobs, relayJobs(w)...)
	jobs = append(jobs, mixedJobs(w, wl, rng)...)
	// a second network in both tiers: v2 allowed at 3, required at 5
	jobs = append(jobs, roundJobs(getWorld(3, 5, 20), 1, 7, "n3-5:", false)...)
	if r != nil && !r.Quick() {
		jobs = append(jobs, roundJobs(getWorld(1, 1, 16), 0, 3, "n1-1:", false)...)
		jobs = append(jobs, roundJobs(getWorld(8, 20, 40), 11, 25, "n8-20:", false)...)
		for i := 0; i < 14; i++ {
			hs := rng.Intn(9)
			vs := 10 + rng.Intn(8)
			jobs = append(jobs, roundJobs(w, hs, vs, fmt.Sprintf("r%d:", i), false)...)
		}
	}
	return jobs
}

// roundJobs enumerates every sync-round corruption for one world: hs = victim height for the
// cases below the require height, vs = victim height for the cases at/above it.
func roundJobs(w *world, hs, vs int, pfx string, core bool) []job {
	var jobs []job
	add := func(quick bool, rc *roundCase) {
		rc.name = pfx + rc.name
		jobs = append(jobs, job{name: rc.name, quick: quick && core, run: rc.run})
	}
	main := w.main
	L := main.Len()
	honest := netx.ViewOf(main)

	// ---- honest peer: the gate must let a correct answer through (and the model must agree) ----
	req := int(w.nt.N.HardforkV2.RequireHeight)
	for _, s := range []int{0, hs, req - 1, req, vs, L - 1} {
		add(s == hs || s == vs, &roundCase{name: fmt.Sprintf("honest-from-%d", s), tags: []string{"kind:honest", regime(w, s)},
			w: w, victim: main.Blocks[:s], view: honest, tie: true, honest: true})
	}
	{
		// the peer is on a lighter / near-tie / heavier fork of the victim's chain
		light := main.Fork(req + 2)
		light.MineN(L-req-9, time.Second, 7)
		add(true, &roundCase{name: "honest-lighter-fork", tags: []string{"kind:honest-lighter-fork", "regime:v2-checkpoint"},
			w: w, victim: main.Blocks, view: netx.ViewOf(light), tie: true, honest: true})
		tie := main.Fork(L - 4)
		tie.MineN(4, 3*time.Second, 8)
		add(true, &roundCase{name: "honest-neartie-fork", tags: []string{"kind:honest-neartie-fork", "regime:v2-checkpoint"},
			w: w, victim: main.Blocks, view: netx.ViewOf(tie), tie: true, honest: true})
		add(false, &roundCase{name: "honest-heavier-fork", tags: []string{"kind:honest-heavier-fork", "regime:v2-checkpoint"},
			w: w, victim: light.Blocks, view: honest, tie: true, honest: true})
		early := main.Fork(hs/2 + 1)
		early.MineN(6, 2*time.Second, 9)
		add(false, &roundCase{name: "honest-heavier-fork-v1", tags: []string{"kind:honest-heavier-fork", "regime:v1-addblocks"},
			w: w, victim: early.Blocks, view: honest, tie: true, honest: true})
	}

	// ---- SendHeaders corruptions (base network: victim at height 4, 22 headers are requested) ----
	nH := L - hs
	hdrCase := func(quick bool, kind string, k int, mut func(a *hAns)) {
		add(quick, &roundCase{name: fmt.Sprintf("hdr-%s-%s", kind, posName(k, nH)), tags: []string{"rpc:SendHeaders", "corrupt:" + kind, "pos:" + posName(k, nH)},
			w: w, victim: main.Blocks[:hs], view: honest, tie: true,
			sc: script{mutH: func(ord int, a *hAns) {
				if ord == 0 && !a.fail {
					mut(a)
				}
			}}})
	}
	for _, k := range positions(nH) {
		k := k
		hdrCase(k == nH/2, "nonce", k, func(a *hAns) { a.headers[k] = badNonce(a.headers[k], main.StateBefore(hs+k)) })
		hdrCase(k == 0, "parent", k, func(a *hAns) { a.headers[k].ParentID = types.BlockID{0xEE, byte(k)} })
		hdrCase(false, "dup", k, func(a *hAns) {
			a.headers = append(a.headers[:k+1:k+1], a.headers[k:]...)
		})
		if k < nH-1 {
			hdrCase(false, "swap", k, func(a *hAns) { a.headers[k], a.headers[k+1] = a.headers[k+1], a.headers[k] })
			hdrCase(k == 0, "gap", k, func(a *hAns) { a.headers = append(a.headers[:k:k], a.headers[k+1:]...) })
		}
	}
	{
		// a header whose timestamp is before the median of its ancestors (re-mined so the work is fine)
		k := nH - 1
		past := w.nt.BuildOn(main.StateBefore(hs+k), netx.MineOpts{Addr: types.Address{0x51}, Mut: func(b *types.Block, cs consensus.State) {
			b.Timestamp = cs.PrevTimestamps[0].Add(-2 * time.Hour)
		}})
		hdrCase(true, "timestamp-past", k, func(a *hAns) { a.headers[k] = past.Header() })
		// headers of a fork that does not attach to the requested index
		other := main.Fork(hs / 2)
		other.MineN(8, 2*time.Second, 0x52)
		hdrCase(false, "foreign-fork", 0, func(a *hAns) {
			a.headers = nil
			for _, b := range other.Blocks[hs/2:] {
				a.headers = append(a.headers, b.Header())
			}
		})
		hdrCase(true, "remaining-lie-more", 0, func(a *hAns) { a.remaining = 7 })
		hdrCase(false, "truncated-remaining-0", 0, func(a *hAns) { a.headers = a.headers[:5]; a.remaining = 0 })
		hdrCase(true, "empty-pretend-synced", 0, func(a *hAns) { a.headers = nil; a.remaining = 0 })
	}
	for _, j := range []int{1, 3, 11} {
		j := j
		add(j == 3, &roundCase{name: fmt.Sprintf("hdr-eof-first-%d", j), tags: []string{"rpc:SendHeaders", "corrupt:eof-then-honest", fmt.Sprintf("pos:%d", j)},
			w: w, victim: main.Blocks[:L-8], view: honest, tie: true,
			sc: script{mutH: func(ord int, a *hAns) {
				if ord < j {
					a.fail = true
				}
			}}})
	}
	add(false, &roundCase{name: "hdr-eof-all", tags: []string{"rpc:SendHeaders", "corrupt:eof-all"},
		w: w, victim: main.Blocks[:hs], view: honest, tie: true,
		sc: script{mutH: func(ord int, a *hAns) { a.fail = true }}})
	for i, raw := range [][]byte{{0xff, 0xff, 0xff, 0xff, 0xff, 0xff, 0xff, 0x7f, 1, 2, 3}, {1, 0, 0, 0, 0, 0, 0, 0, 9, 9, 9}, make([]byte, 4000)} {
		raw := raw
		add(i == 0, &roundCase{name: fmt.Sprintf("hdr-malformed-%d", i), tags: []string{"rpc:SendHeaders", "corrupt:malformed"},
			w: w, victim: main.Blocks[:hs], view: honest, tie: false,
			sc: script{mutH: func(ord int, a *hAns) { a.raw = raw }}})
	}

	// ---- SendV2Blocks below the require height (v1 path, full AddBlocks) ----
	sib := main.Fork(hs + 6)
	sib.MineN(1, 2*time.Second, 0x61)
	v1Case := func(quick bool, kind string, k int, mustBan bool, mut func(a *bAns)) {
		add(quick, &roundCase{name: fmt.Sprintf("v1blk-%s-%s", kind, posName(k, nH)), tags: []string{"rpc:SendV2Blocks", "corrupt:" + kind, "pos:" + posName(k, nH), "regime:v1-addblocks"},
			w: w, victim: main.Blocks[:hs], view: honest, tie: true, mustBan: mustBan,
			sc: script{mutB: func(ord int, a *bAns) {
				if ord == 0 {
					mut(a)
				}
			}}})
	}
	for _, k := range positions(nH) {
		k := k
		v1Case(k == nH/2, "other-valid-block", k, false, func(a *bAns) {
			// a valid block (a sibling mined elsewhere) that is not the announced one
			a.blocks[k] = sib.Blocks[len(sib.Blocks)-1]
		})
		// same ID, different body: a v2 block whose transactions were replaced (TestSyncWithBadPeer's
		// corruption, at every position that is a v2 block)
		if main.Blocks[hs+k].V2 != nil {
			v1Case(k == nH-1, "same-id-other-body", k, true, func(a *bAns) {
				b := a.blocks[k]
				b.Transactions = []types.Transaction{{ArbitraryData: [][]byte{[]byte("oops")}}}
				a.blocks = append([]types.Block(nil), a.blocks...)
				a.blocks[k] = b
			})
		}
		if k < nH-1 {
			v1Case(false, "swap", k, false, func(a *bAns) {
				a.blocks = append([]types.Block(nil), a.blocks...)
				a.blocks[k], a.blocks[k+1] = a.blocks[k+1], a.blocks[k]
			})
		}
	}
	v1Case(true, "fewer", nH-1, false, func(a *bAns) { a.blocks = a.blocks[:len(a.blocks)-1] })
	v1Case(false, "more", nH-1, false, func(a *bAns) {
		a.blocks = append(append([]types.Block(nil), a.blocks...), sib.Blocks[len(sib.Blocks)-1])
	})
	v1Case(false, "none", 0, false, func(a *bAns) { a.blocks = nil })
	v1Case(true, "no-answer", 0, false, func(a *bAns) { a.fail = true })
	for i, raw := range [][]byte{{0xff, 0xff, 0xff, 0xff, 0xff, 0xff, 0xff, 0x7f, 1}, {2, 0, 0, 0, 0, 0, 0, 0, 7, 7, 7, 7}} {
		raw := raw
		add(false, &roundCase{name: fmt.Sprintf("v1blk-malformed-%d", i), tags: []string{"rpc:SendV2Blocks", "corrupt:malformed", "regime:v1-addblocks"},
			w: w, victim: main.Blocks[:hs], view: honest, tie: false,
			sc: script{mutB: func(ord int, a *bAns) { a.raw = raw }}})
	}
	// the peer's own chain contains an invalid block (headers are valid, the block matches them)
	type inval struct {
		kind string
		mut  func(b *types.Block, cs consensus.State)
		v2   bool // needs a v2 block
	}
	invalids := []inval{
		{"payout-too-high", func(b *types.Block, cs consensus.State) {
			b.MinerPayouts[0].Value = b.MinerPayouts[0].Value.Add(types.NewCurrency64(1))
		}, false},
		{"bad-commitment", func(b *types.Block, cs consensus.State) { b.V2.Commitment = types.Hash256{0xC0, 0xFF, 0xEE} }, true},
		{"invalid-v2-txn", func(b *types.Block, cs consensus.State) {
			b.V2.Transactions = []types.V2Transaction{{SiacoinOutputs: []types.SiacoinOutput{{Value: types.Siacoins(1), Address: types.Address{9}}}}}
			b.V2.Commitment = cs.Commitment(b.MinerPayouts[0].Address, b.Transactions, b.V2Transactions())
		}, true},
		{"invalid-v1-txn", func(b *types.Block, cs consensus.State) {
			b.Transactions = []types.Transaction{{SiacoinOutputs: []types.SiacoinOutput{{Value: types.Siacoins(1), Address: types.Address{9}}}}}
			if b.V2 != nil {
				b.V2.Commitment = cs.Commitment(b.MinerPayouts[0].Address, b.Transactions, b.V2Transactions())
			}
		}, false},
		{"wrong-height", func(b *types.Block, cs consensus.State) { b.V2.Height += 3 }, true},
	}
	for _, iv := range invalids {
		for _, k := range []int{hs, (hs + L) / 2, L - 1} { // position of the invalid block on the peer's chain
			iv, k := iv, k
			if iv.v2 && uint64(k+1) < w.nt.N.HardforkV2.AllowHeight {
				continue
			}
			more := L - 1 - k
			name := fmt.Sprintf("v1chain-%s-at-%d", iv.kind, k+1)
			add(iv.kind == "bad-commitment" && k == (hs+L)/2 || iv.kind == "payout-too-high" && k == hs, &roundCase{name: name,
				tags: []string{"invalid-block:" + iv.kind, "rpc:SendV2Blocks", fmt.Sprintf("pos:%d-of-%d", k-hs, nH), "regime:v1-addblocks"},
				w:    w, victim: main.Blocks[:hs], view: bogusView(w, main, k, iv.mut, more, 0x70), tie: true, mustBan: true})
		}
	}
	{
		// a block from the future, last on the chain
		k := L - 1
		add(true, &roundCase{name: "v1chain-future-block", tags: []string{"invalid-block:future-timestamp", "rpc:SendV2Blocks", "regime:v1-addblocks"},
			w: w, victim: main.Blocks[:hs], tie: true, mustBan: true,
			view: bogusView(w, main, k, func(b *types.Block, cs consensus.State) { b.Timestamp = time.Now().Add(5 * time.Hour) }, 0, 0x71)})
	}

	// ---- at/above the require height: SendCheckpoint + pre-validated batches ----
	nV := L - vs
	cpCase := func(quick bool, kind string, mut func(a *cAns)) {
		add(quick, &roundCase{name: "cp-" + kind, tags: []string{"rpc:SendCheckpoint", "corrupt:" + kind, "regime:v2-checkpoint"},
			w: w, victim: main.Blocks[:vs], view: honest, tie: true,
			sc: script{mutC: func(ord int, a *cAns) {
				if ord == 0 && !a.fail {
					mut(a)
				}
			}}})
	}
	cpCase(true, "not-v2", func(a *cAns) { a.block.V2 = nil })
	cpCase(false, "two-payouts", func(a *cAns) {
		a.block.MinerPayouts = append(append([]types.SiacoinOutput(nil), a.block.MinerPayouts...), types.SiacoinOutput{Address: types.Address{1}})
	})
	// the payout COUNT is not covered by the block's ID or commitment (only the first payout's
	// address is): the length test of SendCheckpoint is all that stands between these and ApplyBlock
	cpCase(true, "three-payouts", func(a *cAns) {
		a.block.MinerPayouts = append(append([]types.SiacoinOutput(nil), a.block.MinerPayouts...),
			types.SiacoinOutput{Address: types.Address{1}, Value: types.Siacoins(1000000000)}, types.SiacoinOutput{Address: types.Address{2}, Value: types.Siacoins(7)})
	})
	// fields of the checkpoint block that neither its ID nor its commitment covers
	cpCase(true, "payout-value", func(a *cAns) {
		mp := append([]types.SiacoinOutput(nil), a.block.MinerPayouts...)
		mp[0].Value = mp[0].Value.Add(types.Siacoins(5))
		a.block.MinerPayouts = mp
	})
	cpCase(false, "height-field", func(a *cAns) {
		v2 := *a.block.V2
		v2.Height += 3
		a.block.V2 = &v2
	})
	cpCase(true, "other-block", func(a *cAns) { a.block, a.state = main.Blocks[vs-2], main.StateBefore(vs-2) })
	cpCase(false, "no-answer", func(a *cAns) { a.fail = true })
	stateMuts := map[string]func(cs *consensus.State){
		"state-totalwork":   func(cs *consensus.State) { cs.TotalWork = main.States[L-1].TotalWork },
		"state-difficulty":  func(cs *consensus.State) { cs.Difficulty = main.States[0].Difficulty },
		"state-height":      func(cs *consensus.State) { cs.Index.Height += 5 },
		"state-index-id":    func(cs *consensus.State) { cs.Index.ID = types.BlockID{7} },
		"state-siafundpool": func(cs *consensus.State) { cs.SiafundTaxRevenue = types.Siacoins(1000000) },
		"state-foundation":  func(cs *consensus.State) { cs.FoundationSubsidyAddress = types.Address{0xAA} },
		"state-elements":    func(cs *consensus.State) { cs.Elements.NumLeaves += 1 },
		"state-timestamps":  func(cs *consensus.State) { cs.PrevTimestamps[3] = cs.PrevTimestamps[3].Add(time.Hour) },
	}
	for _, name := range sortedStateMuts(stateMuts) {
		mut := stateMuts[name]
		cpCase(name == "state-totalwork" || name == "state-elements", name, func(a *cAns) { mut(&a.state) })
	}
	// the state is bogus AND the block's commitment is recomputed to match it: the ID changes
	cpCase(true, "state-and-commitment", func(a *cAns) {
		a.state.SiafundTaxRevenue = types.Siacoins(123456)
		b := a.block
		v2 := *b.V2
		v2.Commitment = a.state.Commitment(b.MinerPayouts[0].Address, b.Transactions, b.V2Transactions())
		b.V2 = &v2
		a.block = b
	})
	add(false, &roundCase{name: "cp-malformed", tags: []string{"rpc:SendCheckpoint", "corrupt:malformed", "regime:v2-checkpoint"},
		w: w, victim: main.Blocks[:vs], view: honest, tie: false,
		sc: script{mutC: func(ord int, a *cAns) { a.raw = []byte{1, 2, 3, 4, 5, 6, 7, 8, 9} }}})

	sibV := main.Fork(vs + 4)
	sibV.MineN(1, 2*time.Second, 0x62)
	v2Case := func(quick bool, kind string, k int, mustBan bool, mut func(a *bAns)) {
		add(quick, &roundCase{name: fmt.Sprintf("v2blk-%s-%s", kind, posName(k, nV)), tags: []string{"rpc:SendV2Blocks", "corrupt:" + kind, "pos:" + posName(k, nV), "regime:v2-checkpoint"},
			w: w, victim: main.Blocks[:vs], view: honest, tie: true, mustBan: mustBan,
			sc: script{mutB: func(ord int, a *bAns) {
				if ord == 0 {
					mut(a)
				}
			}}})
	}
	for _, k := range positions(nV) {
		k := k
		v2Case(k == 0 || k == nV-1, "same-id-other-body", k, true, func(a *bAns) {
			b := a.blocks[k]
			b.Transactions = []types.Transaction{{ArbitraryData: [][]byte{[]byte("oops")}}}
			a.blocks = append([]types.Block(nil), a.blocks...)
			a.blocks[k] = b
		})
		// another valid block in place of the announced one: in the interior the *next* block no
		// longer attaches (ban); in last position the tip ID check rejects the batch (no ban)
		v2Case(k == nV/2, "other-valid-block", k, k < nV-1, func(a *bAns) {
			a.blocks = append([]types.Block(nil), a.blocks...)
			a.blocks[k] = sibV.Blocks[len(sibV.Blocks)-1]
		})
		if k < nV-2 {
			v2Case(false, "swap", k, true, func(a *bAns) {
				a.blocks = append([]types.Block(nil), a.blocks...)
				a.blocks[k], a.blocks[k+1] = a.blocks[k+1], a.blocks[k]
			})
		}
	}
	v2Case(true, "fewer", nV-1, false, func(a *bAns) { a.blocks = a.blocks[:len(a.blocks)-1] })
	v2Case(false, "more", nV-1, false, func(a *bAns) {
		a.blocks = append(append([]types.Block(nil), a.blocks...), sibV.Blocks[len(sibV.Blocks)-1])
	})
	v2Case(false, "no-answer", 0, false, func(a *bAns) { a.fail = true })
	for _, iv := range invalids {
		for _, k := range []int{vs, (vs + L) / 2, L - 1} {
			iv, k := iv, k
			more := L - 1 - k
			add(iv.kind == "bad-commitment" && k == vs || iv.kind == "invalid-v2-txn" && k == L-1, &roundCase{name: fmt.Sprintf("v2chain-%s-at-%d", iv.kind, k+1),
				tags: []string{"invalid-block:" + iv.kind, "rpc:SendV2Blocks", fmt.Sprintf("pos:%d-of-%d", k-vs, nV), "regime:v2-checkpoint"},
				w:    w, victim: main.Blocks[:vs], view: bogusView(w, main, k, iv.mut, more, 0x72), tie: true, mustBan: true})
		}
	}

	{
		// a consensus-valid block from the future, last on the peer's chain, through the checkpoint
		// path: must be refused like AddBlocks refuses it (ErrFutureBlock), the peer reported
		k := L - 1
		add(true, &roundCase{name: "v2chain-future-block", tags: []string{"invalid-block:future-timestamp", "rpc:SendV2Blocks", "regime:v2-checkpoint"},
			w: w, victim: main.Blocks[:vs], tie: true, mustBan: true,
			view: bogusView(w, main, k, func(b *types.Block, cs consensus.State) { b.Timestamp = time.Now().Add(5 * time.Hour) }, 0, 0x73)})
	}
	return jobs
}

// longJobs: more than one request: the 100-block split, a v1 request then checkpoint requests.
func longJobs(wl *world) []job {
	var jobs []job
	add := func(quick bool, rc *roundCase) {
		jobs = append(jobs, job{name: rc.name, quick: quick, run: rc.run})
	}
	lhon := netx.ViewOf(wl.main)
	add(true, &roundCase{name: "long-honest-3-requests", tags: []string{"kind:honest", "regime:v1-then-v2", "requests:3"},
		w: wl, victim: nil, view: lhon, tie: true, honest: true})
	add(false, &roundCase{name: "long-honest-from-131", tags: []string{"kind:honest", "regime:v2-checkpoint", "requests:2"},
		w: wl, victim: wl.main.Blocks[:131], view: lhon, tie: true, honest: true})
	add(true, &roundCase{name: "long-cp-bad-second-request", tags: []string{"rpc:SendCheckpoint", "corrupt:state-totalwork", "regime:v1-then-v2", "requests:3"},
		w: wl, victim: nil, view: lhon, tie: true,
		sc: script{mutC: func(ord int, a *cAns) {
			if ord == 1 && !a.fail {
				a.state.TotalWork = wl.main.States[3].TotalWork
			}
		}}})
	add(false, &roundCase{name: "long-v2blk-bad-third-request", tags: []string{"rpc:SendV2Blocks", "corrupt:same-id-other-body", "regime:v1-then-v2", "requests:3"},
		w: wl, victim: nil, view: lhon, tie: true, mustBan: true,
		sc: script{mutB: func(ord int, a *bAns) {
			if ord == 2 {
				b := a.blocks[7]
				b.Transactions = []types.Transaction{{ArbitraryData: [][]byte{[]byte("oops")}}}
				a.blocks = append([]types.Block(nil), a.blocks...)
				a.blocks[7] = b
			}
		}}})
	return jobs
}

func sortedStateMuts(m map[string]func(cs *consensus.State)) []string {
	x := map[string]int{}
	for k := range m {
		x[k] = 0
	}
	return sortedKeys(x)
}

// splitJobs: the victim is configured with WithMaxSendBlocks(7), so 26 headers are split into
// four requests: two below the require height (AddBlocks), two at/above it (checkpoint +
// AddValidatedV2Blocks); corruptions at each request.
func splitJobs(w *world) []job {
	var jobs []job
	add := func(quick bool, rc *roundCase) {
		rc.sendCap = 7
		jobs = append(jobs, job{name: rc.name, quick: quick, run: rc.run})
	}
	hon := netx.ViewOf(w.main)
	add(true, &roundCase{name: "split7-honest", tags: []string{"kind:honest", "regime:v1-then-v2", "requests:4", "split:7"}, w: w, view: hon, tie: true, honest: true})
	add(false, &roundCase{name: "split7-honest-from-3", tags: []string{"kind:honest", "regime:v1-then-v2", "requests:4", "split:7"}, w: w, victim: w.main.Blocks[:3], view: hon, tie: true, honest: true})
	for ord := 0; ord < 4; ord++ {
		ord := ord
		add(ord == 1, &roundCase{name: fmt.Sprintf("split7-other-body-request-%d", ord), tags: []string{"rpc:SendV2Blocks", "corrupt:same-id-other-body", "requests:4", "split:7", fmt.Sprintf("pos:request-%d", ord)},
			w: w, view: hon, tie: true, mustBan: ord >= 1,
			sc: script{mutB: func(o int, a *bAns) {
				if o != ord {
					return
				}
				k := len(a.blocks) - 1
				b := a.blocks[k]
				if b.V2 == nil {
					// a v1 block: another body changes the ID; deliver a block that is simply not the announced one
					b.MinerPayouts = append([]types.SiacoinOutput(nil), b.MinerPayouts...)
					b.MinerPayouts[0].Address = types.Address{0xDE}
				} else {
					b.Transactions = []types.Transaction{{ArbitraryData: [][]byte{[]byte("oops")}}}
				}
				a.blocks = append([]types.Block(nil), a.blocks...)
				a.blocks[k] = b
			}}})
		if ord >= 2 {
			add(ord == 2, &roundCase{name: fmt.Sprintf("split7-bad-checkpoint-request-%d", ord), tags: []string{"rpc:SendCheckpoint", "corrupt:state-elements", "requests:4", "split:7", fmt.Sprintf("pos:request-%d", ord)},
				w: w, view: hon, tie: true,
				sc: script{mutC: func(o int, a *cAns) {
					if o == ord && !a.fail {
						a.state.Elements.NumLeaves += 2
					}
				}}})
		}
	}
	return jobs
}

// boundaryJobs: a request whose base is EXACTLY the require height (the worker and the finishing
// goroutine of parallelSync each decide "checkpoint path or not" from that height and have to
// agree): the victim's tip is the block at the require height, or a request boundary falls on it
// (common ancestor height + k * request size = require height), against an honest peer.
func boundaryJobs(ws ...*world) []job {
	var jobs []job
	for _, w := range ws {
		w := w
		req := int(w.nt.N.HardforkV2.RequireHeight)
		pfx := fmt.Sprintf("n%d-%d:", w.nt.N.HardforkV2.AllowHeight, req)
		hon := netx.ViewOf(w.main)
		add := func(rc *roundCase) {
			rc.name = pfx + rc.name
			rc.w, rc.view, rc.tie, rc.honest = w, hon, true, true
			jobs = append(jobs, job{name: rc.name, quick: true, run: rc.run})
		}
		for _, d := range []int{-1, 0, 1} {
			add(&roundCase{name: fmt.Sprintf("boundary-tip-at-require%+d", d), tags: []string{"kind:honest", "boundary:victim-tip-vs-require", fmt.Sprintf("base:require%+d", d)},
				victim: w.main.Blocks[:req+d]})
		}
		// request size k with start + j*k = require for some j >= 1
		for _, k := range []int{1, 2, 5} {
			for _, start := range []int{0, 1} {
				if (req-start)%k != 0 || start >= req {
					continue
				}
				add(&roundCase{name: fmt.Sprintf("boundary-split%d-from-%d", k, start), tags: []string{"kind:honest", "boundary:request-base-on-require", fmt.Sprintf("split:%d", k)},
					victim: w.main.Blocks[:start], sendCap: uint64(k)})
			}
		}
	}
	return jobs
}

// crashJobs: corruptions whose effect on a node that lacks the check is a panic in a goroutine
// without recover. Each runs in a child process (isolate).
func crashJobs(w *world) []job {
	var jobs []job
	main := w.main
	const vs = 14
	noPayouts := script{mutC: func(ord int, a *cAns) {
		if !a.fail {
			a.block.MinerPayouts = nil
		}
	}}
	rc := &roundCase{name: "cp-no-payouts", tags: []string{"rpc:SendCheckpoint", "corrupt:no-payouts", "regime:v2-checkpoint"},
		w: w, victim: main.Blocks[:vs], view: netx.ViewOf(main), tie: true, sc: noPayouts}
	jobs = append(jobs, job{name: rc.name, quick: true, run: rc.run})
	mc := &mixedCase{name: "mixed-cp-no-payouts", tags: []string{"kind:honest+byzantine", "byz:checkpoint-without-payouts", "regime:v2-checkpoint"},
		w: w, victim: main.Blocks[:vs], honest: main.Blocks, byz: []byzSpec{{"checkpoint-without-payouts", func() *netx.View { return netx.ViewOf(main) }, noPayouts}}}
	jobs = append(jobs, job{name: mc.name, quick: true, run: mc.run})
	// SendHeaders answers whose two peer-controlled parts do not fit together: no headers but a
	// positive (or enormous) number of remaining ones, a few headers with an enormous remainder. The
	// sync loop has no recover: whatever it indexes must be guarded by what it has tested.
	for _, x := range []struct {
		kind string
		vs   int
		mut  func(a *hAns)
	}{
		{"empty-remaining-positive", 4, func(a *hAns) { a.headers = nil; a.remaining = 7 }},
		{"empty-remaining-positive", vs, func(a *hAns) { a.headers = nil; a.remaining = 1 }},
		{"empty-remaining-huge", 4, func(a *hAns) { a.headers = nil; a.remaining = ^uint64(0) }},
		{"few-remaining-huge", vs, func(a *hAns) { a.headers = a.headers[:3]; a.remaining = ^uint64(0) }},
		{"all-remaining-huge", 4, func(a *hAns) { a.remaining = ^uint64(0) - 5 }},
	} {
		x := x
		rc := &roundCase{name: fmt.Sprintf("hdr-%s-from-%d", x.kind, x.vs), tags: []string{"rpc:SendHeaders", "corrupt:" + x.kind, regime(w, x.vs)},
			w: w, victim: main.Blocks[:x.vs], view: netx.ViewOf(main), tie: true,
			sc: script{mutH: func(ord int, a *hAns) {
				if ord == 0 && !a.fail {
					x.mut(a)
				}
			}}}
		jobs = append(jobs, job{name: rc.name, quick: true, run: rc.run})
	}
	// a checkpoint block, at the require height, that carries a v1 transaction. Its ID and commitment
	// are right (the peer mined it that way) and ValidateOrphan only weighs v1 transactions, but
	// consensus.ApplyBlock indexes the (empty, after the hardfork mandatory) v1 supplement per v1
	// transaction. The block is the last of a request below the require height, which the victim (on
	// a heavier chain of its own) stores without validating; the next request's checkpoint is it.
	for _, kind := range []string{"arbitrary-data", "siacoin-input", "contract-revision", "storage-proof"} {
		kind := kind
		jobs = append(jobs, job{name: "cp-v1-transaction-" + kind, quick: true, run: func(ip string) *vh.Case {
			req := int(w.nt.N.HardforkV2.RequireHeight)
			evil := w.nt.NewChain()
			evil.MineN(req-1, 2*time.Second, 0x91)
			txn := types.Transaction{ArbitraryData: [][]byte{[]byte("v1 txn in a checkpoint block")}}
			switch kind {
			case "siacoin-input":
				txn = types.Transaction{SiacoinInputs: []types.SiacoinInput{{ParentID: types.SiacoinOutputID{1}}}, SiacoinOutputs: []types.SiacoinOutput{{Value: types.Siacoins(1), Address: types.Address{2}}}}
			case "contract-revision":
				txn = types.Transaction{FileContractRevisions: []types.FileContractRevision{{ParentID: types.FileContractID{3}}}}
			case "storage-proof":
				txn = types.Transaction{StorageProofs: []types.StorageProof{{ParentID: types.FileContractID{4}}}}
			}
			v := bogusView(w, evil, req-1, func(b *types.Block, cs consensus.State) {
				b.Transactions = []types.Transaction{txn}
				b.V2.Commitment = cs.Commitment(b.MinerPayouts[0].Address, b.Transactions, b.V2Transactions())
			}, 5, 0x92)
			rc := &roundCase{name: "cp-v1-transaction-" + kind, tags: []string{"rpc:SendCheckpoint", "corrupt:v1-transaction-in-checkpoint-block", "regime:v1-then-v2", "txn:" + kind},
				w: w, victim: main.Blocks, view: v, tie: true, sendCap: uint64(req / 2)}
			return rc.run(ip)
		}})
	}
	return jobs
}

// headerStateJob: the victim holds a valid but lighter fork F (ingested through AddBlocks: base
// below the require height, tip at it) — stored, never applied, so the manager's State(F tip) is a
// header-level state (work, timestamps; the element accumulator is the fork point's). The peer
// serves F followed by blocks that commit to THAT state (it learns it by feeding F to a manager of
// its own), enough of them to outweigh the victim's chain; with request size 7 the second request
// starts exactly at F's tip. The checkpoint the victim downloads for that request is bound to F's
// tip by its commitment, so the running state is the true consensus state and the first made-up
// block fails ValidateBlock. (A worker that started from the manager's own State(base) would
// accept them all, and they would be applied unchecked on the reorg.)
func headerStateJob(w *world) job {
	rc := &roundCase{name: "blocks-committing-to-header-level-state", tags: []string{"attack:header-level-state-of-unapplied-fork", "rpc:SendV2Blocks", "regime:v1-then-v2", "requests:4"},
		w: w, tie: true, mustBan: true, sendCap: 7}
	return job{name: rc.name, quick: true, run: func(ip string) *vh.Case {
		nt := w.nt
		main := w.main
		const fp = 3
		req := int(nt.N.HardforkV2.RequireHeight)
		f := main.Fork(fp)
		f.MineN(req-fp, 2*time.Second, 0xA1) // F: heights fp+1 .. require, lighter than main
		// what a node on main that ingested F holds as State(F tip)
		own := nt.ChainFrom(main.Blocks)
		if err := own.CM.AddBlocks(f.Blocks[fp:]); err != nil {
			panic(err)
		}
		hs, ok := own.CM.State(f.Blocks[len(f.Blocks)-1].ID())
		if !ok {
			panic("no state for the fork tip")
		}
		v := netx.ViewOf(f)
		cs := hs
		for i := 0; i < 22; i++ {
			b := nt.BuildOn(cs, netx.MineOpts{Addr: types.Address{0xA2, byte(i)}})
			cs = applyOn(nt, cs, b)
			v.Blocks = append(v.Blocks, b)
			v.States = append(v.States, cs)
		}
		rc.view = v
		rc.victim = main.Blocks
		rc.side = f.Blocks[fp:]
		return rc.run(ip)
	}}
}

// fakeStateJob: "instant sync trusts a peer-supplied state that is only bound by the block
// commitment". The peer's chain forks off at genesis; its block 100 is header-valid but commits to
// a state the peer made up; blocks 101… are perfectly valid *on that made-up state*. The victim
// sits on an honest chain that is heavier than the peer's first 100 blocks (so the first request
// is stored without being validated) but lighter than the whole. The second request's checkpoint
// (block 100 + the made-up state) passes every check of SendCheckpoint.
func fakeStateJob(wl *world) job {
	rc := &roundCase{name: "fake-state-under-unvalidated-checkpoint", tags: []string{"attack:fake-checkpoint-state", "rpc:SendCheckpoint", "regime:v1-then-v2", "requests:2"},
		w: wl, tie: true, mustBan: true}
	return job{name: rc.name, quick: true, run: func(ip string) *vh.Case {
		nt := wl.nt
		evil := nt.NewChain()
		evil.MineN(99, 2*time.Second, 0x81) // slower blocks: a bit less work than the honest chain's
		v := netx.ViewOf(evil)
		ps := evil.StateBefore(99)
		fake := ps
		fake.SiafundTaxRevenue = types.Siacoins(31337)
		x := nt.BuildOn(ps, netx.MineOpts{Addr: types.Address{0x82}, Mut: func(b *types.Block, cs consensus.State) {
			b.V2.Commitment = fake.Commitment(b.MinerPayouts[0].Address, nil, nil)
		}})
		v.Blocks = append(v.Blocks, x)
		v.States = append(v.States, applyOn(nt, ps, x))
		// what the peer will claim as block 100's parent state
		v.States[98] = fake
		cs := applyOn(nt, fake, x)
		for i := 0; i < 20; i++ {
			b := nt.BuildOn(cs, netx.MineOpts{Addr: types.Address{0x83, byte(i)}})
			cs = applyOn(nt, cs, b)
			v.Blocks = append(v.Blocks, b)
			v.States = append(v.States, cs)
		}
		rc.view = v
		rc.victim = wl.main.Blocks[:108]
		return rc.run(ip)
	}}
}
