package c11

import (
	"context"
	"fmt"
	"time"

	"go.sia.tech/core/types"
	"verifharness/netx"
	"verifharness/vh"
)

// frontRunCase: "still syncs to the heaviest chain offered by its honest peers". The victim, an
// honest node H and a scripted peer B all sit on the same tip, below the v2 require height, and
// the victim has marked both peers synced. H finds the next block, a v1 block, which only a
// header can announce. B relays that header to the victim FIRST (it does not have the block:
// asked for headers it has nothing), then H adds the block and announces its header, again and
// again. Every honest announcement must make the victim pull from THAT peer: the victim has to
// end on H's block.
type frontRunCase struct {
	name string
	tags []string
	w    *world
	s    int // common height
}

func (fc *frontRunCase) run(ip string) *vh.Case {
	c := &vh.Case{Name: fc.name, Tags: fc.tags, Nontrivial: true, Key: fc.name}
	w := fc.w
	nt := w.nt
	main := w.main
	victim := nt.NewNode(ip + ".1")
	victim.Load(main.Blocks[:fc.s])
	trace := traceWork(victim)
	startWork := netx.WorkOf(victim.CM.TipState().TotalWork)
	hon := nt.NewNode(ip + ".3")
	hon.Load(main.Blocks[:fc.s])
	defer hon.Close()
	own := netx.ViewOf(main)
	own.Blocks, own.States = own.Blocks[:fc.s], own.States[:fc.s]
	bz, err := netx.DialByz(nt, victim.Addr(), ip+".2", func(req *netx.Request) netx.Reply {
		switch req.RPC {
		case netx.RPCSendHeaders:
			hs, rem, ok := own.Headers(req.Index, req.Max)
			if !ok {
				return netx.Reply{}
			}
			return netx.Reply{Raw: netx.EncHeaders(hs, rem)}
		case netx.RPCShareNodes:
			return netx.Reply{Raw: netx.EncPeers(nil)}
		}
		return netx.Reply{}
	})
	if err != nil {
		c.Oracle("harness-connect", "scripted peer could not connect: %v", err)
		victim.Close()
		return c
	}
	defer bz.Close()
	ctx, cancel := context.WithTimeout(context.Background(), 5*time.Second)
	_, cerr := hon.S.Connect(ctx, victim.Addr())
	cancel()
	if cerr != nil {
		c.Oracle("harness-connect", "honest node could not connect: %v", cerr)
	}
	settled := netx.WaitFor(15*time.Second, func() bool {
		ps := victim.S.Peers()
		if len(ps) != 2 {
			return false
		}
		for _, p := range ps {
			if !p.Synced() {
				return false
			}
		}
		return true
	})
	if !settled {
		c.Oracle("settle-phase-stalled", "the victim did not mark its two peers (same tip) synced within 15 s")
	}
	// H's next block: a v1 block (legal below the require height), mined on the common tip
	x := nt.BuildOn(main.States[fc.s-1], netx.MineOpts{Addr: types.Address{0xF1}, V1: true, Dt: 2 * time.Second})
	// B front-runs the announcement
	bz.Call(netx.RPCRelayV2Header, netx.EncHeader(x.Header()), false, 10*time.Second)
	if err := hon.CM.AddBlocks([]types.Block{x}); err != nil {
		c.Oracle("harness-late-block", "the honest node rejected its own block: %v", err)
	}
	want := hon.CM.Tip()
	deadline := time.Now().Add(20 * time.Second)
	for time.Now().Before(deadline) && victim.CM.Tip() != want {
		hon.S.BroadcastV2Header(x.Header())
		time.Sleep(200 * time.Millisecond)
	}
	ok := victim.CM.Tip() == want
	c.Op("front-run "+fc.name, fmt.Sprintf("reached-honest-tip %v", ok))
	if !ok {
		c.Oracle("stalled-below-honest-chain", "an honest peer announced (header, repeatedly, for 20 s) and offers block %v on top of the victim's tip, after a scripted peer had relayed the same header first: the victim is still on %v and its peers are marked %v", want, victim.CM.Tip(), peersSynced(victim))
	}
	for _, b := range victim.Store.Bans() {
		c.Oracle("honest-peer-banned:front-run", "nobody misbehaved provably, yet %s was reported: %s", b.Addr, b.Reason)
		break
	}
	finishVictim(c, victim, trace, startWork)
	return c
}

func peersSynced(n *netx.Node) string {
	s := ""
	for _, p := range n.S.Peers() {
		s += fmt.Sprintf("%s:synced=%v ", p.String(), p.Synced())
	}
	return s
}

func frontRunJobs(w *world) []job {
	var jobs []job
	allow, req := int(w.nt.N.HardforkV2.AllowHeight), int(w.nt.N.HardforkV2.RequireHeight)
	for _, s := range []int{2, allow - 1, allow + 1, req - 2} {
		fc := &frontRunCase{name: fmt.Sprintf("front-run-header-at-%d", s), tags: []string{"kind:honest+byzantine", "byz:front-runs-header-announcement", "regime:v1-addblocks"}, w: w, s: s}
		jobs = append(jobs, job{name: fc.name, quick: true, run: fc.run})
	}
	return jobs
}

var _ = vh.NewRNG
