package chainx

import (
	"fmt"
	"sort"

	"go.sia.tech/core/consensus"
	"go.sia.tech/core/types"
	"go.sia.tech/coreutils/chain"
)

// Ledger is the set-level image of the chain state folded from an update stream: every unspent
// siacoin / siafund element and every unresolved v1 / v2 contract, with Merkle proofs kept
// current.  It is the harness's own ground truth (shadow ledger).
type Ledger struct {
	Tip  types.ChainIndex
	SC   map[types.SiacoinOutputID]types.SiacoinElement
	SF   map[types.SiafundOutputID]types.SiafundElement
	FC   map[types.FileContractID]types.FileContractElement
	V2FC map[types.FileContractID]types.V2FileContractElement
	CIE  map[types.BlockID]types.ChainIndexElement
}

func NewLedger() *Ledger {
	return &Ledger{SC: map[types.SiacoinOutputID]types.SiacoinElement{}, SF: map[types.SiafundOutputID]types.SiafundElement{},
		FC: map[types.FileContractID]types.FileContractElement{}, V2FC: map[types.FileContractID]types.V2FileContractElement{},
		CIE: map[types.BlockID]types.ChainIndexElement{}}
}

type proofUpdater interface {
	UpdateElementProof(*types.StateElement)
}

func (l *Ledger) updateProofs(u proofUpdater) {
	for id, e := range l.SC {
		u.UpdateElementProof(&e.StateElement)
		l.SC[id] = e.Copy()
	}
	for id, e := range l.SF {
		u.UpdateElementProof(&e.StateElement)
		l.SF[id] = e.Copy()
	}
	for id, e := range l.FC {
		u.UpdateElementProof(&e.StateElement)
		l.FC[id] = e.Copy()
	}
	for id, e := range l.V2FC {
		u.UpdateElementProof(&e.StateElement)
		l.V2FC[id] = e.Copy()
	}
	for id, e := range l.CIE {
		u.UpdateElementProof(&e.StateElement)
		l.CIE[id] = e.Copy()
	}
}

// Apply folds one ApplyUpdate.
func (l *Ledger) Apply(cau chain.ApplyUpdate) {
	// existing elements first (created ones already carry post-block proofs)
	l.updateProofs(cau.ApplyUpdate)
	for _, d := range cau.SiacoinElementDiffs() {
		switch {
		case d.Created && d.Spent:
		case d.Spent:
			delete(l.SC, d.SiacoinElement.ID)
		default:
			l.SC[d.SiacoinElement.ID] = d.SiacoinElement.Copy()
		}
	}
	for _, d := range cau.SiafundElementDiffs() {
		switch {
		case d.Created && d.Spent:
		case d.Spent:
			delete(l.SF, d.SiafundElement.ID)
		default:
			l.SF[d.SiafundElement.ID] = d.SiafundElement.Copy()
		}
	}
	for _, d := range cau.FileContractElementDiffs() {
		switch {
		case d.Created && d.Resolved:
		case d.Resolved:
			delete(l.FC, d.FileContractElement.ID)
		case d.Revision != nil:
			re, _ := d.RevisionElement()
			l.FC[d.FileContractElement.ID] = re.Copy()
		default:
			l.FC[d.FileContractElement.ID] = d.FileContractElement.Copy()
		}
	}
	for _, d := range cau.V2FileContractElementDiffs() {
		switch {
		case d.Created && d.Resolution != nil:
		case d.Resolution != nil:
			delete(l.V2FC, d.V2FileContractElement.ID)
		case d.Revision != nil:
			re, _ := d.V2RevisionElement()
			l.V2FC[d.V2FileContractElement.ID] = re.Copy()
		default:
			l.V2FC[d.V2FileContractElement.ID] = d.V2FileContractElement.Copy()
		}
	}
	cie := cau.ChainIndexElement()
	l.CIE[cie.ID] = cie.Copy()
	l.Tip = cau.State.Index
}

// Revert folds one RevertUpdate.
func (l *Ledger) Revert(cru chain.RevertUpdate) {
	for _, d := range cru.SiacoinElementDiffs() {
		switch {
		case d.Created && d.Spent:
		case d.Spent:
			l.SC[d.SiacoinElement.ID] = d.SiacoinElement.Copy()
		default:
			delete(l.SC, d.SiacoinElement.ID)
		}
	}
	for _, d := range cru.SiafundElementDiffs() {
		switch {
		case d.Created && d.Spent:
		case d.Spent:
			l.SF[d.SiafundElement.ID] = d.SiafundElement.Copy()
		default:
			delete(l.SF, d.SiafundElement.ID)
		}
	}
	for _, d := range cru.FileContractElementDiffs() {
		switch {
		case d.Created && d.Resolved:
		case d.Created:
			delete(l.FC, d.FileContractElement.ID)
		default:
			// resolved or revised: the pre-block element comes back
			l.FC[d.FileContractElement.ID] = d.FileContractElement.Copy()
		}
	}
	for _, d := range cru.V2FileContractElementDiffs() {
		switch {
		case d.Created && d.Resolution != nil:
		case d.Created:
			delete(l.V2FC, d.V2FileContractElement.ID)
		default:
			l.V2FC[d.V2FileContractElement.ID] = d.V2FileContractElement.Copy()
		}
	}
	delete(l.CIE, cru.Block.ID())
	l.updateProofs(cru.RevertUpdate)
	l.Tip = cru.State.Index
}

// Follow polls UpdatesSince in chunks of the given size until the ledger reaches the tip.
func (l *Ledger) Follow(cm *chain.Manager, chunk int) error {
	for guard := 0; l.Tip != cm.Tip(); guard++ {
		if guard > 100000 {
			return fmt.Errorf("follow does not terminate")
		}
		rus, aus, err := cm.UpdatesSince(l.Tip, chunk)
		if err != nil {
			return err
		}
		if len(rus)+len(aus) == 0 {
			return fmt.Errorf("no progress at %v (tip %v)", l.Tip, cm.Tip())
		}
		for _, ru := range rus {
			l.Revert(ru)
		}
		for _, au := range aus {
			l.Apply(au)
		}
	}
	return nil
}

// LedgerOf folds the node's whole best chain.
func LedgerOf(nd *Node) *Ledger {
	l := NewLedger()
	if err := l.Follow(nd.CM, 1000); err != nil {
		panic(err)
	}
	return l
}

// Digest is a canonical string of the element sets (ids, leaf indices and key fields), for
// equality checks between ledgers.
func (l *Ledger) Digest(withProofs bool) string { return l.digest(withProofs, true) }

// DigestNoLeaf is Digest without leaf indices and proofs: which elements exist, with which
// contents (what stays comparable across nodes whose accumulators legitimately differ in leaf
// order).
func (l *Ledger) DigestNoLeaf() string { return l.digest(false, false) }

func (l *Ledger) digest(withProofs, withLeaf bool) string {
	var lines []string
	pf := func(se types.StateElement) string {
		if !withLeaf {
			return ""
		}
		if !withProofs {
			return fmt.Sprint(se.LeafIndex)
		}
		return fmt.Sprint(se.LeafIndex, se.MerkleProof)
	}
	for id, e := range l.SC {
		lines = append(lines, fmt.Sprintf("sc %v %v %v %d %s", id, e.SiacoinOutput.Address, e.SiacoinOutput.Value, e.MaturityHeight, pf(e.StateElement)))
	}
	for id, e := range l.SF {
		lines = append(lines, fmt.Sprintf("sf %v %v %d %v %s", id, e.SiafundOutput.Address, e.SiafundOutput.Value, e.ClaimStart, pf(e.StateElement)))
	}
	for id, e := range l.FC {
		lines = append(lines, fmt.Sprintf("fc %v rev %d we %d %s", id, e.FileContract.RevisionNumber, e.FileContract.WindowEnd, pf(e.StateElement)))
	}
	for id, e := range l.V2FC {
		lines = append(lines, fmt.Sprintf("v2fc %v rev %d %s", id, e.V2FileContract.RevisionNumber, pf(e.StateElement)))
	}
	sort.Strings(lines)
	out := fmt.Sprintf("tip %v\n", l.Tip)
	for _, s := range lines {
		out += s + "\n"
	}
	return out
}

// VerifyProofs checks every element's Merkle proof against the accumulator of cs by validating
// a synthetic v2 transaction that references the elements.
func (l *Ledger) VerifyProofs(cs consensus.State) error {
	if cs.Index != l.Tip {
		return fmt.Errorf("ledger tip %v != state %v", l.Tip, cs.Index)
	}
	for id, e := range l.SC {
		if e.StateElement.LeafIndex == types.UnassignedLeafIndex {
			return fmt.Errorf("siacoin element %v has no leaf index", id)
		}
		txn := types.V2Transaction{SiacoinInputs: []types.V2SiacoinInput{{Parent: e.Copy()}}}
		if err := cs.Elements.ValidateTransactionElements(txn); err != nil {
			return fmt.Errorf("siacoin element %v: %w", id, err)
		}
	}
	for id, e := range l.SF {
		txn := types.V2Transaction{SiafundInputs: []types.V2SiafundInput{{Parent: e.Copy()}}}
		if err := cs.Elements.ValidateTransactionElements(txn); err != nil {
			return fmt.Errorf("siafund element %v: %w", id, err)
		}
	}
	for id, e := range l.V2FC {
		txn := types.V2Transaction{FileContractRevisions: []types.V2FileContractRevision{{Parent: e.Copy()}}}
		if err := cs.Elements.ValidateTransactionElements(txn); err != nil {
			return fmt.Errorf("v2 contract element %v: %w", id, err)
		}
	}
	return nil
}
