// Package chainx is the shared chain rig of the harness: test networks with small hardfork
// heights, fork trees of real blocks mined on independent linear twins (H1), real nodes under
// test, and the linear-twin oracle (H2).  Everything is deterministic in the RNG.
package chainx

import (
	"crypto/ed25519"
	"fmt"
	"math/big"
	"time"

	"go.sia.tech/core/consensus"
	"go.sia.tech/core/types"
	"go.sia.tech/coreutils/chain"
	"go.sia.tech/coreutils/testutil"
	"verifharness/vh"
)

// Net is a test network plus the keys the generator signs with.
type Net struct {
	N       *consensus.Network
	Genesis types.Block
	SK      types.PrivateKey // the actor: miner, payer, contract party
	UC      types.UnlockConditions
	Addr    types.Address
	Policy  types.SpendPolicy
	SK2     types.PrivateKey // a second party (payee / host)
	Addr2   types.Address
	// Volatile: the difficulty adjustment follows the block timestamps closely (difficulty 1 at
	// genesis, one-second Oak start), so that a short branch of fast blocks outweighs a longer
	// branch of slow ones — reorgs to SHORTER chains
	Volatile bool
}

func keyFrom(rng *vh.RNG) types.PrivateKey {
	seed := make([]byte, ed25519.SeedSize)
	rng.Bytes(seed)
	return types.PrivateKey(ed25519.NewKeyFromSeed(seed))
}

// NewNet derives a network from testutil.Network with the given v2 allow/require heights and
// maturity delay, and gives the actor a genesis siafund allocation is left as in Zen.
func NewNet(rng *vh.RNG, allow, require, maturity uint64) *Net {
	return newNet(rng, allow, require, maturity, false)
}

// NewVolatileNet is NewNet with a difficulty that follows the timestamps closely (see Net.Volatile).
func NewVolatileNet(rng *vh.RNG, allow, require, maturity uint64) *Net {
	return newNet(rng, allow, require, maturity, true)
}

func newNet(rng *vh.RNG, allow, require, maturity uint64, volatile bool) *Net {
	n, genesis := testutil.Network()
	n.HardforkV2.AllowHeight = allow
	n.HardforkV2.RequireHeight = require
	n.HardforkV2.FinalCutHeight = require + 5
	n.MaturityDelay = maturity
	// a non-trivial difficulty, so that the "sufficiently heavier" threshold (difficulty/5) is
	// non-zero and total works of equal-length forks differ without being decisive
	n.InitialTarget = []types.BlockID{{0x01}, {0x00, 0x40}, {0x00, 0x10}}[rng.Intn(3)] // difficulty 256 / 1024 / 4096
	// put the difficulty adjustment in equilibrium at that target, so that it reacts to block
	// timestamps from the first block on (with Zen's ASIC-hardfork constants it is pinned to the
	// 0.4% clamp for hundreds of blocks and equal-length forks always have exactly equal work)
	n.BlockInterval = 10 * time.Second
	n.HardforkASIC.OakTime = n.BlockInterval
	n.HardforkASIC.OakTarget = n.InitialTarget
	n.HardforkOak.GenesisTimestamp = genesis.Timestamp
	if volatile {
		// testutil's own target and block interval (difficulty 1, one second) with the Oak
		// estimator started at one hash per second: blocks one second apart raise the difficulty by
		// about one per block, blocks a thousand seconds apart let it fall
		n.InitialTarget = types.BlockID{0xFF}
		n.BlockInterval = time.Second
		n.HardforkASIC.OakTime = time.Second
		n.HardforkASIC.OakTarget = n.InitialTarget
	}
	net := &Net{N: n, SK: keyFrom(rng), SK2: keyFrom(rng), Volatile: volatile}
	net.UC = types.StandardUnlockConditions(net.SK.PublicKey())
	net.Addr = net.UC.UnlockHash()
	net.Policy = types.SpendPolicy{Type: types.PolicyTypeUnlockConditions(net.UC)}
	net.Addr2 = types.StandardUnlockHash(net.SK2.PublicKey())
	// give the actor the genesis siafunds and a siacoin output so every transaction kind is possible
	// from the first blocks on
	g := genesis
	g.Transactions = append([]types.Transaction(nil), genesis.Transactions...)
	if len(g.Transactions) > 0 {
		t0 := g.Transactions[0]
		t0.SiafundOutputs = append([]types.SiafundOutput(nil), t0.SiafundOutputs...)
		t0.SiacoinOutputs = append([]types.SiacoinOutput(nil), t0.SiacoinOutputs...)
		for i := range t0.SiafundOutputs {
			t0.SiafundOutputs[i].Address = net.Addr
		}
		t0.SiacoinOutputs = append(t0.SiacoinOutputs, types.SiacoinOutput{Address: net.Addr, Value: types.Siacoins(1000)})
		g.Transactions[0] = t0
	}
	net.Genesis = g
	return net
}

// Node is a real node under test (or a twin).
type Node struct {
	Net    *Net
	DB     chain.DB
	Store  *chain.DBStore
	CM     *chain.Manager
	Reorgs []types.ChainIndex
	// Probe is set when the manager runs over a ProbeStore (NewProbedNode)
	Probe *ProbeStore
}

// NewNode opens a DBStore + Manager over db (NewDBStore initialises an empty db with genesis).
func (net *Net) NewNode(db chain.DB) (*Node, error) {
	store, tip, err := chain.NewDBStore(db, net.N, net.Genesis, nil)
	if err != nil {
		return nil, err
	}
	nd := &Node{Net: net, DB: db, Store: store}
	nd.CM = chain.NewManager(store, tip)
	nd.CM.OnReorg(func(ci types.ChainIndex) { nd.Reorgs = append(nd.Reorgs, ci) })
	return nd, nil
}

func (net *Net) MustNode() *Node {
	nd, err := net.NewNode(chain.NewMemDB())
	if err != nil {
		panic(err)
	}
	return nd
}

// WorkInt returns a consensus.Work as a big integer.
func WorkInt(w consensus.Work) *big.Int {
	b, _ := new(big.Int).SetString(w.String(), 10)
	return b
}

// B is one block of a fork tree with the attributes the model needs, all computed on an
// independent linear twin that only ever saw the block's own ancestry.
type B struct {
	ID      int
	Block   types.Block
	Parent  int
	Height  uint64
	HdrOk   bool // consensus.ValidateOrphan on the parent's state
	BodyOk  bool // full validation on the twin
	Future  bool
	V2      bool
	Work    *big.Int
	Diff    *big.Int
	State   consensus.State // state after the block (header-applied at least); zero if !HdrOk
	Full    consensus.State // the full post-block state from the twin (valid blocks only)
	Corrupt string          // "" for generated-valid blocks, else the corruption kind
	Kinds   []string        // transaction kinds carried
}

func (b *B) Index() types.ChainIndex { return types.ChainIndex{Height: b.Height, ID: b.Block.ID()} }

// DeclLine is the model-side declaration of the block.
func (b *B) DeclLine() string {
	f := func(x bool) int {
		if x {
			return 1
		}
		return 0
	}
	w, d := "0", "0"
	if b.Work != nil {
		w, d = b.Work.String(), b.Diff.String()
	}
	return fmt.Sprintf("blk %d %d %d %s %s %d %d %d %d", b.ID, b.Parent, b.Height, w, d, f(b.HdrOk), f(b.BodyOk), f(b.Future), f(b.V2))
}

// Tree is a fork tree. Blocks[0] is genesis.
type Tree struct {
	Net    *Net
	Blocks []*B
	byHash map[types.BlockID]int
	Base   time.Time // timestamps are Base + k seconds
	// Disagreements between core's verdict on a block and what a Manager fed only that block's
	// ancestry did with it (found while labelling; reported by the harnesses as oracle failures).
	Disagreements []string
	// SlowLeaf/FastLeaf (volatile networks, 0 = none): tips of a long chain of slow blocks and of a
	// competing branch of fast blocks that is sufficiently heavier, usually while shorter
	SlowLeaf, FastLeaf int
}

func NewTree(net *Net) *Tree {
	t := &Tree{Net: net, byHash: map[types.BlockID]int{}}
	tw := net.MustNode()
	cs := tw.CM.TipState()
	g := &B{ID: 0, Block: net.Genesis, Parent: 0, Height: 0, HdrOk: true, BodyOk: true, V2: net.Genesis.V2 != nil,
		Work: WorkInt(cs.TotalWork), Diff: WorkInt(cs.Difficulty), State: cs}
	t.Blocks = []*B{g}
	t.byHash[net.Genesis.ID()] = 0
	t.Base = net.Genesis.Timestamp
	return t
}

func (t *Tree) Lookup(id types.BlockID) (int, bool) { i, ok := t.byHash[id]; return i, ok }

// Ancestry returns the ids from the first block after genesis down to i (inclusive).
func (t *Tree) Ancestry(i int) []int {
	var rev []int
	for i != 0 {
		rev = append(rev, i)
		i = t.Blocks[i].Parent
	}
	for l, r := 0, len(rev)-1; l < r; l, r = l+1, r-1 {
		rev[l], rev[r] = rev[r], rev[l]
	}
	return rev
}

// AllValid reports whether i and all its ancestors are fully valid.
func (t *Tree) AllValid(i int) bool {
	for i != 0 {
		b := t.Blocks[i]
		if !b.HdrOk || !b.BodyOk || b.Future {
			return false
		}
		i = b.Parent
	}
	return true
}

// Twin returns a fresh node that was fed exactly the ancestry of i, one block at a time.
// The ancestry must be fully valid.
func (t *Tree) Twin(i int) *Node {
	tw := t.Net.MustNode()
	for _, a := range t.Ancestry(i) {
		if err := tw.CM.AddBlocks([]types.Block{t.Blocks[a].Block}); err != nil {
			panic(fmt.Sprintf("twin: block %d of a valid ancestry rejected: %v", a, err))
		}
	}
	if tw.CM.Tip().ID != t.Blocks[i].Block.ID() {
		panic("twin did not reach the requested block")
	}
	return tw
}

// Blocks returns the real blocks for a list of ids.
func (t *Tree) Get(ids []int) []types.Block {
	out := make([]types.Block, len(ids))
	for k, i := range ids {
		out[k] = t.Blocks[i].Block
	}
	return out
}

// add registers a block whose attributes are computed against the parent.
func (t *Tree) add(parent int, blk types.Block, corrupt string, kinds []string) int {
	if i, ok := t.byHash[blk.ID()]; ok {
		return i
	}
	p := t.Blocks[parent]
	b := &B{ID: len(t.Blocks), Block: blk, Parent: parent, Height: p.Height + 1, V2: blk.V2 != nil, Corrupt: corrupt, Kinds: kinds}
	// Future is decided against a fixed reference far from the boundary: generated timestamps are
	// years in the past; a "future" corruption is years ahead.
	b.Future = blk.Timestamp.After(time.Now().Add(24 * time.Hour))
	if p.HdrOk || parent == 0 {
		ps := p.State
		b.HdrOk = consensus.ValidateOrphan(ps, blk) == nil
		if b.HdrOk {
			// the state the manager will store for it: ApplyHeader on the parent's state
			var ts time.Time
			if t.AllValid(parent) {
				tw := t.Twin(parent)
				ts, _ = tw.Store.AncestorTimestamp(blk.ParentID)
				if !b.Future {
					// ground truth: core's ValidateBlock on the parent's full state with the store's
					// supplement — asked directly, not through the Manager under test
					direct := consensus.ValidateBlock(tw.CM.TipState(), blk, tw.Store.SupplementTipBlock(blk)) == nil
					accepted := tw.CM.AddBlocks([]types.Block{blk}) == nil
					b.BodyOk = direct
					if direct != accepted {
						t.Disagreements = append(t.Disagreements, fmt.Sprintf("block %d (corruption %q): consensus.ValidateBlock says valid=%v but a Manager that saw only its ancestry returned accepted=%v", b.ID, corrupt, direct, accepted))
					}
					if accepted {
						b.Full = tw.CM.TipState()
					}
				}
			}
			b.State = consensus.ApplyHeader(ps, blk.Header(), ts)
			b.Work, b.Diff = WorkInt(b.State.TotalWork), WorkInt(b.State.Difficulty)
		}
	}
	t.Blocks = append(t.Blocks, b)
	t.byHash[blk.ID()] = b.ID
	return b.ID
}

// Children lists the ids whose parent is i.
func (t *Tree) Children(i int) []int {
	var out []int
	for _, b := range t.Blocks[1:] {
		if b.Parent == i {
			out = append(out, b.ID)
		}
	}
	return out
}
