package chainx

import (
	"fmt"
	"math/big"

	"verifharness/vh"
)

// GenCfg steers the fork-tree generator.
type GenCfg struct {
	Main      int      // length of the first branch
	Forks     int      // number of extra branches
	MaxBranch int      // max length of an extra branch
	Kinds     []string // transaction menu
	TxPerBlk  int      // max transaction kinds per block
	Corrupt   int      // number of corrupted siblings to add
	Extend    int      // max empty blocks mined on top of a header-valid corrupted block
	// Directed adds the two shapes random growth rarely produces: an equal-length competing branch
	// (total works differ by less than difficulty/5: a near tie in both submission orders) and a
	// body-invalid, header-valid block extended until its branch is the heaviest of the tree.
	Directed bool
	fast     bool // volatile network: one-second blocks unless a shape says otherwise
}

// RandomNet picks hardfork heights so that short trees cross the v1-only / overlap / v2-only
// regimes.
func RandomNet(rng *vh.RNG) *Net {
	allows := []uint64{1, 4, 6, 9, 1000}
	allow := allows[rng.Intn(len(allows))]
	require := allow + uint64(rng.Intn(6))
	if allow == 1000 {
		require = 2000
	}
	if allow == 1 && rng.Bool() {
		require = 1
	}
	if rng.Chance(1, 4) {
		return NewVolatileNet(rng, allow, require, uint64(2+rng.Intn(3)))
	}
	return NewNet(rng, allow, require, uint64(2+rng.Intn(3)))
}

func (cfg GenCfg) spec(rng *vh.RNG) Spec {
	var kinds []string
	if len(cfg.Kinds) > 0 {
		for n := rng.Intn(cfg.TxPerBlk + 1); n > 0; n-- {
			kinds = append(kinds, cfg.Kinds[rng.Intn(len(cfg.Kinds))])
		}
	}
	// block times from far below to far above the 1 s block interval, so that the per-block
	// difficulty adjustment moves both ways and equal-length forks get different total work
	dts := []int{8, 9, 10, 10, 10, 11, 12, 3, 25}
	dt := dts[rng.Intn(len(dts))]
	if cfg.fast {
		dt = 1
	}
	return Spec{Kinds: kinds, Dt: dt}
}

// GenTree grows a fork tree.
func GenTree(rng *vh.RNG, net *Net, cfg GenCfg) *Tree {
	t := NewTree(net)
	tip := 0
	cfg.fast = net.Volatile
	for i := 0; i < cfg.Main; i++ {
		tip = t.Mine(rng, tip, cfg.spec(rng))
	}
	for f := 0; f < cfg.Forks; f++ {
		// fork from any fully valid block (prefer recent ones so that reorgs are short and frequent)
		var cands []int
		for _, b := range t.Blocks {
			if t.AllValid(b.ID) {
				cands = append(cands, b.ID)
			}
		}
		at := cands[rng.Intn(len(cands))]
		if rng.Chance(2, 3) && len(cands) > 4 {
			at = cands[len(cands)-1-rng.Intn(4)]
			at = t.Blocks[at].Parent
		}
		n := 1 + rng.Intn(cfg.MaxBranch)
		for i := 0; i < n; i++ {
			at = t.Mine(rng, at, cfg.spec(rng))
		}
	}
	for c := 0; c < cfg.Corrupt; c++ {
		// corrupt a random valid non-genesis block
		var cands []int
		for _, b := range t.Blocks[1:] {
			if b.Corrupt == "" && b.Parent != OrphanParent && t.AllValid(b.ID) {
				cands = append(cands, b.ID)
			}
		}
		if len(cands) == 0 {
			break
		}
		src := cands[rng.Intn(len(cands))]
		kind := CorruptKinds[rng.Intn(len(CorruptKinds))]
		id := t.Corrupt(rng, src, kind)
		if id < 0 {
			continue
		}
		b := t.Blocks[id]
		if b.HdrOk && !b.Future && cfg.Extend > 0 {
			at := id
			for n := rng.Intn(cfg.Extend + 1); n > 0; n-- {
				at = t.MineEmpty(rng, at, 1+rng.Intn(2))
			}
		}
	}
	if cfg.Directed {
		t.addNearTie(rng, cfg)
		t.addInvalidHeaviest(rng)
	}
	if net.Volatile {
		t.addShorterHeavier(rng, cfg)
	}
	return t
}

// addShorterHeavier (volatile networks): the heaviest valid chain gets a tail of slow blocks (the
// difficulty falls) and a competing branch of fast blocks forks off below that tail and stops
// as soon as it is sufficiently heavier — usually while it is still SHORTER than the slow chain.
func (t *Tree) addShorterHeavier(rng *vh.RNG, cfg GenCfg) {
	leaf := t.heaviestValidLeaf()
	at := leaf
	// prefer a fork point at or above the v2 require height, so that the fast branch is also a
	// run of blocks an instant-syncing peer would hand over pre-validated
	req := t.Net.N.HardforkV2.RequireHeight
	stayAbove := rng.Chance(3, 4)
	for i, n := 0, 2+rng.Intn(3); i < n && at != 0; i++ {
		if stayAbove && i > 0 && t.Blocks[at].Height <= req {
			break
		}
		at = t.Blocks[at].Parent
	}
	slow := leaf
	for i := 0; i < 5+rng.Intn(8); i++ {
		sp := cfg.spec(rng)
		sp.Dt = 800 + rng.Intn(400)
		slow = t.Mine(rng, slow, sp)
	}
	fast := at
	for i := 0; i < 40; i++ {
		sp := cfg.spec(rng)
		sp.Dt = 1
		fast = t.Mine(rng, fast, sp)
		th := new(big.Int).Add(t.Blocks[slow].Work, new(big.Int).Div(t.Blocks[slow].Diff, big.NewInt(5)))
		if t.Blocks[fast].Work.Cmp(th) > 0 {
			t.SlowLeaf, t.FastLeaf = slow, fast
			break
		}
	}
}

// ShorterHeavierSchedule submits the slow chain, then the fast (shorter, heavier) branch, then
// extends nothing: the reorg goes to a LOWER height. nil if the tree has no such pair.
func (t *Tree) ShorterHeavierSchedule(rng *vh.RNG) [][]int {
	if t.SlowLeaf == 0 || t.FastLeaf == 0 {
		return nil
	}
	var out [][]int
	for _, leaf := range []int{t.SlowLeaf, t.FastLeaf} {
		path := t.PathFromRoot(leaf)
		for k := 0; k < len(path); {
			n := 1 + rng.Intn(5)
			if k+n > len(path) {
				n = len(path) - k
			}
			out = append(out, path[k:k+n])
			k += n
		}
	}
	return out
}

// heaviestValidLeaf returns the fully valid block with the most work.
func (t *Tree) heaviestValidLeaf() int {
	best := 0
	for _, b := range t.Blocks[1:] {
		if b.Parent != OrphanParent && t.AllValid(b.ID) && b.Work.Cmp(t.Blocks[best].Work) > 0 {
			best = b.ID
		}
	}
	return best
}

// addNearTie mines a branch of exactly the same length as the tail of the heaviest valid chain,
// with different timestamps, so that both tips have nearly (not exactly) the same work.
func (t *Tree) addNearTie(rng *vh.RNG, cfg GenCfg) {
	leaf := t.heaviestValidLeaf()
	if t.Blocks[leaf].Height < 2 {
		return
	}
	d := 1 + rng.Intn(3)
	at := leaf
	for i := 0; i < d && at != 0; i++ {
		at = t.Blocks[at].Parent
	}
	n := int(t.Blocks[leaf].Height - t.Blocks[at].Height)
	// slow blocks if the original tail was fast and vice versa
	slow := t.Blocks[leaf].Block.Timestamp.Sub(t.Blocks[at].Block.Timestamp).Seconds() < float64(10*n)
	for i := 0; i < n; i++ {
		sp := cfg.spec(rng)
		if slow {
			sp.Dt = 40 + rng.Intn(20)
		} else {
			sp.Dt = 1
		}
		at = t.Mine(rng, at, sp)
	}
}

// addInvalidHeaviest corrupts the body of a transaction-carrying block on the heaviest valid
// chain and extends the corrupted sibling with empty blocks until that branch is the heaviest.
func (t *Tree) addInvalidHeaviest(rng *vh.RNG) {
	leaf := t.heaviestValidLeaf()
	var cands []int
	for x := leaf; x != 0; x = t.Blocks[x].Parent {
		if len(t.Blocks[x].Kinds) > 0 {
			cands = append(cands, x)
		}
	}
	if len(cands) == 0 {
		return
	}
	src := cands[rng.Intn(len(cands))]
	kind := []string{"sig", "dup-txn"}[rng.Intn(2)]
	id := t.Corrupt(rng, src, kind)
	if id < 0 {
		return
	}
	b := t.Blocks[id]
	if !b.HdrOk || b.BodyOk || b.Future {
		return
	}
	at := id
	for t.Blocks[at].Height <= t.Blocks[leaf].Height+1 {
		at = t.MineEmpty(rng, at, 1)
	}
}

// Leaves returns the ids without children.
func (t *Tree) Leaves() []int {
	has := map[int]bool{}
	for _, b := range t.Blocks[1:] {
		has[b.Parent] = true
	}
	var out []int
	for _, b := range t.Blocks[1:] {
		if !has[b.ID] {
			out = append(out, b.ID)
		}
	}
	return out
}

// PathFromRoot is Ancestry for any block (stops at genesis or at an orphan's unknown parent).
func (t *Tree) PathFromRoot(i int) []int {
	var rev []int
	for i != 0 && i != OrphanParent {
		rev = append(rev, i)
		i = t.Blocks[i].Parent
	}
	for l, r := 0, len(rev)-1; l < r; l, r = l+1, r-1 {
		rev[l], rev[r] = rev[r], rev[l]
	}
	return rev
}

// Schedule produces submission batches: every leaf's path in batches of random size, in random
// leaf order, with duplicates, orphans-first segments and batches that mix branches.
func (t *Tree) Schedule(rng *vh.RNG) [][]int {
	var out [][]int
	leaves := t.Leaves()
	order := rng.Perm(len(leaves))
	var prevSeg []int
	for _, li := range order {
		path := t.PathFromRoot(leaves[li])
		// start somewhere in the path (earlier part may be known already, or not: orphan)
		start := 0
		if rng.Chance(1, 3) && len(path) > 1 {
			start = rng.Intn(len(path))
		}
		var segs [][]int
		for k := start; k < len(path); {
			n := 1 + rng.Intn(4)
			if rng.Chance(1, 4) {
				n = len(path)
			}
			if k+n > len(path) {
				n = len(path) - k
			}
			segs = append(segs, path[k:k+n])
			k += n
		}
		if rng.Chance(1, 5) && len(segs) > 1 {
			// orphans first: swap two segments
			a, b := rng.Intn(len(segs)), rng.Intn(len(segs))
			segs[a], segs[b] = segs[b], segs[a]
		}
		for _, s := range segs {
			if rng.Chance(1, 6) && len(prevSeg) > 0 {
				// a batch mixing branches
				mixed := append(append([]int(nil), prevSeg...), s...)
				if rng.Bool() {
					mixed = append(append([]int(nil), s...), prevSeg...)
				}
				out = append(out, mixed)
			} else {
				out = append(out, s)
			}
			prevSeg = s
			if rng.Chance(1, 8) {
				out = append(out, s) // duplicate
			}
		}
		if start > 0 && rng.Chance(2, 3) {
			// now deliver the missing prefix, then the whole path again
			out = append(out, path[:start], path)
		}
	}
	return out
}

// SafeGenTree is GenTree with panics of the real code (a linear twin applying freshly mined valid
// blocks) turned into an error: on a sound tree the generator never panics, so the panic text is
// itself a failing input description (the history is the tree built so far).
func SafeGenTree(rng *vh.RNG, net *Net, cfg GenCfg) (t *Tree, err error) {
	defer func() {
		if r := recover(); r != nil {
			err = fmt.Errorf("%v", r)
		}
	}()
	return GenTree(rng, net, cfg), nil
}
