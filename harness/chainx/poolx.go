package chainx

// Extensions of the chain rig used by the transaction-pool checks (C05, C13, C14): blocks
// carrying caller-chosen transactions, blocks produced outside the tree (coreutils.MineBlock),
// and per-block element diffs.  Nothing here changes what the other generators draw.

import (
	"fmt"
	"time"

	"go.sia.tech/core/types"
	"verifharness/vh"
)

// PoolNet is a network for the pool checks: maturity delay 0, so that an element that exists is
// always mature (maturity is a consensus rule the pool models do not carry).
func PoolNet(rng *vh.RNG, allow, require uint64) *Net { return NewNet(rng, allow, require, 0) }

// PoolNetInterval is PoolNet with a chosen block interval (testutil.Network uses one second, which
// leaves no room between "one interval after the tip" and the tip itself).
func PoolNetInterval(rng *vh.RNG, allow, require uint64, interval time.Duration) *Net {
	net := NewNet(rng, allow, require, 0)
	net.N.BlockInterval = interval
	return net
}

// Spendable returns the actor's unspent, mature, non-zero siacoin elements (by leaf index).
func (net *Net) Spendable(l *Ledger, childHeight uint64) []types.SiacoinElement {
	return net.spendable(l, childHeight)
}

// Siafunds returns the actor's unspent siafund elements (by leaf index).
func (net *Net) Siafunds(l *Ledger) []types.SiafundElement { return net.siafunds(l) }

// MineWith mines a child of parent carrying exactly the given transactions (plus the v2
// uniqueness transaction when v2 is allowed).  It returns an error instead of panicking when the
// block is not valid on the parent's linear twin; the block is not added to the tree then.
func (t *Tree) MineWith(rng *vh.RNG, parent int, v1 []types.Transaction, v2 []types.V2Transaction, dt int) (int, error) {
	if !t.AllValid(parent) {
		return -1, fmt.Errorf("parent %d is not fully valid", parent)
	}
	tw := t.Twin(parent)
	cs := tw.CM.TipState()
	if dt < 1 {
		dt = 1
	}
	if cs.Index.Height+1 < t.Net.N.HardforkV2.AllowHeight && len(v2) > 0 {
		return -1, fmt.Errorf("v2 transactions before the allow height")
	}
	blk := t.Net.assemble(cs, t.Blocks[parent].Block.Timestamp.Add(time.Duration(dt)*time.Second), t.Net.Addr, v1, v2, rng.U64())
	if err := tw.CM.AddBlocks([]types.Block{blk}); err != nil {
		return -1, err
	}
	return t.add(parent, blk, "", []string{"pool"}), nil
}

// AddExternal registers a block that was produced outside the tree (e.g. by coreutils.MineBlock on
// the node under test); its attributes are computed on a linear twin as for any other block.
func (t *Tree) AddExternal(parent int, blk types.Block) int {
	return t.add(parent, blk, "", []string{"external"})
}
