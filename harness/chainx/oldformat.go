package chainx

import (
	"bytes"
	"fmt"

	"go.sia.tech/core/consensus"
	"go.sia.tech/core/types"
	"go.sia.tech/coreutils/chain"
)

// RewriteBlocksV2 rewrites the records of the Blocks bucket that hold a v2 block above the v2
// require height into the PREVIOUS record layout (version 2: `0x02 | block | ptr(supplement)`, no
// separate header) — exactly what a database written by the previous release looks like after
// migrateDB has run (the migration re-stores the blocks up to the require height in the current
// layout and leaves the later ones as they were).  It returns the number of records rewritten.
// Only the public chain.DB interface and core's encoding helpers are used.
func RewriteBlocksV2(db chain.DB, requireHeight uint64) (int, error) {
	return rewriteBlocksV2(db, func(b *types.Block) bool { return b.V2 != nil && b.V2.Height > requireHeight })
}

// MakePreMigrationDB turns a flushed, current database into what the previous release wrote: every
// block record that has a body in the version-2 layout, and the version key set to `version`
// (1, 2 or 3). The next NewDBStore runs the migration (chain/migrate.go): side-chain blocks and
// the element buckets are dropped and the main chain is recomputed up to the v2 require height.
func MakePreMigrationDB(db chain.DB, version byte) (int, error) {
	n, err := rewriteBlocksV2(db, func(*types.Block) bool { return true })
	if err != nil {
		return 0, err
	}
	vb := db.Bucket([]byte("Version"))
	if vb == nil {
		return 0, fmt.Errorf("no Version bucket")
	}
	if err := vb.Put([]byte("Version"), []byte{version}); err != nil {
		return 0, err
	}
	return n, db.Flush()
}

func rewriteBlocksV2(db chain.DB, which func(*types.Block) bool) (int, error) {
	bucket := db.Bucket([]byte("Blocks"))
	if bucket == nil {
		return 0, fmt.Errorf("no Blocks bucket")
	}
	type kv struct{ k, v []byte }
	var out []kv
	for k, v := range bucket.Iter() {
		d := types.NewBufDecoder(v)
		if ver := d.ReadUint8(); ver != 3 {
			continue
		}
		var bh *types.BlockHeader
		var b *types.Block
		var bs *consensus.V1BlockSupplement
		types.DecodePtr(d, &bh)
		types.DecodePtrCast[types.V2Block](d, &b)
		types.DecodePtr(d, &bs)
		if d.Err() != nil || b == nil || !which(b) {
			continue
		}
		var buf bytes.Buffer
		e := types.NewEncoder(&buf)
		e.WriteUint8(2)
		types.V2Block(*b).EncodeTo(e)
		types.EncodePtr(e, bs)
		e.Flush()
		out = append(out, kv{append([]byte(nil), k...), buf.Bytes()})
	}
	for _, r := range out {
		if err := bucket.Put(r.k, r.v); err != nil {
			return 0, err
		}
	}
	return len(out), db.Flush()
}
