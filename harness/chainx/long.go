package chainx

import (
	"time"

	"go.sia.tech/core/types"
	"verifharness/vh"
)

// LongChain appends n empty blocks on top of genesis to a fresh tree, mining sequentially on ONE
// linear node (no per-block twin replay), so chains of a thousand blocks and more stay cheap.
// Every block is fully valid and gets the usual attributes.
func LongChain(rng *vh.RNG, net *Net, n int) *Tree {
	t := NewTree(net)
	nd := net.MustNode()
	parent := 0
	for i := 0; i < n; i++ {
		cs := nd.CM.TipState()
		blk := net.assemble(cs, t.Blocks[parent].Block.Timestamp.Add(10*time.Second), net.Addr, nil, nil, rng.U64())
		if err := nd.CM.AddBlocks([]types.Block{blk}); err != nil {
			panic("LongChain: " + err.Error())
		}
		full := nd.CM.TipState()
		b := &B{ID: len(t.Blocks), Block: blk, Parent: parent, Height: t.Blocks[parent].Height + 1, HdrOk: true, BodyOk: true,
			V2: blk.V2 != nil, Work: WorkInt(full.TotalWork), Diff: WorkInt(full.Difficulty), State: full, Full: full}
		t.Blocks = append(t.Blocks, b)
		t.byHash[blk.ID()] = b.ID
		parent = b.ID
	}
	return t
}
