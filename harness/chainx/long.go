package chainx

import (
	"time"

	"go.sia.tech/core/consensus"

	"go.sia.tech/core/types"
	"verifharness/vh"
)

// LongChain appends n empty blocks on top of genesis to a fresh tree, mining sequentially on ONE
// linear node (no per-block twin replay), so chains of a thousand blocks and more stay cheap.
// Every block is fully valid and gets the usual attributes.
func LongChain(rng *vh.RNG, net *Net, n int) *Tree {
	t := NewTree(net)
	nd := net.MustNode()
	parent := 0
	for i := 0; i < n; i++ {
		cs := nd.CM.TipState()
		blk := net.assemble(cs, t.Blocks[parent].Block.Timestamp.Add(10*time.Second), net.Addr, nil, nil, rng.U64())
		if err := nd.CM.AddBlocks([]types.Block{blk}); err != nil {
			panic("LongChain: " + err.Error())
		}
		full := nd.CM.TipState()
		b := &B{ID: len(t.Blocks), Block: blk, Parent: parent, Height: t.Blocks[parent].Height + 1, HdrOk: true, BodyOk: true,
			V2: blk.V2 != nil, Work: WorkInt(full.TotalWork), Diff: WorkInt(full.Difficulty), State: full, Full: full}
		t.Blocks = append(t.Blocks, b)
		t.byHash[blk.ID()] = b.ID
		parent = b.ID
	}
	return t
}

// NewPreOakNet is a network on which the pre-Oak difficulty algorithm stays active for thousands
// of blocks (retarget every 500 blocks from the timestamp of the block min(1000, height) back —
// the only place the store's AncestorTimestamp walk decides anything), v1 blocks only.
func NewPreOakNet(rng *vh.RNG) *Net {
	return NewPreOakNetAt(rng, 50000)
}

// NewPreOakNetAt is NewPreOakNet with the Oak hardfork at the given height (a multiple of 500
// makes the LAST pre-Oak retarget coincide with the hardfork height itself).
func NewPreOakNetAt(rng *vh.RNG, oak uint64) *Net {
	net := newNet(rng, 60000, 61000, 3, false)
	n := net.N
	n.HardforkOak.Height = oak
	n.HardforkOak.FixHeight = oak
	n.HardforkASIC.Height = 50000
	n.HardforkFoundation.Height = 50000
	return net
}

// LongBranch appends n empty blocks, dt seconds apart, on top of block parent of t (whose
// ancestry must be fully valid), mining sequentially on ONE node that was fed that ancestry.
// It returns the id of the last block.
func LongBranch(rng *vh.RNG, t *Tree, parent, n, dt int) int {
	nd := t.Net.MustNode()
	if anc := t.Ancestry(parent); len(anc) > 0 {
		if err := nd.CM.AddBlocks(t.Get(anc)); err != nil {
			panic("LongBranch: ancestry rejected: " + err.Error())
		}
	}
	// a distinct miner address per branch keeps sibling v1 blocks with equal timestamps distinct
	var miner types.Address
	rng.Bytes(miner[:])
	// header-level reference states are computed here, NOT read back from the node: ApplyHeader on
	// the parent's reference with the timestamp of the ancestor max(0, parent height - 1000), found
	// by walking this tree (the store's AncestorTimestamp is part of what is being checked)
	ancTs := func(parent int) time.Time {
		x := parent
		for i := 0; i < 1000 && x != 0; i++ {
			x = t.Blocks[x].Parent
		}
		return t.Blocks[x].Block.Timestamp
	}
	for i := 0; i < n; i++ {
		cs := nd.CM.TipState()
		blk := t.Net.assemble(cs, t.Blocks[parent].Block.Timestamp.Add(time.Duration(dt)*time.Second), miner, nil, nil, rng.U64())
		if err := nd.CM.AddBlocks([]types.Block{blk}); err != nil {
			panic("LongBranch: " + err.Error())
		}
		full := nd.CM.TipState()
		ref := consensus.ApplyHeader(t.Blocks[parent].State, blk.Header(), ancTs(parent))
		b := &B{ID: len(t.Blocks), Block: blk, Parent: parent, Height: t.Blocks[parent].Height + 1, HdrOk: true, BodyOk: true,
			V2: blk.V2 != nil, Work: WorkInt(ref.TotalWork), Diff: WorkInt(ref.Difficulty), State: ref, Full: full}
		t.Blocks = append(t.Blocks, b)
		t.byHash[blk.ID()] = b.ID
		parent = b.ID
	}
	return parent
}
