package chainx

import (
	"time"

	"go.sia.tech/core/types"
	"verifharness/vh"
)

// LongChain appends n empty blocks on top of genesis to a fresh tree, mining sequentially on ONE
// linear node (no per-block twin replay), so chains of a thousand blocks and more stay cheap.
// Every block is fully valid and gets the usual attributes.
func LongChain(rng *vh.RNG, net *Net, n int) *Tree {
	t := NewTree(net)
	nd := net.MustNode()
	parent := 0
	for i := 0; i < n; i++ {
		cs := nd.CM.TipState()
		blk := net.assemble(cs, t.Blocks[parent].Block.Timestamp.Add(10*time.Second), net.Addr, nil, nil, rng.U64())
		if err := nd.CM.AddBlocks([]types.Block{blk}); err != nil {
			panic("LongChain: " + err.Error())
		}
		full := nd.CM.TipState()
		b := &B{ID: len(t.Blocks), Block: blk, Parent: parent, Height: t.Blocks[parent].Height + 1, HdrOk: true, BodyOk: true,
			V2: blk.V2 != nil, Work: WorkInt(full.TotalWork), Diff: WorkInt(full.Difficulty), State: full, Full: full}
		t.Blocks = append(t.Blocks, b)
		t.byHash[blk.ID()] = b.ID
		parent = b.ID
	}
	return t
}

// NewPreOakNet is a network on which the pre-Oak difficulty algorithm stays active for thousands
// of blocks (retarget every 500 blocks from the timestamp of the block min(1000, height) back —
// the only place the store's AncestorTimestamp walk decides anything), v1 blocks only.
func NewPreOakNet(rng *vh.RNG) *Net {
	net := newNet(rng, 60000, 61000, 3, false)
	n := net.N
	n.HardforkOak.Height = 50000
	n.HardforkOak.FixHeight = 50000
	n.HardforkASIC.Height = 50000
	n.HardforkFoundation.Height = 50000
	return net
}

// LongBranch appends n empty blocks, dt seconds apart, on top of block parent of t (whose
// ancestry must be fully valid), mining sequentially on ONE node that was fed that ancestry.
// It returns the id of the last block.
func LongBranch(rng *vh.RNG, t *Tree, parent, n, dt int) int {
	nd := t.Net.MustNode()
	if anc := t.Ancestry(parent); len(anc) > 0 {
		if err := nd.CM.AddBlocks(t.Get(anc)); err != nil {
			panic("LongBranch: ancestry rejected: " + err.Error())
		}
	}
	// a distinct miner address per branch keeps sibling v1 blocks with equal timestamps distinct
	var miner types.Address
	rng.Bytes(miner[:])
	for i := 0; i < n; i++ {
		cs := nd.CM.TipState()
		blk := t.Net.assemble(cs, t.Blocks[parent].Block.Timestamp.Add(time.Duration(dt)*time.Second), miner, nil, nil, rng.U64())
		if err := nd.CM.AddBlocks([]types.Block{blk}); err != nil {
			panic("LongBranch: " + err.Error())
		}
		full := nd.CM.TipState()
		b := &B{ID: len(t.Blocks), Block: blk, Parent: parent, Height: t.Blocks[parent].Height + 1, HdrOk: true, BodyOk: true,
			V2: blk.V2 != nil, Work: WorkInt(full.TotalWork), Diff: WorkInt(full.Difficulty), State: full, Full: full}
		t.Blocks = append(t.Blocks, b)
		t.byHash[blk.ID()] = b.ID
		parent = b.ID
	}
	return parent
}
