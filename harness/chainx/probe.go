package chainx

import (
	"errors"
	"fmt"
	"sync"
	"sync/atomic"
	"time"

	"go.sia.tech/core/consensus"
	"go.sia.tech/core/types"
	"go.sia.tech/coreutils/chain"
)

// ProbeStore is the manager's store with an atomicity probe: while the harness is inside a call
// of a Manager method that CHANGES the manager (AddBlocks, AddValidatedV2Blocks, PruneBlocks, the
// pool entry points — announced with Writer), every n-th store call made by the manager starts a
// second goroutine that asks the manager a question (Tip, TipState, BestIndex) and checks whether
// the answer arrives before the store call returns.  chain.Manager is documented and built as one
// critical section per exported method (every one takes m.mu for its whole duration, except the
// listener window of AddBlocks, in which the manager makes no store call), so on a correct tree
// the probe always blocks until the writer is done; an answer arriving early means some state of
// the manager is readable (or writable) in the middle of a change.  The harness's own reads go to
// the embedded *DBStore directly, never through this wrapper.
type ProbeStore struct {
	*chain.DBStore
	cm     atomic.Pointer[chain.Manager]
	writer atomic.Value // string: the writing method in progress, "" if none
	calls  atomic.Int64
	Every  int64
	Wait   time.Duration
	mu     sync.Mutex
	found  []string
	probes atomic.Int64

	wg          sync.WaitGroup
	fdb         *FaultDB
	failFlush   atomic.Int64
	flushFailed atomic.Int64
}

func (p *ProbeStore) SetManager(cm *chain.Manager) { p.cm.Store(cm) }

// Writer runs fn (a call of a state-changing Manager method named name) with the probe armed.
func (p *ProbeStore) Writer(name string, fn func()) {
	p.writer.Store(name)
	// the readers started from inside the writer sit on the manager's lock until the writer is
	// done; they must be gone before the caller goes on (it may reopen the database or read the
	// store directly, without the manager's lock)
	defer p.wg.Wait()
	defer p.writer.Store("")
	fn()
}

// Found returns the violations observed so far and clears them.
func (p *ProbeStore) Found() []string {
	p.mu.Lock()
	defer p.mu.Unlock()
	out := p.found
	p.found = nil
	return out
}

func (p *ProbeStore) Probes() int64 { return p.probes.Load() }

func (p *ProbeStore) hit(site string) {
	w, _ := p.writer.Load().(string)
	cm := p.cm.Load()
	if w == "" || cm == nil {
		return
	}
	every := p.Every
	if every <= 0 {
		every = 5
	}
	n := p.calls.Add(1)
	if n%every != 0 {
		return
	}
	p.probes.Add(1)
	done := make(chan string, 1)
	which := n / every % 3
	p.wg.Add(1)
	go func() {
		defer p.wg.Done()
		switch which {
		case 0:
			cm.Tip()
			done <- "Tip"
		case 1:
			cm.TipState()
			done <- "TipState"
		default:
			cm.BestIndex(0)
			done <- "BestIndex"
		}
	}()
	wait := p.Wait
	if wait <= 0 {
		wait = 200 * time.Microsecond
	}
	select {
	case m := <-done:
		p.mu.Lock()
		p.found = append(p.found, fmt.Sprintf("%s() returned while %s was inside Store.%s", m, w, site))
		p.mu.Unlock()
	case <-time.After(wait):
	}
}

func (p *ProbeStore) BestIndex(height uint64) (types.ChainIndex, bool) {
	p.hit("BestIndex")
	return p.DBStore.BestIndex(height)
}
func (p *ProbeStore) SupplementTipTransaction(txn types.Transaction) consensus.V1TransactionSupplement {
	p.hit("SupplementTipTransaction")
	return p.DBStore.SupplementTipTransaction(txn)
}
func (p *ProbeStore) SupplementTipBlock(b types.Block) consensus.V1BlockSupplement {
	p.hit("SupplementTipBlock")
	return p.DBStore.SupplementTipBlock(b)
}
func (p *ProbeStore) Block(id types.BlockID) (types.Block, *consensus.V1BlockSupplement, bool) {
	p.hit("Block")
	return p.DBStore.Block(id)
}
func (p *ProbeStore) Header(id types.BlockID) (types.BlockHeader, bool) {
	p.hit("Header")
	return p.DBStore.Header(id)
}
func (p *ProbeStore) AddBlock(b types.Block, bs *consensus.V1BlockSupplement) {
	p.hit("AddBlock")
	p.DBStore.AddBlock(b, bs)
}
func (p *ProbeStore) PruneBlock(id types.BlockID) {
	p.hit("PruneBlock")
	p.DBStore.PruneBlock(id)
}
func (p *ProbeStore) State(id types.BlockID) (consensus.State, bool) {
	p.hit("State")
	return p.DBStore.State(id)
}
func (p *ProbeStore) AddState(cs consensus.State) {
	p.hit("AddState")
	p.DBStore.AddState(cs)
}
func (p *ProbeStore) AncestorTimestamp(id types.BlockID) (time.Time, bool) {
	p.hit("AncestorTimestamp")
	return p.DBStore.AncestorTimestamp(id)
}
func (p *ProbeStore) ApplyBlock(s consensus.State, cau consensus.ApplyUpdate) {
	p.hit("ApplyBlock")
	p.DBStore.ApplyBlock(s, cau)
}
func (p *ProbeStore) RevertBlock(s consensus.State, cru consensus.RevertUpdate) {
	p.hit("RevertBlock")
	p.DBStore.RevertBlock(s, cru)
}

// NewProbedNode is MustNode with the manager running over a ProbeStore.
// FaultDB wraps a chain.DB; while armed, Flush returns an error and leaves the batch pending (what a
// wrapper around MemDB, or a disk that is momentarily full, does).
type FaultDB struct {
	chain.DB
	fail atomic.Bool
}

// Flush implements chain.DB.
func (f *FaultDB) Flush() error {
	if f.fail.Load() {
		return errors.New("chainx: injected flush failure")
	}
	return f.DB.Flush()
}

// FailNextFlush makes the next Store.Flush that has something to write fail once, at the
// database (the store's periodic flushes inside ApplyBlock/RevertBlock are not affected: those
// panic by design).
func (p *ProbeStore) FailNextFlush() { p.failFlush.Store(1) }

// DisarmFlush withdraws a pending FailNextFlush and reports whether a flush has failed since the
// last call.
func (p *ProbeStore) DisarmFlush() (failed bool) {
	p.failFlush.Store(0)
	return p.flushFailed.Swap(0) > 0
}

// Flush implements chain.Store.
func (p *ProbeStore) Flush() error {
	p.hit("Flush")
	if p.fdb != nil && p.failFlush.CompareAndSwap(1, 0) {
		p.fdb.fail.Store(true)
		err := p.DBStore.Flush()
		p.fdb.fail.Store(false)
		if err != nil {
			p.flushFailed.Add(1)
		} else {
			p.failFlush.Store(1) // nothing was pending; the failure is still to come
		}
		return err
	}
	return p.DBStore.Flush()
}

func (net *Net) NewProbedNode() *Node {
	db := chain.NewMemDB()
	fdb := &FaultDB{DB: db}
	store, tip, err := chain.NewDBStore(fdb, net.N, net.Genesis, nil)
	if err != nil {
		panic(err)
	}
	ps := &ProbeStore{DBStore: store, fdb: fdb}
	nd := &Node{Net: net, DB: db, Store: store, Probe: ps}
	nd.CM = chain.NewManager(ps, tip)
	ps.SetManager(nd.CM)
	nd.CM.OnReorg(func(ci types.ChainIndex) { nd.Reorgs = append(nd.Reorgs, ci) })
	return nd
}
