package chainx

import (
	"time"

	"go.sia.tech/core/types"
	"verifharness/vh"
)

// CorruptKinds are the single-field corruptions of a valid block. Whether the result is
// header-invalid, body-invalid, future or (rarely) still valid is decided by the twin.
var CorruptKinds = []string{"nonce", "ts-past", "ts-future", "parent", "parent-zero", "payout", "commitment", "sig", "dup-txn", "height", "drop-payout"}

// OrphanParent is the model id used for the parent of a block whose ParentID is unknown.
const OrphanParent = 999999

// Corrupt makes a corrupted sibling of block i (same parent) and returns its id, or -1 when the
// corruption does not apply to that block.
func (t *Tree) Corrupt(rng *vh.RNG, i int, kind string) int {
	src := t.Blocks[i]
	if i == 0 {
		return -1
	}
	p := t.Blocks[src.Parent]
	if !p.HdrOk && src.Parent != 0 {
		return -1
	}
	cs := p.State
	// deep copy
	blk := src.Block
	blk.MinerPayouts = append([]types.SiacoinOutput(nil), blk.MinerPayouts...)
	blk.Transactions = append([]types.Transaction(nil), blk.Transactions...)
	if blk.V2 != nil {
		v2 := *blk.V2
		v2.Transactions = append([]types.V2Transaction(nil), v2.Transactions...)
		blk.V2 = &v2
	}
	remine := true
	switch kind {
	case "nonce":
		FindNonce(cs, &blk)
		blk.Nonce++ // no longer a multiple of the nonce factor (or fails PoW)
		remine = false
	case "ts-past":
		blk.Timestamp = t.Base.Add(-1000 * time.Hour)
	case "ts-future":
		blk.Timestamp = time.Now().Add(24 * 365 * time.Hour)
	case "parent":
		var id types.BlockID
		rng.Bytes(id[:])
		blk.ParentID = id
	case "parent-zero":
		// the zero id is the parent of genesis: the store holds a state for it
		blk.ParentID = types.BlockID{}
	case "payout":
		blk.MinerPayouts[0].Value = blk.MinerPayouts[0].Value.Add(types.NewCurrency64(1))
	case "drop-payout":
		blk.MinerPayouts = nil
	case "commitment":
		if blk.V2 == nil {
			return -1
		}
		blk.V2.Commitment[0] ^= 1
	case "height":
		if blk.V2 == nil {
			return -1
		}
		blk.V2.Height++
	case "sig":
		switch {
		case blk.V2 != nil && len(blk.V2.Transactions) > 1 && len(blk.V2.Transactions[1].SiacoinInputs) > 0:
			txn := blk.V2.Transactions[1].DeepCopy()
			if len(txn.SiacoinInputs[0].SatisfiedPolicy.Signatures) == 0 {
				return -1
			}
			txn.SiacoinInputs[0].SatisfiedPolicy.Signatures[0][0] ^= 1
			blk.V2.Transactions[1] = txn
			blk.V2.Commitment = cs.Commitment(blk.MinerPayouts[0].Address, blk.Transactions, blk.V2Transactions())
		case len(blk.Transactions) > 0 && len(blk.Transactions[0].Signatures) > 0:
			txn := blk.Transactions[0]
			txn.Signatures = append([]types.TransactionSignature(nil), txn.Signatures...)
			sig := append([]byte(nil), txn.Signatures[0].Signature...)
			sig[0] ^= 1
			txn.Signatures[0].Signature = sig
			blk.Transactions[0] = txn
			if blk.V2 != nil {
				blk.V2.Commitment = cs.Commitment(blk.MinerPayouts[0].Address, blk.Transactions, blk.V2Transactions())
			}
		default:
			return -1
		}
	case "dup-txn":
		// double spend inside the block, with the miner payout adjusted so that only the body is wrong
		switch {
		case blk.V2 != nil && len(blk.V2.Transactions) > 1:
			txn := blk.V2.Transactions[1]
			blk.V2.Transactions = append(blk.V2.Transactions, txn)
			blk.MinerPayouts[0].Value = blk.MinerPayouts[0].Value.Add(txn.MinerFee)
			blk.V2.Commitment = cs.Commitment(blk.MinerPayouts[0].Address, blk.Transactions, blk.V2Transactions())
		case len(blk.Transactions) > 0:
			txn := blk.Transactions[0]
			blk.Transactions = append(blk.Transactions, txn)
			blk.MinerPayouts[0].Value = blk.MinerPayouts[0].Value.Add(txn.TotalFees())
			if blk.V2 != nil {
				blk.V2.Commitment = cs.Commitment(blk.MinerPayouts[0].Address, blk.Transactions, blk.V2Transactions())
			}
		default:
			return -1
		}
	default:
		panic("unknown corruption " + kind)
	}
	if remine && kind != "parent-zero" {
		FindNonce(cs, &blk)
	}
	if kind == "parent" || kind == "parent-zero" {
		// an orphan: its parent is unknown to every node
		if _, ok := t.byHash[blk.ID()]; ok {
			return -1
		}
		b := &B{ID: len(t.Blocks), Block: blk, Parent: OrphanParent, Height: src.Height, V2: blk.V2 != nil, Corrupt: kind}
		t.Blocks = append(t.Blocks, b)
		t.byHash[blk.ID()] = b.ID
		return b.ID
	}
	if _, ok := t.byHash[blk.ID()]; ok {
		return -1
	}
	return t.add(src.Parent, blk, kind, src.Kinds)
}
