package chainx

// Reverted lists the blocks one AddBlocks call may have reverted, given the tip before and after
// and the call's result: on a move of the tip the old branch down to the fork point; on a failed,
// rolled-back reorg towards target both the old branch (reverted, then re-applied) and the part of
// the target's branch above the fork point (applied, then reverted by the rollback).
func (t *Tree) Reverted(before, after int, failedTarget int) []int {
	var out []int
	path := func(a, b int) (fromA, fromB []int) {
		if b == OrphanParent || t.Blocks[b].Parent == OrphanParent {
			return nil, nil
		}
		anc := map[int]bool{0: true}
		for x := b; x != 0 && x != OrphanParent; x = t.Blocks[x].Parent {
			anc[x] = true
		}
		fork := a
		for ; !anc[fork]; fork = t.Blocks[fork].Parent {
			fromA = append(fromA, fork)
		}
		for x := b; x != fork && x != 0 && x != OrphanParent; x = t.Blocks[x].Parent {
			fromB = append(fromB, x)
		}
		return
	}
	if failedTarget >= 0 {
		a, b := path(before, failedTarget)
		out = append(append(out, a...), b...)
	} else if after != before {
		a, _ := path(before, after)
		out = append(out, a...)
	}
	return out
}
