package chainx

import (
	"fmt"
	"sort"
	"time"

	"go.sia.tech/core/consensus"
	"go.sia.tech/core/types"
	"verifharness/vh"
)

// Spec says what a mined block should carry.
type Spec struct {
	Kinds []string      // transaction kinds, see txMenu
	Dt    int           // timestamp = parent timestamp + Dt seconds (>= 1)
	Miner types.Address // zero = the actor
}

// sortedSC returns the actor's mature unspent siacoin elements in a deterministic order.
func (net *Net) spendable(l *Ledger, height uint64) []types.SiacoinElement {
	var out []types.SiacoinElement
	for _, e := range l.SC {
		if e.SiacoinOutput.Address == net.Addr && e.MaturityHeight <= height && !e.SiacoinOutput.Value.IsZero() {
			out = append(out, e.Copy())
		}
	}
	sort.Slice(out, func(i, j int) bool { return out[i].StateElement.LeafIndex < out[j].StateElement.LeafIndex })
	return out
}

func (net *Net) siafunds(l *Ledger) []types.SiafundElement {
	var out []types.SiafundElement
	for _, e := range l.SF {
		if e.SiafundOutput.Address == net.Addr && e.SiafundOutput.Value > 0 {
			out = append(out, e.Copy())
		}
	}
	sort.Slice(out, func(i, j int) bool { return out[i].StateElement.LeafIndex < out[j].StateElement.LeafIndex })
	return out
}

// SignV1 signs every siacoin/siafund input of txn with the actor's key (whole transaction).
func (net *Net) SignV1(cs consensus.State, txn *types.Transaction) {
	txn.Signatures = nil
	for _, in := range txn.SiacoinInputs {
		txn.Signatures = append(txn.Signatures, types.TransactionSignature{ParentID: types.Hash256(in.ParentID), CoveredFields: types.CoveredFields{WholeTransaction: true}})
	}
	for _, in := range txn.SiafundInputs {
		txn.Signatures = append(txn.Signatures, types.TransactionSignature{ParentID: types.Hash256(in.ParentID), CoveredFields: types.CoveredFields{WholeTransaction: true}})
	}
	for i := range txn.Signatures {
		h := cs.WholeSigHash(*txn, txn.Signatures[i].ParentID, 0, 0, nil)
		sig := net.SK.SignHash(h)
		txn.Signatures[i].Signature = sig[:]
	}
}

// SignV2 signs every input of txn with the actor's key.
func (net *Net) SignV2(cs consensus.State, txn *types.V2Transaction) {
	h := cs.InputSigHash(*txn)
	sig := net.SK.SignHash(h)
	for i := range txn.SiacoinInputs {
		txn.SiacoinInputs[i].SatisfiedPolicy = types.SatisfiedPolicy{Policy: net.Policy, Signatures: []types.Signature{sig}}
	}
	for i := range txn.SiafundInputs {
		txn.SiafundInputs[i].SatisfiedPolicy = types.SatisfiedPolicy{Policy: net.Policy, Signatures: []types.Signature{sig}}
	}
}

// txBuilder accumulates the transactions of one block, consuming ledger elements so that no
// element is used twice.
type txBuilder struct {
	net   *Net
	cs    consensus.State // parent state
	rng   *vh.RNG
	coins []types.SiacoinElement
	funds []types.SiafundElement
	v1    []types.Transaction
	v2    []types.V2Transaction
	kinds []string
	led   *Ledger
}

func (tb *txBuilder) takeCoin() (types.SiacoinElement, bool) {
	if len(tb.coins) == 0 {
		return types.SiacoinElement{}, false
	}
	i := tb.rng.Intn(len(tb.coins))
	c := tb.coins[i]
	tb.coins = append(tb.coins[:i], tb.coins[i+1:]...)
	return c, true
}

func (tb *txBuilder) v1Allowed() bool {
	return tb.cs.Index.Height+1 < tb.net.N.HardforkV2.RequireHeight
}
func (tb *txBuilder) v2Allowed() bool {
	return tb.cs.Index.Height+1 >= tb.net.N.HardforkV2.AllowHeight
}

func (tb *txBuilder) add(kind string) bool {
	net, cs := tb.net, tb.cs
	fee := types.Siacoins(1).Div64(10)
	switch kind {
	case "v1pay":
		if !tb.v1Allowed() {
			return false
		}
		c, ok := tb.takeCoin()
		if !ok || c.SiacoinOutput.Value.Cmp(types.Siacoins(2)) < 0 {
			return false
		}
		half := c.SiacoinOutput.Value.Sub(fee).Div64(2)
		txn := types.Transaction{
			SiacoinInputs:  []types.SiacoinInput{{ParentID: c.ID, UnlockConditions: net.UC}},
			SiacoinOutputs: []types.SiacoinOutput{{Address: net.Addr, Value: half}, {Address: net.Addr2, Value: c.SiacoinOutput.Value.Sub(fee).Sub(half)}},
			MinerFees:      []types.Currency{fee},
		}
		net.SignV1(cs, &txn)
		tb.v1 = append(tb.v1, txn)
	case "v1eph":
		if !tb.v1Allowed() {
			return false
		}
		c, ok := tb.takeCoin()
		if !ok || c.SiacoinOutput.Value.Cmp(types.Siacoins(2)) < 0 {
			return false
		}
		parent := types.Transaction{
			SiacoinInputs:  []types.SiacoinInput{{ParentID: c.ID, UnlockConditions: net.UC}},
			SiacoinOutputs: []types.SiacoinOutput{{Address: net.Addr, Value: c.SiacoinOutput.Value.Sub(fee)}},
			MinerFees:      []types.Currency{fee},
		}
		net.SignV1(cs, &parent)
		child := types.Transaction{
			SiacoinInputs:  []types.SiacoinInput{{ParentID: parent.SiacoinOutputID(0), UnlockConditions: net.UC}},
			SiacoinOutputs: []types.SiacoinOutput{{Address: net.Addr, Value: c.SiacoinOutput.Value.Sub(fee).Sub(fee)}},
			MinerFees:      []types.Currency{fee},
		}
		net.SignV1(cs, &child)
		tb.v1 = append(tb.v1, parent, child)
	case "v2pay":
		if !tb.v2Allowed() {
			return false
		}
		c, ok := tb.takeCoin()
		if !ok || c.SiacoinOutput.Value.Cmp(types.Siacoins(2)) < 0 {
			return false
		}
		half := c.SiacoinOutput.Value.Sub(fee).Div64(2)
		txn := types.V2Transaction{
			SiacoinInputs:  []types.V2SiacoinInput{{Parent: c}},
			SiacoinOutputs: []types.SiacoinOutput{{Address: net.Addr, Value: half}, {Address: net.Addr2, Value: c.SiacoinOutput.Value.Sub(fee).Sub(half)}},
			MinerFee:       fee,
		}
		net.SignV2(cs, &txn)
		tb.v2 = append(tb.v2, txn)
	case "v2eph":
		if !tb.v2Allowed() {
			return false
		}
		c, ok := tb.takeCoin()
		if !ok || c.SiacoinOutput.Value.Cmp(types.Siacoins(2)) < 0 {
			return false
		}
		parent := types.V2Transaction{
			SiacoinInputs:  []types.V2SiacoinInput{{Parent: c}},
			SiacoinOutputs: []types.SiacoinOutput{{Address: net.Addr, Value: c.SiacoinOutput.Value.Sub(fee)}},
			MinerFee:       fee,
		}
		net.SignV2(cs, &parent)
		child := types.V2Transaction{
			SiacoinInputs:  []types.V2SiacoinInput{{Parent: parent.EphemeralSiacoinOutput(0)}},
			SiacoinOutputs: []types.SiacoinOutput{{Address: net.Addr, Value: c.SiacoinOutput.Value.Sub(fee).Sub(fee)}},
			MinerFee:       fee,
		}
		net.SignV2(cs, &child)
		tb.v2 = append(tb.v2, parent, child)
	case "v1sf":
		if !tb.v1Allowed() || len(tb.funds) == 0 {
			return false
		}
		f := tb.funds[0]
		tb.funds = tb.funds[1:]
		keep := f.SiafundOutput.Value / 2
		txn := types.Transaction{
			SiafundInputs:  []types.SiafundInput{{ParentID: f.ID, UnlockConditions: net.UC, ClaimAddress: net.Addr}},
			SiafundOutputs: []types.SiafundOutput{{Address: net.Addr, Value: f.SiafundOutput.Value - keep}},
		}
		if keep > 0 {
			txn.SiafundOutputs = append(txn.SiafundOutputs, types.SiafundOutput{Address: net.Addr, Value: keep})
		}
		net.SignV1(cs, &txn)
		tb.v1 = append(tb.v1, txn)
	case "v2sf":
		if !tb.v2Allowed() || len(tb.funds) == 0 {
			return false
		}
		f := tb.funds[0]
		tb.funds = tb.funds[1:]
		keep := f.SiafundOutput.Value / 2
		txn := types.V2Transaction{
			SiafundInputs:  []types.V2SiafundInput{{Parent: f, ClaimAddress: net.Addr}},
			SiafundOutputs: []types.SiafundOutput{{Address: net.Addr, Value: f.SiafundOutput.Value - keep}},
		}
		if keep > 0 {
			txn.SiafundOutputs = append(txn.SiafundOutputs, types.SiafundOutput{Address: net.Addr, Value: keep})
		}
		net.SignV2(cs, &txn)
		tb.v2 = append(tb.v2, txn)
	default:
		if f, ok := extraKinds[kind]; ok {
			if !f(tb) {
				return false
			}
		} else {
			panic("unknown tx kind " + kind)
		}
	}
	tb.kinds = append(tb.kinds, kind)
	return true
}

// extraKinds lets other files (contracts) extend the menu.
var extraKinds = map[string]func(*txBuilder) bool{}

// BasicKinds is the menu every chain check can draw from.
var BasicKinds = []string{"v1pay", "v1eph", "v2pay", "v2eph", "v1sf", "v2sf"}

// assemble builds and "mines" a block on the parent state.
func (net *Net) assemble(cs consensus.State, ts time.Time, miner types.Address, v1 []types.Transaction, v2 []types.V2Transaction, salt uint64) types.Block {
	b := types.Block{
		ParentID:     cs.Index.ID,
		Timestamp:    ts,
		MinerPayouts: []types.SiacoinOutput{{Address: miner, Value: cs.BlockReward()}},
		Transactions: v1,
	}
	for _, txn := range v1 {
		b.MinerPayouts[0].Value = b.MinerPayouts[0].Value.Add(txn.TotalFees())
	}
	childHeight := cs.Index.Height + 1
	if childHeight >= cs.Network.HardforkV2.AllowHeight {
		var arb [12]byte
		for i := 0; i < 8; i++ {
			arb[i] = byte(salt >> (8 * i))
		}
		b.V2 = &types.V2BlockData{Height: childHeight, Transactions: append([]types.V2Transaction{{ArbitraryData: arb[:]}}, v2...)}
		for _, txn := range v2 {
			b.MinerPayouts[0].Value = b.MinerPayouts[0].Value.Add(txn.MinerFee)
		}
		b.V2.Commitment = cs.Commitment(miner, b.Transactions, b.V2Transactions())
	}
	FindNonce(cs, &b)
	return b
}

// FindNonce searches a nonce meeting the PoW target of cs.
func FindNonce(cs consensus.State, b *types.Block) {
	factor := cs.NonceFactor()
	b.Nonce = 0
	for b.ID().CmpWork(cs.PoWTarget()) < 0 {
		b.Nonce += factor
	}
}

// Mine creates a fully valid child of parent carrying (as many as possible of) spec.Kinds.
// parent's ancestry must be fully valid.
func (t *Tree) Mine(rng *vh.RNG, parent int, spec Spec) int {
	if !t.AllValid(parent) {
		return t.MineEmpty(rng, parent, spec.Dt)
	}
	tw := t.Twin(parent)
	cs := tw.CM.TipState()
	led := LedgerOf(tw)
	tb := &txBuilder{net: t.Net, cs: cs, rng: rng, coins: t.Net.spendable(led, cs.Index.Height+1), funds: t.Net.siafunds(led)}
	tb.led = led
	for _, k := range spec.Kinds {
		tb.add(k)
	}
	miner := spec.Miner
	if miner == (types.Address{}) {
		miner = t.Net.Addr
	}
	dt := spec.Dt
	if dt < 1 {
		dt = 1
	}
	blk := t.Net.assemble(cs, t.Blocks[parent].Block.Timestamp.Add(time.Duration(dt)*time.Second), miner, tb.v1, tb.v2, rng.U64())
	id := t.add(parent, blk, "", tb.kinds)
	if b := t.Blocks[id]; !b.HdrOk || !b.BodyOk {
		err := tw.CM.AddBlocks([]types.Block{blk})
		panic(fmt.Sprintf("generator bug: mined block with kinds %v on parent %d is not valid: %v", tb.kinds, parent, err))
	}
	return id
}

// MineEmpty creates a header-valid empty child of any header-valid parent (also of a block
// whose body is invalid; such a child can never be applied).
func (t *Tree) MineEmpty(rng *vh.RNG, parent int, dt int) int {
	p := t.Blocks[parent]
	if !p.HdrOk && parent != 0 {
		panic("MineEmpty on a parent without state")
	}
	if dt < 1 {
		dt = 1
	}
	blk := t.Net.assemble(p.State, p.Block.Timestamp.Add(time.Duration(dt)*time.Second), t.Net.Addr, nil, nil, rng.U64())
	return t.add(parent, blk, "", nil)
}

// AllKinds is the full transaction menu (basic kinds plus whatever other files registered).
func AllKinds() []string {
	out := append([]string(nil), BasicKinds...)
	var extra []string
	for k := range extraKinds {
		extra = append(extra, k)
	}
	sort.Strings(extra)
	return append(out, extra...)
}
