package chainx

// File-contract transaction kinds (registered in extraKinds): every element-changing v1 and v2
// contract operation the store has a code path for.
//
//	v1fc        form one v1 contract (Filesize 0, so a storage proof needs no data)
//	v1fc3       form three v1 contracts in one transaction (same WindowEnd)
//	v1rev       revise a v1 contract, window unchanged
//	v1revw      revise a v1 contract and move its WindowEnd (and possibly WindowStart)
//	v1proof     storage proof for a v1 contract whose window is open
//	v1fcrev     form and revise in the same block (the diff folds the revision into the creation)
//	v1fcproof   form and prove in the same block (created and resolved: never stored)
//	v1revproof  revise (window unchanged) and prove the same contract in one block
//	v1revwproof revise with a window change and prove the same contract in one block
//	v2fc, v2rev, v2renew, v2proof, v2expire   the v2 life cycle
//
// v1 expiry needs no transaction: the window just passes.  WindowEnd values are drawn from a
// coarse grid so that several contracts share one expiration list.

import (
	"sort"

	"go.sia.tech/core/types"
)

// ContractKinds is the contract part of the menu.
var ContractKinds = []string{"v1fc", "v1fc3", "v1rev", "v1revw", "v1proof", "v1fcrev", "v1fcproof",
	"v2fc", "v2rev", "v2renew", "v2proof", "v2expire"}

// RiskyKinds are valid by consensus but drive the store outside what its diffs can express
// (see C02); they are only generated when asked for explicitly.
var RiskyKinds = []string{"v1revproof", "v1revwproof", "v1fcreq"}

var riskyKinds = map[string]func(*txBuilder) bool{}

// EnableRiskyKinds adds RiskyKinds to the menu of this process (they are never part of AllKinds
// unless this was called).
func EnableRiskyKinds() {
	for k, f := range riskyKinds {
		extraKinds[k] = f
	}
}

// per-builder bookkeeping (the txBuilder type belongs to forge.go): contracts already touched in
// the block under construction
var (
	usedOwner *txBuilder
	usedFC    map[types.FileContractID]bool
)

func usedIn(tb *txBuilder) map[types.FileContractID]bool {
	if usedOwner != tb {
		usedOwner, usedFC = tb, map[types.FileContractID]bool{}
	}
	return usedFC
}

// v2 storage proofs are over one 64-byte leaf
var v2Leaf = func() (l [64]byte) {
	for i := range l {
		l[i] = byte(i*7 + 1)
	}
	return
}()

const gridStep = 3

// nextGrid returns the smallest multiple of gridStep strictly greater than h.
func nextGrid(h uint64) uint64 { return (h/gridStep + 1) * gridStep }

// signV1 signs siacoin/siafund inputs and contract revisions (whole transaction).
func (net *Net) signV1All(tb *txBuilder, txn *types.Transaction) {
	txn.Signatures = nil
	add := func(id types.Hash256) {
		txn.Signatures = append(txn.Signatures, types.TransactionSignature{ParentID: id, CoveredFields: types.CoveredFields{WholeTransaction: true}})
	}
	for _, in := range txn.SiacoinInputs {
		add(types.Hash256(in.ParentID))
	}
	for _, in := range txn.SiafundInputs {
		add(types.Hash256(in.ParentID))
	}
	for _, r := range txn.FileContractRevisions {
		add(types.Hash256(r.ParentID))
	}
	for i := range txn.Signatures {
		h := tb.cs.WholeSigHash(*txn, txn.Signatures[i].ParentID, 0, 0, nil)
		sig := net.SK.SignHash(h)
		txn.Signatures[i].Signature = sig[:]
	}
}

var v1Payout = types.Siacoins(1) // tax is exactly 0.039 SC (a multiple of the siafund count)

func (tb *txBuilder) newV1Contract(ws, we uint64) types.FileContract {
	var root types.Hash256
	tb.rng.Bytes(root[:])
	valid := v1Payout.Sub(tb.cs.FileContractTax(types.FileContract{Payout: v1Payout}))
	return types.FileContract{
		Filesize: 0, FileMerkleRoot: root, WindowStart: ws, WindowEnd: we, Payout: v1Payout,
		ValidProofOutputs:  []types.SiacoinOutput{{Address: tb.net.Addr, Value: valid}},
		MissedProofOutputs: []types.SiacoinOutput{{Address: tb.net.Addr2, Value: valid}},
		UnlockHash:         tb.net.UC.UnlockHash(),
	}
}

// windowFor draws a proof window for a contract formed in the block at height h.
func (tb *txBuilder) windowFor(h uint64, startNow bool) (ws, we uint64) {
	ws = h + uint64(tb.rng.Intn(4))
	if startNow {
		ws = h
	}
	we = nextGrid(ws)
	if tb.rng.Chance(1, 4) {
		we += gridStep
	}
	return
}

// formV1 builds a formation transaction with n contracts sharing one window.
func (tb *txBuilder) formV1(n int, startNow bool) (types.Transaction, bool) {
	fee := types.Siacoins(1).Div64(10)
	c, ok := tb.takeCoin()
	cost := v1Payout.Mul64(uint64(n)).Add(fee)
	if !ok || c.SiacoinOutput.Value.Cmp(cost.Add(types.Siacoins(1))) < 0 {
		return types.Transaction{}, false
	}
	h := tb.cs.Index.Height + 1
	ws, we := tb.windowFor(h, startNow)
	txn := types.Transaction{
		SiacoinInputs:  []types.SiacoinInput{{ParentID: c.ID, UnlockConditions: tb.net.UC}},
		SiacoinOutputs: []types.SiacoinOutput{{Address: tb.net.Addr, Value: c.SiacoinOutput.Value.Sub(cost)}},
		MinerFees:      []types.Currency{fee},
	}
	for i := 0; i < n; i++ {
		txn.FileContracts = append(txn.FileContracts, tb.newV1Contract(ws, we))
	}
	tb.net.signV1All(tb, &txn)
	return txn, true
}

// v1Candidates lists the ledger's unresolved v1 contracts satisfying keep, in a deterministic order.
func (tb *txBuilder) v1Candidates(keep func(types.FileContractElement) bool) []types.FileContractElement {
	used := usedIn(tb)
	var out []types.FileContractElement
	for id, e := range tb.led.FC {
		if !used[id] && e.FileContract.UnlockHash == tb.net.UC.UnlockHash() && keep(e) {
			out = append(out, e.Copy())
		}
	}
	sort.Slice(out, func(i, j int) bool { return out[i].StateElement.LeafIndex < out[j].StateElement.LeafIndex })
	return out
}

func (tb *txBuilder) reviseV1(id types.FileContractID, fc types.FileContract, moveWindow bool) types.Transaction {
	h := tb.cs.Index.Height + 1
	rev := fc
	rev.RevisionNumber = fc.RevisionNumber + 1 + uint64(tb.rng.Intn(3))
	rev.ValidProofOutputs = append([]types.SiacoinOutput(nil), fc.ValidProofOutputs...)
	rev.MissedProofOutputs = append([]types.SiacoinOutput(nil), fc.MissedProofOutputs...)
	if moveWindow {
		// a different WindowEnd on the grid (earlier or later), keeping WindowStart < WindowEnd and
		// WindowStart >= h
		var cands []uint64
		for _, we := range []uint64{fc.WindowEnd - gridStep, fc.WindowEnd + gridStep, fc.WindowEnd + 2*gridStep, fc.WindowEnd + 1} {
			if we > h && we != fc.WindowEnd && we < fc.WindowEnd+3*gridStep {
				cands = append(cands, we)
			}
		}
		rev.WindowEnd = cands[tb.rng.Intn(len(cands))]
		if rev.WindowStart >= rev.WindowEnd || tb.rng.Chance(1, 3) {
			rev.WindowStart = h + uint64(tb.rng.Intn(int(rev.WindowEnd-h)))
		}
	}
	txn := types.Transaction{FileContractRevisions: []types.FileContractRevision{{ParentID: id, UnlockConditions: tb.net.UC, FileContract: rev}}}
	tb.net.signV1All(tb, &txn)
	return txn
}

func (tb *txBuilder) newV2Contract(h uint64) types.V2FileContract {
	ph := h + 1 + uint64(tb.rng.Intn(3))
	fc := types.V2FileContract{
		Capacity: 64, Filesize: 64, FileMerkleRoot: tb.cs.StorageProofLeafHash(v2Leaf[:]),
		ProofHeight: ph, ExpirationHeight: ph + 1 + uint64(tb.rng.Intn(3)),
		RenterOutput:    types.SiacoinOutput{Address: tb.net.Addr, Value: types.Siacoins(1)},
		HostOutput:      types.SiacoinOutput{Address: tb.net.Addr2, Value: types.Siacoins(1)},
		MissedHostValue: types.Siacoins(1).Div64(2), TotalCollateral: types.ZeroCurrency,
		RenterPublicKey: tb.net.SK.PublicKey(), HostPublicKey: tb.net.SK2.PublicKey(),
	}
	tb.signV2Contract(&fc)
	return fc
}

func (tb *txBuilder) signV2Contract(fc *types.V2FileContract) {
	h := tb.cs.ContractSigHash(*fc)
	fc.RenterSignature = tb.net.SK.SignHash(h)
	fc.HostSignature = tb.net.SK2.SignHash(h)
}

func (tb *txBuilder) v2Cost(fc types.V2FileContract) types.Currency {
	return fc.RenterOutput.Value.Add(fc.HostOutput.Value).Add(tb.cs.V2FileContractTax(fc))
}

func (tb *txBuilder) v2Candidates(keep func(types.V2FileContractElement) bool) []types.V2FileContractElement {
	used := usedIn(tb)
	var out []types.V2FileContractElement
	for id, e := range tb.led.V2FC {
		if !used[id] && e.V2FileContract.RenterPublicKey == tb.net.SK.PublicKey() && keep(e) {
			out = append(out, e.Copy())
		}
	}
	sort.Slice(out, func(i, j int) bool { return out[i].StateElement.LeafIndex < out[j].StateElement.LeafIndex })
	return out
}

func init() {
	fee := types.Siacoins(1).Div64(10)
	extraKinds["v1fc"] = func(tb *txBuilder) bool {
		if !tb.v1Allowed() {
			return false
		}
		txn, ok := tb.formV1(1, false)
		if ok {
			tb.v1 = append(tb.v1, txn)
		}
		return ok
	}
	extraKinds["v1fc3"] = func(tb *txBuilder) bool {
		if !tb.v1Allowed() {
			return false
		}
		txn, ok := tb.formV1(3, false)
		if ok {
			tb.v1 = append(tb.v1, txn)
		}
		return ok
	}
	revise := func(moveWindow bool) func(tb *txBuilder) bool {
		return func(tb *txBuilder) bool {
			if !tb.v1Allowed() {
				return false
			}
			h := tb.cs.Index.Height + 1
			cands := tb.v1Candidates(func(e types.FileContractElement) bool { return e.FileContract.WindowStart >= h })
			if len(cands) == 0 {
				return false
			}
			e := cands[tb.rng.Intn(len(cands))]
			usedIn(tb)[e.ID] = true
			tb.v1 = append(tb.v1, tb.reviseV1(e.ID, e.FileContract, moveWindow))
			return true
		}
	}
	extraKinds["v1rev"] = revise(false)
	extraKinds["v1revw"] = revise(true)
	extraKinds["v1proof"] = func(tb *txBuilder) bool {
		if !tb.v1Allowed() {
			return false
		}
		h := tb.cs.Index.Height + 1
		cands := tb.v1Candidates(func(e types.FileContractElement) bool {
			return e.FileContract.WindowStart <= h && e.FileContract.WindowEnd >= h
		})
		if len(cands) == 0 {
			return false
		}
		// one or two proofs in one transaction
		n := 1 + tb.rng.Intn(2)
		txn := types.Transaction{}
		for ; n > 0 && len(cands) > 0; n-- {
			i := tb.rng.Intn(len(cands))
			e := cands[i]
			cands = append(cands[:i], cands[i+1:]...)
			usedIn(tb)[e.ID] = true
			txn.StorageProofs = append(txn.StorageProofs, types.StorageProof{ParentID: e.ID})
		}
		tb.v1 = append(tb.v1, txn)
		return true
	}
	extraKinds["v1fcrev"] = func(tb *txBuilder) bool {
		if !tb.v1Allowed() {
			return false
		}
		txn, ok := tb.formV1(1, false)
		if !ok {
			return false
		}
		id := txn.FileContractID(0)
		usedIn(tb)[id] = true
		tb.v1 = append(tb.v1, txn, tb.reviseV1(id, txn.FileContracts[0], tb.rng.Bool()))
		return true
	}
	extraKinds["v1fcproof"] = func(tb *txBuilder) bool {
		if !tb.v1Allowed() {
			return false
		}
		txn, ok := tb.formV1(1, true)
		if !ok {
			return false
		}
		id := txn.FileContractID(0)
		usedIn(tb)[id] = true
		tb.v1 = append(tb.v1, txn, types.Transaction{StorageProofs: []types.StorageProof{{ParentID: id}}})
		return true
	}
	revProof := func(moveWindow bool) func(tb *txBuilder) bool {
		return func(tb *txBuilder) bool {
			if !tb.v1Allowed() {
				return false
			}
			h := tb.cs.Index.Height + 1
			// the window opens exactly in this block: the last moment for a revision, the first for a proof
			cands := tb.v1Candidates(func(e types.FileContractElement) bool { return e.FileContract.WindowStart == h })
			if len(cands) == 0 {
				return false
			}
			e := cands[tb.rng.Intn(len(cands))]
			usedIn(tb)[e.ID] = true
			tb.v1 = append(tb.v1, tb.reviseV1(e.ID, e.FileContract, moveWindow), types.Transaction{StorageProofs: []types.StorageProof{{ParentID: e.ID}}})
			return true
		}
	}
	riskyKinds["v1revproof"] = revProof(false)
	riskyKinds["v1revwproof"] = revProof(true)

	extraKinds["v2fc"] = func(tb *txBuilder) bool {
		if !tb.v2Allowed() {
			return false
		}
		fc := tb.newV2Contract(tb.cs.Index.Height + 1)
		cost := tb.v2Cost(fc).Add(fee)
		c, ok := tb.takeCoin()
		if !ok || c.SiacoinOutput.Value.Cmp(cost.Add(types.Siacoins(1))) < 0 {
			return false
		}
		txn := types.V2Transaction{
			SiacoinInputs:  []types.V2SiacoinInput{{Parent: c}},
			SiacoinOutputs: []types.SiacoinOutput{{Address: tb.net.Addr, Value: c.SiacoinOutput.Value.Sub(cost)}},
			FileContracts:  []types.V2FileContract{fc},
			MinerFee:       fee,
		}
		tb.net.SignV2(tb.cs, &txn)
		tb.v2 = append(tb.v2, txn)
		return true
	}
	extraKinds["v2rev"] = func(tb *txBuilder) bool {
		if !tb.v2Allowed() {
			return false
		}
		h := tb.cs.Index.Height + 1
		cands := tb.v2Candidates(func(e types.V2FileContractElement) bool { return e.V2FileContract.ProofHeight >= h })
		if len(cands) == 0 {
			return false
		}
		e := cands[tb.rng.Intn(len(cands))]
		usedIn(tb)[e.ID] = true
		rev := e.V2FileContract
		rev.RevisionNumber += 1 + uint64(tb.rng.Intn(3))
		if tb.rng.Bool() {
			rev.ProofHeight += uint64(tb.rng.Intn(2))
			rev.ExpirationHeight = rev.ProofHeight + 1 + uint64(tb.rng.Intn(3))
		}
		tb.signV2Contract(&rev)
		txn := types.V2Transaction{FileContractRevisions: []types.V2FileContractRevision{{Parent: e, Revision: rev}}}
		tb.v2 = append(tb.v2, txn)
		return true
	}
	extraKinds["v2renew"] = func(tb *txBuilder) bool {
		if !tb.v2Allowed() {
			return false
		}
		cands := tb.v2Candidates(func(e types.V2FileContractElement) bool { return true })
		if len(cands) == 0 {
			return false
		}
		nfc := tb.newV2Contract(tb.cs.Index.Height + 1)
		nfc.RenterSignature, nfc.HostSignature = types.Signature{}, types.Signature{}
		tb.signV2Contract(&nfc)
		cost := tb.v2Cost(nfc).Add(fee)
		c, ok := tb.takeCoin()
		if !ok || c.SiacoinOutput.Value.Cmp(cost.Add(types.Siacoins(1))) < 0 {
			return false
		}
		e := cands[tb.rng.Intn(len(cands))]
		usedIn(tb)[e.ID] = true
		ren := &types.V2FileContractRenewal{
			FinalRenterOutput: e.V2FileContract.RenterOutput,
			FinalHostOutput:   e.V2FileContract.HostOutput,
			NewContract:       nfc,
		}
		rh := tb.cs.RenewalSigHash(*ren)
		ren.RenterSignature = tb.net.SK.SignHash(rh)
		ren.HostSignature = tb.net.SK2.SignHash(rh)
		txn := types.V2Transaction{
			SiacoinInputs:           []types.V2SiacoinInput{{Parent: c}},
			SiacoinOutputs:          []types.SiacoinOutput{{Address: tb.net.Addr, Value: c.SiacoinOutput.Value.Sub(cost)}},
			FileContractResolutions: []types.V2FileContractResolution{{Parent: e, Resolution: ren}},
			MinerFee:                fee,
		}
		tb.net.SignV2(tb.cs, &txn)
		tb.v2 = append(tb.v2, txn)
		return true
	}
	extraKinds["v2proof"] = func(tb *txBuilder) bool {
		if !tb.v2Allowed() {
			return false
		}
		cands := tb.v2Candidates(func(e types.V2FileContractElement) bool { return e.V2FileContract.ProofHeight <= tb.cs.Index.Height })
		if len(cands) == 0 {
			return false
		}
		e := cands[tb.rng.Intn(len(cands))]
		// the chain index element of the block at the proof height
		var cie types.ChainIndexElement
		found := false
		for _, x := range tb.led.CIE {
			if x.ChainIndex.Height == e.V2FileContract.ProofHeight {
				cie, found = x.Copy(), true
			}
		}
		if !found {
			return false
		}
		usedIn(tb)[e.ID] = true
		txn := types.V2Transaction{FileContractResolutions: []types.V2FileContractResolution{{Parent: e,
			Resolution: &types.V2StorageProof{ProofIndex: cie, Leaf: v2Leaf}}}}
		tb.v2 = append(tb.v2, txn)
		return true
	}
	extraKinds["v2expire"] = func(tb *txBuilder) bool {
		if !tb.v2Allowed() {
			return false
		}
		h := tb.cs.Index.Height + 1
		cands := tb.v2Candidates(func(e types.V2FileContractElement) bool { return h > e.V2FileContract.ExpirationHeight })
		if len(cands) == 0 {
			return false
		}
		e := cands[tb.rng.Intn(len(cands))]
		usedIn(tb)[e.ID] = true
		txn := types.V2Transaction{FileContractResolutions: []types.V2FileContractResolution{{Parent: e, Resolution: &types.V2FileContractExpiration{}}}}
		tb.v2 = append(tb.v2, txn)
		return true
	}
}

func init() {
	// a contract whose window ends exactly at the v2 require height (regression input of the
	// SupplementTipBlock guard); risky: before the fix no block at the require height is valid
	riskyKinds["v1fcreq"] = func(tb *txBuilder) bool {
		if !tb.v1Allowed() {
			return false
		}
		h := tb.cs.Index.Height + 1
		req := tb.net.N.HardforkV2.RequireHeight
		if req <= h+1 {
			return false
		}
		fee := types.Siacoins(1).Div64(10)
		c, ok := tb.takeCoin()
		cost := v1Payout.Add(fee)
		if !ok || c.SiacoinOutput.Value.Cmp(cost.Add(types.Siacoins(1))) < 0 {
			return false
		}
		txn := types.Transaction{
			SiacoinInputs:  []types.SiacoinInput{{ParentID: c.ID, UnlockConditions: tb.net.UC}},
			SiacoinOutputs: []types.SiacoinOutput{{Address: tb.net.Addr, Value: c.SiacoinOutput.Value.Sub(cost)}},
			MinerFees:      []types.Currency{fee},
			FileContracts:  []types.FileContract{tb.newV1Contract(req-1, req)},
		}
		tb.net.signV1All(tb, &txn)
		tb.v1 = append(tb.v1, txn)
		return true
	}
}

// storeKinds are ordinary, always valid kinds that only the store checks (C02/C03) draw from; they
// are kept out of AllKinds so that the menus (and random streams) of the other checks do not change.
var storeKinds = map[string]func(*txBuilder) bool{}

// StoreKinds lists them.
var StoreKinds = []string{"v1fcfar", "v1revdown"}

// EnableStoreKinds adds StoreKinds to the menu of this process.
func EnableStoreKinds() {
	for k, f := range storeKinds {
		extraKinds[k] = f
	}
}

func init() {
	// two contracts whose window ends two or three grid steps out: room for a revision that pulls
	// the window in
	storeKinds["v1fcfar"] = func(tb *txBuilder) bool {
		if !tb.v1Allowed() {
			return false
		}
		fee := types.Siacoins(1).Div64(10)
		c, ok := tb.takeCoin()
		cost := v1Payout.Mul64(2).Add(fee)
		if !ok || c.SiacoinOutput.Value.Cmp(cost.Add(types.Siacoins(1))) < 0 {
			return false
		}
		h := tb.cs.Index.Height + 1
		ws := h + 1 + uint64(tb.rng.Intn(2))
		we := nextGrid(ws) + gridStep*uint64(1+tb.rng.Intn(2))
		txn := types.Transaction{
			SiacoinInputs:  []types.SiacoinInput{{ParentID: c.ID, UnlockConditions: tb.net.UC}},
			SiacoinOutputs: []types.SiacoinOutput{{Address: tb.net.Addr, Value: c.SiacoinOutput.Value.Sub(cost)}},
			MinerFees:      []types.Currency{fee},
			FileContracts:  []types.FileContract{tb.newV1Contract(ws, we), tb.newV1Contract(ws, we)},
		}
		tb.net.signV1All(tb, &txn)
		tb.v1 = append(tb.v1, txn)
		return true
	}
	// a revision that pulls WindowEnd in (to an earlier grid value, or right behind the window start)
	storeKinds["v1revdown"] = func(tb *txBuilder) bool {
		if !tb.v1Allowed() {
			return false
		}
		h := tb.cs.Index.Height + 1
		cands := tb.v1Candidates(func(e types.FileContractElement) bool {
			return e.FileContract.WindowStart >= h && e.FileContract.WindowEnd > h+1 && e.FileContract.WindowEnd > e.FileContract.WindowStart+1
		})
		if len(cands) == 0 {
			return false
		}
		e := cands[tb.rng.Intn(len(cands))]
		fc := e.FileContract
		rev := fc
		rev.RevisionNumber = fc.RevisionNumber + 1
		rev.ValidProofOutputs = append([]types.SiacoinOutput(nil), fc.ValidProofOutputs...)
		rev.MissedProofOutputs = append([]types.SiacoinOutput(nil), fc.MissedProofOutputs...)
		// new end: an earlier grid value if one fits above the window start, else one less
		we := fc.WindowEnd - 1
		if g := fc.WindowEnd - gridStep; fc.WindowEnd > gridStep && g > fc.WindowStart && g > h && tb.rng.Bool() {
			we = g
		}
		if we <= rev.WindowStart || we <= h {
			return false
		}
		rev.WindowEnd = we
		usedIn(tb)[e.ID] = true
		txn := types.Transaction{FileContractRevisions: []types.FileContractRevision{{ParentID: e.ID, UnlockConditions: tb.net.UC, FileContract: rev}}}
		tb.net.signV1All(tb, &txn)
		tb.v1 = append(tb.v1, txn)
		return true
	}
}
