// Package c01: the best chain is always fully valid, heaviest-known, and never loses work.
//
// Fork trees of real blocks (with single-field corruptions) are submitted to a real
// chain.Manager in generated orders and batchings.  After every AddBlocks the error kind, tip,
// notification count and the whole best-chain index are compared with the Lean model of the
// manager (T); an implementation-side oracle re-derives validity from independent linear twins (O).
package c01

import (
	"bytes"
	"errors"
	"fmt"
	"math/big"
	"strings"

	"go.sia.tech/core/consensus"
	"go.sia.tech/core/types"
	"go.sia.tech/coreutils/chain"
	"verifharness/c02"
	"verifharness/chainx"
	"verifharness/vh"
)

func init() { vh.Register("C01", Run) }

// ErrKind maps an AddBlocks error to the model's enum.
func ErrKind(err error) string {
	switch {
	case err == nil:
		return "ok"
	case errors.Is(err, chain.ErrFutureBlock):
		return "future"
	case strings.Contains(err.Error(), "failed to revert failed reorg"):
		return "rollback-failed"
	case strings.Contains(err.Error(), "reorg failed"):
		return "reorg-failed"
	case strings.Contains(err.Error(), "missing parent state"), strings.Contains(err.Error(), "missing parent for block"):
		return "missing-parent"
	case strings.Contains(err.Error(), "is invalid"):
		return "invalid-header"
	case strings.Contains(err.Error(), "expected same number"):
		return "len-mismatch"
	case strings.Contains(err.Error(), "only v2 blocks"):
		return "not-v2"
	}
	return "err:" + err.Error()
}

// Observe renders the manager's tip, notification count and best-chain index.
func Observe(t *chainx.Tree, nd *chainx.Node, res string) string {
	tip := nd.CM.Tip()
	var sb strings.Builder
	tid, ok := t.Lookup(tip.ID)
	if !ok {
		tid = -1
	}
	fmt.Fprintf(&sb, "%s tip %d n %d best", res, tid, len(nd.Reorgs))
	for h := int64(tip.Height); h >= 0; h-- {
		ci, ok := nd.CM.BestIndex(uint64(h))
		id, ok2 := t.Lookup(ci.ID)
		if !ok || !ok2 {
			id = -1
		}
		fmt.Fprintf(&sb, " %d", id)
	}
	return sb.String()
}

func encState(nd *chainx.Node) []byte {
	var buf bytes.Buffer
	e := types.NewEncoder(&buf)
	nd.CM.TipState().EncodeTo(e)
	e.Flush()
	return buf.Bytes()
}

// encStateNoAcc encodes the tip state without the element accumulator (whose leaf order is what
// C02's known expiration-order finding perturbs).
func encStateNoAcc(nd *chainx.Node) []byte {
	var buf bytes.Buffer
	e := types.NewEncoder(&buf)
	cs := nd.CM.TipState()
	n := cs.Elements.NumLeaves
	cs.Elements = consensus.ElementAccumulator{NumLeaves: n}
	cs.EncodeTo(e)
	e.Flush()
	return buf.Bytes()
}

// hdrFields renders the fields of a state that ApplyHeader determines (what a stored state must
// agree on whether or not the block was ever applied).
func hdrFields(cs consensus.State) string {
	return fmt.Sprintf("%v|%v|%v|%v|%v|%v|%v|%v|%v", cs.Index, cs.PrevTimestamps, cs.Depth, cs.ChildTarget, cs.OakTime, cs.OakTarget, cs.TotalWork, cs.Difficulty, cs.OakWork)
}

func encFull(cs consensus.State, noAcc bool) []byte {
	var buf bytes.Buffer
	e := types.NewEncoder(&buf)
	if noAcc {
		cs.Elements = consensus.ElementAccumulator{NumLeaves: cs.Elements.NumLeaves}
	}
	cs.EncodeTo(e)
	e.Flush()
	return buf.Bytes()
}

// AuditStoredStates: every state the manager stores for a submitted block agrees, in its
// header-level fields (index, timestamps, targets, works — what the reorg decision reads), with the
// reference computed on a node for which that block's parent was the tip; and the stored state of
// every block on the best chain is the complete post-block state of a linear replay.
func AuditStoredStates(c *vh.Case, t *chainx.Tree, nd *chainx.Node, tainted bool) {
	tip := nd.CM.Tip()
	for _, b := range t.Blocks[1:] {
		if !b.HdrOk || b.Parent == chainx.OrphanParent {
			continue
		}
		st, ok := nd.CM.State(b.Block.ID())
		if !ok {
			continue
		}
		if got, want := hdrFields(st), hdrFields(b.State); got != want {
			c.Oracle("stored-state-differs-from-reference", "the state stored for block %d (height %d) has header-level fields %s, a node that had its parent as tip computes %s", b.ID, b.Height, got, want)
			return
		}
		if b.Height <= tip.Height && b.Full.Index.ID == b.Block.ID() {
			if ci, ok := nd.CM.BestIndex(b.Height); ok && ci.ID == b.Block.ID() {
				if !bytes.Equal(encFull(st, false), encFull(b.Full, false)) {
					cls := "stored-best-state-differs-from-linear-replay"
					if tainted && bytes.Equal(encFull(st, true), encFull(b.Full, true)) {
						cls = "exp-order-after-mid-list-revert"
					}
					c.Oracle(cls, "the state stored for best-chain block %d (height %d) is not the post-block state of a node that only saw that chain (stored leaves %d, linear %d)", b.ID, b.Height, st.Elements.NumLeaves, b.Full.Elements.NumLeaves)
					return
				}
			}
		}
	}
}

// FullOp asks the model which of the stored states are complete post-block states (Model/ChainF)
// and answers for the implementation: the stored state of a block is complete iff it has the
// element-accumulator size of the block's own linear replay (a header-level state carries the
// accumulator of an ancestor, which is strictly smaller: every block creates at least its miner
// payout).
func FullOp(t *chainx.Tree, nd *chainx.Node) (op, out string) {
	var ask, full strings.Builder
	ask.WriteString("full")
	full.WriteString("full")
	for _, b := range t.Blocks[1:] {
		if !b.HdrOk || b.Parent == chainx.OrphanParent {
			continue
		}
		st, ok := nd.CM.State(b.Block.ID())
		if !ok {
			continue
		}
		fmt.Fprintf(&ask, " %d", b.ID)
		if b.Full.Index.ID == b.Block.ID() && st.Elements.NumLeaves == b.Full.Elements.NumLeaves {
			fmt.Fprintf(&full, " %d", b.ID)
		}
	}
	return ask.String(), strings.TrimRight(full.String(), " ")
}

// ancSample: the blocks whose ancestor timestamp is asked after a submission of a long pre-Oak
// history: the last block of the batch, the tip, and the blocks of the batch at retarget heights.
func ancSample(t *chainx.Tree, nd *chainx.Node, batch []int) []int {
	seen := map[int]bool{}
	var out []int
	add := func(id int) {
		if id <= 0 || seen[id] {
			return
		}
		if _, ok := nd.CM.State(t.Blocks[id].Block.ID()); ok {
			seen[id] = true
			out = append(out, id)
		}
	}
	add(batch[len(batch)-1])
	if tid, ok := t.Lookup(nd.CM.Tip().ID); ok {
		add(tid)
	}
	for _, id := range batch {
		if h := t.Blocks[id].Height; (h+1)%500 == 0 || h%500 == 0 {
			add(id)
		}
	}
	return out
}

// AncOp asks the model which block's record DBStore.AncestorTimestamp(id) reads (Model/Ancestor)
// and answers for the implementation: the block of id's own ancestry whose timestamp the store
// returned (the ancestry's timestamps are strictly increasing, so the timestamp names the block).
func AncOp(t *chainx.Tree, nd *chainx.Node, id int) (op, out string) {
	op = fmt.Sprintf("anc 1000 %d", id)
	ts, ok := nd.Store.AncestorTimestamp(t.Blocks[id].Block.ID())
	if !ok {
		return op, "not-found"
	}
	for x := id; ; x = t.Blocks[x].Parent {
		if t.Blocks[x].Block.Timestamp.Equal(ts) {
			return op, fmt.Sprint(x)
		}
		if x == 0 {
			break
		}
	}
	return op, fmt.Sprintf("timestamp-of-no-ancestor:%d", ts.Unix())
}

// Submit calls AddBlocks, recovering a panic.
func Submit(nd *chainx.Node, blocks []types.Block) (res string) {
	defer func() {
		if r := recover(); r != nil {
			res = "panic"
		}
	}()
	if nd.Probe != nil {
		var err error
		nd.Probe.Writer("AddBlocks", func() { err = nd.CM.AddBlocks(blocks) })
		return ErrKind(err)
	}
	return ErrKind(nd.CM.AddBlocks(blocks))
}

// SubmitFF is Submit on a probed node whose store fails the first Flush the call reaches (when arm
// is set); flushFailed reports whether a flush did fail (the model's op is then addff, not add).
func SubmitFF(nd *chainx.Node, blocks []types.Block, arm bool) (res string, flushFailed bool) {
	arm = arm && nd.Probe != nil
	if arm {
		nd.Probe.FailNextFlush()
	}
	res = Submit(nd, blocks)
	if arm {
		flushFailed = nd.Probe.DisarmFlush()
	}
	return
}

// AuditProbe reports what the atomicity probe of a probed node saw (chainx.ProbeStore).
func AuditProbe(c *vh.Case, nd *chainx.Node) {
	if nd.Probe == nil {
		return
	}
	for _, f := range nd.Probe.Found() {
		c.Oracle("manager-readable-in-the-middle-of-a-change", "%s", f)
	}
}

func heavier(a, b *chainx.B) bool {
	if a.Work == nil || b.Work == nil || b.Diff == nil {
		// a block without a header-valid ancestry has no work: it can never be sufficiently heavier
		// (such a block on the best chain is reported by its own oracle)
		return false
	}
	// a.work > b.work + b.diff/5
	th := new(big.Int).Add(b.Work, new(big.Int).Div(b.Diff, big.NewInt(5)))
	return a.Work.Cmp(th) > 0
}

// Audit is the implementation-side oracle run after every submission.
func Audit(c *vh.Case, t *chainx.Tree, nd *chainx.Node, res string, before string, beforeState []byte, beforeTip int, beforeN int, tainted bool) {
	tip := nd.CM.Tip()
	tid, ok := t.Lookup(tip.ID)
	if !ok {
		c.Oracle("tip-unknown-block", "tip %v is not a block that was ever submitted", tip)
		return
	}
	// parent-linked, every block valid by the independent twin's verdict
	child := types.BlockID{}
	for h := int64(tip.Height); h >= 0; h-- {
		ci, ok := nd.CM.BestIndex(uint64(h))
		if !ok {
			c.Oracle("best-index-gap", "no best index at height %d below tip %d", h, tip.Height)
			return
		}
		id, known := t.Lookup(ci.ID)
		if !known {
			c.Oracle("best-unknown-block", "best index at height %d is not a submitted block", h)
			return
		}
		b := t.Blocks[id]
		if uint64(h) != b.Height {
			c.Oracle("best-height-mismatch", "block %d at best height %d has height %d", id, h, b.Height)
		}
		if id != 0 && (!b.HdrOk || !b.BodyOk || b.Future) {
			c.Oracle("invalid-block-on-best-chain", "block %d (corruption %q, hdrOk=%v bodyOk=%v future=%v) is on the best chain at height %d", id, b.Corrupt, b.HdrOk, b.BodyOk, b.Future, h)
		}
		if blk, ok := nd.CM.Block(ci.ID); ok {
			if child != (types.BlockID{}) && false {
				_ = blk
			}
		}
		if h < int64(tip.Height) {
			// the block above must point to this one
			up, _ := nd.CM.BestIndex(uint64(h + 1))
			if ub, ok := nd.CM.Block(up.ID); ok && ub.ParentID != ci.ID {
				c.Oracle("best-not-parent-linked", "block at height %d does not have the block at height %d as parent", h+1, h)
			}
		}
	}
	// nothing is indexed above the tip
	for h := tip.Height + 1; h <= tip.Height+4; h++ {
		if ci, ok := nd.CM.BestIndex(h); ok {
			c.Oracle("best-index-above-tip", "BestIndex(%d) returns %v although the tip is at height %d", h, ci, tip.Height)
		}
	}
	// tip moves only to a sufficiently heavier chain; work never decreases; notification iff moved
	if tid != beforeTip {
		if !heavier(t.Blocks[tid], t.Blocks[beforeTip]) {
			c.Oracle("tip-moved-without-sufficient-work", "tip moved from %d (work %v diff %v) to %d (work %v)", beforeTip, t.Blocks[beforeTip].Work, t.Blocks[beforeTip].Diff, tid, t.Blocks[tid].Work)
		}
		if len(nd.Reorgs) != beforeN+1 {
			c.Oracle("reorg-not-notified", "tip changed %d -> %d but %d notification(s) were delivered", beforeTip, tid, len(nd.Reorgs)-beforeN)
		} else if nd.Reorgs[len(nd.Reorgs)-1] != tip {
			c.Oracle("reorg-notified-wrong-tip", "notification carried %v, tip is %v", nd.Reorgs[len(nd.Reorgs)-1], tip)
		}
		if res != "ok" {
			c.Oracle("error-but-tip-moved", "AddBlocks returned %s but the tip moved %d -> %d", res, beforeTip, tid)
		}
		// the tip state equals a linear replay of exactly the best chain
		if t.AllValid(tid) {
			// the state of a node that only saw that chain: recorded when the block was mined
			// (B.Full), replayed otherwise
			var lin consensus.State
			if fb := t.Blocks[tid]; fb.Full.Index.ID == fb.Block.ID() {
				lin = fb.Full
			} else {
				lin = t.Twin(tid).CM.TipState()
			}
			if !bytes.Equal(encFull(lin, false), encState(nd)) {
				cls := "tip-state-differs-from-linear-replay"
				if tainted && bytes.Equal(encFull(lin, true), encStateNoAcc(nd)) {
					cls = "exp-order-after-mid-list-revert"
				}
				c.Oracle(cls, "TipState at %d differs from the state of a node that only saw that chain", tid)
			}
			// and its header-level fields agree with the reference computed without the store
			if got, want := hdrFields(nd.CM.TipState()), hdrFields(t.Blocks[tid].State); got != want {
				c.Oracle("tip-state-differs-from-reference", "TipState at %d has header-level fields %s, the reference is %s", tid, got, want)
			}
		}
	} else {
		if len(nd.Reorgs) != beforeN {
			c.Oracle("notified-without-tip-change", "%d notification(s) although the tip did not change", len(nd.Reorgs)-beforeN)
		}
		if !bytes.Equal(beforeState, encState(nd)) {
			c.Oracle("tip-state-changed-without-tip-change", "TipState changed while the tip stayed at %d", tid)
		}
	}
	auditFailed(c, t, nd, res, before)
}

// AuditAdopted: a batch that was accepted (nil error) and whose last block heads a fully valid
// chain sufficiently heavier than the tip the manager had must have become the tip — whether its
// blocks were new or already stored (e.g. offered again after an earlier attempt failed).
func AuditAdopted(c *vh.Case, t *chainx.Tree, nd *chainx.Node, res string, batch []int, beforeTip int) {
	if res != "ok" || len(batch) == 0 {
		return
	}
	last := batch[len(batch)-1]
	lb := t.Blocks[last]
	if lb.Parent == chainx.OrphanParent || lb.Work == nil || !t.AllValid(last) || lb.Future {
		return
	}
	// the batch must be one parent-linked run ending in last (then the loop's state is last's)
	for k := 1; k < len(batch); k++ {
		if t.Blocks[batch[k]].Parent != batch[k-1] {
			return
		}
	}
	if heavier(lb, t.Blocks[beforeTip]) {
		if tid, _ := t.Lookup(nd.CM.Tip().ID); tid != last {
			c.Oracle("valid-heavier-chain-not-adopted", "AddBlocks(%v) returned nil; block %d heads a fully valid chain (work %v) sufficiently heavier than the tip %d (work %v, difficulty %v), but the tip is %d", batch, last, lb.Work, beforeTip, t.Blocks[beforeTip].Work, t.Blocks[beforeTip].Diff, tid)
		}
	}
}

func auditFailed(c *vh.Case, t *chainx.Tree, nd *chainx.Node, res string, before string) {
	if res != "ok" {
		after := Observe(t, nd, "x")
		if strings.TrimPrefix(after, "x") != strings.TrimPrefix(before, strings.Fields(before)[0]) {
			c.Oracle("failed-submission-changed-chain", "AddBlocks returned %s; before: %s; after: %s", res, before, after)
		}
	}
}

func genCfg(r *vh.Run, rng *vh.RNG) chainx.GenCfg {
	return chainx.GenCfg{
		Main: 4 + rng.Intn(r.Pick(8, 14)), Forks: 1 + rng.Intn(3), MaxBranch: 3 + rng.Intn(r.Pick(6, 12)),
		Kinds: chainx.AllKinds(), TxPerBlk: 2, Corrupt: rng.Intn(4), Extend: 3, Directed: rng.Chance(2, 3),
	}
}

// LastPanic holds the message of the last recovered panic (diagnostics).
var LastPanic string

// SubmitV2 calls AddValidatedV2Blocks with the twins' full states (nStates of them).
func SubmitV2(t *chainx.Tree, nd *chainx.Node, batch []int, nStates int) (res string) {
	defer func() {
		if r := recover(); r != nil {
			LastPanic = fmt.Sprint(r)
			res = "panic"
		}
	}()
	var states []consensus.State
	for i := 0; i < nStates; i++ {
		if i < len(batch) {
			states = append(states, t.Blocks[batch[i]].Full)
		} else {
			states = append(states, t.Blocks[batch[len(batch)-1]].Full)
		}
	}
	if nd.Probe != nil {
		var err error
		nd.Probe.Writer("AddValidatedV2Blocks", func() { err = nd.CM.AddValidatedV2Blocks(t.Get(batch), states) })
		return ErrKind(err)
	}
	return ErrKind(nd.CM.AddValidatedV2Blocks(t.Get(batch), states))
}

// PreValidated reports whether batch is what an honest syncer hands to AddValidatedV2Blocks: a
// parent-linked run of fully valid v2 blocks.
func PreValidated(t *chainx.Tree, batch []int) bool {
	for k, id := range batch {
		b := t.Blocks[id]
		// the pre-validated path stores an empty supplement, which is the right supplement only for
		// v2-only blocks above the require height (what the syncer's instant sync hands over)
		if !t.AllValid(id) || !b.V2 || id == 0 || b.Height <= t.Net.N.HardforkV2.RequireHeight || len(b.Block.Transactions) > 0 {
			return false
		}
		if k > 0 && b.Parent != batch[k-1] {
			return false
		}
	}
	return len(batch) > 0
}

// RunTree submits one tree in one schedule and registers the case.
func RunTree(r *vh.Run, name string, t *chainx.Tree, sched [][]int) {
	RunTreeModes(r, name, t, sched, nil)
}

// onPath reports whether x is an ancestor of (or equal to) leaf.
func onPath(t *chainx.Tree, leaf, x int) bool {
	for y := leaf; y != 0 && y != chainx.OrphanParent; y = t.Blocks[y].Parent {
		if y == x {
			return true
		}
	}
	return x == 0
}

// RunTreeModes is RunTree with the entry point fixed per batch: modes[i] = "add" (AddBlocks),
// "addv2" (AddValidatedV2Blocks) or "" (the default rule).
func RunTreeModes(r *vh.Run, name string, t *chainx.Tree, sched [][]int, modes []string) {
	nd := t.Net.MustNode()
	if strings.HasSuffix(name, "/s0") || strings.Contains(name, "shorter-heavier") {
		// one schedule per tree runs with the atomicity probe on the manager's store
		nd = t.Net.NewProbedNode()
	}
	if strings.HasSuffix(name, "/s2") {
		// one schedule per tree runs with the store over CacheDB(MemDB): the manager must not be
		// able to tell (C17 is the backends' own property; here the chain on top of them)
		if nd2, err := t.Net.NewNode(chain.NewCacheDB(chain.NewMemDB())); err == nil {
			nd = nd2
		}
	}
	c := &vh.Case{Name: name, Model: "chain mgr"}
	for _, b := range t.Blocks[1:] {
		c.Op(b.DeclLine(), "ok")
	}
	reorgs, failed, errs, nearTies := 0, 0, 0, 0
	decls := c02.Declare(t, c02.NewIDs())
	tainted := false
	pruneAt, prunedNode := -1, false
	if strings.HasSuffix(name, "/s1") {
		pruneAt = len(sched) / 2
	}
	// on a probed node every third plain submission meets a store whose Flush fails once
	// (Model/ChainFF.lean, op addff); when the failure was consumed the same batch is offered again
	type item struct {
		batch  []int
		mode   string
		bi     int
		noFail bool
	}
	var queue []item
	for bi, batch := range sched {
		mode := ""
		if bi < len(modes) {
			mode = modes[bi]
		}
		queue = append(queue, item{batch, mode, bi, false})
	}
	for len(queue) > 0 {
		it := queue[0]
		queue = queue[1:]
		batch, bi, mode := it.batch, it.bi, it.mode
		if pruneAt >= 0 && bi == pruneAt && !it.noFail {
			// the application prunes in the middle of the history (model op `prune`): later forks
			// from below the pruned height must fail cleanly
			pruneAt = -1
			if h := nd.CM.Tip().Height; h >= 2 {
				func() {
					defer func() {
						if rec := recover(); rec != nil {
							c.Oracle("prune-panic", "PruneBlocks(%d) panicked: %v", h-1, rec)
						}
					}()
					nd.CM.PruneBlocks(h - 1)
				}()
				c.Op(fmt.Sprintf("prune %d", h-1), Observe(t, nd, "ok"))
				c.Tags = append(c.Tags, "pruned-in-the-middle")
				prunedNode = true
			}
		}
		before := Observe(t, nd, "x")
		beforeState := encState(nd)
		beforeTip, _ := t.Lookup(nd.CM.Tip().ID)
		beforeN := len(nd.Reorgs)
		var res string
		var sb strings.Builder
		// every third eligible batch goes through the pre-validated path, sometimes with a wrong
		// number of states
		flushFailed := false
		if mode == "addv2" || (mode == "" && PreValidated(t, batch) && (len(batch)+bi)%3 == 0) {
			nStates := len(batch)
			if (len(batch)+bi)%5 == 0 {
				nStates++
			}
			res = SubmitV2(t, nd, batch, nStates)
			fmt.Fprintf(&sb, "addv2 %d", nStates)
			c.Tags = append(c.Tags, "addv2")
		} else {
			res, flushFailed = SubmitFF(nd, t.Get(batch), !it.noFail && bi%3 == 1)
			if flushFailed {
				sb.WriteString("addff")
				c.Tags = append(c.Tags, "flush-failed:"+res)
				queue = append([]item{{batch, "add", bi, true}}, queue...)
			} else {
				sb.WriteString("add")
			}
		}
		for _, id := range batch {
			fmt.Fprintf(&sb, " %d", id)
		}
		c.Op(sb.String(), Observe(t, nd, res))
		if res == "panic" {
			c.Oracle("addblocks-panic", "AddBlocks/AddValidatedV2Blocks panicked on batch %v: %s", batch, LastPanic)
			break
		}
		if lb := t.Blocks[batch[len(batch)-1]]; lb.Work != nil && t.Blocks[beforeTip].Work != nil && t.AllValid(lb.ID) && lb.Work.Cmp(t.Blocks[beforeTip].Work) > 0 && !heavier(lb, t.Blocks[beforeTip]) {
			nearTies++
		}
		afterTip, _ := t.Lookup(nd.CM.Tip().ID)
		failedTarget := -1
		if res == "reorg-failed" || (flushFailed && res == "rollback-failed") {
			failedTarget = batch[len(batch)-1]
		}
		for _, x := range t.Reverted(beforeTip, afterTip, failedTarget) {
			if d := decls[x]; d != nil && d.Unstable && !tainted {
				tainted = true
				c.KnownFrom, c.KnownClass = len(c.Ops)-1, "exp-order-after-mid-list-revert"
			}
		}
		Audit(c, t, nd, res, before, beforeState, beforeTip, beforeN, tainted)
		AuditStoredStates(c, t, nd, tainted)
		AuditProbe(c, nd)
		if flushFailed && nd.CM.Tip() != t.Blocks[beforeTip].Index() {
			c.Oracle("failed-submission-changed-chain", "the store's Flush failed during AddBlocks(%v) (result %s) and the tip moved from %v to %v", batch, res, t.Blocks[beforeTip].Index(), nd.CM.Tip())
		}
		if mode != "addv2" && !flushFailed && !(prunedNode && res != "ok") && !(mode == "" && strings.HasPrefix(sb.String(), "addv2")) {
			AuditAdopted(c, t, nd, res, batch, beforeTip)
		}
		if len(t.Blocks) <= 300 {
			c.Op(FullOp(t, nd))
		} else if t.Net.N.HardforkOak.Height > 2000 {
			for _, id := range ancSample(t, nd, batch) {
				c.Op(AncOp(t, nd, id))
			}
		}
		if afterTip != beforeTip {
			// a reorg proper = the old tip is not an ancestor of the new one
			anc := false
			for x := afterTip; x != 0; x = t.Blocks[x].Parent {
				if x == beforeTip {
					anc = true
				}
			}
			if !anc && beforeTip != 0 {
				reorgs++
				if t.Blocks[afterTip].Height < t.Blocks[beforeTip].Height {
					c.Tags = append(c.Tags, "reorg-to-shorter-chain")
				}
			}
		}
		if res == "reorg-failed" {
			failed++
		}
		if res != "ok" {
			errs++
			c.Tags = append(c.Tags, "err:"+res)
		}
	}
	for _, b := range t.Blocks {
		if b.Corrupt != "" {
			c.Tags = append(c.Tags, "corrupt:"+b.Corrupt)
			if b.HdrOk && !b.BodyOk && !b.Future {
				if len(b.Block.Transactions) == 0 {
					c.Tags = append(c.Tags, "body-invalid:v2-only-block")
				} else if b.V2 {
					c.Tags = append(c.Tags, "body-invalid:v2-block-with-v1-txns")
				} else {
					c.Tags = append(c.Tags, "body-invalid:v1-block")
				}
			}
		}
	}
	if reorgs > 0 {
		c.Tags = append(c.Tags, "has-reorg")
	}
	if failed > 0 {
		c.Tags = append(c.Tags, "has-failed-reorg")
	}
	if nearTies > 0 {
		c.Tags = append(c.Tags, "has-near-tie-heavier-but-not-sufficient")
	}
	for _, d := range t.Disagreements {
		c.Oracle("manager-verdict-differs-from-consensus", "%s", d)
	}
	c.Tags = append(c.Tags, fmt.Sprintf("v2allow:%d", t.Net.N.HardforkV2.AllowHeight))
	if t.Net.Volatile {
		c.Tags = append(c.Tags, "volatile-difficulty")
	}
	c.Nontrivial = reorgs > 0 || errs > 0
	c.Info = map[string]any{"blocks": len(t.Blocks), "batches": len(sched), "reorgs": reorgs, "failed_reorgs": failed}
	r.Add(c)
}

// runLong: histories long enough for the pre-Oak retarget (every 500 blocks, reading the
// timestamp of an ancestor up to 1000 blocks back through the store's AncestorTimestamp) to decide
// the work of a fork: a main chain and a competing chain that leaves it at genesis or right after,
// each more than 500 blocks long, with different block times (so that their difficulties differ
// after the retarget), submitted in batches of a hundred in both orders.
func runLong(r *vh.Run, rng *vh.RNG) {
	type shape struct {
		name string
		oak  uint64
		deep bool
	}
	shapes := []shape{{"pre-oak-fork", 50000, false}, {"oak-at-500", 500, false}, {"pre-oak-fork", 50000, false}, {"deep-away-and-back", 50000, true}}
	for i := 0; i < r.Pick(4, 12); i++ {
		sh := shapes[i%len(shapes)]
		trng := rng.Fork()
		net := chainx.NewPreOakNetAt(trng, sh.oak)
		var t *chainx.Tree
		var sched [][]int
		func() {
			defer func() {
				if x := recover(); x != nil {
					gc := &vh.Case{Name: fmt.Sprintf("long%d/generator", i), Nontrivial: true}
					gc.Op("build-history", "panic")
					gc.Oracle("linear-node-panicked-while-building-history", "a node fed a linear chain of freshly mined blocks panicked or rejected a valid block: %v", x)
					r.Add(gc)
					t = nil
				}
			}()
			t = chainx.NewTree(net)
			batches := func(ids []int) {
				for k := 0; k < len(ids); k += 100 {
					sched = append(sched, ids[k:min(k+100, len(ids))])
				}
			}
			if sh.deep {
				// a chain past the retarget at height 1500 (ancestor 1000 blocks back, not genesis), a
				// longer fork that leaves it a few blocks below 1500 and wins, then the first chain
				// grows and wins back: blocks around 1500 are applied a second time from the store
				// (blocks faster than the 10 s interval: at 1500 the difficulty RISES from its floor, so
				// a wrong ancestor timestamp is not hidden by the clamp at difficulty 1)
				mainLeaf := chainx.LongBranch(trng, t, 0, 1502+trng.Intn(4), 8)
				mp := t.PathFromRoot(mainLeaf)
				at := mp[1493+trng.Intn(5)]
				forkLeaf := chainx.LongBranch(trng, t, at, int(t.Blocks[mainLeaf].Height-t.Blocks[at].Height)+2+trng.Intn(3), 7)
				backLeaf := chainx.LongBranch(trng, t, mainLeaf, int(t.Blocks[forkLeaf].Height-t.Blocks[mainLeaf].Height)+2+trng.Intn(3), 8)
				batches(mp)
				// the fork arrives in two parts: first up to the main chain's height (not yet
				// sufficiently heavier, so its blocks across the retarget at 1500 stay stored as side
				// blocks with the header-level states AddBlocks computed for them — through the
				// ancestor walk that joins the best chain above height 1000), then the rest
				fp := t.PathFromRoot(forkLeaf)
				// (PathFromRoot leaves out genesis: index k holds height k+1)
				batches(fp[t.Blocks[at].Height-1 : t.Blocks[mainLeaf].Height])
				batches(fp[t.Blocks[mainLeaf].Height:])
				bp := t.PathFromRoot(backLeaf)
				batches(bp[t.Blocks[mainLeaf].Height:])
				return
			}
			mainLeaf := chainx.LongBranch(trng, t, 0, 503+trng.Intn(12), 10)
			// forking at genesis, the ancestor walk from the fork's 499th block never meets the best
			// chain; one or two blocks later it meets it at its very end
			at := 0
			if i%2 == 1 && sh.oak != 500 {
				at = trng.Intn(3)
			}
			forkLeaf := chainx.LongBranch(trng, t, at, 503+trng.Intn(14)-at, 5+trng.Intn(4))
			order := [][2]int{{mainLeaf, forkLeaf}, {forkLeaf, mainLeaf}}[trng.Intn(2)]
			for _, leaf := range order {
				batches(t.PathFromRoot(leaf))
			}
		}()
		if t == nil {
			continue
		}
		RunTree(r, fmt.Sprintf("long%d/%s", i, sh.name), t, sched)
	}
}

func Run(r *vh.Run) {
	r.Rule = "a case = one fork tree of real blocks (random hardfork heights, 2-4 branches, transactions from the v1/v2 menu, 0-3 single-field corruptions with empty blocks mined on top of header-valid ones) submitted to a fresh real Manager in one generated schedule (batches, duplicates, orphans first, batches mixing branches); non-trivial = the schedule caused at least one reorg proper or one error; distinct = distinct (tree, schedule) as op lists"
	chainx.EnableStoreKinds() // contracts with far windows and revisions that pull the window in
	rng := vh.NewRNG(r.Seed)
	trees := r.Pick(40, 600)
	scheds := 3
	for i := 0; i < trees; i++ {
		trng := rng.Fork()
		net := chainx.RandomNet(trng)
		t, gerr := chainx.SafeGenTree(trng, net, genCfg(r, trng))
		if gerr != nil {
			gc := &vh.Case{Name: fmt.Sprintf("tree%d/generator", i), Nontrivial: true}
			gc.Op("build-history", "panic")
			gc.Oracle("linear-node-panicked-while-building-history", "a node fed a linear chain of freshly mined blocks panicked or rejected a valid block: %v", gerr)
			r.Add(gc)
			continue
		}
		for s := 0; s < scheds; s++ {
			RunTree(r, fmt.Sprintf("tree%d/s%d", i, s), t, t.Schedule(trng))
		}
		if sh := t.ShorterHeavierSchedule(trng); sh != nil {
			RunTree(r, fmt.Sprintf("tree%d/shorter-heavier", i), t, sh)
		}
		// a branch whose first blocks are relayed one by one (stored as side blocks with a
		// header-level state only) and which is then handed over whole and pre-validated, as
		// instant sync does, and wins
		nrel := 0
		leaves := t.Leaves()
		for _, a := range leaves {
			for _, b := range leaves {
				if nrel >= 2 || a == b || !t.AllValid(a) || !t.AllValid(b) || !heavier(t.Blocks[b], t.Blocks[a]) {
					continue
				}
				pb := t.PathFromRoot(b)
				k := 0
				for k < len(pb) && onPath(t, a, pb[k]) {
					k++
				}
				if br := pb[k:]; len(br) >= 2 && PreValidated(t, br) {
					sched := [][]int{t.PathFromRoot(a), br[:1+trng.Intn(len(br)-1)], br}
					RunTreeModes(r, fmt.Sprintf("tree%d/relayed-then-prevalidated%d", i, nrel), t, sched, []string{"add", "add", "addv2"})
					nrel++
				}
			}
		}
	}
	runLong(r, rng)
	r.Assume("consensus rules (ValidateOrphan/ValidateBlock/ApplyBlock) are parameters: block attributes come from core/consensus on an independent linear twin")
	r.Assume("time.Now() in the future-block test: generated timestamps are years away from the boundary")
}
