// Package vh holds the pieces every property harness shares: the PRNG all random
// choices derive from, the pipe to the Lean model driver, evidence and findings.
package vh

// RNG is splitmix64; every random choice of a run derives from one state seeded
// by VERIF_SEED so a disagreement replays exactly.
type RNG struct{ s uint64 }

func NewRNG(seed uint64) *RNG {
	// scramble the seed first: consecutive seeds must not give shifted copies of one stream
	z := seed + 0x1234567
	z = (z ^ (z >> 33)) * 0xFF51AFD7ED558CCD
	z = (z ^ (z >> 33)) * 0xC4CEB9FE1A85EC53
	z ^= z >> 33
	return &RNG{s: z}
}

func (r *RNG) U64() uint64 {
	r.s += 0x9E3779B97F4A7C15
	z := r.s
	z = (z ^ (z >> 30)) * 0xBF58476D1CE4E5B9
	z = (z ^ (z >> 27)) * 0x94D049BB133111EB
	return z ^ (z >> 31)
}

// Intn returns a value in [0,n).
func (r *RNG) Intn(n int) int {
	if n <= 0 {
		return 0
	}
	return int(r.U64() % uint64(n))
}

func (r *RNG) Bool() bool { return r.U64()&1 == 1 }

// Chance is true with probability num/den.
func (r *RNG) Chance(num, den int) bool { return r.Intn(den) < num }

// Fork derives an independent stream (for per-case reproducibility).
func (r *RNG) Fork() *RNG { return NewRNG(r.U64()) }

func (r *RNG) Bytes(b []byte) {
	for i := range b {
		if i%8 == 0 {
			v := r.U64()
			for j := 0; j < 8 && i+j < len(b); j++ {
				b[i+j] = byte(v >> (8 * j))
			}
		}
	}
}

func (r *RNG) Perm(n int) []int {
	p := make([]int, n)
	for i := range p {
		p[i] = i
	}
	for i := n - 1; i > 0; i-- {
		j := r.Intn(i + 1)
		p[i], p[j] = p[j], p[i]
	}
	return p
}
