package vh

// Props maps a property id to the function that generates, executes and registers its cases.
var Props = map[string]func(*Run){}

// Register is called from each property package's init().
func Register(id string, f func(*Run)) { Props[id] = f }
