package vh

import (
	"bufio"
	"encoding/json"
	"fmt"
	"os"
	"os/exec"
	"path/filepath"
	"sort"
	"strings"
	"time"
)

// A Failure is one way the property (or the model/implementation tie) failed on a case.
type Failure struct {
	// Class identifies the failing call site / input class / history class; it is what
	// known_findings.jsonl entries are matched against (never the property id alone).
	Class string `json:"class"`
	Msg   string `json:"msg"`
	Op    int    `json:"op"` // index of the operation, -1 if not tied to one
	// Kind is "oracle" (the property fails on the real code: a concrete failing input),
	// "corr" (model and implementation disagree) or "proof" (a Lean obligation no longer checks).
	Kind string `json:"kind"`
}

// A Case is one input / operation sequence / history, already executed on the
// implementation.
type Case struct {
	Name  string   `json:"name"`
	Model string   `json:"model"` // arguments of the driver's "#case" line; "" = no model tie
	Ops   []string `json:"ops"`
	Impl  []string `json:"impl"`            // implementation's observation per op
	Mod   []string `json:"model_out,omitempty"` // filled by Finish
	Fails []Failure `json:"fails,omitempty"`
	Tags  []string `json:"tags,omitempty"`
	// Key identifies the case for distinctness counting (default: model+ops).
	Key string `json:"-"`
	// Nontrivial by the property's stated rule.
	Nontrivial bool `json:"nontrivial"`
	// Info carries anything needed to replay beyond Ops.
	Info map[string]any `json:"info,omitempty"`
	// KnownFrom / KnownClass: from operation index KnownFrom on (when KnownClass != ""), the history
	// of this case is inside a recorded known-finding class that makes the model's inputs (e.g. the
	// validity labels computed on a linear twin) unreliable for the node under test; a
	// model/implementation disagreement at or after that operation is attributed to that class.
	KnownFrom  int    `json:"known_from,omitempty"`
	KnownClass string `json:"known_class,omitempty"`
}

func (c *Case) Op(op, impl string) {
	c.Ops = append(c.Ops, op)
	c.Impl = append(c.Impl, impl)
}

func (c *Case) Fail(kind, class, msg string) {
	c.Fails = append(c.Fails, Failure{Class: class, Msg: msg, Op: len(c.Ops) - 1, Kind: kind})
}

// Oracle records an implementation-side property failure (a concrete failing input).
func (c *Case) Oracle(class, format string, a ...any) {
	c.Fail("oracle", class, fmt.Sprintf(format, a...))
}

type Run struct {
	Prop    string
	Tier    string
	Seed    uint64
	Drv     string // path of the model driver binary
	OutDir  string // where replays and the evidence part go
	Rule    string
	Only    string // replay: only this case name
	Start   time.Time
	Deadline time.Time

	cases     int
	nontriv   map[string]struct{}
	tags      map[string]int
	samples   []*Case
	pending   []*Case // cases waiting for the model
	failed    []*Case
	modelOps  int
	corrCases int
	extra     map[string]any
	assume    []string
}

func NewRun(prop, tier string, seed uint64, drv, outDir string) *Run {
	return &Run{Prop: prop, Tier: tier, Seed: seed, Drv: drv, OutDir: outDir, Start: time.Now(),
		nontriv: map[string]struct{}{}, tags: map[string]int{}, extra: map[string]any{}}
}

func (r *Run) Quick() bool { return r.Tier != "thorough" }

// Pick returns q in the quick tier and t in the thorough tier.
func (r *Run) Pick(q, t int) int {
	if r.Quick() {
		return q
	}
	return t
}

func (r *Run) Extra(k string, v any) { r.extra[k] = v }
func (r *Run) Assume(s string)      { r.assume = append(r.assume, s) }
func (r *Run) CountTag(t string, n int) { r.tags[t] += n }

// Add registers an executed case.
func (r *Run) Add(c *Case) {
	if r.Only != "" && c.Name != r.Only {
		return
	}
	r.cases++
	key := c.Key
	if key == "" {
		key = c.Model + "\x00" + strings.Join(c.Ops, "\n")
	}
	if c.Nontrivial {
		r.nontriv[key] = struct{}{}
	}
	for _, t := range c.Tags {
		r.tags[t]++
	}
	if len(r.samples) < 3 || (len(c.Fails) > 0 && len(r.samples) < 6) {
		r.samples = append(r.samples, c)
	}
	if c.Model != "" {
		r.pending = append(r.pending, c)
		if len(r.pending) >= 20000 {
			r.flushModel()
		}
	} else if len(c.Fails) > 0 {
		r.failed = append(r.failed, c)
	}
}

// flushModel pipes the pending cases through the Lean model driver and diffs.
func (r *Run) flushModel() {
	if len(r.pending) == 0 {
		return
	}
	cases := r.pending
	r.pending = nil
	cmd := exec.Command(r.Drv)
	stdin, err := cmd.StdinPipe()
	if err != nil {
		panic(err)
	}
	stdout, err := cmd.StdoutPipe()
	if err != nil {
		panic(err)
	}
	cmd.Stderr = os.Stderr
	if err := cmd.Start(); err != nil {
		fmt.Printf("ERROR cannot start model driver %s: %v\n", r.Drv, err)
		os.Exit(2)
	}
	go func() {
		w := bufio.NewWriterSize(stdin, 1<<20)
		for _, c := range cases {
			fmt.Fprintf(w, "#case %s\n", c.Model)
			for _, op := range c.Ops {
				w.WriteString(op)
				w.WriteByte('\n')
			}
		}
		w.Flush()
		stdin.Close()
	}()
	sc := bufio.NewScanner(stdout)
	sc.Buffer(make([]byte, 1<<20), 1<<26)
	next := func() (string, bool) {
		if sc.Scan() {
			return sc.Text(), true
		}
		return "", false
	}
	for _, c := range cases {
		hdr, ok := next()
		if !ok || !strings.HasPrefix(hdr, "#case") {
			fmt.Printf("ERROR model driver protocol: expected #case, got %q (ok=%v)\n", hdr, ok)
			os.Exit(2)
		}
		c.Mod = make([]string, len(c.Ops))
		first := -1
		for i := range c.Ops {
			line, ok := next()
			if !ok {
				fmt.Printf("ERROR model driver ended early in case %s\n", c.Name)
				os.Exit(2)
			}
			c.Mod[i] = line
			r.modelOps++
			if line != c.Impl[i] && first < 0 {
				first = i
			}
		}
		r.corrCases++
		if first >= 0 && c.KnownClass != "" && first >= c.KnownFrom {
			c.Fails = append(c.Fails, Failure{Kind: "oracle", Class: c.KnownClass, Op: first,
				Msg: fmt.Sprintf("inside the known history class: op %d %q: implementation %q, model %q", first, c.Ops[first], c.Impl[first], c.Mod[first])})
		} else if first >= 0 {
			c.Fails = append(c.Fails, Failure{Kind: "corr", Class: "corr:" + strings.Fields(c.Model + " ?")[0], Op: first,
				Msg: fmt.Sprintf("op %d %q: implementation %q, model %q", first, c.Ops[first], c.Impl[first], c.Mod[first])})
		}
		if len(c.Fails) > 0 {
			r.failed = append(r.failed, c)
		} else if !r.keepSample(c) {
			c.Mod = nil
		}
	}
	cmd.Wait()
}

func (r *Run) keepSample(c *Case) bool {
	for _, s := range r.samples {
		if s == c {
			return true
		}
	}
	return false
}

type knownEntry struct {
	Status   string `json:"status"` // "known" or "fixed"
	Property string `json:"property"`
	Class    string `json:"class"`
	What     string `json:"what"`
	Commit   string `json:"commit,omitempty"`
}

func loadKnown(prop string) map[string]knownEntry {
	out := map[string]knownEntry{}
	f, err := os.Open("/verif/known_findings.jsonl")
	if err != nil {
		return out
	}
	defer f.Close()
	sc := bufio.NewScanner(f)
	sc.Buffer(make([]byte, 1<<20), 1<<24)
	for sc.Scan() {
		line := strings.TrimSpace(sc.Text())
		if line == "" || strings.HasPrefix(line, "#") {
			continue
		}
		var e knownEntry
		if json.Unmarshal([]byte(line), &e) == nil && e.Property == prop && e.Status == "known" {
			out[e.Class] = e
		}
	}
	return out
}

// Finish runs the model, classifies failures, prints the verdict lines, writes the
// evidence part and returns the exit code.
func (r *Run) Finish() int {
	r.flushModel()
	known := loadKnown(r.Prop)
	os.MkdirAll(r.OutDir, 0o755)
	replayDir := filepath.Join("/verif/replays", r.Prop)

	knownHit := map[string]int{}
	var oracleFails, corrFails []*Case
	for _, c := range r.failed {
		var rest []Failure
		for _, f := range c.Fails {
			if _, ok := known[f.Class]; ok && f.Kind == "oracle" {
				knownHit[f.Class]++
				continue
			}
			rest = append(rest, f)
		}
		if len(rest) == 0 {
			continue
		}
		hasOracle := false
		for _, f := range rest {
			if f.Kind == "oracle" {
				hasOracle = true
			}
		}
		if hasOracle {
			oracleFails = append(oracleFails, c)
		} else {
			corrFails = append(corrFails, c)
		}
	}
	classes := make([]string, 0, len(knownHit))
	for k := range knownHit {
		classes = append(classes, k)
	}
	sort.Strings(classes)
	for _, k := range classes {
		fmt.Printf("KNOWN-FINDING: property=%s %s [class %s, %d case(s) this run]\n", r.Prop, known[k].What, k, knownHit[k])
	}

	violations := 0
	writeReplay := func(c *Case, note string) string {
		os.MkdirAll(replayDir, 0o755)
		p := filepath.Join(replayDir, fmt.Sprintf("%s-seed%d-%s.json", r.Tier, r.Seed, sanitize(c.Name)))
		b, _ := json.MarshalIndent(map[string]any{
			"property": r.Prop, "tier": r.Tier, "seed": r.Seed, "case": c, "note": note,
			"replay": fmt.Sprintf("./check %s replay %s", r.Prop, p),
		}, "", " ")
		os.WriteFile(p, b, 0o644)
		return p
	}
	// smallest failing input first
	sort.SliceStable(oracleFails, func(i, j int) bool { return len(oracleFails[i].Ops) < len(oracleFails[j].Ops) })
	sort.SliceStable(corrFails, func(i, j int) bool { return len(corrFails[i].Ops) < len(corrFails[j].Ops) })
	seen := map[string]bool{}
	for _, c := range oracleFails {
		cls := ""
		for _, f := range c.Fails {
			if f.Kind == "oracle" {
				if _, ok := known[f.Class]; !ok {
					cls = f.Class
					break
				}
			}
		}
		violations++
		if seen[cls] {
			continue
		}
		seen[cls] = true
		p := writeReplay(c, "the property fails on the implementation for this input")
		fmt.Printf("VIOLATION property=%s replay=%s\n", r.Prop, p)
		for _, f := range c.Fails {
			fmt.Printf("  %s[%s] op %d: %s\n", f.Kind, f.Class, f.Op, f.Msg)
		}
	}
	if len(corrFails) > 0 {
		violations += len(corrFails)
		c := corrFails[0]
		if len(oracleFails) > 0 {
			// the search for a failing input succeeded elsewhere; still record the tie break
			p := writeReplay(c, "model/implementation correspondence broken; a failing input was found (see the other replay)")
			fmt.Printf("  correspondence also broken: %s (%d case(s))\n", p, len(corrFails))
		} else {
			p := writeReplay(c, "correspondence "+c.Fails[0].Class+" no longer checks: the implementation and the Lean model disagree on this input; the implementation-side oracle found no input on which the property itself fails")
			fmt.Printf("VIOLATION property=%s replay=%s no-failing-input-found\n", r.Prop, p)
			for _, f := range c.Fails {
				fmt.Printf("  %s[%s] op %d: %s\n", f.Kind, f.Class, f.Op, f.Msg)
			}
		}
	}

	// evidence part
	var samples []any
	for _, c := range r.samples {
		ops := c.Ops
		impl := c.Impl
		if len(ops) > 40 {
			ops, impl = ops[:40], impl[:40]
		}
		samples = append(samples, map[string]any{"name": c.Name, "model": c.Model, "ops": ops, "impl": impl, "tags": c.Tags, "info": c.Info})
	}
	if r.assume == nil {
		r.assume = []string{}
	}
	part := map[string]any{
		"evaluations":                   r.cases,
		"distinct_nontrivial":           len(r.nontriv),
		"rule":                          r.Rule,
		"samples":                       samples,
		"traces_validated_against_impl": r.corrCases,
		"model_ops_compared":            r.modelOps,
		"distribution":                  r.tags,
		"known_findings_hit":            knownHit,
		"violations":                    violations,
		"assumptions":                   r.assume,
		"harness_wall_s":                time.Since(r.Start).Seconds(),
	}
	for k, v := range r.extra {
		part[k] = v
	}
	b, _ := json.MarshalIndent(part, "", " ")
	os.WriteFile(filepath.Join(r.OutDir, r.Prop+".part.json"), b, 0o644)
	if violations > 0 {
		return 1
	}
	return 0
}

func sanitize(s string) string {
	var b strings.Builder
	for _, ch := range s {
		if ch >= 'a' && ch <= 'z' || ch >= 'A' && ch <= 'Z' || ch >= '0' && ch <= '9' || ch == '-' || ch == '_' {
			b.WriteRune(ch)
		} else {
			b.WriteByte('_')
		}
	}
	if b.Len() > 80 {
		return b.String()[:80]
	}
	return b.String()
}
