// Package rhpc is the renter-side RHP4 rig shared by the C10 and C16 harnesses: in-process nodes
// (chain manager + real SingleAddressWallet, synchronised deterministically), a real rhp4.Server
// behind a net.Pipe transport, a message-boundary interposer that can record, drop or rewrite any
// message of an exchange, and a scripted host that answers a client RPC from a list of prepared
// messages.  Only exported API of /repo (rhp/v4, wallet, chain, testutil) is used.
package rhpc

import (
	"errors"
	"fmt"
	"time"
	"verifharness/minex"

	"go.sia.tech/core/consensus"
	proto4 "go.sia.tech/core/rhp/v4"
	"go.sia.tech/core/types"
	"go.sia.tech/coreutils/chain"
	rhp4 "go.sia.tech/coreutils/rhp/v4"
	"go.sia.tech/coreutils/testutil"
	"go.sia.tech/coreutils/wallet"
	"go.uber.org/zap"
)

// A Node is a chain manager with a single-address wallet whose store is brought up to the
// manager's tip synchronously by Sync (no background subscriber: deterministic).
type Node struct {
	CM  *chain.Manager
	W   *wallet.SingleAddressWallet
	WS  *testutil.EphemeralWalletStore
	Key types.PrivateKey
}

// NewNode starts a node on the given network.
func NewNode(n *consensus.Network, genesis types.Block, opts ...wallet.Option) (*Node, error) {
	return NewNodeWithStore(n, genesis, nil, opts...)
}

// NewNodeWithStore is NewNode with the store the wallet reads through wrapped by wrap (the node
// itself keeps feeding chain updates to the underlying store).
func NewNodeWithStore(n *consensus.Network, genesis types.Block, wrap func(*testutil.EphemeralWalletStore) wallet.SingleAddressStore, opts ...wallet.Option) (*Node, error) {
	db, tipstate, err := chain.NewDBStore(chain.NewMemDB(), n, genesis, nil)
	if err != nil {
		return nil, err
	}
	cm := chain.NewManager(db, tipstate)
	ws := testutil.NewEphemeralWalletStore()
	var store wallet.SingleAddressStore = ws
	if wrap != nil {
		store = wrap(ws)
	}
	key := types.GeneratePrivateKey()
	w, err := wallet.NewSingleAddressWallet(key, cm, store, &testutil.MockSyncer{}, opts...)
	if err != nil {
		return nil, err
	}
	return &Node{CM: cm, W: w, WS: ws, Key: key}, nil
}

// Close stops the wallet's background goroutine.
func (nd *Node) Close() { nd.W.Close() }

// Sync applies every chain update the wallet store has not seen yet.
func (nd *Node) Sync() error {
	for {
		tip, err := nd.WS.Tip()
		if err != nil {
			return err
		}
		if tip == nd.CM.Tip() {
			return nil
		}
		reverted, applied, err := nd.CM.UpdatesSince(tip, 1000)
		if err != nil {
			return err
		}
		if len(reverted) == 0 && len(applied) == 0 {
			return nil
		}
		err = nd.WS.UpdateChainState(func(tx wallet.UpdateTx) error {
			return nd.W.UpdateChainState(tx, reverted, applied)
		})
		if err != nil {
			return err
		}
	}
}

// Mine mines n blocks paying addr on this node and syncs its wallet.
func (nd *Node) Mine(addr types.Address, n int) error {
	for ; n > 0; n-- {
		b, ok := minex.MineBlock(nd.CM, addr)
		if !ok {
			return errors.New("failed to mine block")
		}
		if err := nd.CM.AddBlocks([]types.Block{b}); err != nil {
			return err
		}
	}
	return nd.Sync()
}

// CatchUp feeds this node every block of src's best chain it does not have, up to height
// maxHeight (0 = all), and syncs the wallet.
func (nd *Node) CatchUp(src *chain.Manager, maxHeight uint64) error {
	for {
		tip := nd.CM.Tip()
		if maxHeight != 0 && tip.Height >= maxHeight {
			break
		}
		// find the common ancestor by walking our history
		_, applied, err := src.UpdatesSince(tip, 100)
		if err != nil {
			// our tip is not on src's best chain: start from genesis
			_, applied, err = src.UpdatesSince(types.ChainIndex{}, 100000)
			if err != nil {
				return err
			}
		}
		if len(applied) == 0 {
			break
		}
		var blocks []types.Block
		for _, cau := range applied {
			if maxHeight != 0 && cau.State.Index.Height > maxHeight {
				break
			}
			blocks = append(blocks, cau.Block)
		}
		if len(blocks) == 0 {
			break
		}
		if err := nd.CM.AddBlocks(blocks); err != nil {
			return err
		}
	}
	return nd.Sync()
}

// A Host is a real rhp4.Server with in-memory contractor, sector store and settings, served
// over an in-process pipe transport.
type Host struct {
	Node       *Node
	Key        types.PrivateKey
	Contractor *testutil.EphemeralContractor
	Sectors    *testutil.EphemeralSectorStore
	Settings   *testutil.EphemeralSettingsReporter
	Server     *rhp4.Server
	Mux        *PipeMux
}

// DefaultSettings are the settings rpc_test.go uses.
func DefaultSettings(addr types.Address) proto4.HostSettings {
	return proto4.HostSettings{
		Release:             "verif",
		AcceptingContracts:  true,
		WalletAddress:       addr,
		MaxCollateral:       types.Siacoins(10000),
		MaxContractDuration: 1000,
		RemainingStorage:    100 * proto4.SectorSize,
		TotalStorage:        100 * proto4.SectorSize,
		Prices: proto4.HostPrices{
			ContractPrice:   types.Siacoins(1).Div64(5),
			StoragePrice:    types.NewCurrency64(100),
			IngressPrice:    types.NewCurrency64(100),
			EgressPrice:     types.NewCurrency64(100),
			Collateral:      types.NewCurrency64(200),
			FreeSectorPrice: types.NewCurrency64(1000),
		},
	}
}

// HostOpts lets a harness wrap the components the server sees.
type HostOpts struct {
	WrapWallet     func(rhp4.Wallet) rhp4.Wallet
	WrapContractor func(rhp4.Contractor) rhp4.Contractor
	WrapChain      func(rhp4.ChainManager) rhp4.ChainManager
}

// NewHost starts a host on node nd.
func NewHost(nd *Node, o HostOpts) *Host {
	h := &Host{Node: nd, Key: types.GeneratePrivateKey()}
	h.Contractor = testutil.NewEphemeralContractor(nd.CM)
	h.Sectors = testutil.NewEphemeralSectorStore()
	h.Settings = testutil.NewEphemeralSettingsReporter()
	h.Settings.Update(DefaultSettings(nd.W.Address()))
	var w rhp4.Wallet = nd.W
	if o.WrapWallet != nil {
		w = o.WrapWallet(w)
	}
	var c rhp4.Contractor = h.Contractor
	if o.WrapContractor != nil {
		c = o.WrapContractor(c)
	}
	var cm rhp4.ChainManager = nd.CM
	if o.WrapChain != nil {
		cm = o.WrapChain(cm)
	}
	h.Server = rhp4.NewServer(h.Key, cm, c, w, h.Settings, h.Sectors, rhp4.WithPriceTableValidity(10*time.Minute))
	h.Mux = NewPipeMux()
	go h.Server.Serve(h.Mux, zap.NewNop())
	return h
}

// Close stops the host.
func (h *Host) Close() {
	h.Mux.Close()
	h.Server.Close()
	h.Contractor.Close()
}

// WaitContractor waits until the contractor's background subscriber has reached the node's tip.
func (h *Host) WaitContractor() error {
	deadline := time.Now().Add(10 * time.Second)
	for {
		tip, err := h.Contractor.Tip()
		if err != nil {
			return err
		}
		if tip == h.Node.CM.Tip() {
			return nil
		}
		if time.Now().After(deadline) {
			return fmt.Errorf("contractor stuck at %v, chain at %v", tip, h.Node.CM.Tip())
		}
		time.Sleep(200 * time.Microsecond)
	}
}

// State returns the host's committed revision and sector roots of a contract (ground truth).
func (h *Host) State(id types.FileContractID) (rhp4.RevisionState, bool) {
	rs, unlock, err := h.Contractor.LockV2Contract(id)
	if err != nil {
		return rhp4.RevisionState{}, false
	}
	rs.Roots = append([]types.Hash256(nil), rs.Roots...)
	unlock()
	return rs, true
}

// FundAndSign is the renter's FormContractSigner over a real wallet (as in rpc_test.go).
type FundAndSign struct {
	W  *wallet.SingleAddressWallet
	PK types.PrivateKey
}

// FundV2Transaction implements rhp4.TransactionFunder.
func (fs *FundAndSign) FundV2Transaction(txn *types.V2Transaction, amount types.Currency) (types.ChainIndex, []int, error) {
	return fs.W.FundV2Transaction(txn, amount, true)
}

// RecommendedFee implements rhp4.TransactionFunder.
func (fs *FundAndSign) RecommendedFee() types.Currency { return fs.W.RecommendedFee() }

// ReleaseInputs implements rhp4.TransactionFunder.
func (fs *FundAndSign) ReleaseInputs(txns []types.V2Transaction) { fs.W.ReleaseInputs(nil, txns) }

// SignV2Inputs implements rhp4.TransactionInputSigner.
func (fs *FundAndSign) SignV2Inputs(txn *types.V2Transaction, toSign []int) {
	fs.W.SignV2Inputs(txn, toSign)
}

// SignHash implements rhp4.ContractSigner.
func (fs *FundAndSign) SignHash(h types.Hash256) types.Signature { return fs.PK.SignHash(h) }
