package rhpc

import (
	"bytes"
	"context"
	"errors"
	"io"
	"net"
	"sync"
	"time"

	proto4 "go.sia.tech/core/rhp/v4"
	"go.sia.tech/core/types"
)

// PipeMux is an rhp4.TransportMux fed with the server ends of net.Pipe streams.
type PipeMux struct {
	ch     chan net.Conn
	closed chan struct{}
	once   sync.Once
}

// NewPipeMux returns an open mux.
func NewPipeMux() *PipeMux {
	return &PipeMux{ch: make(chan net.Conn), closed: make(chan struct{})}
}

// AcceptStream implements rhp4.TransportMux.
func (m *PipeMux) AcceptStream() (net.Conn, error) {
	select {
	case c := <-m.ch:
		return c, nil
	case <-m.closed:
		return nil, net.ErrClosed
	}
}

// Close implements rhp4.TransportMux.
func (m *PipeMux) Close() error {
	m.once.Do(func() { close(m.closed) })
	return nil
}

// notifyConn closes done when the stream is closed by its owner (the server closes the stream
// only after the RPC handler, including its deferred calls, has returned).
type notifyConn struct {
	net.Conn
	done chan struct{}
	once sync.Once
}

func (c *notifyConn) Close() error {
	err := c.Conn.Close()
	c.once.Do(func() { close(c.done) })
	return err
}

// offer hands a server-side stream to the mux; the returned channel is closed when the server's
// handler has finished with the stream.
func (m *PipeMux) offer(c net.Conn) (<-chan struct{}, error) {
	nc := &notifyConn{Conn: c, done: make(chan struct{})}
	select {
	case m.ch <- nc:
		return nc.done, nil
	case <-m.closed:
		return nil, net.ErrClosed
	}
}

// Client is an rhp4.TransportClient whose streams are produced by Dial.
type Client struct {
	HostKey types.PublicKey
	Dial    func(ctx context.Context) (net.Conn, error)
}

// DialStream implements rhp4.TransportClient.
func (c *Client) DialStream(ctx context.Context) (net.Conn, error) { return c.Dial(ctx) }

// FrameSize implements rhp4.TransportClient.
func (c *Client) FrameSize() int { return 1440 * 3 }

// PeerKey implements rhp4.TransportClient.
func (c *Client) PeerKey() types.PublicKey { return c.HostKey }

// Close implements rhp4.TransportClient.
func (c *Client) Close() error { return nil }

// ErrDial is what a failing dial returns.
var ErrDial = errors.New("verif: dial failure injected")

// FailingClient never connects.
func FailingClient(hostKey types.PublicKey) *Client {
	return &Client{HostKey: hostKey, Dial: func(context.Context) (net.Conn, error) { return nil, ErrDial }}
}

// Direct connects straight to the host.
func Direct(h *Host) *Client {
	return &Client{HostKey: h.Key.PublicKey(), Dial: func(context.Context) (net.Conn, error) {
		a, b := net.Pipe()
		if _, err := h.Mux.offer(b); err != nil {
			return nil, err
		}
		return a, nil
	}}
}

// Dir is the direction of a message.
type Dir int

// directions
const (
	ToHost Dir = iota
	ToRenter
)

// Kind is the framing of a message.
type Kind int

// framings
const (
	Request  Kind = iota // specifier + object (first message of every RPC)
	Response             // error flag + object (every later structured message, either direction)
	Raw                  // unframed bytes whose count is fixed by an earlier message
)

// A Step describes one message of an exchange.
type Step struct {
	Name   string
	Dir    Dir
	Kind   Kind
	New    func() proto4.Object
	RawLen func(prev []Msg) int
}

// A Msg is one message as seen at a boundary.
type Msg struct {
	ID    types.Specifier
	Obj   proto4.Object
	Err   *proto4.RPCError // an error frame instead of the object
	Raw   []byte           // payload of a Raw step
	Bytes []byte           // if non-nil, sent verbatim instead of the encoding of Obj/Err/Raw
	Close bool             // close the stream instead of sending anything
	// CloseAfter closes the stream right after this message (used with a truncated Bytes)
	CloseAfter bool
}

// Failed reports whether the receiver's ReadResponse necessarily returns an error for this
// message (error frame, closed stream, truncated encoding).
func (m Msg) Failed() bool { return m.Err != nil || m.Close || m.Bytes != nil }

// CloneMsgs deep-copies a message list (by re-decoding the encoding).
func CloneMsgs(steps []Step, msgs []Msg) []Msg {
	out := make([]Msg, len(msgs))
	for i, m := range msgs {
		if i < len(steps) {
			out[i] = cloneMsg(m, steps[i])
			out[i].Bytes, out[i].Close, out[i].CloseAfter = m.Bytes, m.Close, m.CloseAfter
		}
	}
	return out
}

func readMsg(r io.Reader, st Step, prev []Msg) (Msg, error) {
	var m Msg
	switch st.Kind {
	case Request:
		id, err := proto4.ReadID(r)
		if err != nil {
			return m, err
		}
		m.ID = id
		m.Obj = st.New()
		if err := proto4.ReadRequest(r, m.Obj); err != nil {
			return m, err
		}
	case Response:
		m.Obj = st.New()
		if err := proto4.ReadResponse(r, m.Obj); err != nil {
			var re *proto4.RPCError
			if errors.As(err, &re) {
				m.Obj, m.Err = nil, re
				return m, nil
			}
			return m, err
		}
	case Raw:
		n := st.RawLen(prev)
		m.Raw = make([]byte, n)
		if _, err := io.ReadFull(r, m.Raw); err != nil {
			return m, err
		}
	}
	return m, nil
}

// Encode returns the wire bytes of a message.
func (m Msg) Encode(st Step) []byte {
	if m.Bytes != nil {
		return m.Bytes
	}
	var buf bytes.Buffer
	switch {
	case m.Err != nil:
		proto4.WriteResponse(&buf, m.Err)
	case st.Kind == Request:
		proto4.WriteRequest(&buf, m.ID, m.Obj)
	case st.Kind == Response:
		proto4.WriteResponse(&buf, m.Obj)
	case st.Kind == Raw:
		buf.Write(m.Raw)
	}
	return buf.Bytes()
}

// An Interposer sits between the client and the real server and sees every message.
type Interposer struct {
	Steps []Step
	// Hook is called with message i (already decoded) before it is forwarded.  It may mutate
	// the message in place (or set Bytes/Err/Close).  nil = forward unchanged.
	Hook func(i int, m *Msg)
	// Seen holds the messages as they were received (before Hook).
	Seen []Msg
	// Reached is the number of messages fully forwarded.
	Reached int

	handlerDone <-chan struct{}
	proxyDone   chan struct{}
}

// Wait blocks until the proxy has stopped and the server's handler has returned.
func (ip *Interposer) Wait() bool {
	ok := true
	for _, ch := range []<-chan struct{}{ip.proxyDone, ip.handlerDone} {
		if ch == nil {
			continue
		}
		select {
		case <-ch:
		case <-time.After(20 * time.Second):
			ok = false
		}
	}
	return ok
}

// Interposed connects to the host through ip (one stream per Interposer).
func Interposed(h *Host, ip *Interposer) *Client {
	return &Client{HostKey: h.Key.PublicKey(), Dial: func(context.Context) (net.Conn, error) {
		ca, cb := BufPipe() // client <-> proxy
		sa, sb := BufPipe() // proxy <-> server
		done, err := h.Mux.offer(sb)
		if err != nil {
			return nil, err
		}
		ip.handlerDone = done
		ip.proxyDone = make(chan struct{})
		go func() {
			defer close(ip.proxyDone)
			defer cb.Close()
			defer sa.Close()
			for i, st := range ip.Steps {
				src, dst := net.Conn(cb), net.Conn(sa)
				if st.Dir == ToRenter {
					src, dst = sa, cb
				}
				m, err := readMsg(src, st, ip.Seen)
				if err != nil {
					return
				}
				ip.Seen = append(ip.Seen, m)
				out := cloneMsg(m, st)
				if ip.Hook != nil {
					ip.Hook(i, &out)
				}
				if out.Close {
					return
				}
				if _, err := dst.Write(out.Encode(st)); err != nil {
					return
				}
				ip.Reached = i + 1
				if m.Err != nil {
					return // the server gave up
				}
			}
		}()
		return ca, nil
	}}
}

// cloneMsg re-decodes the message so that a hook can mutate it without touching Seen.
func cloneMsg(m Msg, st Step) Msg {
	out := Msg{ID: m.ID, Err: m.Err}
	if m.Obj != nil {
		out.Obj = st.New()
		b := m.Encode(st)
		r := bytes.NewReader(b)
		if st.Kind == Request {
			proto4.ReadID(r)
			proto4.ReadRequest(r, out.Obj)
		} else {
			proto4.ReadResponse(r, out.Obj)
		}
	}
	if m.Raw != nil {
		out.Raw = append([]byte(nil), m.Raw...)
	}
	return out
}

// Scripted returns a client whose host end is played by serve.
func Scripted(hostKey types.PublicKey, serve func(conn net.Conn)) *Client {
	return &Client{HostKey: hostKey, Dial: func(context.Context) (net.Conn, error) {
		a, b := net.Pipe()
		go func() {
			defer b.Close()
			serve(b)
		}()
		return a, nil
	}}
}

// Replay plays the host side of an exchange from prepared messages: for ToHost steps it reads
// and decodes what the client sends (kept in got), for ToRenter steps it sends out[i] — or, if
// dyn is non-nil and returns a message, that one (for responses that depend on the request).
func Replay(conn net.Conn, steps []Step, out []Msg, dyn func(i int, got []Msg) *Msg) (got []Msg) {
	got = make([]Msg, 0, len(steps))
	for i, st := range steps {
		if st.Dir == ToHost {
			m, err := readMsg(conn, st, got)
			if err != nil {
				return got
			}
			got = append(got, m)
			continue
		}
		var m Msg
		if i < len(out) {
			m = out[i]
		}
		if dyn != nil {
			if d := dyn(i, got); d != nil {
				m = *d
			}
		}
		got = append(got, m)
		if m.Close {
			return got
		}
		if _, err := conn.Write(m.Encode(st)); err != nil {
			return got
		}
		if m.Err != nil || m.CloseAfter {
			return got
		}
	}
	// the host has nothing more to say: net.Pipe writes return only once the client has
	// consumed them, so closing now loses nothing; a client still waiting for bytes sees EOF
	return got
}
