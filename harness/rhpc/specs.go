package rhpc

import (
	proto4 "go.sia.tech/core/rhp/v4"
)

func req(name string, f func() proto4.Object) Step {
	return Step{Name: name, Dir: ToHost, Kind: Request, New: f}
}
func resp(name string, f func() proto4.Object) Step {
	return Step{Name: name, Dir: ToRenter, Kind: Response, New: f}
}
func rresp(name string, f func() proto4.Object) Step {
	return Step{Name: name, Dir: ToHost, Kind: Response, New: f}
}

// The message sequence of every RPC the harnesses drive (rhp/v4/rpc.go and server.go agree on
// these; the interposer would stall on a disagreement).
var (
	StepsRead = []Step{
		req("req", func() proto4.Object { return new(proto4.RPCReadSectorRequest) }),
		resp("resp", func() proto4.Object { return new(proto4.RPCReadSectorResponse) }),
		{Name: "data", Dir: ToRenter, Kind: Raw, RawLen: func(prev []Msg) int {
			if r, ok := prev[1].Obj.(*proto4.RPCReadSectorResponse); ok {
				return int(r.DataLength)
			}
			return 0
		}},
	}
	StepsWrite = []Step{
		req("req", func() proto4.Object { return new(proto4.RPCWriteSectorRequest) }),
		{Name: "data", Dir: ToHost, Kind: Raw, RawLen: func(prev []Msg) int {
			if r, ok := prev[0].Obj.(*proto4.RPCWriteSectorRequest); ok {
				return int(r.DataLength)
			}
			return 0
		}},
		resp("resp", func() proto4.Object { return new(proto4.RPCWriteSectorResponse) }),
	}
	StepsVerify = []Step{
		req("req", func() proto4.Object { return new(proto4.RPCVerifySectorRequest) }),
		resp("resp", func() proto4.Object { return new(proto4.RPCVerifySectorResponse) }),
	}
	StepsFree = []Step{
		req("req", func() proto4.Object { return new(proto4.RPCFreeSectorsRequest) }),
		resp("resp", func() proto4.Object { return new(proto4.RPCFreeSectorsResponse) }),
		rresp("rsig", func() proto4.Object { return new(proto4.RPCFreeSectorsSecondResponse) }),
		resp("hsig", func() proto4.Object { return new(proto4.RPCFreeSectorsThirdResponse) }),
	}
	StepsAppend = []Step{
		req("req", func() proto4.Object { return new(proto4.RPCAppendSectorsRequest) }),
		resp("resp", func() proto4.Object { return new(proto4.RPCAppendSectorsResponse) }),
		rresp("rsig", func() proto4.Object { return new(proto4.RPCAppendSectorsSecondResponse) }),
		resp("hsig", func() proto4.Object { return new(proto4.RPCAppendSectorsThirdResponse) }),
	}
	StepsFund = []Step{
		req("req", func() proto4.Object { return new(proto4.RPCFundAccountsRequest) }),
		resp("resp", func() proto4.Object { return new(proto4.RPCFundAccountsResponse) }),
	}
	StepsReplenish = []Step{
		req("req", func() proto4.Object { return new(proto4.RPCReplenishAccountsRequest) }),
		resp("resp", func() proto4.Object { return new(proto4.RPCReplenishAccountsResponse) }),
		rresp("rsig", func() proto4.Object { return new(proto4.RPCReplenishAccountsSecondResponse) }),
		resp("hsig", func() proto4.Object { return new(proto4.RPCReplenishAccountsThirdResponse) }),
	}
	StepsRoots = []Step{
		req("req", func() proto4.Object { return new(proto4.RPCSectorRootsRequest) }),
		resp("resp", func() proto4.Object { return new(proto4.RPCSectorRootsResponse) }),
	}
	StepsForm = []Step{
		req("req", func() proto4.Object { return new(proto4.RPCFormContractRequest) }),
		resp("hostInputs", func() proto4.Object { return new(proto4.RPCFormContractResponse) }),
		rresp("renterSigs", func() proto4.Object { return new(proto4.RPCFormContractSecondResponse) }),
		resp("finalSet", func() proto4.Object { return new(proto4.RPCFormContractThirdResponse) }),
	}
	StepsRenew = []Step{
		req("req", func() proto4.Object { return new(proto4.RPCRenewContractRequest) }),
		resp("hostInputs", func() proto4.Object { return new(proto4.RPCRenewContractResponse) }),
		rresp("renterSigs", func() proto4.Object { return new(proto4.RPCRenewContractSecondResponse) }),
		resp("finalSet", func() proto4.Object { return new(proto4.RPCRenewContractThirdResponse) }),
	}
	StepsRefresh = []Step{
		req("req", func() proto4.Object { return new(proto4.RPCRefreshContractRequest) }),
		resp("hostInputs", func() proto4.Object { return new(proto4.RPCRefreshContractResponse) }),
		rresp("renterSigs", func() proto4.Object { return new(proto4.RPCRefreshContractSecondResponse) }),
		resp("finalSet", func() proto4.Object { return new(proto4.RPCRefreshContractThirdResponse) }),
	}
)
