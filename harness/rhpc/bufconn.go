package rhpc

import (
	"io"
	"net"
	"os"
	"sync"
	"time"
)

// half is one direction of a buffered in-memory stream.  Unlike net.Pipe a write never waits
// for the reader (real transports buffer), so a side may send an unsolicited message — e.g.
// the server's error frame — while its peer is itself writing.
type half struct {
	mu      sync.Mutex
	cond    *sync.Cond
	buf     []byte
	wclosed bool // the writer closed: reader sees EOF once the buffer is drained
	rclosed bool // the reader closed: writes fail
}

func newHalf() *half {
	h := &half{}
	h.cond = sync.NewCond(&h.mu)
	return h
}

type bufConn struct {
	r, w     *half
	mu       sync.Mutex
	deadline time.Time
}

// BufPipe returns the two ends of a buffered, full-duplex in-memory connection.
func BufPipe() (net.Conn, net.Conn) {
	a, b := newHalf(), newHalf()
	return &bufConn{r: a, w: b}, &bufConn{r: b, w: a}
}

func (c *bufConn) readDeadline() time.Time {
	c.mu.Lock()
	defer c.mu.Unlock()
	return c.deadline
}

func (c *bufConn) Read(p []byte) (int, error) {
	h := c.r
	h.mu.Lock()
	defer h.mu.Unlock()
	for len(h.buf) == 0 && !h.wclosed && !h.rclosed {
		if d := c.readDeadline(); !d.IsZero() {
			if !time.Now().Before(d) {
				return 0, os.ErrDeadlineExceeded
			}
			t := time.AfterFunc(time.Until(d), h.cond.Broadcast)
			h.cond.Wait()
			t.Stop()
			continue
		}
		h.cond.Wait()
	}
	if h.rclosed {
		return 0, io.ErrClosedPipe
	}
	if len(h.buf) == 0 {
		return 0, io.EOF
	}
	n := copy(p, h.buf)
	h.buf = h.buf[n:]
	return n, nil
}

func (c *bufConn) Write(p []byte) (int, error) {
	h := c.w
	h.mu.Lock()
	defer h.mu.Unlock()
	if h.wclosed || h.rclosed {
		return 0, io.ErrClosedPipe
	}
	h.buf = append(h.buf, p...)
	h.cond.Broadcast()
	return len(p), nil
}

func (c *bufConn) Close() error {
	c.r.mu.Lock()
	c.r.rclosed = true
	c.r.cond.Broadcast()
	c.r.mu.Unlock()
	c.w.mu.Lock()
	c.w.wclosed = true
	c.w.cond.Broadcast()
	c.w.mu.Unlock()
	return nil
}

type bufAddr struct{}

func (bufAddr) Network() string { return "verif" }
func (bufAddr) String() string  { return "verif-bufpipe" }

func (c *bufConn) LocalAddr() net.Addr  { return bufAddr{} }
func (c *bufConn) RemoteAddr() net.Addr { return bufAddr{} }
func (c *bufConn) SetDeadline(t time.Time) error {
	c.mu.Lock()
	c.deadline = t
	c.mu.Unlock()
	c.r.mu.Lock()
	c.r.cond.Broadcast()
	c.r.mu.Unlock()
	return nil
}
func (c *bufConn) SetReadDeadline(t time.Time) error  { return c.SetDeadline(t) }
func (c *bufConn) SetWriteDeadline(t time.Time) error { return nil }
