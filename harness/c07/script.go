package c07

import (
	"fmt"
	"sort"
	"strings"
	"time"

	"go.sia.tech/core/types"
	"go.sia.tech/coreutils/wallet"
	"verifharness/vh"
)

// a script is one sequential case: an environment, the case being recorded and the generator state
type script struct {
	e       *env
	c       *vh.Case
	rng     *vh.RNG
	stopped string // reason the script was cut short ("" = still running)
	kinds   map[string]int
}

func (s *script) emit(op, impl string) {
	s.c.Op(op, impl)
	s.e.lastOpEnd = time.Now()
}

// observe appends the two read-only observations and checks that the views agree (O).
func (s *script) observe() {
	e := s.e
	bal, err := e.w.Balance()
	must(err)
	s.emit("bal", fmt.Sprintf("bal %s %s %s %s", cur(bal.Spendable), cur(bal.Confirmed), cur(bal.Unconfirmed), cur(bal.Immature)))
	sp, err := e.w.SpendableOutputs()
	must(err)
	var ids []int
	var sum types.Currency
	for _, u := range sp {
		n, ok := e.ids[u.ID]
		if !ok {
			s.c.Oracle("spendable-unknown-output", "SpendableOutputs returned an output the chain never paid to the wallet: %v", u.ID)
			continue
		}
		ids = append(ids, n)
		sum = sum.Add(u.SiacoinOutput.Value)
	}
	sort.Ints(ids)
	s.emit("spendable", strings.TrimRight("sp "+idList(ids), " "))
	if !sum.Equals(bal.Spendable) {
		s.c.Oracle("views-balance-vs-spendable", "Balance().Spendable = %s but the outputs returned by SpendableOutputs() sum to %s (pool: %d v1 / %d v2 transactions)",
			cur(bal.Spendable), cur(sum), len(e.cm.PoolTransactions()), len(e.cm.V2PoolTransactions()))
	}
}

func (s *script) spendableSet() map[types.SiacoinOutputID]bool {
	sp, err := s.e.w.SpendableOutputs()
	must(err)
	m := map[types.SiacoinOutputID]bool{}
	for _, u := range sp {
		m[u.ID] = true
	}
	return m
}

// liveReservations: inputs of the transactions handed out and not released whose reservation
// cannot have ended yet (decided by the harness's own clock and bookkeeping).
func (s *script) liveReservations(except int) map[types.SiacoinOutputID]int {
	e := s.e
	m := map[types.SiacoinOutputID]int{}
	if e.cfg.dur == 0 {
		return m
	}
	for h, t := range e.txns {
		if h == except || t.released {
			continue
		}
		if e.cfg.dur == 1 && (t.born.Before(e.epochStart) || time.Since(t.born) > epochBudget) {
			continue
		}
		for _, id := range t.inputs {
			m[id] = h
		}
	}
	return m
}

// checkSelected is the oracle for the inputs a request returned.
func (s *script) checkSelected(what string, h int, inputs []types.SiacoinOutputID, allowUnconfirmed bool, pv poolView) (ids []int, sum types.Currency) {
	e := s.e
	_, utxos, err := e.ws.UnspentSiacoinElements()
	must(err)
	conf := map[types.SiacoinOutputID]types.SiacoinElement{}
	for _, u := range utxos {
		conf[u.ID] = u
	}
	live := s.liveReservations(h)
	seen := map[types.SiacoinOutputID]bool{}
	for _, id := range inputs {
		n, known := e.ids[id]
		ids = append(ids, n)
		if seen[id] {
			s.c.Oracle(what+"-duplicate-input", "%s returned output %d twice in one transaction", what, n)
		}
		seen[id] = true
		if u, ok := conf[id]; ok {
			sum = sum.Add(u.SiacoinOutput.Value)
			if u.SiacoinOutput.Address != e.addr {
				s.c.Oracle(what+"-input-not-owned", "output %d is not the wallet's", n)
			}
			if u.MaturityHeight > e.storeHeight() {
				s.c.Oracle(what+"-input-immature", "output %d matures at %d, the wallet has scanned to %d", n, u.MaturityHeight, e.storeHeight())
			}
		} else if o, ok := pv.created[id]; ok && allowUnconfirmed {
			sum = sum.Add(o.Value)
			if o.Address != e.addr {
				s.c.Oracle(what+"-input-not-owned", "unconfirmed output %d is not the wallet's", n)
			}
		} else {
			s.c.Oracle(what+"-input-not-unspent", "selected output %d (known=%v) is neither an unspent confirmed output of the wallet nor (with useUnconfirmed) an output of a pooled transaction", n, known)
		}
		if pv.spent[id] {
			s.c.Oracle(what+"-input-pool-spent", "selected output %d is spent by a pooled transaction", n)
		}
		if other, ok := live[id]; ok {
			s.c.Oracle(what+"-input-reserved", "selected output %d is reserved by outstanding transaction %d", n, other)
		}
	}
	return
}

// checkReservedAreInputs: a request may take out of circulation only what it wrote into the
// transactions it returned.  `before` is SpendableOutputs() right before the call.
func (s *script) checkReservedAreInputs(what string, before map[types.SiacoinOutputID]bool, inputs []types.SiacoinOutputID) {
	after := s.spendableSet()
	isInput := map[types.SiacoinOutputID]bool{}
	for _, id := range inputs {
		isInput[id] = true
	}
	for id := range before {
		if !after[id] && !isInput[id] {
			s.c.Oracle(what+"-reserved-non-input", "%s made output %d unspendable although no returned transaction spends it (ReleaseInputs on the result cannot free it)", what, s.e.ids[id])
		}
	}
	if s.e.cfg.dur != 0 {
		for _, id := range inputs {
			if before[id] && after[id] {
				s.c.Oracle(what+"-input-not-reserved", "%s returned input %d but it is still listed as spendable", what, s.e.ids[id])
			}
		}
	}
}

func preOuts(e *env, own, void types.Currency) (outs []types.SiacoinOutput) {
	if !own.IsZero() {
		outs = append(outs, types.SiacoinOutput{Value: own, Address: e.addr})
	}
	if !void.IsZero() {
		outs = append(outs, types.SiacoinOutput{Value: void, Address: types.VoidAddress})
	}
	return
}

func (s *script) fund(v2 bool, amt types.Currency, uc bool, own types.Currency, nin int) {
	e := s.e
	h := e.nextH
	e.nextH++
	void := amt.Sub(own)
	// inputs the caller added before funding: outputs of the other party, burnt through the void output
	fin := e.foreign(nin)
	for _, f := range fin {
		void = void.Add(f.SiacoinOutput.Value)
	}
	pre := preOuts(e, own, void)
	ver, ucN := 1, 0
	if v2 {
		ver = 2
	}
	if uc {
		ucN = 1
	}
	op := fmt.Sprintf("fund %d %d %s %d %d %s %s", h, ver, cur(amt), ucN, len(fin), cur(own), cur(void))
	balBefore, err := e.w.Balance()
	must(err)
	before := s.spendableSet()
	pv := e.pool()
	t := &ftxn{h: h, v2: v2, born: time.Now(), nForeign: len(fin)}
	var appended []types.SiacoinOutput
	panicked := func(f func()) (r any) {
		defer func() { r = recover() }()
		f()
		return nil
	}
	if v2 {
		t.v2t = types.V2Transaction{SiacoinOutputs: append([]types.SiacoinOutput(nil), pre...), ArbitraryData: e.unique("f")}
		for _, f := range fin {
			t.v2t.SiacoinInputs = append(t.v2t.SiacoinInputs, types.V2SiacoinInput{Parent: f})
		}
		if r := panicked(func() { t.basis, t.toSignV2, err = e.w.FundV2Transaction(&t.v2t, amt, uc) }); r != nil {
			s.c.Oracle("fund-panic", "FundV2Transaction(%s) panicked with options %+v: %v", cur(amt), e.cfg, r)
			s.emit(op, "panic")
			s.stopped = "panic"
			return
		}
		for _, in := range t.v2t.SiacoinInputs[len(fin):] {
			t.inputs = append(t.inputs, in.Parent.ID)
			if v, ok := e.values[in.Parent.ID]; ok && (!v.Equals(in.Parent.SiacoinOutput.Value) || in.Parent.SiacoinOutput.Address != e.addr) {
				s.c.Oracle("fund-input-element-wrong", "FundV2Transaction attached a parent element whose value/address differs from the chain's for output %d", e.ids[in.Parent.ID])
			}
		}
		if len(t.v2t.SiacoinOutputs) >= len(pre) {
			appended = t.v2t.SiacoinOutputs[len(pre):]
		}
	} else {
		t.v1 = types.Transaction{SiacoinOutputs: append([]types.SiacoinOutput(nil), pre...), ArbitraryData: [][]byte{e.unique("f")}}
		for _, f := range fin {
			t.v1.SiacoinInputs = append(t.v1.SiacoinInputs, types.SiacoinInput{ParentID: f.ID, UnlockConditions: e.ouc})
		}
		if r := panicked(func() { t.toSign, err = e.w.FundTransaction(&t.v1, amt, uc) }); r != nil {
			s.c.Oracle("fund-panic", "FundTransaction(%s) panicked with options %+v: %v", cur(amt), e.cfg, r)
			s.emit(op, "panic")
			s.stopped = "panic"
			return
		}
		for _, in := range t.v1.SiacoinInputs[len(fin):] {
			t.inputs = append(t.inputs, in.ParentID)
		}
		if len(t.v1.SiacoinOutputs) >= len(pre) {
			appended = t.v1.SiacoinOutputs[len(pre):]
		}
	}
	s.kinds["fund"]++
	if err != nil {
		s.kinds["fund-err"]++
		s.emit(op, "err")
		if len(t.inputs) != 0 || len(appended) != 0 {
			s.c.Oracle("fund-failed-but-modified-txn", "a failed Fund call added %d inputs / %d outputs to the transaction", len(t.inputs), len(appended))
		}
		after := s.spendableSet()
		for id := range before {
			if !after[id] {
				s.c.Oracle("fund-failed-but-reserved", "after a failed Fund call output %d is no longer spendable", e.ids[id])
			}
		}
		if !uc && amt.Cmp(balBefore.Spendable) <= 0 {
			s.c.Oracle("views-select-vs-balance", "Fund(%s, useUnconfirmed=false) failed although Balance().Spendable = %s", cur(amt), cur(balBefore.Spendable))
		}
		return
	}
	ids, sum := s.checkSelected("fund", h, t.inputs, uc, pv)
	change := "nochange"
	var changeV types.Currency
	if len(appended) > 1 {
		s.c.Oracle("fund-extra-outputs", "Fund appended %d outputs", len(appended))
	}
	if len(appended) >= 1 {
		changeV = appended[0].Value
		change = "change " + cur(changeV)
		if appended[0].Address != e.addr {
			s.c.Oracle("fund-change-address", "the change output does not pay the wallet")
		}
	}
	if !sum.Equals(amt.Add(changeV)) {
		s.c.Oracle("fund-conservation", "selected inputs sum to %s but amount %s + change %s", cur(sum), cur(amt), cur(changeV))
	}
	if !uc && amt.Cmp(balBefore.Spendable) > 0 {
		s.c.Oracle("views-select-vs-balance", "Fund(%s, useUnconfirmed=false) succeeded although Balance().Spendable = %s", cur(amt), cur(balBefore.Spendable))
	}
	if (v2 && len(t.toSignV2) != len(t.inputs)) || (!v2 && len(t.toSign) != len(t.inputs)) {
		s.c.Oracle("fund-tosign", "toSign does not cover the added inputs")
	}
	s.emit(op, fmt.Sprintf("ok in %s sum %s %s", idList(ids), cur(sum), change))
	s.checkReservedAreInputs("fund", before, t.inputs)
	if !amt.IsZero() {
		e.txns[h] = t
	}
}

func (s *script) sign(t *ftxn) {
	if t.signed {
		return
	}
	t.signed = true
	e := s.e
	if t.v2 {
		e.w.SignV2Inputs(&t.v2t, t.toSignV2)
		h := e.cm.TipState().InputSigHash(t.v2t)
		for i := 0; i < t.nForeign; i++ {
			t.v2t.SiacoinInputs[i].SatisfiedPolicy = types.SatisfiedPolicy{
				Policy:     types.SpendPolicy{Type: types.PolicyTypeUnlockConditions(e.ouc)},
				Signatures: []types.Signature{e.opk.SignHash(h)},
			}
		}
	} else {
		e.w.SignTransaction(&t.v1, t.toSign, types.CoveredFields{WholeTransaction: true})
		cs := e.cm.TipState()
		for i := 0; i < t.nForeign; i++ {
			id := types.Hash256(t.v1.SiacoinInputs[i].ParentID)
			sig := e.opk.SignHash(cs.WholeSigHash(t.v1, id, 0, 0, nil))
			t.v1.Signatures = append(t.v1.Signatures, types.TransactionSignature{
				ParentID: id, CoveredFields: types.CoveredFields{WholeTransaction: true}, Signature: sig[:],
			})
		}
	}
}

// numberOutputs gives every output of a transaction that entered the pool the next small ids.
func (s *script) numberOutputs(t *ftxn) {
	e := s.e
	if t.v2 {
		for i, o := range t.v2t.SiacoinOutputs {
			e.assign(t.v2t.EphemeralSiacoinOutput(i).ID, o.Value)
		}
	} else {
		for i, o := range t.v1.SiacoinOutputs {
			e.assign(t.v1.SiacoinOutputID(i), o.Value)
		}
	}
}

func (s *script) bcast(h int, viaWallet bool) {
	e := s.e
	t := e.txns[h]
	name := "bcast"
	if viaWallet {
		name = "wbcast"
	}
	op := fmt.Sprintf("%s %d", name, h)
	s.kinds[name]++
	s.sign(t)
	pv := e.pool()
	_, utxos, err := e.ws.UnspentSiacoinElements()
	must(err)
	conf := map[types.SiacoinOutputID]types.SiacoinElement{}
	for _, u := range utxos {
		conf[u.ID] = u
	}
	// harness's own judgement: are all inputs still unspent and spendable in a block on the tip?
	available, crossVersion := true, false
	for _, id := range t.inputs {
		if pv.spent[id] {
			available = false
		}
		if u, ok := conf[id]; ok {
			if u.MaturityHeight > e.height()+1 {
				available = false
			}
		} else if _, ok := pv.created[id]; ok {
			if pv.v2made[id] != t.v2 {
				crossVersion = true
			}
		} else {
			available = false
		}
	}
	if t.v2 {
		if viaWallet {
			var basis types.ChainIndex
			var set []types.V2Transaction
			basis, set, err = e.v2Set(t.basis, t.v2t)
			if err == nil {
				err = e.w.BroadcastV2TransactionSet(basis, set)
			}
		} else {
			err = e.addV2(t.basis, t.v2t)
		}
	} else {
		err = e.addV1(t.v1)
	}
	if err == nil && !e.inPoolNow(t) {
		// AddV2PoolTransactions drops transactions that were confirmed since their basis and then
		// reports an empty set as known: the observation is whether the transaction is pooled now
		err = fmt.Errorf("not in the pool after submission (already confirmed)")
	}
	if err != nil {
		s.kinds[name+"-err"]++
		s.emit(op, "err")
		if available && !crossVersion {
			s.c.Oracle("funded-txn-rejected", "the pool rejected funded transaction %d although all its inputs are unspent and unreserved: %v", h, err)
		} else if available && crossVersion {
			s.c.Oracle("funded-txn-rejected-cross-version", "the pool rejected funded transaction %d: a v%d transaction was funded with an unconfirmed output of a pooled transaction of the other version: %v", h, map[bool]int{false: 1, true: 2}[t.v2], err)
		}
		return
	}
	if !t.inPool {
		t.inPool = true
		s.numberOutputs(t)
	}
	if viaWallet {
		e.wtx = append(e.wtx, t.v2t)
	}
	s.emit(op, "ok")
}

func (s *script) release(hs []int) {
	e := s.e
	var v1s []types.Transaction
	var v2s []types.V2Transaction
	strs := make([]string, len(hs))
	for i, h := range hs {
		t := e.txns[h]
		strs[i] = fmt.Sprint(h)
		if t.v2 {
			v2s = append(v2s, t.v2t)
		} else {
			v1s = append(v1s, t.v1)
		}
		// releasing any request that shares an input releases that input
		for _, o := range e.txns {
			for _, a := range o.inputs {
				for _, b := range t.inputs {
					if a == b {
						o.released = true
					}
				}
			}
		}
	}
	pv := e.pool()
	e.w.ReleaseInputs(v1s, v2s)
	s.kinds["release"]++
	s.emit("release "+strings.Join(strs, " "), "ok")
	// (O) released inputs that are confirmed, mature and not pool-spent are spendable again
	after := s.spendableSet()
	_, utxos, err := e.ws.UnspentSiacoinElements()
	must(err)
	for _, h := range hs {
		for _, id := range e.txns[h].inputs {
			for _, u := range utxos {
				if u.ID == id && u.MaturityHeight <= e.storeHeight() && !pv.spent[id] && !after[id] {
					s.c.Oracle("release-did-not-unlock", "output %d is still not spendable after ReleaseInputs", e.ids[id])
				}
			}
		}
	}
}

// xspend: a transaction signed with the wallet's key outside this wallet instance spends output n.
func (s *script) xspend(v2 bool, n int, backPermille int) {
	e := s.e
	id := e.byID[n]
	pv := e.pool()
	var value types.Currency
	var parent types.SiacoinElement
	if u, ok := e.storeElement(id); ok {
		value, parent = u.SiacoinOutput.Value, u
	} else if o, ok := pv.created[id]; ok && o.Address == e.addr {
		value = o.Value
		parent = types.SiacoinElement{ID: id, StateElement: types.StateElement{LeafIndex: types.UnassignedLeafIndex}, SiacoinOutput: o}
	} else {
		return // nothing to spend
	}
	back := value.Div64(1000).Mul64(uint64(backPermille))
	rest := value.Sub(back)
	outs := preOuts(e, back, rest)
	ver := 1
	if v2 {
		ver = 2
	}
	op := fmt.Sprintf("xspend %d %d %s %s", ver, n, cur(back), cur(rest))
	t := &ftxn{v2: v2, released: true, inputs: []types.SiacoinOutputID{id}}
	var err error
	if v2 {
		t.v2t = types.V2Transaction{SiacoinInputs: []types.V2SiacoinInput{{Parent: parent}}, SiacoinOutputs: outs, ArbitraryData: e.unique("x")}
		e.signV2(&t.v2t)
	} else {
		t.v1 = types.Transaction{SiacoinInputs: []types.SiacoinInput{{ParentID: id, UnlockConditions: e.uc}}, SiacoinOutputs: outs, ArbitraryData: [][]byte{e.unique("x")}}
		e.signV1(&t.v1)
	}
	if v2 {
		err = e.addV2(e.storeTip(), t.v2t)
	} else {
		err = e.addV1(t.v1)
	}
	s.kinds["xspend"]++
	if err != nil {
		s.kinds["xspend-err"]++
		s.emit(op, "err")
		return
	}
	s.numberOutputs(t)
	s.emit(op, "ok")
}

// lag: k empty blocks are mined on the manager and the wallet is not told.
func (s *script) lag(k int) {
	e := s.e
	if len(e.cm.PoolTransactions())+len(e.cm.V2PoolTransactions()) != 0 {
		return // a block would confirm pooled transactions: that is a `mine`
	}
	for i := 0; i < k; i++ {
		e.mineOne(types.VoidAddress)
		e.next++
	}
	e.lagging += k
	s.kinds["lag"]++
	s.emit(fmt.Sprintf("lag %d", k), "ok")
}

// syncLag: the wallet processes the blocks it is behind.
func (s *script) syncLag() {
	e := s.e
	if e.lagging == 0 {
		return
	}
	e.sync()
	e.lagging = 0
	s.kinds["sync"]++
	s.emit("sync", "ok")
}

func (s *script) mine(toWallet bool) {
	e := s.e
	if e.lagging > 0 {
		s.syncLag()
		s.observe()
	}
	addr := types.VoidAddress
	who := 0
	if toWallet {
		addr, who = e.addr, 1
	}
	b := e.mineOne(addr)
	e.sync()
	if toWallet {
		e.assign(b.ID().MinerOutputID(0), b.MinerPayouts[0].Value)
	} else {
		e.next++
	}
	s.kinds["mine"]++
	s.emit(fmt.Sprintf("mine %d %s", who, cur(b.MinerPayouts[0].Value)), "ok")
	if n := len(e.cm.PoolTransactions()) + len(e.cm.V2PoolTransactions()); n != 0 {
		s.stopped = "pool-not-emptied-by-block"
	}
}

func (s *script) tick() {
	e := s.e
	if e.cfg.dur != 1 || s.kinds["tick"] >= 3 {
		return
	}
	time.Sleep(time.Until(e.lastOpEnd.Add(shortDur + 60*time.Millisecond)))
	e.epochStart = time.Now()
	s.kinds["tick"]++
	s.emit("tick 2", "ok")
	s.checkExpired()
}

// checkExpired (O): the reservation period has passed since the last operation and nothing was
// locked or released since, so no reservation is in force: every unspent, mature output of the
// store that no pooled transaction spends is spendable again — for SpendableOutputs, for Balance
// and for input selection alike.
func (s *script) checkExpired() {
	e := s.e
	_, utxos, err := e.ws.UnspentSiacoinElements()
	must(err)
	pv := e.pool()
	spendable := s.spendableSet()
	var want types.Currency
	for _, u := range utxos {
		if u.MaturityHeight > e.storeHeight() || pv.spent[u.ID] {
			continue
		}
		want = want.Add(u.SiacoinOutput.Value)
		if !spendable[u.ID] {
			s.c.Oracle("expiry-did-not-unlock", "the reservation period has passed, yet output %d is not listed by SpendableOutputs()", e.ids[u.ID])
		}
	}
	bal, err := e.w.Balance()
	must(err)
	if !bal.Spendable.Equals(want) {
		s.c.Oracle("expiry-did-not-unlock", "the reservation period has passed, yet Balance().Spendable = %s while the unspent mature outputs no pooled transaction spends sum to %s", cur(bal.Spendable), cur(want))
	}
}

func (s *script) restart(fresh bool) {
	e := s.e
	e.w.Close()
	k := 0
	if fresh {
		k = 1
		must(e.dbs.Flush())
		dbs, st, err := chainReopen(e)
		must(err)
		e.dbs = dbs
		e.cm = newManager(dbs, st)
	}
	for _, t := range e.txns {
		t.released = true // reservations are in memory only
	}
	e.openWallet()
	s.kinds["restart"]++
	s.emit(fmt.Sprintf("restart %d", k), "ok")
	s.checkReloaded()
}

// checkReloaded (O): right after a restart every transaction of a stored broadcast set that is
// younger than the rebroadcast period and can still be confirmed (every input is an unspent output
// of the chain or the output of a transaction that is pooled again) is in the pool again, whatever
// else the store holds — otherwise Balance, SpendableOutputs and selection would hand its inputs out.
func (s *script) checkReloaded() {
	e := s.e
	_, utxos, err := e.ws.UnspentSiacoinElements()
	must(err)
	conf := map[types.SiacoinOutputID]bool{}
	for _, u := range utxos {
		conf[u.ID] = true
	}
	for _, txn := range e.wtx {
		pv := e.pool()
		ok := true
		for _, in := range txn.SiacoinInputs {
			if in.Parent.SiacoinOutput.Address != e.addr {
				continue
			}
			if _, pooled := pv.created[in.Parent.ID]; !conf[in.Parent.ID] && !(pooled && pv.v2made[in.Parent.ID]) {
				ok = false // confirmed meanwhile, or its parent is gone for good
			}
		}
		if !ok {
			continue
		}
		if _, in := e.cm.V2PoolTransaction(txn.ID()); !in {
			spent := false
			for _, i := range txn.SiacoinInputs {
				spent = spent || pv.spent[i.Parent.ID]
			}
			if spent {
				continue // another pooled transaction took an input first (it cannot have been pooled together with this one)
			}
			s.c.Oracle("restart-set-not-reloaded", "after the restart a transaction of a stored, unexpired broadcast set whose inputs are all unspent is not in the pool (the store holds %d sets); its inputs are handed out again", s.storedSets())
		}
	}
}

func (s *script) storedSets() int {
	sets, err := s.e.ws.BroadcastedSets()
	must(err)
	return len(sets)
}

// stale: the store holds a broadcast set older than the rebroadcast period (the node was down, or
// the set was never cleaned up because no reorg triggered the rebroadcast loop).
func (s *script) stale() {
	e := s.e
	old := wallet.BroadcastedSet{Basis: e.storeTip(), BroadcastedAt: time.Now().Add(-72 * time.Hour),
		Transactions: []types.V2Transaction{{ArbitraryData: e.unique("s")}}}
	must(e.ws.AddBroadcastedSet(old))
	s.kinds["stale"]++
	s.emit("stale", "ok")
}

func (s *script) redistribute(outputs int, amt, fpb types.Currency) {
	e := s.e
	h0 := e.nextH
	op := fmt.Sprintf("redist %d %d %s %s", h0, max(outputs, 0), cur(amt), cur(fpb)) // a negative count behaves like 0
	before := s.spendableSet()
	pv := e.pool()
	born := time.Now()
	basis, txns, toSign, err := e.w.Redistribute(outputs, amt, fpb)
	s.kinds["redist"]++
	if err != nil {
		s.kinds["redist-err"]++
		s.emit(op, "err")
		after := s.spendableSet()
		for id := range before {
			if !after[id] {
				s.c.Oracle("redistribute-failed-but-reserved", "after a failed Redistribute output %d is no longer spendable", e.ids[id])
			}
		}
		return
	}
	if len(txns) == 0 {
		s.emit(op, "none")
		return
	}
	var sb strings.Builder
	sb.WriteString("ok")
	all := map[types.SiacoinOutputID]bool{}
	for i, txn := range txns {
		t := &ftxn{h: e.nextH, v2: true, v2t: txn, basis: basis, toSignV2: toSign[i], born: born}
		e.nextH++
		var outSum types.Currency
		for _, o := range txn.SiacoinOutputs {
			outSum = outSum.Add(o.Value)
			if o.Address != e.addr {
				s.c.Oracle("redistribute-output-address", "an output of a redistribute transaction does not pay the wallet")
			}
		}
		for _, in := range txn.SiacoinInputs {
			t.inputs = append(t.inputs, in.Parent.ID)
			if all[in.Parent.ID] {
				s.c.Oracle("redistribute-duplicate-input", "two redistribute transactions of one call share output %d", e.ids[in.Parent.ID])
			}
			all[in.Parent.ID] = true
		}
		ids, sum := s.checkSelected("redistribute", t.h, t.inputs, false, pv)
		if !sum.Equals(outSum.Add(txn.MinerFee)) {
			s.c.Oracle("redistribute-conservation", "inputs %s ≠ outputs %s + fee %s", cur(sum), cur(outSum), cur(txn.MinerFee))
		}
		nOut := len(txn.SiacoinOutputs)
		last := types.ZeroCurrency
		if nOut > 0 {
			last = txn.SiacoinOutputs[nOut-1].Value
			for _, o := range txn.SiacoinOutputs[:nOut-1] {
				if !o.Value.Equals(amt) {
					s.c.Oracle("redistribute-output-value", "a redistribute output is %s, requested %s", cur(o.Value), cur(amt))
				}
			}
		}
		fmt.Fprintf(&sb, " | in %s n %d last %s f %s", idList(ids), nOut, cur(last), cur(txn.MinerFee))
		e.txns[t.h] = t
	}
	s.emit(op, sb.String())
	var allIn []types.SiacoinOutputID
	for id := range all {
		allIn = append(allIn, id)
	}
	s.checkReservedAreInputs("redistribute", before, allIn)
}

// storeFails: the store refuses the next read (a dependency failing in the middle): whichever
// request is made, it must fail and leave spendable outputs and reservations as they were.
// Nothing is sent to the model: a failed read is not a step of it.
func (s *script) storeFails() {
	e, rng := s.e, s.rng
	before := s.spendableSet()
	bal, err := e.w.Balance()
	must(err)
	amt := bal.Spendable.Div64(2).Add(types.NewCurrency64(1))
	e.ws.failOnce(true)
	var what string
	func() {
		defer func() {
			if r := recover(); r != nil {
				err = nil
				s.c.Oracle("store-failure-panic", "a wallet call panicked when the store failed: %v", r)
			}
		}()
		switch rng.Intn(4) {
		case 0:
			what = "FundTransaction"
			txn := types.Transaction{}
			_, err = e.w.FundTransaction(&txn, amt, rng.Bool())
		case 1:
			what = "FundV2Transaction"
			txn := types.V2Transaction{}
			_, _, err = e.w.FundV2Transaction(&txn, amt, rng.Bool())
		case 2:
			what = "Redistribute"
			_, _, _, err = e.w.Redistribute(2, amt.Div64(3), types.ZeroCurrency)
		default:
			what = "SplitUTXO"
			_, err = e.w.SplitUTXO(2, types.NewCurrency64(1)) // (with DefragThreshold < 2 the argument check fails first)
		}
	}()
	e.ws.failOnce(false)
	s.kinds["storefail"]++
	if err == nil {
		s.c.Oracle("store-failure-ignored", "%s succeeded although the store could not be read", what)
	}
	after := s.spendableSet()
	for id := range before {
		if !after[id] {
			s.c.Oracle("failed-request-reserved", "after %s failed on a store error output %d is no longer spendable", what, e.ids[id])
		}
	}
}

// split calls SplitUTXO; with failPool the chain manager refuses the wallet's next pool insertion
// (the call must then fail and leave everything as it was).
func (s *script) split(n int, min types.Currency, failPool bool) {
	e := s.e
	h := e.nextH
	e.nextH++
	fee := e.w.RecommendedFee()
	name := "split"
	if failPool {
		name = "splitfail"
		e.gate.failOnce(true)
		defer e.gate.failOnce(false)
	}
	op := fmt.Sprintf("%s %d %d %s %s", name, h, max(n, 0), cur(min), cur(fee)) // a negative count behaves like 0
	pv := e.pool()
	before := s.spendableSet()
	born := time.Now()
	txn, err, panicked := func() (txn types.V2Transaction, err error, panicked bool) {
		defer func() {
			if r := recover(); r != nil {
				panicked = true
			}
		}()
		txn, err = e.w.SplitUTXO(n, min)
		return
	}()
	if panicked {
		s.c.Oracle("split-panic", "SplitUTXO(%d, %s) panicked with options %+v", n, cur(min), e.cfg)
		s.emit(op, "panic")
		s.stopped = "panic"
		return
	}
	s.kinds["split"]++
	if err == nil && failPool && len(txn.SiacoinInputs) > 0 {
		s.c.Oracle("split-ignored-pool-failure", "SplitUTXO reported success although the pool refused its transaction")
	}
	if err != nil {
		s.kinds[name+"-err"]++
		s.emit(op, "err")
		after := s.spendableSet()
		for id := range before {
			if !after[id] {
				s.c.Oracle("split-failed-but-reserved", "after a failed SplitUTXO output %d is no longer spendable", e.ids[id])
			}
		}
		return
	}
	if len(txn.SiacoinInputs) == 0 {
		s.emit(op, "none")
		return
	}
	t := &ftxn{h: h, v2: true, v2t: txn, signed: true, inPool: true, born: born, basis: e.cm.Tip()} // SplitUTXO rebased its set to the manager's tip
	for _, in := range txn.SiacoinInputs {
		t.inputs = append(t.inputs, in.Parent.ID)
	}
	ids, sum := s.checkSelected("split", h, t.inputs, true, pv)
	var outSum types.Currency
	for _, o := range txn.SiacoinOutputs {
		outSum = outSum.Add(o.Value)
		if o.Address != e.addr {
			s.c.Oracle("split-output-address", "an output of the split transaction does not pay the wallet")
		}
		if o.Value.Cmp(min) < 0 {
			s.c.Oracle("split-output-small", "a split output is below minAmount")
		}
	}
	if !sum.Equals(outSum.Add(txn.MinerFee)) {
		s.c.Oracle("split-conservation", "input %s ≠ outputs %s + fee %s", cur(sum), cur(outSum), cur(txn.MinerFee))
	}
	found := false
	for _, p := range e.cm.V2PoolTransactions() {
		if p.ID() == txn.ID() {
			found = true
		}
	}
	if !found {
		s.c.Oracle("split-not-in-pool", "SplitUTXO returned a transaction that is not in the pool")
	}
	s.numberOutputs(t)
	e.txns[h] = t
	e.wtx = append(e.wtx, txn)
	s.checkReservedAreInputs("split", before, t.inputs)
	nOut := len(txn.SiacoinOutputs)
	s.emit(op, fmt.Sprintf("ok in %s n %d per %s last %s f %s", idList(ids), nOut, cur(txn.SiacoinOutputs[0].Value), cur(txn.SiacoinOutputs[nOut-1].Value), cur(txn.MinerFee)))
}
