package c07

import (
	"fmt"
	"sync"
	"sync/atomic"
	"time"

	"go.sia.tech/core/types"
	"verifharness/vh"
)

// one request issued by a goroutine of a concurrent script
type creq struct {
	g        int
	t        *ftxn
	amt      types.Currency
	uc       bool
	kind     string // fund1 fund2 redist
	retSeq   int64  // global sequence number taken right after the call returned
	relSeq   int64  // taken right before ReleaseInputs was called (max = never released)
	tipAfter uint64
}

const never = int64(1) << 62

// runConcurrent: goroutines call Fund / FundV2 / Redistribute / ReleaseInputs / Balance /
// SpendableOutputs concurrently while another goroutine mines and syncs.  Oracle only.
func runConcurrent(name string, seed uint64) *vh.Case {
	rng := vh.NewRNG(seed)
	cfg := randConfig(rng, false)
	cfg.dur = longDur
	delay := uint64(1 + rng.Intn(3))
	var keySeed [32]byte
	rng.Bytes(keySeed[:])
	e := newEnv(keySeed[:], cfg, delay)
	defer e.close()
	c := &vh.Case{Name: name, Nontrivial: true}
	decl := e.setup(rng)
	c.Info = map[string]any{"seed": seed, "config": fmt.Sprintf("%+v", cfg), "utxos": len(decl)}

	G := 3 + rng.Intn(6)
	K := 3 + rng.Intn(5)
	bal, err := e.w.Balance()
	must(err)
	var seq int64
	var mu sync.Mutex
	var reqs []*creq
	var panics []string
	var wg sync.WaitGroup
	var chainMu sync.Mutex // the store's UpdateChainState and our sync loop are one writer
	forks := make([]*vh.RNG, G)
	for g := range forks {
		forks[g] = rng.Fork()
	}
	nBlocks := rng.Intn(4)
	for g := 0; g < G; g++ {
		wg.Add(1)
		go func(g int) {
			defer wg.Done()
			defer func() {
				if r := recover(); r != nil {
					mu.Lock()
					panics = append(panics, fmt.Sprintf("goroutine %d: %v", g, r))
					mu.Unlock()
				}
			}()
			rng := forks[g]
			var mine []*creq
			for k := 0; k < K; k++ {
				switch r := rng.Intn(10); {
				case r < 6:
					v2 := rng.Bool()
					amt := bal.Spendable.Div64(uint64(G*2 + rng.Intn(4*G)))
					if rng.Chance(1, 10) {
						amt = bal.Spendable
					}
					amt = amt.Add(types.NewCurrency64(uint64(rng.Intn(5))))
					uc := rng.Chance(1, 5)
					q := &creq{g: g, amt: amt, uc: uc, relSeq: never, t: &ftxn{v2: v2}}
					pre := preOuts(e, types.ZeroCurrency, amt)
					var err error
					if v2 {
						q.kind = "fund2"
						q.t.v2t = types.V2Transaction{SiacoinOutputs: pre}
						q.t.basis, q.t.toSignV2, err = e.w.FundV2Transaction(&q.t.v2t, amt, uc)
						for _, in := range q.t.v2t.SiacoinInputs {
							q.t.inputs = append(q.t.inputs, in.Parent.ID)
						}
					} else {
						q.kind = "fund1"
						q.t.v1 = types.Transaction{SiacoinOutputs: pre}
						q.t.toSign, err = e.w.FundTransaction(&q.t.v1, amt, uc)
						for _, in := range q.t.v1.SiacoinInputs {
							q.t.inputs = append(q.t.inputs, in.ParentID)
						}
					}
					q.retSeq = atomic.AddInt64(&seq, 1)
					q.tipAfter = e.cm.Tip().Height
					if err == nil && !amt.IsZero() {
						mine = append(mine, q)
						mu.Lock()
						reqs = append(reqs, q)
						mu.Unlock()
					}
				case r < 7:
					amt := bal.Spendable.Div64(uint64(10 * G)).Add(types.NewCurrency64(1))
					basis, txns, toSign, err := e.w.Redistribute(1+rng.Intn(3), amt, types.ZeroCurrency)
					ret := atomic.AddInt64(&seq, 1)
					tip := e.cm.Tip().Height
					if err == nil {
						for i, txn := range txns {
							q := &creq{g: g, kind: "redist", relSeq: never, retSeq: ret, tipAfter: tip, t: &ftxn{v2: true, v2t: txn, basis: basis, toSignV2: toSign[i]}}
							for _, in := range txn.SiacoinInputs {
								q.t.inputs = append(q.t.inputs, in.Parent.ID)
							}
							mine = append(mine, q)
							mu.Lock()
							reqs = append(reqs, q)
							mu.Unlock()
						}
					}
				case r < 9:
					if len(mine) > 0 {
						i := rng.Intn(len(mine))
						q := mine[i]
						mine = append(mine[:i], mine[i+1:]...)
						q.relSeq = atomic.AddInt64(&seq, 1)
						if q.t.v2 {
							e.w.ReleaseInputs(nil, []types.V2Transaction{q.t.v2t})
						} else {
							e.w.ReleaseInputs([]types.Transaction{q.t.v1}, nil)
						}
					}
				default:
					e.w.Balance()
					e.w.SpendableOutputs()
				}
			}
		}(g)
	}
	wg.Add(1)
	go func() {
		defer wg.Done()
		for i := 0; i < nBlocks; i++ {
			time.Sleep(time.Duration(50+rng.Intn(200)) * time.Microsecond)
			chainMu.Lock()
			addr := types.VoidAddress
			if i%2 == 0 {
				addr = e.addr
			}
			e.mineOne(addr)
			e.sync()
			chainMu.Unlock()
		}
	}()
	wg.Wait()

	// ---- oracle ----
	for _, p := range panics {
		c.Oracle("conc-panic", "a wallet method panicked with options %+v: %s", cfg, p)
	}
	_, utxos, err := e.ws.UnspentSiacoinElements()
	must(err)
	conf := map[types.SiacoinOutputID]types.SiacoinElement{}
	for _, u := range utxos {
		conf[u.ID] = u
	}
	nOK := 0
	for _, q := range reqs {
		nOK++
		seen := map[types.SiacoinOutputID]bool{}
		var sum types.Currency
		for _, id := range q.t.inputs {
			if seen[id] {
				c.Oracle("conc-duplicate-input", "%s of goroutine %d returned the same output twice", q.kind, q.g)
			}
			seen[id] = true
			u, ok := conf[id]
			if !ok {
				c.Oracle("conc-input-not-unspent", "%s of goroutine %d selected an output that is not an unspent output of the wallet", q.kind, q.g)
				continue
			}
			sum = sum.Add(u.SiacoinOutput.Value)
			if u.MaturityHeight > q.tipAfter {
				c.Oracle("conc-input-immature", "%s of goroutine %d selected an output maturing at %d, tip was at most %d", q.kind, q.g, u.MaturityHeight, q.tipAfter)
			}
		}
		var outSum, fee types.Currency
		if q.t.v2 {
			for _, o := range q.t.v2t.SiacoinOutputs {
				outSum = outSum.Add(o.Value)
			}
			fee = q.t.v2t.MinerFee
		} else {
			for _, o := range q.t.v1.SiacoinOutputs {
				outSum = outSum.Add(o.Value)
			}
		}
		if !sum.Equals(outSum.Add(fee)) {
			c.Oracle("conc-conservation", "%s of goroutine %d: inputs %s ≠ outputs %s + fee %s", q.kind, q.g, cur(sum), cur(outSum), cur(fee))
		}
	}
	for i, a := range reqs {
		for _, b := range reqs[i+1:] {
			// both reservations were held at one instant iff the lifetimes [ret, rel) overlap
			if a.retSeq < b.relSeq && b.retSeq < a.relSeq {
				for _, x := range a.t.inputs {
					for _, y := range b.t.inputs {
						if x == y {
							c.Oracle("conc-shared-input", "two simultaneously outstanding requests (%s of goroutine %d, %s of goroutine %d) share an input", a.kind, a.g, b.kind, b.g)
						}
					}
				}
			}
		}
	}
	// every request still outstanding is signed and must be accepted by the pool
	s := &script{e: e, c: c, rng: rng, kinds: map[string]int{}}
	nSub := 0
	for _, q := range reqs {
		if q.relSeq != never {
			continue
		}
		s.sign(q.t)
		var err error
		if q.t.v2 {
			err = e.addV2(q.t.basis, q.t.v2t)
		} else {
			err = e.addV1(q.t.v1)
		}
		nSub++
		if err != nil {
			c.Oracle("conc-funded-txn-rejected", "the pool rejected an outstanding %s transaction of goroutine %d: %v", q.kind, q.g, err)
		}
	}
	// after confirming them and releasing everything no reservation may be left behind
	e.mineOne(types.VoidAddress)
	e.sync()
	var v1s []types.Transaction
	var v2s []types.V2Transaction
	for _, q := range reqs {
		if q.t.v2 {
			v2s = append(v2s, q.t.v2t)
		} else {
			v1s = append(v1s, q.t.v1)
		}
	}
	e.w.ReleaseInputs(v1s, v2s)
	_, utxos, err = e.ws.UnspentSiacoinElements()
	must(err)
	var mature types.Currency
	for _, u := range utxos {
		if u.MaturityHeight <= e.height() {
			mature = mature.Add(u.SiacoinOutput.Value)
		}
	}
	b2, err := e.w.Balance()
	must(err)
	if !b2.Spendable.Equals(mature) {
		c.Oracle("conc-reservation-leaked", "after releasing every request Balance().Spendable = %s but the mature unspent outputs sum to %s", cur(b2.Spendable), cur(mature))
	}
	c.Tags = []string{fmt.Sprintf("conc-goroutines:%d", G), "kind:concurrent"}
	c.Key = fmt.Sprintf("conc %d", seed)
	c.Info["requests_ok"] = nOK
	c.Info["submitted"] = nSub
	return c
}
