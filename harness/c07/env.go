// Package c07: wallet funding never double-allocates, conserves value and yields valid spends.
//
// A real wallet.SingleAddressWallet on a real chain.Manager (MemDB store, test network in which v1
// and v2 transactions are both valid) is driven through scripts of FundTransaction,
// FundV2Transaction, Redistribute, SplitUTXO, ReleaseInputs, broadcasts, external spends with the
// same key, mined blocks, clock ticks and restarts.  Sequential scripts are compared line by line
// with the Lean model `Verif.Funding` (T); every script is also checked directly against the
// property (O): inputs owned / mature / unspent / not pool-spent / not reserved by another
// outstanding request, pairwise disjointness, conservation, failed requests reserve nothing, pool
// acceptance of the signed result, agreement of Balance / SpendableOutputs / selection.
package c07

import (
	"errors"
	"fmt"
	"sort"
	"strings"
	"sync"
	"time"
	"verifharness/minex"

	"go.sia.tech/core/consensus"
	"go.sia.tech/core/types"
	"go.sia.tech/coreutils/chain"
	"go.sia.tech/coreutils/testutil"
	"go.sia.tech/coreutils/wallet"
)

// orderedStore is the reference store with a deterministic element order: the order of the
// slice UnspentSiacoinElements returns is the store's choice (the reference store iterates a Go
// map); the harness fixes it to ascending harness id so that the model can be given the same list.
type orderedStore struct {
	*testutil.EphemeralWalletStore
	mu   sync.Mutex
	rank map[types.SiacoinOutputID]int
	failNext bool // the next UnspentSiacoinElements fails
}

func (s *orderedStore) setRank(id types.SiacoinOutputID, r int) {
	s.mu.Lock()
	s.rank[id] = r
	s.mu.Unlock()
}

func (s *orderedStore) rankOf(id types.SiacoinOutputID) (int, bool) {
	s.mu.Lock()
	defer s.mu.Unlock()
	r, ok := s.rank[id]
	return r, ok
}

func (s *orderedStore) failOnce(on bool) {
	s.mu.Lock()
	s.failNext = on
	s.mu.Unlock()
}

func (s *orderedStore) UnspentSiacoinElements() (types.ChainIndex, []types.SiacoinElement, error) {
	s.mu.Lock()
	fail := s.failNext
	s.failNext = false
	s.mu.Unlock()
	if fail {
		return types.ChainIndex{}, nil, errors.New("injected: the store is not reachable")
	}
	tip, utxos, err := s.EphemeralWalletStore.UnspentSiacoinElements()
	if err != nil {
		return tip, utxos, err
	}
	s.mu.Lock()
	defer s.mu.Unlock()
	sort.SliceStable(utxos, func(i, j int) bool {
		ri, oki := s.rank[utxos[i].ID]
		rj, okj := s.rank[utxos[j].ID]
		if oki != okj {
			return oki
		}
		if !oki {
			return utxos[i].ID.String() < utxos[j].ID.String()
		}
		return ri < rj
	})
	return tip, utxos, nil
}

type config struct {
	thr, maxIn, maxDefrag int
	dur                   int // model duration: 0 (= 1ns), 1 (= shortDur), longDur
}

const (
	longDur  = 1000000
	shortDur = 2 * time.Second
	// operations of one clock epoch must finish within this window for a short-duration case to be conclusive
	epochBudget = 1200 * time.Millisecond
)

func (c config) realDur() time.Duration {
	switch c.dur {
	case 0:
		return time.Nanosecond
	case 1:
		return shortDur
	}
	return 3 * time.Hour
}

// a transaction handed out by the wallet
type ftxn struct {
	h        int
	v2       bool
	v1       types.Transaction
	v2t      types.V2Transaction
	basis    types.ChainIndex
	toSign   []types.Hash256
	toSignV2 []int
	inputs   []types.SiacoinOutputID // the inputs the wallet added
	nForeign int                     // inputs of the other party that were in the transaction before
	signed   bool
	inPool   bool
	released bool
	born     time.Time
}

type env struct {
	net     *consensus.Network
	genesis types.Block
	db      *chain.MemDB
	dbs     *chain.DBStore
	cm      *chain.Manager
	pk      types.PrivateKey
	addr    types.Address
	uc      types.UnlockConditions
	policy  types.SpendPolicy
	ws      *orderedStore
	w       *wallet.SingleAddressWallet
	// a second party whose outputs serve as the inputs a caller put into a transaction before funding it
	opk   types.PrivateKey
	oaddr types.Address
	ouc   types.UnlockConditions
	ows   *testutil.EphemeralWalletStore
	ow    *wallet.SingleAddressWallet
	oused map[types.SiacoinOutputID]bool
	cfg   config
	delay uint64

	next    int // next small output id
	ids     map[types.SiacoinOutputID]int
	byID    map[int]types.SiacoinOutputID
	values  map[types.SiacoinOutputID]types.Currency
	txns    map[int]*ftxn
	uniq    int
	wtx     []types.V2Transaction // transactions broadcast through the wallet (their sets are in the store)
	gate    *gate // lets a script hold one pool insertion of the wallet (see gated.go)
	lagging int   // empty blocks the manager has and the wallet's store has not processed yet
	nextH   int

	epochStart time.Time
	lastOpEnd  time.Time
}

func must(err error) {
	if err != nil {
		panic(err)
	}
}

func newEnv(seed []byte, cfg config, delay uint64) *env {
	e := &env{cfg: cfg, delay: delay, ids: map[types.SiacoinOutputID]int{}, byID: map[int]types.SiacoinOutputID{},
		values: map[types.SiacoinOutputID]types.Currency{}, txns: map[int]*ftxn{}, next: 1}
	e.net, e.genesis = testutil.Network()
	e.net.MaturityDelay = delay
	// both transaction versions are valid from height 2 on
	e.net.HardforkV2.AllowHeight = 2
	e.net.HardforkV2.RequireHeight = 1 << 30
	e.net.HardforkV2.FinalCutHeight = 1<<30 + 1
	e.db = chain.NewMemDB()
	dbs, st, err := chain.NewDBStore(e.db, e.net, e.genesis, nil)
	must(err)
	e.dbs = dbs
	e.cm = chain.NewManager(dbs, st)
	e.pk = types.NewPrivateKeyFromSeed(seed)
	e.uc = types.StandardUnlockConditions(e.pk.PublicKey())
	e.addr = e.uc.UnlockHash()
	e.policy = types.SpendPolicy{Type: types.PolicyTypeUnlockConditions(e.uc)}
	e.gate = &gate{}
	e.ws = &orderedStore{EphemeralWalletStore: testutil.NewEphemeralWalletStore(), rank: map[types.SiacoinOutputID]int{}}
	oseed := append([]byte("other party "), seed...)
	e.opk = types.NewPrivateKeyFromSeed(oseed[:32])
	e.ouc = types.StandardUnlockConditions(e.opk.PublicKey())
	e.oaddr = e.ouc.UnlockHash()
	e.ows = testutil.NewEphemeralWalletStore()
	e.oused = map[types.SiacoinOutputID]bool{}
	e.openWallet()
	return e
}

func (e *env) openWallet() {
	w, err := wallet.NewSingleAddressWallet(e.pk, &gatedCM{Manager: e.cm, g: e.gate}, e.ws, &testutil.MockSyncer{},
		wallet.WithDefragThreshold(e.cfg.thr), wallet.WithMaxInputsForDefrag(e.cfg.maxIn), wallet.WithMaxDefragUTXOs(e.cfg.maxDefrag),
		wallet.WithReservationDuration(e.cfg.realDur()), wallet.WithDebounceInterval(24*time.Hour))
	must(err)
	e.w = w
	e.epochStart = time.Now()
	if e.ow != nil {
		e.ow.Close()
	}
	e.ow, err = wallet.NewSingleAddressWallet(e.opk, e.cm, e.ows, &testutil.MockSyncer{}, wallet.WithDebounceInterval(24*time.Hour))
	must(err)
}

func (e *env) close() {
	if e.w != nil {
		e.w.Close()
	}
	if e.ow != nil {
		e.ow.Close()
	}
}

func (e *env) sync() {
	for {
		tip, err := e.ws.Tip()
		must(err)
		if tip == e.cm.Tip() {
			return
		}
		reverted, applied, err := e.cm.UpdatesSince(tip, 1000)
		must(err)
		must(e.ws.UpdateChainState(func(tx wallet.UpdateTx) error {
			return e.w.UpdateChainState(tx, reverted, applied)
		}))
	}
	for {
		tip, err := e.ows.Tip()
		must(err)
		if tip == e.cm.Tip() {
			return
		}
		reverted, applied, err := e.cm.UpdatesSince(tip, 1000)
		must(err)
		must(e.ows.UpdateChainState(func(tx wallet.UpdateTx) error {
			return e.ow.UpdateChainState(tx, reverted, applied)
		}))
	}
}

// foreign returns up to n unspent outputs of the other party that no transaction of this case used yet.
func (e *env) foreign(n int) (out []types.SiacoinElement) {
	if n == 0 {
		return nil
	}
	_, utxos, err := e.ows.UnspentSiacoinElements()
	must(err)
	sort.Slice(utxos, func(i, j int) bool { return utxos[i].SiacoinOutput.Value.Cmp(utxos[j].SiacoinOutput.Value) < 0 })
	for _, u := range utxos {
		if len(out) < n && !e.oused[u.ID] && u.MaturityHeight <= e.height() {
			e.oused[u.ID] = true
			out = append(out, u)
		}
	}
	return
}

// mineOne mines one block on the tip paying addr and returns it.
func (e *env) mineOne(addr types.Address) types.Block {
	b, ok := minex.MineBlock(e.cm, addr)
	if !ok {
		panic("could not mine a block")
	}
	must(e.cm.AddBlocks([]types.Block{b}))
	return b
}

func (e *env) assign(id types.SiacoinOutputID, v types.Currency) int {
	if n, ok := e.ids[id]; ok {
		return n
	}
	n := e.next
	e.next++
	e.ids[id] = n
	e.byID[n] = id
	e.values[id] = v
	e.ws.setRank(id, n)
	return n
}

func (e *env) height() uint64 { return e.cm.Tip().Height }

// storeElement returns the wallet's confirmed element with the given id (with its current proof).
func (e *env) storeElement(id types.SiacoinOutputID) (types.SiacoinElement, bool) {
	_, utxos, err := e.ws.UnspentSiacoinElements()
	must(err)
	for _, u := range utxos {
		if u.ID == id {
			return u, true
		}
	}
	return types.SiacoinElement{}, false
}

// poolView is the harness's own reading of the manager's pool.
type poolView struct {
	spent   map[types.SiacoinOutputID]bool
	created map[types.SiacoinOutputID]types.SiacoinOutput // outputs created by pooled transactions (any address)
	v2made  map[types.SiacoinOutputID]bool
}

func (e *env) pool() poolView {
	pv := poolView{spent: map[types.SiacoinOutputID]bool{}, created: map[types.SiacoinOutputID]types.SiacoinOutput{}, v2made: map[types.SiacoinOutputID]bool{}}
	for _, txn := range e.cm.PoolTransactions() {
		for _, in := range txn.SiacoinInputs {
			pv.spent[in.ParentID] = true
		}
		for i, o := range txn.SiacoinOutputs {
			pv.created[txn.SiacoinOutputID(i)] = o
		}
	}
	for _, txn := range e.cm.V2PoolTransactions() {
		for _, in := range txn.SiacoinInputs {
			pv.spent[in.Parent.ID] = true
		}
		for i, o := range txn.SiacoinOutputs {
			id := txn.EphemeralSiacoinOutput(i).ID
			pv.created[id] = o
			pv.v2made[id] = true
		}
	}
	return pv
}

func cur(c types.Currency) string { return c.ExactString() }

func idList(ids []int) string {
	s := make([]string, len(ids))
	for i, n := range ids {
		s[i] = fmt.Sprint(n)
	}
	return strings.Join(s, " ")
}

// signV2 signs every input of a harness-made v2 transaction with the wallet key.
func (e *env) signV2(txn *types.V2Transaction) {
	h := e.cm.TipState().InputSigHash(*txn)
	for i := range txn.SiacoinInputs {
		txn.SiacoinInputs[i].SatisfiedPolicy = types.SatisfiedPolicy{Policy: e.policy, Signatures: []types.Signature{e.pk.SignHash(h)}}
	}
}

func (e *env) signV1(txn *types.Transaction) {
	cs := e.cm.TipState()
	for _, in := range txn.SiacoinInputs {
		sig := e.pk.SignHash(cs.WholeSigHash(*txn, types.Hash256(in.ParentID), 0, 0, nil))
		txn.Signatures = append(txn.Signatures, types.TransactionSignature{
			ParentID: types.Hash256(in.ParentID), CoveredFields: types.CoveredFields{WholeTransaction: true}, Signature: sig[:],
		})
	}
}

// addV1 / addV2 submit a transaction (with its unconfirmed parents) to the manager's pool.
func (e *env) addV1(txn types.Transaction) (err error) {
	defer func() { // UnconfirmedParents shares the mixed parent map (see v2Set)
		if r := recover(); r != nil {
			err = fmt.Errorf("manager panicked: %v", r)
		}
	}()
	set := append(e.cm.UnconfirmedParents(txn), txn)
	_, err = e.cm.AddPoolTransactions(set)
	return err
}

// v2Set wraps Manager.V2TransactionSet.  The manager's parent map also holds the outputs of v1 pool
// transactions with indices into the v1 list (manager.go computeParentMap), so asking for the set of
// a v2 transaction that spends a v1-created unconfirmed output can panic; that is the manager's
// affair (reported there), here it counts as a rejection.
func (e *env) v2Set(basis types.ChainIndex, txn types.V2Transaction) (b types.ChainIndex, set []types.V2Transaction, err error) {
	defer func() {
		if r := recover(); r != nil {
			err = fmt.Errorf("manager panicked: %v", r)
		}
	}()
	return e.cm.V2TransactionSet(basis, txn)
}

func (e *env) addV2(basis types.ChainIndex, txn types.V2Transaction) error {
	basis, set, err := e.v2Set(basis, txn)
	if err != nil {
		return err
	}
	_, err = e.cm.AddV2PoolTransactions(basis, set)
	return err
}

func timeSince(t time.Time) time.Duration { return time.Since(t) }

func (e *env) inPoolNow(t *ftxn) bool {
	if t.v2 {
		_, ok := e.cm.V2PoolTransaction(t.v2t.ID())
		return ok
	}
	_, ok := e.cm.PoolTransaction(t.v1.ID())
	return ok
}

// unique returns arbitrary data that makes every transaction the harness builds distinct (two
// transactions with the same inputs and outputs would otherwise be one transaction to the pool).
func (e *env) unique(tag string) []byte {
	e.uniq++
	return []byte(fmt.Sprintf("%s%06d", tag, e.uniq))
}

// storeHeight is the height the wallet has scanned to (the manager may be ahead).
func (e *env) storeHeight() uint64 {
	tip, err := e.ws.Tip()
	must(err)
	return tip.Height
}

// storeTip is the basis of the elements the store hands out.
func (e *env) storeTip() types.ChainIndex {
	tip, err := e.ws.Tip()
	must(err)
	return tip
}
