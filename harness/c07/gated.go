package c07

import (
	"errors"
	"fmt"
	"sync"
	"time"

	"go.sia.tech/core/types"
	"go.sia.tech/coreutils/chain"
	"verifharness/vh"
)

// gate lets a script hold the wallet's next AddV2PoolTransactions call for a moment: the chain
// manager the wallet talks to is a real *chain.Manager behind a wrapper whose pool insertion can be
// paused once.  Nothing else of the manager is changed.
type gate struct {
	mu      sync.Mutex
	failNext bool // the next AddV2PoolTransactions of the wallet fails (a dependency failing in the middle)
	armed   bool
	entered chan struct{}
	release chan struct{}
}

func (g *gate) failOnce(on bool) {
	g.mu.Lock()
	g.failNext = on
	g.mu.Unlock()
}

func (g *gate) arm() {
	g.mu.Lock()
	g.armed, g.entered, g.release = true, make(chan struct{}), make(chan struct{})
	g.mu.Unlock()
}

type gatedCM struct {
	*chain.Manager
	g *gate
}

func (c *gatedCM) AddV2PoolTransactions(basis types.ChainIndex, txns []types.V2Transaction) (bool, error) {
	if g := c.g; g != nil {
		g.mu.Lock()
		hold, fail := g.armed, g.failNext
		g.armed, g.failNext = false, false
		entered, release := g.entered, g.release
		g.mu.Unlock()
		if fail {
			return false, errors.New("injected: the pool is not reachable")
		}
		if hold {
			close(entered)
			select {
			case <-release:
			case <-time.After(10 * time.Second):
			}
		}
	}
	return c.Manager.AddV2PoolTransactions(basis, txns)
}

// runGated: SplitUTXO is held at the moment it hands its transaction to the pool; meanwhile a
// second request (Fund / FundV2 / Redistribute / SplitUTXO) asks for everything the wallet has.
// SplitUTXO is one critical section, so the second request must not be able to pick the output
// being split: whatever the schedule, two outstanding requests share no input and every
// outstanding transaction is accepted by the pool.  Oracle only.
func runGated(name string, seed uint64) *vh.Case {
	rng := vh.NewRNG(seed)
	cfg := randConfig(rng, false)
	cfg.dur, cfg.thr = longDur, 30
	delay := uint64(1 + rng.Intn(3))
	var keySeed [32]byte
	rng.Bytes(keySeed[:])
	e := newEnv(keySeed[:], cfg, delay)
	defer e.close()
	c := &vh.Case{Name: name, Nontrivial: true, Key: fmt.Sprintf("gated %d", seed)}
	e.setup(rng)
	// one large mature output to split
	e.mineOne(e.addr)
	for i := uint64(0); i <= delay; i++ {
		e.mineOne(types.VoidAddress)
	}
	e.sync()
	sp, err := e.w.SpendableOutputs()
	must(err)
	bal, err := e.w.Balance()
	must(err)
	min := types.Siacoins(100000)
	above := 0
	for _, u := range sp {
		if u.SiacoinOutput.Value.Cmp(min) >= 0 {
			above++
		}
	}
	values := map[types.SiacoinOutputID]types.Currency{}
	for _, u := range sp {
		values[u.ID] = u.SiacoinOutput.Value
	}

	type result struct {
		kind   string
		inputs []types.SiacoinOutputID
		v1     *types.Transaction
		v2     *types.V2Transaction
		basis  types.ChainIndex
		sign   func()
		err    error
		inPool bool
	}
	e.gate.arm()
	splitDone := make(chan result, 1)
	go func() {
		r := result{kind: "SplitUTXO", inPool: true}
		defer func() {
			if p := recover(); p != nil {
				r.err = fmt.Errorf("panic: %v", p)
			}
			splitDone <- r
		}()
		txn, err := e.w.SplitUTXO(above+1, min)
		r.err = err
		if err == nil && len(txn.SiacoinInputs) > 0 {
			r.v2 = &txn
			for _, in := range txn.SiacoinInputs {
				r.inputs = append(r.inputs, in.Parent.ID)
			}
		}
	}()
	select {
	case <-e.gate.entered:
	case r := <-splitDone:
		// the split did not reach the pool (nothing to split): not the scenario
		c.Info = map[string]any{"seed": seed, "split": fmt.Sprint(r.err)}
		c.Nontrivial = false
		c.Tags = []string{"kind:gated", "gated:split-not-reached"}
		return c
	}
	// the second request, issued while the split transaction is on its way into the pool
	secondDone := make(chan result, 1)
	which := rng.Intn(4)
	go func() {
		var r result
		defer func() {
			if p := recover(); p != nil {
				r.err = fmt.Errorf("panic: %v", p)
			}
			secondDone <- r
		}()
		amt := bal.Spendable
		switch which {
		case 0:
			r.kind = "FundV2Transaction"
			txn := types.V2Transaction{SiacoinOutputs: []types.SiacoinOutput{{Address: types.VoidAddress, Value: amt}}}
			var toSign []int
			r.basis, toSign, r.err = e.w.FundV2Transaction(&txn, amt, false)
			r.v2 = &txn
			r.sign = func() { e.w.SignV2Inputs(r.v2, toSign) }
		case 1:
			r.kind = "FundTransaction"
			txn := types.Transaction{SiacoinOutputs: []types.SiacoinOutput{{Address: types.VoidAddress, Value: amt}}}
			var toSign []types.Hash256
			toSign, r.err = e.w.FundTransaction(&txn, amt, false)
			r.v1 = &txn
			r.sign = func() { e.w.SignTransaction(r.v1, toSign, types.CoveredFields{WholeTransaction: true}) }
		case 2:
			r.kind = "Redistribute"
			var txns []types.V2Transaction
			var toSign [][]int
			r.basis, txns, toSign, r.err = e.w.Redistribute(2, amt.Div64(3), types.ZeroCurrency)
			if r.err == nil && len(txns) > 0 {
				r.v2 = &txns[0]
				r.sign = func() { e.w.SignV2Inputs(r.v2, toSign[0]) }
			} else if r.err == nil {
				r.err = fmt.Errorf("nothing to redistribute")
			}
		default:
			r.kind = "SplitUTXO(second)"
			r.inPool = true
			txn, err := e.w.SplitUTXO(above+1, min)
			r.err = err
			if err == nil && len(txn.SiacoinInputs) > 0 {
				r.v2 = &txn
			} else if err == nil {
				r.err = fmt.Errorf("nothing to split")
			}
		}
		if r.err == nil {
			if r.v2 != nil {
				for _, in := range r.v2.SiacoinInputs {
					r.inputs = append(r.inputs, in.Parent.ID)
				}
			} else {
				for _, in := range r.v1.SiacoinInputs {
					r.inputs = append(r.inputs, in.ParentID)
				}
			}
		}
	}()
	var second result
	secondFirst := false
	select {
	case second = <-secondDone:
		secondFirst = true // it got through while SplitUTXO was still inside its call
	case <-time.After(120 * time.Millisecond):
	}
	close(e.gate.release)
	split := <-splitDone
	if !secondFirst {
		second = <-secondDone
	}
	// ---- oracle ----
	if split.err == nil && second.err == nil {
		for _, a := range split.inputs {
			for _, b := range second.inputs {
				if a == b {
					c.Oracle("conc-shared-input", "SplitUTXO and a concurrent %s (returned while the split transaction was being handed to the pool: %v) both use output worth %s; neither was released", second.kind, secondFirst, cur(values[a]))
				}
			}
		}
	}
	if split.err == nil && len(split.inputs) > 0 {
		if _, ok := e.cm.V2PoolTransaction(split.v2.ID()); !ok {
			c.Oracle("split-not-in-pool", "SplitUTXO returned a transaction that is not in the pool")
		}
	}
	if second.err == nil && !second.inPool {
		second.sign()
		var err error
		if second.v2 != nil {
			err = e.addV2(second.basis, *second.v2)
		} else {
			err = e.addV1(*second.v1)
		}
		if err != nil {
			c.Oracle("conc-funded-txn-rejected", "the pool rejected the transaction of the %s issued during SplitUTXO: %v", second.kind, err)
		}
	}
	c.Tags = []string{"kind:gated", "gated-second:" + second.kind, fmt.Sprintf("gated-second-returned-first:%v", secondFirst), fmt.Sprintf("gated-second-ok:%v", second.err == nil)}
	c.Info = map[string]any{"seed": seed, "split_err": fmt.Sprint(split.err), "second": second.kind, "second_err": fmt.Sprint(second.err)}
	return c
}
