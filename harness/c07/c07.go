package c07

import (
	"fmt"
	"runtime"
	"sort"
	"sync"

	"go.sia.tech/core/consensus"
	"go.sia.tech/core/types"
	"go.sia.tech/coreutils/chain"
	"verifharness/vh"
)

func init() { vh.Register("C07", Run) }

func chainReopen(e *env) (*chain.DBStore, consensus.State, error) {
	return chain.NewDBStore(e.db, e.net, e.genesis, nil)
}

func newManager(dbs *chain.DBStore, st consensus.State) *chain.Manager { return chain.NewManager(dbs, st) }

var (
	// negative values are accepted by the option functions; they behave like 0
	thrChoices       = []int{-2, 0, 1, 2, 3, 5, 30}
	maxInChoices     = []int{-1, 0, 1, 2, 3, 4, 6, 9, 30}
	maxDefragChoices = []int{-3, -1, 0, 1, 2, 3, 10}
)

func randConfig(rng *vh.RNG, allowShort bool) config {
	c := config{thr: thrChoices[rng.Intn(len(thrChoices))], maxIn: maxInChoices[rng.Intn(len(maxInChoices))],
		maxDefrag: maxDefragChoices[rng.Intn(len(maxDefragChoices))], dur: longDur}
	switch r := rng.Intn(10); {
	case r == 0:
		c.dur = 0
	}
	if allowShort {
		c.dur = 1
	}
	return c
}

// setup builds a random wallet state on a fresh chain and returns the `utxo` declarations.
func (e *env) setup(rng *vh.RNG) (decl []string) {
	// height 1: a reward for the wallet; then let it mature
	e.mineOne(e.addr)
	for i := uint64(0); i < e.delay+1; i++ {
		e.mineOne(types.VoidAddress)
	}
	e.sync()
	_, utxos, err := e.ws.UnspentSiacoinElements()
	must(err)
	reward := utxos[0]
	// split the reward into n outputs of distinct values (the rest is burnt)
	n := []int{0, 1, 2, 3, 4, 5, 6, 7, 8, 9, 10, 12}[rng.Intn(12)]
	used := map[int]bool{}
	var outs []types.SiacoinOutput
	var sum types.Currency
	for len(outs) < n {
		sc := 1 + rng.Intn(3000)
		if used[sc] {
			continue
		}
		used[sc] = true
		v := types.Siacoins(uint32(sc))
		if rng.Chance(1, 2) {
			v = v.Add(types.NewCurrency64(uint64(rng.Intn(1000))))
		}
		outs = append(outs, types.SiacoinOutput{Value: v, Address: e.addr})
		sum = sum.Add(v)
	}
	// a few small outputs for the other party
	for i := 0; i < 6; i++ {
		v := types.Siacoins(uint32(1 + i))
		outs = append(outs, types.SiacoinOutput{Value: v, Address: e.oaddr})
		sum = sum.Add(v)
	}
	outs = append(outs, types.SiacoinOutput{Value: reward.SiacoinOutput.Value.Sub(sum), Address: types.VoidAddress})
	if rng.Bool() {
		txn := types.V2Transaction{SiacoinInputs: []types.V2SiacoinInput{{Parent: reward}}, SiacoinOutputs: outs}
		e.signV2(&txn)
		must(e.addV2(e.cm.Tip(), txn))
	} else {
		txn := types.Transaction{SiacoinInputs: []types.SiacoinInput{{ParentID: reward.ID, UnlockConditions: e.uc}}, SiacoinOutputs: outs}
		e.signV1(&txn)
		must(e.addV1(txn))
	}
	e.mineOne(types.VoidAddress)
	// some payouts of the wallet at different stages of maturity
	for k := rng.Intn(4); k > 0; k-- {
		e.mineOne(e.addr)
		for j := rng.Intn(3); j > 0; j-- {
			e.mineOne(types.VoidAddress)
		}
	}
	e.sync()
	_, utxos, err = e.ws.UnspentSiacoinElements()
	must(err)
	sort.SliceStable(utxos, func(i, j int) bool {
		if utxos[i].MaturityHeight != utxos[j].MaturityHeight {
			return utxos[i].MaturityHeight < utxos[j].MaturityHeight
		}
		return utxos[i].SiacoinOutput.Value.Cmp(utxos[j].SiacoinOutput.Value) < 0
	})
	for _, u := range utxos {
		id := e.assign(u.ID, u.SiacoinOutput.Value)
		decl = append(decl, fmt.Sprintf("utxo %d %s %d", id, cur(u.SiacoinOutput.Value), u.MaturityHeight))
	}
	return
}

// tieRisk: would the next selection depend on how Go's unstable sort (more than 12 candidates
// with equal values) or map iteration (equal-valued unconfirmed outputs) breaks ties?  The
// model cannot know; the script is cut there.
func (s *script) tieRisk(unconfirmed bool) bool {
	e := s.e
	sp, err := e.w.SpendableOutputs()
	must(err)
	if len(sp) > 12 {
		seen := map[types.Currency]bool{}
		for _, u := range sp {
			if seen[u.SiacoinOutput.Value] {
				return true
			}
			seen[u.SiacoinOutput.Value] = true
		}
	}
	if unconfirmed {
		pv := e.pool()
		seen := map[types.Currency]bool{}
		for id, o := range pv.created {
			if o.Address != e.addr || pv.spent[id] {
				continue
			}
			if seen[o.Value] {
				return true
			}
			seen[o.Value] = true
		}
	}
	return false
}

func (s *script) pickAmount() types.Currency {
	e, rng := s.e, s.rng
	bal, err := e.w.Balance()
	must(err)
	B, U := bal.Spendable, bal.Unconfirmed
	one := types.NewCurrency64(1)
	sp, err := e.w.SpendableOutputs()
	must(err)
	sort.Slice(sp, func(i, j int) bool { return sp[i].SiacoinOutput.Value.Cmp(sp[j].SiacoinOutput.Value) > 0 })
	randBelow := func(c types.Currency) types.Currency {
		if c.IsZero() {
			return c
		}
		return c.Div64(1000).Mul64(uint64(rng.Intn(1000))).Add(types.NewCurrency64(uint64(rng.Intn(7))))
	}
	switch rng.Intn(14) {
	case 0:
		return types.ZeroCurrency
	case 1:
		return one
	case 2:
		return B
	case 3:
		return B.Add(one)
	case 4:
		if !B.IsZero() {
			return B.Sub(one)
		}
	case 5:
		return B.Add(U)
	case 6:
		return B.Add(U).Add(one)
	case 7, 8:
		if len(sp) > 0 { // the exact sum of the k largest outputs, or one off
			k := 1 + rng.Intn(len(sp))
			var sum types.Currency
			for _, u := range sp[:k] {
				sum = sum.Add(u.SiacoinOutput.Value)
			}
			switch rng.Intn(3) {
			case 0:
				return sum.Add(one)
			case 1:
				return sum.Sub(one)
			}
			return sum
		}
	case 9:
		if len(sp) > 0 {
			return sp[rng.Intn(len(sp))].SiacoinOutput.Value
		}
	case 10:
		return B.Add(randBelow(U))
	}
	return randBelow(B).Add(one)
}

func (s *script) handles(pred func(*ftxn) bool) (hs []int) {
	for h, t := range s.e.txns {
		if pred(t) {
			hs = append(hs, h)
		}
	}
	sort.Ints(hs)
	return
}

// step performs one random operation followed by the two observations.
func (s *script) step() {
	e, rng := s.e, s.rng
	if e.cfg.dur == 1 && timeSince(e.epochStart) > epochBudget {
		s.stopped = "epoch-overrun"
		return
	}
	r := rng.Intn(100)
	if e.cfg.dur == 1 && rng.Chance(1, 8) {
		r = 99 // let the reservation period pass
	}
	switch {
	case r < 34:
		uc := rng.Chance(1, 3)
		amt := s.pickAmount()
		bal, err := e.w.Balance()
		must(err)
		// unconfirmed outputs are consulted only when the confirmed ones do not cover the amount
		if s.tieRisk(uc && amt.Cmp(bal.Spendable) > 0) {
			s.stopped = "tie-cut"
			return
		}
		own := types.ZeroCurrency
		if rng.Bool() {
			own = amt.Div64(10).Mul64(uint64(rng.Intn(11)))
		}
		nin := 0
		if rng.Chance(1, 4) {
			nin = 1 + rng.Intn(2)
		}
		s.fund(rng.Bool(), amt, uc, own, nin)
	case r < 48:
		// any transaction handed out that is not in the pool right now (also stale, released or confirmed ones)
		hs := s.handles(func(t *ftxn) bool { return !e.inPoolNow(t) })
		if len(hs) == 0 {
			return
		}
		h := hs[rng.Intn(len(hs))]
		if known := s.handles(func(t *ftxn) bool { return t.v2 && e.inPoolNow(t) }); len(known) > 0 && rng.Chance(1, 5) {
			// the application validated with the manager first (or retries): the wallet is handed a
			// set the pool already knows; it must be stored for re-loading all the same
			s.bcast(known[rng.Intn(len(known))], true)
		} else {
			s.bcast(h, e.txns[h].v2 && rng.Chance(1, 3))
		}
	case r < 58:
		hs := s.handles(func(t *ftxn) bool { return true })
		if len(hs) == 0 {
			return
		}
		pick := []int{hs[rng.Intn(len(hs))]}
		if rng.Chance(1, 4) {
			pick = append(pick, hs[rng.Intn(len(hs))])
		}
		s.release(pick)
	case r < 67:
		if e.next <= 1 {
			return
		}
		s.xspend(rng.Bool(), 1+rng.Intn(e.next-1), []int{0, 0, 300, 500, 1000}[rng.Intn(5)])
	case r < 78:
		if rng.Chance(1, 4) {
			s.lag(1 + rng.Intn(3)) // the manager gets ahead of the wallet's store
		} else if e.lagging > 0 && rng.Chance(1, 3) {
			s.syncLag()
		} else {
			s.mine(rng.Chance(1, 3))
		}
	case r < 85:
		if s.tieRisk(false) {
			s.stopped = "tie-cut"
			return
		}
		bal, err := e.w.Balance()
		must(err)
		outputs := []int{-2, 0, 1, 2, 3, 5, 11, 23}[rng.Intn(8)]
		amt := bal.Spendable.Div64(uint64(1 + rng.Intn(30)))
		if rng.Chance(1, 6) {
			sp, _ := e.w.SpendableOutputs()
			if len(sp) > 0 {
				amt = sp[rng.Intn(len(sp))].SiacoinOutput.Value // exercises the "same value" branch
			}
		}
		fpb := types.ZeroCurrency
		if rng.Chance(2, 3) {
			fpb = types.Siacoins(1).Div64(uint64(1000 + rng.Intn(100000)))
		}
		if rng.Chance(1, 4) {
			s.dustRedistribute()
			return
		}
		if rng.Chance(1, 5) { // more than one batch, only the first payable
			outputs = 11 + rng.Intn(12)
			amt = bal.Spendable.Div64(uint64(outputs)).Add(bal.Spendable.Div64(uint64(150 + rng.Intn(100))))
		}
		s.redistribute(outputs, amt, fpb)
	case r < 90:
		if s.tieRisk(true) {
			s.stopped = "tie-cut"
			return
		}
		bal, err := e.w.Balance()
		must(err)
		n := []int{-1, 0, 1, 2, 3, 4, 6}[rng.Intn(7)]
		if e.cfg.thr >= 2 && rng.Chance(3, 4) {
			n = 2 + rng.Intn(e.cfg.thr-1) // within the defrag threshold
			if n > 7 {
				n = 2 + rng.Intn(6)
			}
		}
		min := bal.Spendable.Div64(uint64(2 + rng.Intn(40)))
		if rng.Chance(1, 8) {
			min = types.ZeroCurrency
		}
		s.split(n, min, rng.Chance(1, 4))
	case r < 94:
		if rng.Chance(1, 4) {
			s.storeFails()
		} else if rng.Chance(1, 4) {
			s.stale()
		} else {
			s.restart(rng.Bool())
		}
	default:
		if e.cfg.dur != 1 {
			s.mine(false)
		} else {
			s.tick()
		}
	}
	if s.stopped == "" {
		s.observe()
	}
}

// ownUnconfirmed lists the small ids of the pooled outputs that pay the wallet and are not spent in the pool.
func (s *script) ownUnconfirmed() (ids []int) {
	pv := s.e.pool()
	for id, o := range pv.created {
		if n, ok := s.e.ids[id]; ok && o.Address == s.e.addr && !pv.spent[id] {
			ids = append(ids, n)
		}
	}
	sort.Ints(ids)
	return
}

// scenarioChain builds the state "the pool holds a parent paying the wallet and a child spending
// that unconfirmed output, and the wallet holds no reservation for it" (the child came from
// another instance with the same key, or the reservation was released, or the wallet was
// restarted and re-loaded its broadcast sets), then funds with useUnconfirmed beyond the
// confirmed funds.
func (s *script) scenarioChain() {
	e, rng := s.e, s.rng
	v2 := rng.Chance(2, 3)
	lose := rng.Intn(4) // 0 external child, 1 release, 2 restart (same manager), 3 restart (new manager)
	viaWallet := v2 && (lose == 3 || rng.Bool())
	bal, err := e.w.Balance()
	must(err)
	if bal.Spendable.IsZero() || s.tieRisk(false) {
		return
	}
	amt := bal.Spendable.Div64(uint64(3 + rng.Intn(5))).Add(types.NewCurrency64(uint64(rng.Intn(9))))
	h1 := e.nextH
	s.fund(v2, amt, false, amt.Div64(10).Mul64(uint64(5+rng.Intn(5))), 0)
	s.observe()
	if e.txns[h1] == nil {
		return
	}
	s.bcast(h1, viaWallet)
	s.observe()
	if !e.txns[h1].inPool {
		return
	}
	if lose == 0 {
		if own := s.ownUnconfirmed(); len(own) > 0 {
			s.xspend(v2, own[rng.Intn(len(own))], []int{0, 400}[rng.Intn(2)])
			s.observe()
		}
	} else {
		bal, err = e.w.Balance()
		must(err)
		if s.tieRisk(true) {
			s.stopped = "tie-cut"
			return
		}
		h2 := e.nextH
		amt2 := bal.Spendable.Add(bal.Unconfirmed.Div64(uint64(2 + rng.Intn(3)))).Add(types.NewCurrency64(1))
		s.fund(v2, amt2, true, amt2.Div64(10).Mul64(uint64(rng.Intn(10))), 0)
		s.observe()
		if e.txns[h2] == nil {
			return
		}
		s.bcast(h2, viaWallet)
		s.observe()
		switch lose {
		case 1:
			s.release([]int{h2})
		case 2:
			s.restart(false)
		case 3:
			s.restart(true)
		}
		s.observe()
	}
	// now fund beyond the confirmed funds: only unspent unconfirmed outputs may be used
	for k := 0; k < 2 && s.stopped == ""; k++ {
		bal, err = e.w.Balance()
		must(err)
		if s.tieRisk(true) {
			s.stopped = "tie-cut"
			return
		}
		extra := []types.Currency{types.NewCurrency64(1), bal.Unconfirmed, bal.Unconfirmed.Add(types.NewCurrency64(1)), bal.Unconfirmed.Div64(2)}[rng.Intn(4)]
		h3 := e.nextH
		s.fund(v2, bal.Spendable.Add(extra), true, types.ZeroCurrency, 0)
		s.observe()
		if e.txns[h3] != nil && rng.Chance(2, 3) {
			s.bcast(h3, false)
			s.observe()
		}
	}
	s.kinds["scenario-chain"]++
}

// scenarioPartial asks Redistribute for more than one batch of outputs of which only the first
// can be paid, then releases what it returned and funds the whole balance.
func (s *script) scenarioPartial() {
	e, rng := s.e, s.rng
	bal, err := e.w.Balance()
	must(err)
	sp, err := e.w.SpendableOutputs()
	must(err)
	if len(sp) < 2 || s.tieRisk(false) {
		return
	}
	outputs := 11 + rng.Intn(3)
	amt := bal.Spendable.Div64(uint64(outputs)).Add(bal.Spendable.Div64(uint64(150 + rng.Intn(100))))
	fpb := types.ZeroCurrency
	if rng.Bool() {
		fpb = types.Siacoins(1).Div64(uint64(100000 + rng.Intn(100000)))
	}
	h0 := e.nextH
	s.redistribute(outputs, amt, fpb)
	s.observe()
	var hs []int
	for h := h0; h < e.nextH; h++ {
		if e.txns[h] != nil {
			hs = append(hs, h)
		}
	}
	if len(hs) > 0 && rng.Chance(2, 3) {
		s.release(hs)
		s.observe()
		bal, err = e.w.Balance()
		must(err)
		if !s.tieRisk(false) {
			s.fund(true, bal.Spendable, false, types.ZeroCurrency, 0)
			s.observe()
		}
	}
	s.kinds["scenario-partial"]++
}

// dustRedistribute asks Redistribute for o outputs such that the k largest usable outputs exceed
// o×amount + fee (non-zero fee rate) by 1 … o hastings: less than the fee of one more output, more
// than nothing.  Whatever the code does with such a left-over, every returned transaction must
// conserve value and be accepted by the pool.
func (s *script) dustRedistribute() {
	e, rng := s.e, s.rng
	sp, err := e.w.SpendableOutputs()
	must(err)
	if len(sp) == 0 || s.tieRisk(false) {
		return
	}
	sort.Slice(sp, func(i, j int) bool { return sp[i].SiacoinOutput.Value.Cmp(sp[j].SiacoinOutput.Value) > 0 })
	k := 1 + rng.Intn(min(len(sp), 3))
	o := 1 + rng.Intn(3)
	fpb := types.NewCurrency64(uint64(1 + rng.Intn(1000))).Mul64([]uint64{1, 1000, 1000000000, 1000000000000000}[rng.Intn(4)])
	var sum types.Currency
	for _, u := range sp[:k] {
		sum = sum.Add(u.SiacoinOutput.Value)
	}
	cs := e.cm.TipState()
	w := cs.V2TransactionWeight(types.V2Transaction{SiacoinOutputs: make([]types.SiacoinOutput, o)})
	fee := fpb.Mul64(241 * uint64(k)).Add(fpb.Mul64(w))
	if sum.Cmp(fee.Add(types.NewCurrency64(uint64(2*o)))) <= 0 {
		return
	}
	// amount = (sum − fee − δ)/o with the smallest δ ≥ 1 that makes it divide
	rest := sum.Sub(fee).Sub(types.NewCurrency64(1))
	amt := rest.Div64(uint64(o))
	h0 := e.nextH
	s.redistribute(o, amt, fpb)
	s.observe()
	s.kinds["redist-dust"]++
	for h := h0; h < e.nextH && s.stopped == ""; h++ {
		if e.txns[h] != nil && rng.Chance(2, 3) {
			s.bcast(h, false)
			s.observe()
		}
	}
}

// scenarioDowntime: the node went down with broadcast transactions unconfirmed and comes back with
// a new manager (empty pool) and a new wallet over the surviving store, which holds broadcast sets
// of mixed ages — in particular an expired one ahead of the fresh ones.  The fresh sets must be in
// the pool again, so that their inputs are not handed out a second time.
func (s *script) scenarioDowntime() {
	e, rng := s.e, s.rng
	if rng.Chance(2, 3) {
		s.stale()
	}
	n := 1 + rng.Intn(2)
	for i := 0; i < n && s.stopped == ""; i++ {
		bal, err := e.w.Balance()
		must(err)
		if bal.Spendable.IsZero() || s.tieRisk(false) {
			break
		}
		amt := bal.Spendable.Div64(uint64(2 + rng.Intn(4))).Add(types.NewCurrency64(uint64(rng.Intn(9))))
		h := e.nextH
		s.fund(true, amt, false, amt.Div64(10).Mul64(uint64(rng.Intn(10))), 0)
		s.observe()
		if e.txns[h] == nil {
			break
		}
		if rng.Chance(1, 3) {
			s.bcast(h, false) // validated with the manager first: the wallet then broadcasts a known set
			s.observe()
		}
		s.bcast(h, true)
		s.observe()
		if rng.Chance(1, 3) {
			s.stale()
		}
	}
	if s.stopped != "" {
		return
	}
	s.restart(true)
	s.observe()
	// everything that is left can be funded, and not more
	bal, err := e.w.Balance()
	must(err)
	if !s.tieRisk(false) {
		h := e.nextH
		s.fund(rng.Bool(), bal.Spendable, false, types.ZeroCurrency, 0)
		s.observe()
		if e.txns[h] != nil && rng.Bool() {
			s.bcast(h, false)
			s.observe()
		}
	}
	s.kinds["scenario-downtime"]++
}

// scenarioExpiry (short reservation period only): fund everything, abandon the transaction, let the
// period pass without any other wallet call, then read and fund again: the outputs must be back.
func (s *script) scenarioExpiry() {
	e, rng := s.e, s.rng
	bal, err := e.w.Balance()
	must(err)
	if bal.Spendable.IsZero() || s.tieRisk(false) {
		return
	}
	amt := bal.Spendable
	if rng.Bool() {
		amt = amt.Div64(2).Add(types.NewCurrency64(uint64(rng.Intn(5))))
	}
	s.fund(rng.Bool(), amt, false, types.ZeroCurrency, 0)
	s.observe()
	s.tick() // includes the read-path oracle checkExpired
	if s.stopped != "" {
		return
	}
	s.observe()
	// selection must see them again as well: the whole balance can be funded
	h := e.nextH
	s.fund(rng.Bool(), bal.Spendable, false, types.ZeroCurrency, 0)
	if e.txns[h] == nil && s.stopped == "" {
		s.c.Oracle("expiry-did-not-unlock", "the reservation period has passed, yet funding the whole balance %s fails", cur(bal.Spendable))
	}
	s.observe()
	s.kinds["scenario-expiry"]++
}

func runScript(name string, seed uint64, allowShort bool, nOps int) *vh.Case {
	rng := vh.NewRNG(seed)
	cfg := randConfig(rng, allowShort)
	delay := uint64(1 + rng.Intn(4))
	var keySeed [32]byte
	rng.Bytes(keySeed[:])
	e := newEnv(keySeed[:], cfg, delay)
	defer e.close()
	c := &vh.Case{Name: name}
	s := &script{e: e, c: c, rng: rng, kinds: map[string]int{}}
	decl := e.setup(rng)
	cs := e.cm.TipState()
	w1 := cs.V2TransactionWeight(types.V2Transaction{SiacoinOutputs: make([]types.SiacoinOutput, 1)})
	w2 := cs.V2TransactionWeight(types.V2Transaction{SiacoinOutputs: make([]types.SiacoinOutput, 2)})
	nn := func(v int) int { // the model's options are naturals: a negative option stands for 0
		if v < 0 {
			return 0
		}
		return v
	}
	c.Model = fmt.Sprintf("funding std %d %d %d %d %d %d %d %d", nn(cfg.thr), nn(cfg.maxIn), nn(cfg.maxDefrag), cfg.dur, 2*w1-w2, w2-w1, delay, e.height())
	for _, d := range decl {
		c.Op(d, "ok")
	}
	s.observe()
	// a fifth of the scripts start with a directed scenario (states random steps rarely reach)
	if cfg.dur == 1 {
		s.scenarioExpiry()
	}
	switch rng.Intn(10) {
	case 0, 1:
		s.scenarioChain()
	case 2:
		s.scenarioPartial()
	case 3:
		s.scenarioDowntime()
	}
	for i := 0; i < nOps && s.stopped == ""; i++ {
		s.step()
	}
	c.Nontrivial = s.kinds["fund"]+s.kinds["redist"]+s.kinds["split"] > 0
	c.Tags = []string{fmt.Sprintf("dur:%d", cfg.dur), fmt.Sprintf("utxos:%d", len(decl))}
	if s.stopped != "" {
		c.Tags = append(c.Tags, "cut:"+s.stopped)
	}
	for k := range s.kinds {
		c.Tags = append(c.Tags, "op:"+k)
	}
	c.Info = map[string]any{"seed": seed, "config": fmt.Sprintf("%+v", cfg), "delay": delay, "kinds": s.kinds}
	return c
}

// parallel runs n jobs on all cores and returns the results in order.
func parallel(n int, f func(i int) *vh.Case) []*vh.Case {
	out := make([]*vh.Case, n)
	var wg sync.WaitGroup
	sem := make(chan struct{}, runtime.NumCPU())
	for i := 0; i < n; i++ {
		wg.Add(1)
		sem <- struct{}{}
		go func(i int) {
			defer wg.Done()
			defer func() { <-sem }()
			out[i] = f(i)
		}(i)
	}
	wg.Wait()
	return out
}

func Run(r *vh.Run) {
	r.Rule = "each case is a fresh chain + wallet with a random state (0-16 confirmed outputs of distinct values, 0-3 miner payouts at different stages of maturity), a random setting of the four public options (each knob includes 0 and 1) and a random script of Fund/FundV2/Redistribute/SplitUTXO/ReleaseInputs/broadcast/external spend/mine/tick/restart operations with amounts at and around the exact balance and exact output sums; a case is non-trivial if it contains at least one funding request; cases are distinct by their full operation text"
	rng := vh.NewRNG(vh.NewRNG(r.Seed).U64() ^ 0xC07C07C07) // consecutive seeds must not yield shifted streams
	nSeq := r.Pick(1200, 20000)
	nOps := r.Pick(18, 30)
	seeds := make([]uint64, nSeq)
	for i := range seeds {
		seeds[i] = rng.U64()
	}
	shortEvery := r.Pick(100, 150)
	for _, c := range parallel(nSeq, func(i int) *vh.Case {
		return runScript(fmt.Sprintf("seq%d", i), seeds[i], i%shortEvery == 7, nOps)
	}) {
		for k, n := range c.Info["kinds"].(map[string]int) {
			r.CountTag("n:"+k, n)
		}
		delete(c.Info, "kinds")
		r.Add(c)
	}
	nConc := r.Pick(200, 4000)
	cseeds := make([]uint64, nConc)
	for i := range cseeds {
		cseeds[i] = rng.U64()
	}
	for _, c := range parallel(nConc, func(i int) *vh.Case { return runConcurrent(fmt.Sprintf("conc%d", i), cseeds[i]) }) {
		r.Add(c)
	}
	nGated := r.Pick(60, 800)
	gseeds := make([]uint64, nGated)
	for i := range gseeds {
		gseeds[i] = rng.U64()
	}
	for _, c := range parallel(nGated, func(i int) *vh.Case { return runGated(fmt.Sprintf("gated%d", i), gseeds[i]) }) {
		r.Add(c)
	}
	r.Assume("negative DefragThreshold / MaxInputsForDefrag / MaxDefragUTXOs / outputs / n stand for the model's 0; ReservationDuration 1ns stands for the model's 0")
	r.Assume("while the wallet's store lags the manager (lag ops) only empty blocks separate them; a block that confirms pooled transactions is processed by the wallet at once")
	r.Assume("ties: when more than 12 outputs with equal values could be sorted by Go's unstable sort, or equal-valued unconfirmed outputs could be picked in map order, the script is cut (tag cut:tie-cut)")
}
