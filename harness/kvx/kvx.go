// Package kvx is the recording chain.DB of the harness (DESIGN H3): byte-level dumps of every
// bucket through the chain.DB interface, a wrapper that snapshots the committed image at every
// Flush, and restoration of a snapshot into a fresh backend.
package kvx

import (
	"bytes"
	"fmt"
	"io"
	"iter"
	"os"
	"path/filepath"
	"sort"

	"go.etcd.io/bbolt"
	"go.sia.tech/coreutils"
	"go.sia.tech/coreutils/chain"
)

// Buckets are the buckets DBStore creates (chain/db.go:402-410).
var Buckets = []string{"Version", "Network", "MainChain", "States", "Blocks", "FileContracts", "SiacoinElements", "SiafundElements", "Tree"}

// Image is a byte-level copy of a database: bucket -> key -> value.
type Image map[string]map[string][]byte

// Dump reads every bucket through the chain.DB interface (pending writes included).
func Dump(db chain.DB) Image {
	img := Image{}
	for _, name := range Buckets {
		b := db.Bucket([]byte(name))
		if b == nil {
			continue
		}
		m := map[string][]byte{}
		for k, v := range b.Iter() {
			m[string(k)] = append([]byte(nil), v...)
		}
		img[name] = m
	}
	return img
}

// Keys returns the sorted keys of a bucket.
func (img Image) Keys(bucket string) []string {
	var ks []string
	for k := range img[bucket] {
		ks = append(ks, k)
	}
	sort.Strings(ks)
	return ks
}

// DiffImage compares two images; "" when equal.
func DiffImage(a, b Image) string {
	for _, name := range Buckets {
		if d := DiffBucket(a[name], b[name]); d != "" {
			return "bucket " + name + ": " + d
		}
	}
	return ""
}

// DiffBucket compares two buckets; it returns a description of the first difference.
func DiffBucket(a, b map[string][]byte) string {
	for k, v := range a {
		w, ok := b[k]
		if !ok {
			return fmt.Sprintf("key %x only on the left", k)
		}
		if !bytes.Equal(v, w) {
			return fmt.Sprintf("key %x: values differ (%d vs %d bytes)", k, len(v), len(w))
		}
	}
	for k := range b {
		if _, ok := a[k]; !ok {
			return fmt.Sprintf("key %x only on the right", k)
		}
	}
	return ""
}

// Restore writes an image into an empty database and commits it.
func Restore(db chain.DB, img Image) error {
	for _, name := range Buckets {
		m, ok := img[name]
		if !ok {
			continue
		}
		b, err := db.CreateBucket([]byte(name))
		if err != nil {
			return err
		}
		ks := make([]string, 0, len(m))
		for k := range m {
			ks = append(ks, k)
		}
		sort.Strings(ks)
		for _, k := range ks {
			if err := b.Put([]byte(k), append([]byte(nil), m[k]...)); err != nil {
				return err
			}
		}
	}
	return db.Flush()
}

// Rec wraps a backend, counts operations and calls OnFlush after every Flush the store issues
// (the committed image is then exactly what Dump of the inner database shows: nothing is pending).
type Rec struct {
	Inner   chain.DB
	Flushes int
	// FailedFlushes counts the commits FailFlush made fail
	FailedFlushes int
	Puts          int
	Dels          int
	OnFlush       func(n int)
	// OnBeforeFlush is called right before the inner Flush
	OnBeforeFlush func()
	// FailFlush, when it returns an error, makes this Flush fail with it: the pending batch is
	// discarded (what a Bolt transaction does when its commit fails) and nothing is committed
	FailFlush func() error
	// GetLog, when non-nil, receives every (bucket, key) read
	GetLog func(bucket string, key []byte)
}

type recBucket struct {
	name string
	b    chain.DBBucket
	r    *Rec
}

func (b recBucket) Get(key []byte) []byte {
	if b.r.GetLog != nil {
		b.r.GetLog(b.name, key)
	}
	return b.b.Get(key)
}
func (b recBucket) Put(key, value []byte) error     { b.r.Puts++; return b.b.Put(key, value) }
func (b recBucket) Delete(key []byte) error         { b.r.Dels++; return b.b.Delete(key) }
func (b recBucket) Iter() iter.Seq2[[]byte, []byte] { return b.b.Iter() }

func (r *Rec) Bucket(name []byte) chain.DBBucket {
	b := r.Inner.Bucket(name)
	if b == nil {
		return nil
	}
	return recBucket{string(name), b, r}
}

func (r *Rec) CreateBucket(name []byte) (chain.DBBucket, error) {
	b, err := r.Inner.CreateBucket(name)
	if err != nil {
		return nil, err
	}
	return recBucket{string(name), b, r}, nil
}

func (r *Rec) Flush() error {
	if r.OnBeforeFlush != nil {
		r.OnBeforeFlush()
	}
	if r.FailFlush != nil {
		if err := r.FailFlush(); err != nil {
			r.Inner.Cancel()
			r.FailedFlushes++
			return err
		}
	}
	err := r.Inner.Flush()
	r.Flushes++
	if r.OnFlush != nil {
		r.OnFlush(r.Flushes)
	}
	return err
}

func (r *Rec) Cancel() { r.Inner.Cancel() }

// Backend is one of the three databases a DBStore runs on.
type Backend struct {
	Kind string // "mem", "cache", "bolt"
	DB   chain.DB
	// Snapshot returns the committed image right now (call it from OnFlush, or when nothing is
	// pending); for Bolt it copies the database file and reads the copy.
	Snapshot func() Image
	Close    func()
	// CopyFile (Bolt only) copies the database file as committed to dst.
	CopyFile func(dst string) error
	// Physical (kind "cache") records the database under the write cache.
	Physical *Rec
	// Committed (MemDB-backed only) returns the committed image at any moment: what a process
	// that stops now and reopens would find. It may only change in Flush.
	Committed func() Image
}

// OpenBoltFile opens an existing Bolt file (e.g. a copy taken at a commit point).
func OpenBoltFile(path string) (*Backend, error) {
	bdb, err := bbolt.Open(path, 0o600, &bbolt.Options{NoSync: true, NoFreelistSync: true})
	if err != nil {
		return nil, err
	}
	db := coreutils.NewBoltChainDB(bdb)
	return &Backend{Kind: "bolt", DB: db, Snapshot: func() Image { return Dump(db) }, Close: func() { db.Close() }}, nil
}

// Open creates an empty backend of the given kind; dir is used by "bolt".
func Open(kind, dir string) (*Backend, error) {
	switch kind {
	case "mem":
		db := chain.NewMemDB()
		return &Backend{Kind: kind, DB: db, Snapshot: func() Image { return Dump(db) }, Close: func() {},
			Committed: func() Image { return Image(db.VerifCommitted()) }}, nil
	case "cache":
		inner := chain.NewMemDB()
		// the physical database under the write cache is recorded too: every Flush it receives is a
		// commit a stop can follow
		phys := &Rec{Inner: inner}
		db := chain.NewCacheDB(phys)
		// the committed image is what the inner database holds after the cache was flushed into it
		return &Backend{Kind: kind, DB: db, Snapshot: func() Image { return Dump(inner) }, Close: func() {},
			Committed: func() Image { return Image(inner.VerifCommitted()) }, Physical: phys}, nil
	case "bolt", "cachebolt":
		path := filepath.Join(dir, "chain.db")
		bdb, err := bbolt.Open(path, 0o600, &bbolt.Options{NoSync: true, NoFreelistSync: true})
		if err != nil {
			return nil, err
		}
		bolt := coreutils.NewBoltChainDB(bdb)
		var db chain.DB = bolt
		if kind == "cachebolt" {
			db = chain.NewCacheDB(bolt) // the write cache over a real Bolt file
		}
		n := 0
		snap := func() Image {
			// copy the file as committed (never the live handle), open the copy read-only
			n++
			cp := filepath.Join(dir, fmt.Sprintf("snap%d.db", n))
			if err := copyFile(path, cp); err != nil {
				panic(err)
			}
			defer os.Remove(cp)
			c, err := bbolt.Open(cp, 0o600, &bbolt.Options{ReadOnly: true})
			if err != nil {
				panic(err)
			}
			defer c.Close()
			img := Image{}
			c.View(func(tx *bbolt.Tx) error {
				return tx.ForEach(func(name []byte, b *bbolt.Bucket) error {
					m := map[string][]byte{}
					b.ForEach(func(k, v []byte) error {
						m[string(k)] = append([]byte(nil), v...)
						return nil
					})
					img[string(name)] = m
					return nil
				})
			})
			return img
		}
		return &Backend{Kind: kind, DB: db, Snapshot: snap, Close: func() { bolt.Close() },
			CopyFile: func(dst string) error { return copyFile(path, dst) }}, nil
	}
	return nil, fmt.Errorf("unknown backend %q", kind)
}

// Reopen restores an image into a fresh backend of the given kind (for Bolt: a new file that is
// closed and opened again, so that the store really reads it from disk).
func Reopen(kind, dir string, img Image) (*Backend, error) {
	switch kind {
	case "mem", "cache":
		inner := chain.NewMemDB()
		if err := Restore(inner, img); err != nil {
			return nil, err
		}
		if kind == "mem" {
			return &Backend{Kind: kind, DB: inner, Snapshot: func() Image { return Dump(inner) }, Close: func() {}}, nil
		}
		db := chain.NewCacheDB(inner)
		return &Backend{Kind: kind, DB: db, Snapshot: func() Image { return Dump(inner) }, Close: func() {}}, nil
	case "bolt":
		if err := os.MkdirAll(dir, 0o755); err != nil {
			return nil, err
		}
		path := filepath.Join(dir, "chain.db")
		os.Remove(path)
		bdb, err := bbolt.Open(path, 0o600, &bbolt.Options{NoSync: true, NoFreelistSync: true})
		if err != nil {
			return nil, err
		}
		w := coreutils.NewBoltChainDB(bdb)
		if err := Restore(w, img); err != nil {
			return nil, err
		}
		if err := w.Close(); err != nil {
			return nil, err
		}
		bdb, err = bbolt.Open(path, 0o600, &bbolt.Options{NoSync: true, NoFreelistSync: true})
		if err != nil {
			return nil, err
		}
		db := coreutils.NewBoltChainDB(bdb)
		return &Backend{Kind: kind, DB: db, Snapshot: func() Image { return Dump(db) }, Close: func() { db.Close() }}, nil
	}
	return nil, fmt.Errorf("unknown backend %q", kind)
}

func copyFile(src, dst string) error {
	in, err := os.Open(src)
	if err != nil {
		return err
	}
	defer in.Close()
	out, err := os.Create(dst)
	if err != nil {
		return err
	}
	if _, err := io.Copy(out, in); err != nil {
		out.Close()
		return err
	}
	return out.Close()
}
