// Package minex: nonce searches that do not depend on the wall clock. coreutils' own searches take
// a timeout; on a loaded or paused machine (or after a clock step) a harness that treats "timed
// out" as a failure would raise a false alarm, so the harnesses retry instead.
package minex

import (
	"time"

	"go.sia.tech/core/consensus"
	"go.sia.tech/core/types"
	"go.sia.tech/coreutils"
	"go.sia.tech/coreutils/chain"
)

// FindNonce searches until a nonce is found.
func FindNonce(cs consensus.State, b *types.Block) {
	for !coreutils.FindBlockNonce(cs, b, time.Minute) {
	}
}

// MineBlock is coreutils.MineBlock retried until it finds a nonce (at most 30 attempts of a
// minute each; the difficulties the harnesses use need milliseconds).
func MineBlock(cm *chain.Manager, addr types.Address) (types.Block, bool) {
	for i := 0; i < 30; i++ {
		if b, ok := coreutils.MineBlock(cm, addr, time.Minute); ok {
			return b, true
		}
	}
	return types.Block{}, false
}
