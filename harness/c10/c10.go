// Package c10: a successful renter RPC is cryptographically bound, whatever the host does.
//
// Every renter RPC of rhp/v4/rpc.go that the property names is first run against the REAL
// server (rhp/v4/server.go + testutil host) through a recording interposer; the recorded host
// messages are the honest base.  A scripted host then replays them to the real client with
// exactly one typed mutation per case — exhaustively over (RPC, message, field, mutation
// kind) — re-signing later messages with the host key so that the lie is as coherent as a
// host can make it.  For each case the harness (T) describes the messages abstractly (lengths,
// amounts, root ids and the verdict of go.sia.tech/core's verifier computed by the harness
// itself on what was sent) to the Lean model, which predicts ok/err/crash and the result; and
// (O) checks a reported success against ground truth it owns (sector bytes, contract roots,
// price table, host key).
package c10

import (
	"bytes"
	"context"
	"fmt"
	"net"
	"os"
	"strings"
	"time"

	"go.sia.tech/core/consensus"
	proto4 "go.sia.tech/core/rhp/v4"
	"go.sia.tech/core/types"
	rhp4 "go.sia.tech/coreutils/rhp/v4"
	"go.sia.tech/coreutils/testutil"
	"verifharness/rhpc"
	"verifharness/vh"
)

func init() { vh.Register("C10", Run) }

const model = "c10 fixed"

type env struct {
	r          *vh.Run
	rng        *vh.RNG
	hn, rn     *rhpc.Node
	h          *rhpc.Host
	cs         consensus.State
	prices     proto4.HostPrices
	renterKey  types.PrivateKey
	otherKey   types.PrivateKey
	fs         *rhpc.FundAndSign
	contract   rhp4.ContractRevision // the renter's view
	roots      []types.Hash256       // ground truth: the contract's sector roots
	acctKey    types.PrivateKey
	acct       proto4.Account
	token      proto4.AccountToken
	sectors    map[types.Hash256]*[proto4.SectorSize]byte
	order      []types.Hash256
	rootIDs    map[types.Hash256]int
	setupErr   error
	zeroTail   types.Hash256
	nScenarios int
}

func (e *env) rid(h types.Hash256) int {
	if id, ok := e.rootIDs[h]; ok {
		return id
	}
	id := len(e.rootIDs) + 10
	e.rootIDs[h] = id
	return id
}

func cur(c types.Currency) string { return c.ExactString() }

func (e *env) priceWords() string {
	p := e.prices
	return fmt.Sprintf("%s %s %s %s %s %d", cur(p.StoragePrice), cur(p.IngressPrice), cur(p.EgressPrice), cur(p.Collateral), cur(p.FreeSectorPrice), p.TipHeight)
}

func (e *env) revWords(fc types.V2FileContract) string {
	return fmt.Sprintf("%d %s %s %s %d %d %d %d", fc.RevisionNumber, cur(fc.RenterOutput.Value), cur(fc.HostOutput.Value), cur(fc.MissedHostValue), fc.Filesize, fc.Capacity, fc.ExpirationHeight, e.rid(fc.FileMerkleRoot))
}

func (e *env) fmtRev(fc types.V2FileContract, u proto4.Usage) string {
	return fmt.Sprintf("rev=%d ro=%s ho=%s mh=%s fs=%d cap=%d root=%d cost=%s risk=%s", fc.RevisionNumber, cur(fc.RenterOutput.Value), cur(fc.HostOutput.Value), cur(fc.MissedHostValue), fc.Filesize, fc.Capacity, e.rid(fc.FileMerkleRoot), cur(u.RenterCost()), cur(u.RiskedCollateral))
}

func must(err error) {
	if err != nil {
		panic(err)
	}
}

// newSector makes a sector with recognisable, position-dependent content.
func (e *env) newSector(tag byte) types.Hash256 {
	var s [proto4.SectorSize]byte
	x := uint32(tag)*2654435761 + 12345
	for i := 0; i < len(s); i += 4 {
		x = x*1664525 + 1013904223
		s[i], s[i+1], s[i+2], s[i+3] = byte(x>>24), byte(x>>16), byte(x>>8), byte(i/64)
	}
	root := proto4.SectorRoot(&s)
	e.sectors[root] = &s
	e.order = append(e.order, root)
	return root
}

func setup(r *vh.Run) *env {
	e := &env{r: r, rng: vh.NewRNG(r.Seed), sectors: map[types.Hash256]*[proto4.SectorSize]byte{}, rootIDs: map[types.Hash256]int{}}
	n, genesis := testutil.V2Network()
	var err error
	e.hn, err = rhpc.NewNode(n, genesis)
	must(err)
	e.rn, err = rhpc.NewNode(n, genesis)
	must(err)
	e.h = rhpc.NewHost(e.hn, rhpc.HostOpts{})
	must(e.hn.Mine(e.rn.W.Address(), int(n.MaturityDelay)+10))
	must(e.hn.Mine(e.hn.W.Address(), int(n.MaturityDelay)+10))
	must(e.rn.CatchUp(e.hn.CM, 0))
	must(e.h.WaitContractor())
	e.renterKey = types.GeneratePrivateKey()
	e.otherKey = types.GeneratePrivateKey()
	e.fs = &rhpc.FundAndSign{W: e.rn.W, PK: e.renterKey}
	ctx := context.Background()
	tr := rhpc.Direct(e.h)
	settings, err := rhp4.RPCSettings(ctx, tr)
	must(err)
	e.prices = settings.Prices
	res, err := rhp4.RPCFormContract(ctx, tr, e.rn.CM, e.fs, e.hn.CM.TipState(), settings.Prices, e.h.Key.PublicKey(), settings.WalletAddress, proto4.RPCFormContractParams{
		RenterPublicKey: e.renterKey.PublicKey(), RenterAddress: e.rn.W.Address(),
		Allowance: types.Siacoins(500), Collateral: types.Siacoins(1000), ProofHeight: e.hn.CM.Tip().Height + 100,
	})
	must(err)
	must(e.hn.Mine(types.VoidAddress, 1))
	must(e.rn.CatchUp(e.hn.CM, 0))
	must(e.h.WaitContractor())
	e.cs = e.hn.CM.TipState()
	e.contract = res.Contract
	e.acctKey = types.GeneratePrivateKey()
	e.acct = proto4.Account(e.acctKey.PublicKey())
	e.token = proto4.NewAccountToken(e.acctKey, e.h.Key.PublicKey())
	fr, err := rhp4.RPCFundAccounts(ctx, tr, e.cs, e.fs, e.contract, []proto4.AccountDeposit{{Account: e.acct, Amount: types.Siacoins(50)}})
	must(err)
	e.contract.Revision = fr.Revision
	// sectors the host stores (ground truth owned by the harness)
	for i := 0; i < 6; i++ {
		root := e.newSector(byte(i + 1))
		must(e.h.Sectors.StoreSector(root, e.sectors[root], nil, 1000))
	}
	// a sector whose tail is zeros (what a renter stores when it pads a short upload)
	var zt [proto4.SectorSize]byte
	for i := 0; i < zeroTailPrefix; i++ {
		zt[i] = byte(i*13 + 1)
	}
	e.zeroTail = proto4.SectorRoot(&zt)
	e.sectors[e.zeroTail] = &zt
	must(e.h.Sectors.StoreSector(e.zeroTail, &zt, nil, 1000))
	return e
}

// zeroTailPrefix is the length of the non-zero prefix of the zero-tail sector.
const zeroTailPrefix = 4096 + 192

// sync re-reads the renter's view and the ground-truth roots from the host.
func (e *env) sync() {
	st, ok := e.h.State(e.contract.ID)
	if !ok {
		panic("contract vanished")
	}
	e.contract.Revision = st.Revision
	e.roots = st.Roots
}

// ---------------------------------------------------------------------------------------------

type outcome struct {
	res      any
	err      error
	panicked any
}

func (o outcome) status() string {
	switch {
	case o.panicked != nil:
		return "crash"
	case o.err != nil:
		return "err"
	}
	return "ok"
}

// A scenario is one client call with fixed parameters.
type scenario struct {
	rpc   string
	name  string
	steps []rhpc.Step
	// call performs the real client call over tr.
	call func(tr rhp4.TransportClient) (any, error)
	// honest is the base list of host messages (indexed like steps; ToHost slots empty).
	honest []rhpc.Msg
	// finish resolves the messages that depend on earlier ones (host re-signs what the client
	// will compute from the — possibly mutated — earlier messages); got holds what the
	// client has sent so far.
	finish func(out []rhpc.Msg, i int, got []rhpc.Msg) *rhpc.Msg
	// line renders the op line (parameters, abstract messages, harness-computed verdicts).
	line func(sent []rhpc.Msg) string
	// impl renders the real client's answer.
	impl func(o outcome) string
	// oracle checks a success against ground truth.
	oracle func(c *vh.Case, o outcome, sent []rhpc.Msg)
	muts   []mutation
	// mustSucceed: the parameters are valid, so the exchange with the honest real server must succeed
	mustSucceed bool
	liveFailed  bool
	// literalHost (free only): the host executes the index list exactly as it arrives on the
	// wire (swap, swap, …, trim) and proves and signs that, instead of rejecting duplicates
	literalHost bool
	// otherIndices (free only): the host answers validly for another index set
	otherIndices func(alt []uint64) mutation
}

type mutation struct {
	msg         int
	field, kind string
	apply       func(out []rhpc.Msg)
}

// foreign: the case runs over a transport whose peer key is NOT the contract's host key (the
// renter reached the contract host through a relay / an impersonator / a rotated transport
// identity); selected by the kind prefix.
func (m *mutation) foreign() bool { return strings.HasPrefix(m.kind, "foreign-peer-key") }

func (e *env) runCase(sc *scenario, m *mutation) {
	out := rhpc.CloneMsgs(sc.steps, sc.honest)
	name := sc.rpc + "/" + sc.name + "/honest-replay"
	tags := []string{"rpc:" + sc.rpc}
	if m != nil {
		name = fmt.Sprintf("%s/%s/m%d.%s.%s", sc.rpc, sc.name, m.msg, m.field, m.kind)
		tags = append(tags, "mut:"+m.kind, "field:"+sc.rpc+"."+m.field)
	} else {
		tags = append(tags, "mut:none")
	}
	// resolve fixes host message i just before it is sent: the honest content for the history
	// so far (a host re-signs what the client will compute from its earlier, possibly mutated,
	// messages), then the case's mutation if it targets this message.
	resolved := make([]bool, len(sc.steps))
	resolve := func(i int, got []rhpc.Msg) *rhpc.Msg {
		if resolved[i] {
			return &out[i]
		}
		resolved[i] = true
		if sc.finish != nil {
			if d := sc.finish(out, i, got); d != nil {
				out[i] = *d
			}
		}
		if m != nil && m.msg == i {
			m.apply(out)
		}
		return &out[i]
	}
	var sent []rhpc.Msg
	done := make(chan struct{})
	peerKey := e.h.Key.PublicKey()
	if m != nil && m.foreign() {
		peerKey = e.otherKey.PublicKey()
		tags = append(tags, "transport:foreign-peer-key")
		if strings.HasSuffix(m.kind, "own-price-table") {
			// the peer also issued the price table the renter uses: same prices, signed with the
			// peer's key instead of the contract host's
			saved := e.prices
			e.prices.Signature = e.otherKey.SignHash(e.prices.SigHash())
			defer func() { e.prices = saved }()
		}
	}
	tr := rhpc.Scripted(peerKey, func(conn net.Conn) {
		defer close(done)
		sent = rhpc.Replay(conn, sc.steps, out, resolve)
	})
	dialed := false
	inner := tr.Dial
	tr.Dial = func(ctx context.Context) (net.Conn, error) { dialed = true; return inner(ctx) }
	o := callSafely(sc.call, tr)
	if dialed {
		select {
		case <-done:
		case <-time.After(20 * time.Second):
			panic("scripted host stuck in " + name)
		}
	}
	// messages the host would still have sent had the client gone on
	full := make([]rhpc.Msg, len(sc.steps))
	copy(full, sent)
	for i := len(sent); i < len(sc.steps); i++ {
		if sc.steps[i].Dir == rhpc.ToRenter {
			full[i] = *resolve(i, full[:i])
		}
	}
	e.emit(sc, name, tags, o, full)
}

func callSafely(call func(tr rhp4.TransportClient) (any, error), tr rhp4.TransportClient) (o outcome) {
	defer func() {
		if p := recover(); p != nil {
			o.panicked = p
		}
	}()
	o.res, o.err = call(tr)
	return
}

func (e *env) emit(sc *scenario, name string, tags []string, o outcome, full []rhpc.Msg) {
	c := &vh.Case{Name: name, Model: model, Tags: append(tags, "result:"+o.status())}
	implLine := o.status()
	if implLine == "ok" {
		implLine = "ok " + sc.impl(o)
	}
	c.Op(sc.line(full), implLine)
	if o.panicked != nil {
		c.Oracle("client-panic-"+sc.rpc, "%s: the client panicked instead of returning an error: %v", name, o.panicked)
	} else if o.err == nil {
		sc.oracle(c, o, full)
	}
	if strings.HasSuffix(name, "/live") && sc.mustSucceed && o.err != nil {
		c.Fail("corr", "corr:c10-live-exchange", fmt.Sprintf("%s: the real client and the real server no longer complete an honest exchange: %v", name, o.err))
	}
	c.Nontrivial = true
	c.Key = name
	if dump := os.Getenv("VERIF_C10_DUMP"); dump != "" {
		f, _ := os.OpenFile(dump, os.O_APPEND|os.O_CREATE|os.O_WRONLY, 0o644)
		fmt.Fprintf(f, "%s\t%s\t%s\t%d\n", name, c.Ops[0], c.Impl[0], len(c.Fails))
		f.Close()
	}
	e.r.Add(c)
}

// live runs the scenario's call against the REAL server through a recording interposer.
func (e *env) live(sc *scenario) (outcome, []rhpc.Msg) {
	ip := &rhpc.Interposer{Steps: sc.steps}
	o := callSafely(sc.call, rhpc.Interposed(e.h, ip))
	if !ip.Wait() {
		panic("real server stuck in " + sc.rpc + "/" + sc.name)
	}
	seen := make([]rhpc.Msg, len(sc.steps))
	copy(seen, ip.Seen)
	return o, seen
}

// runScenario emits the live case, the unmutated replay and one case per mutation.
func (e *env) runScenario(sc *scenario) {
	e.nScenarios++
	e.runCase(sc, nil)
	for i := range sc.muts {
		e.runCase(sc, &sc.muts[i])
	}
}

// msgWords renders the host's messages; f renders a well-formed one.
func msgWords(steps []rhpc.Step, sent []rhpc.Msg, f func(i int, m rhpc.Msg) string) string {
	var sb strings.Builder
	for i, st := range steps {
		if st.Dir != rhpc.ToRenter || i >= len(sent) {
			continue
		}
		m := sent[i]
		if m.Obj == nil && m.Raw == nil && !m.Failed() {
			continue // nothing prepared for this slot
		}
		if m.Failed() {
			sb.WriteString(" 0")
			if m.Close || m.CloseAfter || m.Err != nil {
				break
			}
			continue
		}
		sb.WriteString(" " + f(i, m))
	}
	return sb.String()
}

func b2i(b bool) int {
	if b {
		return 1
	}
	return 0
}

func (e *env) hostSigned(fc types.V2FileContract) bool {
	return e.h.Key.PublicKey().VerifyHash(e.cs.ContractSigHash(fc), fc.HostSignature)
}
func (e *env) renterSigned(fc types.V2FileContract) bool {
	return e.renterKey.PublicKey().VerifyHash(e.cs.ContractSigHash(fc), fc.RenterSignature)
}

// checkRevision is the part of the oracle common to every revision-returning RPC: the returned
// revision equals the one recomputed by the harness from the pre-state with core's
// ReviseFor…, carries valid signatures of both parties, and charges exactly `cost`.
func (e *env) checkRevision(c *vh.Case, name string, pre, got, want types.V2FileContract, usage proto4.Usage, maxCost types.Currency) {
	if !e.hostSigned(got) {
		c.Oracle("revision-bad-host-signature-"+name, "%s returned a revision without a valid host signature", name)
	}
	if !e.renterSigned(got) {
		c.Oracle("revision-bad-renter-signature-"+name, "%s returned a revision without a valid renter signature", name)
	}
	g, w := got, want
	g.RenterSignature, g.HostSignature, w.RenterSignature, w.HostSignature = types.Signature{}, types.Signature{}, types.Signature{}, types.Signature{}
	if g != w {
		c.Oracle("revision-not-recomputed-"+name, "%s returned a revision that is not the price-table revision of the pre-state: got %+v want %+v", name, g, w)
	}
	paid, under := pre.RenterOutput.Value.SubWithUnderflow(got.RenterOutput.Value)
	if under || !paid.Equals(usage.RenterCost()) {
		c.Oracle("cost-mismatch-"+name, "%s: renter output moved by %v but usage says %v", name, paid, usage.RenterCost())
	}
	if paid.Cmp(maxCost) > 0 {
		c.Oracle("cost-exceeds-price-table-"+name, "%s charged %v, more than the agreed price table allows for the request (%v)", name, paid, maxCost)
	}
}

// ---------------------------------------------------------------------------------------------

// Run is the C10 check.
func Run(r *vh.Run) {
	r.Rule = "one case = one real client call against a scripted host replaying the real server's recorded messages with at most one typed mutation; enumerated exhaustively over (RPC scenario, message, field, mutation kind), plus seeded random parameters/positions; distinct = distinct (scenario, message, field, kind); non-trivial = the client is actually invoked and its result compared with the model and checked against ground truth"
	e := setup(r)
	defer e.h.Close()
	defer e.hn.Close()
	defer e.rn.Close()

	var scs []*scenario
	add := func(s ...*scenario) { scs = append(scs, s...) }
	quick := r.Quick()

	// --- read
	type rd struct{ off, n uint64 }
	reads := []rd{{0, 64}, {64, 128}, {4096, 4096}, {0, 4160}, {8192, 8320}, {128, 1024}, {proto4.SectorSize - 64, 64}, {32, 32}, {32, 96}, {100, 28}, {0, 0}, {64, 100}, {proto4.SectorSize, 64}}
	for i := 0; i < r.Pick(5, 250); i++ {
		leaf := uint64(e.rng.Intn(proto4.LeavesPerSector - 70))
		nl := uint64(1 + e.rng.Intn(66))
		off := leaf * 64
		if e.rng.Chance(1, 3) {
			off += uint64(1 + e.rng.Intn(63)) // unaligned start, aligned end
		}
		reads = append(reads, rd{off, (leaf+nl)*64 - off})
	}
	if !quick {
		reads = append(reads, rd{0, proto4.SectorSize}, rd{1, proto4.SectorSize - 1})
	}
	for _, x := range reads {
		add(e.readScenario(e.order[e.rng.Intn(3)], x.off, x.n))
	}
	// whole-sector and long reads of the zero-tail sector
	add(e.readScenario(e.zeroTail, 0, proto4.SectorSize), e.readScenario(e.zeroTail, 4096, 8192))
	// --- write
	for _, n := range []uint64{64, 4096, proto4.SectorSize, 100, 0} {
		add(e.writeScenario(n))
	}
	// --- verify
	for i := 0; i < r.Pick(2, 40); i++ {
		add(e.verifyScenario(e.order[e.rng.Intn(len(e.order))]))
	}
	for _, sc := range scs {
		e.runScenario(sc)
	}
	scs = nil

	// --- contract RPCs: each honest run changes the contract, the next scenario starts from it
	run := func(sc *scenario) {
		if sc != nil {
			e.runScenario(sc)
		}
	}
	run(e.appendScenario([]types.Hash256{e.order[0], e.order[1], e.order[2]}))
	unknown := types.Hash256{0xde, 0xad}
	run(e.appendScenario([]types.Hash256{e.order[3], unknown, e.order[4]}))
	run(e.rootsScenario(0, 1))
	run(e.rootsScenario(1, 3))
	run(e.rootsScenario(0, uint64(len(e.roots))))
	run(e.rootsScenario(2, 0))
	run(e.rootsScenario(4, 3))
	run(e.fundScenario([]proto4.AccountDeposit{{Account: e.acct, Amount: types.Siacoins(1)}}))
	a2 := proto4.Account(types.GeneratePrivateKey().PublicKey())
	run(e.fundScenario([]proto4.AccountDeposit{{Account: e.acct, Amount: types.Siacoins(2)}, {Account: a2, Amount: types.NewCurrency64(7)}}))
	a3 := proto4.Account(types.GeneratePrivateKey().PublicKey())
	run(e.replenishScenario(false, []proto4.Account{a2, a3}, types.Siacoins(3)))
	run(e.replenishScenario(false, []proto4.Account{a2, a3}, types.Siacoins(3))) // nothing to pay: early return
	p1, p2 := proto4.Account(types.GeneratePrivateKey().PublicKey()), proto4.Account(types.GeneratePrivateKey().PublicKey())
	run(e.replenishScenario(true, []proto4.Account{p1, p2}, types.Siacoins(2)))
	run(e.replenishScenario(true, []proto4.Account{p1}, types.Siacoins(4)))
	run(e.freeScenario([]uint64{1}))
	run(e.appendScenario([]types.Hash256{e.order[5], e.order[0]}))
	run(e.freeScenario([]uint64{0, 3, 3, 2}))
	for i := 0; i < r.Pick(1, 30); i++ {
		k := 1 + e.rng.Intn(3)
		var add []types.Hash256
		for j := 0; j < k; j++ {
			add = append(add, e.order[e.rng.Intn(len(e.order))])
		}
		run(e.appendScenario(add))
		run(e.rootsScenario(uint64(e.rng.Intn(len(e.roots))), uint64(1+e.rng.Intn(2))))
		var idx []uint64
		for j := 0; j < 1+e.rng.Intn(3); j++ {
			idx = append(idx, uint64(e.rng.Intn(len(e.roots))))
		}
		run(e.freeScenario(idx))
	}
	if quick {
		e.freeSubstitutionSweep(7, 2, 15)
		e.freeSequenceSweep(5, 3)
	} else {
		e.freeSubstitutionSweep(10, 3, 25)
		e.freeSequenceSweep(6, 4)
	}
	r.Extra("scenarios", e.nScenarios)
	r.Extra("mutation_space", "every (scenario, host message, field, mutation kind) listed in distribution under field:* and mut:*")
	r.Assume("go.sia.tech/core's Merkle verifiers and ed25519 are sound (hypothesis `Sound` of the theorems; the harness evaluates the real verifiers to label each message)")
	r.Assume("the renter's view of the contract before each call is the host's committed revision (read back from the contractor)")
}

var _ = bytes.Equal
