package c10

import (
	"math"
	"sort"

	proto4 "go.sia.tech/core/rhp/v4"
	"go.sia.tech/core/types"
	"verifharness/rhpc"
)

// ---- typed mutation catalogue -----------------------------------------------------------------
// Each constructor returns every mutation kind of one field of one message.

func flipHash(h types.Hash256, bit int) types.Hash256 {
	h[(bit/8)%32] ^= 1 << (bit % 8)
	return h
}

func hashMuts(msg int, field string, get func(out []rhpc.Msg) *types.Hash256, alts map[string]types.Hash256) []mutation {
	ms := []mutation{
		{msg, field, "flip", func(out []rhpc.Msg) { p := get(out); *p = flipHash(*p, 13) }},
		{msg, field, "zero", func(out []rhpc.Msg) { *get(out) = types.Hash256{} }},
	}
	for _, k := range sortedKeys(alts) {
		v := alts[k]
		ms = append(ms, mutation{msg, field, "swap:" + k, func(out []rhpc.Msg) { *get(out) = v }})
	}
	return ms
}

func proofMuts(msg int, field string, get func(out []rhpc.Msg) *[]types.Hash256, alts map[string][]types.Hash256) []mutation {
	ms := []mutation{
		{msg, field, "flip-first", func(out []rhpc.Msg) {
			p := get(out)
			if len(*p) > 0 {
				(*p)[0] = flipHash((*p)[0], 3)
			} else {
				*p = append(*p, types.Hash256{1})
			}
		}},
		{msg, field, "flip-last", func(out []rhpc.Msg) {
			p := get(out)
			if len(*p) > 0 {
				(*p)[len(*p)-1] = flipHash((*p)[len(*p)-1], 250)
			} else {
				*p = append(*p, types.Hash256{2})
			}
		}},
		{msg, field, "truncate", func(out []rhpc.Msg) {
			p := get(out)
			if len(*p) > 0 {
				*p = (*p)[:len(*p)-1]
			} else {
				*p = append(*p, types.Hash256{3})
			}
		}},
		{msg, field, "extend", func(out []rhpc.Msg) { p := get(out); *p = append(*p, types.Hash256{0xee, 1}) }},
		{msg, field, "empty", func(out []rhpc.Msg) {
			p := get(out)
			if len(*p) > 0 {
				*p = nil
			} else {
				*p = append(*p, types.Hash256{4})
			}
		}},
		{msg, field, "swap-elems", func(out []rhpc.Msg) {
			p := get(out)
			if len(*p) >= 2 && (*p)[0] != (*p)[len(*p)-1] {
				(*p)[0], (*p)[len(*p)-1] = (*p)[len(*p)-1], (*p)[0]
			} else {
				*p = append(*p, types.Hash256{5})
			}
		}},
	}
	for _, k := range sortedKeys(alts) {
		v := alts[k]
		ms = append(ms, mutation{msg, field, "swap:" + k, func(out []rhpc.Msg) { *get(out) = append([]types.Hash256(nil), v...) }})
	}
	return ms
}

func u64Muts(msg int, field string, get func(out []rhpc.Msg) *uint64) []mutation {
	return []mutation{
		{msg, field, "plus1", func(out []rhpc.Msg) { *get(out)++ }},
		{msg, field, "minus1", func(out []rhpc.Msg) { *get(out)-- }},
		{msg, field, "zero", func(out []rhpc.Msg) {
			if *get(out) == 0 {
				*get(out) = 64
			} else {
				*get(out) = 0
			}
		}},
		{msg, field, "double", func(out []rhpc.Msg) { *get(out) = *get(out)*2 + 64 }},
		{msg, field, "plus-leaf", func(out []rhpc.Msg) { *get(out) += 64 }},
		{msg, field, "minus-leaf", func(out []rhpc.Msg) { *get(out) -= 64 }},
		{msg, field, "huge", func(out []rhpc.Msg) { *get(out) = math.MaxUint64 - 5 }},
	}
}

func sigMuts(msg int, field string, get func(out []rhpc.Msg) *types.Signature, alts map[string]func() types.Signature) []mutation {
	ms := []mutation{
		{msg, field, "flip", func(out []rhpc.Msg) { get(out)[7] ^= 0x10 }},
		{msg, field, "zero", func(out []rhpc.Msg) { *get(out) = types.Signature{} }},
	}
	for _, k := range sortedKeys(alts) {
		f := alts[k]
		ms = append(ms, mutation{msg, field, k, func(out []rhpc.Msg) { *get(out) = f() }})
	}
	return ms
}

// msgMuts: the message is replaced by an RPC error frame, never arrives (stream closed), or
// arrives truncated.
func msgMuts(msg int, steps []rhpc.Step) []mutation {
	return []mutation{
		{msg, "message", "rpc-error", func(out []rhpc.Msg) {
			out[msg] = rhpc.Msg{Err: proto4.NewRPCError(proto4.ErrorCodeHostError, "verif: host refuses").(*proto4.RPCError)}
		}},
		{msg, "message", "drop", func(out []rhpc.Msg) { out[msg] = rhpc.Msg{Close: true} }},
		{msg, "message", "truncated", func(out []rhpc.Msg) {
			b := out[msg].Encode(steps[msg])
			if len(b) > 1 {
				b = b[:len(b)-1]
			}
			out[msg] = rhpc.Msg{Bytes: b, CloseAfter: true}
		}},
	}
}

func rawMuts(msg int, field string, alts map[string][]byte) []mutation {
	get := func(out []rhpc.Msg) *[]byte { return &out[msg].Raw }
	ms := []mutation{
		{msg, field, "flip-first", func(out []rhpc.Msg) {
			p := get(out)
			if len(*p) > 0 {
				(*p)[0] ^= 1
			}
		}},
		{msg, field, "flip-mid", func(out []rhpc.Msg) {
			p := get(out)
			if len(*p) > 0 {
				(*p)[len(*p)/2] ^= 0x80
			}
		}},
		{msg, field, "flip-last", func(out []rhpc.Msg) {
			p := get(out)
			if len(*p) > 0 {
				(*p)[len(*p)-1] ^= 4
			}
		}},
		{msg, field, "truncate1", func(out []rhpc.Msg) {
			p := get(out)
			if len(*p) > 0 {
				*p = (*p)[:len(*p)-1]
			}
		}},
		{msg, field, "truncate-leaf", func(out []rhpc.Msg) {
			p := get(out)
			if len(*p) >= 64 {
				*p = (*p)[:len(*p)-64]
			}
		}},
		{msg, field, "extend-leaf", func(out []rhpc.Msg) { p := get(out); *p = append(*p, make([]byte, 64)...) }},
		{msg, field, "zeros", func(out []rhpc.Msg) { p := get(out); *p = make([]byte, len(*p)) }},
	}
	for _, k := range sortedKeys(alts) {
		v := alts[k]
		ms = append(ms, mutation{msg, field, "swap:" + k, func(out []rhpc.Msg) { *get(out) = append([]byte(nil), v...) }})
	}
	return ms
}

func sortedKeys[V any](m map[string]V) []string {
	ks := make([]string, 0, len(m))
	for k := range m {
		ks = append(ks, k)
	}
	sort.Strings(ks)
	return ks
}
