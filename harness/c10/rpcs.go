package c10

import (
	"bytes"
	"context"
	"errors"
	"fmt"
	"math/bits"
	"slices"
	"strings"

	"go.sia.tech/core/blake2b"
	rhp2 "go.sia.tech/core/rhp/v2"
	proto4 "go.sia.tech/core/rhp/v4"
	"go.sia.tech/core/types"
	rhp4 "go.sia.tech/coreutils/rhp/v4"
	"verifharness/rhpc"
	"verifharness/vh"
)

var ctx = context.Background()

func safeBool(f func() bool) (ok bool) {
	defer func() {
		if recover() != nil {
			ok = false
		}
	}()
	return f()
}

// useLive installs the real server's messages as the honest base and emits the live case.
func (e *env) useLive(sc *scenario) outcome {
	o, seen := e.live(sc)
	sc.honest = make([]rhpc.Msg, len(sc.steps))
	for i, st := range sc.steps {
		if st.Dir == rhpc.ToRenter {
			sc.honest[i] = seen[i]
		}
	}
	e.emitLive(sc, o, seen)
	return o
}

// ---- read -----------------------------------------------------------------------------------

// cappedWriter is an io.Writer that fails once more than *limit bytes have been handed to it
// (*limit < 0: never); what it accepted is what the caller has been given.
type cappedWriter struct {
	buf   bytes.Buffer
	limit *int
}

var errWriterFull = errors.New("verif: the caller's writer failed")

func (w *cappedWriter) Write(p []byte) (int, error) {
	if l := *w.limit; l >= 0 && w.buf.Len()+len(p) > l {
		k := max(l-w.buf.Len(), 0)
		w.buf.Write(p[:k])
		return k, errWriterFull
	}
	return w.buf.Write(p)
}

type readResult struct {
	res  rhp4.RPCReadSectorResult
	data []byte
}

func leafRange(off, n uint64) (uint64, uint64) { return off / 64, (off + n + 63) / 64 }

func readStructurallyValid(off, n uint64) bool {
	return n != 0 && off <= proto4.SectorSize && n <= proto4.SectorSize-off && (off+n)%64 == 0
}

// lenientRead is what a host that serves whole leaves answers.
func lenientRead(sector *[proto4.SectorSize]byte, start, end uint64) ([]types.Hash256, []byte) {
	ss, se := proto4.SectorSubtreeRange(start, end)
	cache := proto4.CachedSectorSubtrees(sector)
	proof := proto4.BuildSectorProof(sector[ss*64:se*64], start, end, cache)
	return proof, append([]byte(nil), sector[start*64:end*64]...)
}

func (e *env) readScenario(root types.Hash256, off, n uint64) *scenario {
	sector := e.sectors[root]
	sc := &scenario{rpc: "read", name: fmt.Sprintf("s%d_o%d_n%d", e.rid(root), off, n), steps: rhpc.StepsRead, mustSucceed: readStructurallyValid(off, n) && off%64 == 0}
	// the caller's writer: accepts everything, or fails once more than failAt bytes are handed to
	// it (set by the "writer-fails-at-…" cases while the exchange is running)
	failAt := -1
	sc.call = func(tr rhp4.TransportClient) (any, error) {
		failAt = -1
		w := &cappedWriter{limit: &failAt}
		res, err := rhp4.RPCReadSector(ctx, tr, e.prices, e.token, w, root, off, n)
		return readResult{res, w.buf.Bytes()}, err
	}
	valid := readStructurallyValid(off, n)
	start, end := leafRange(off, n)
	verdict := func(proof []types.Hash256, dataLen uint64, raw []byte) bool {
		if !valid {
			return false
		}
		want := 64 * (end - start)
		k := min(dataLen, want, uint64(len(raw)))
		return safeBool(func() bool {
			rpv := proto4.NewRangeProofVerifier(start, end)
			if _, err := rpv.ReadFrom(bytes.NewReader(raw[:k])); err != nil {
				return false
			}
			return rpv.Verify(proof, root)
		})
	}
	sc.line = func(sent []rhpc.Msg) string {
		var raw []byte
		if len(sent) > 2 && !sent[1].Failed() {
			raw = sent[2].Raw
		}
		return fmt.Sprintf("read 1 %d %d %d %s |", off, n, failAt+1, e.priceWords()) + msgWords(sc.steps, sent, func(i int, m rhpc.Msg) string {
			if i == 1 {
				r := m.Obj.(*proto4.RPCReadSectorResponse)
				return fmt.Sprintf("1 %d %d", b2i(verdict(r.Proof, r.DataLength, raw)), r.DataLength)
			}
			return fmt.Sprintf("2 %d", len(m.Raw))
		})
	}
	sc.impl = func(o outcome) string {
		rr := o.res.(readResult)
		return fmt.Sprintf("%d cost=%s", len(rr.data), cur(rr.res.Usage.RenterCost()))
	}
	sc.oracle = func(c *vh.Case, o outcome, _ []rhpc.Msg) {
		rr := o.res.(readResult)
		if off+n > proto4.SectorSize || n == 0 {
			c.Oracle("read-invalid-range-succeeds", "read of [%d,+%d) succeeded", off, n)
			return
		}
		if failAt >= 0 && uint64(failAt) < n {
			c.Oracle("read-success-although-writer-failed", "RPCReadSector(offset=%d, length=%d) reported success although the caller's writer failed after %d bytes: only %d of the %d verified bytes were delivered and the writer's error was dropped", off, n, failAt, len(rr.data), n)
		} else if uint64(len(rr.data)) < n {
			c.Oracle("read-success-with-missing-bytes", "RPCReadSector(offset=%d, length=%d) reported success but only %d of the %d bytes of the range reached the caller's writer", off, n, len(rr.data), n)
		} else if uint64(len(rr.data)) != n {
			c.Oracle("read-delivers-outside-range", "RPCReadSector(offset=%d, length=%d) reported success and wrote %d bytes to the caller (requested %d): bytes outside the requested range were delivered", off, n, len(rr.data), n)
		} else if !bytes.Equal(rr.data, sector[off:off+n]) {
			c.Oracle("read-wrong-bytes", "RPCReadSector(offset=%d, length=%d) succeeded with bytes that are not the sector's", off, n)
		}
		if rr.res.Usage != e.prices.RPCReadSectorCost(n) {
			c.Oracle("cost-mismatch-read", "usage %v, price table says %v", rr.res.Usage, e.prices.RPCReadSectorCost(n))
		}
	}
	o := e.useLive(sc)
	if !valid {
		return sc // rejected by the client before dialing: nothing to mutate
	}
	if o.err != nil {
		// the real server refuses (unaligned offset): the base is a lenient host's answer
		proof, data := lenientRead(sector, start, end)
		sc.honest[1] = rhpc.Msg{Obj: &proto4.RPCReadSectorResponse{Proof: proof, DataLength: uint64(len(data))}}
		sc.honest[2] = rhpc.Msg{Raw: data}
		sc.name += "_lenient"
	}
	resp := func(out []rhpc.Msg) *proto4.RPCReadSectorResponse {
		return out[1].Obj.(*proto4.RPCReadSectorResponse)
	}
	other := e.order[(slices.Index(e.order, root)+1)%len(e.order)]
	altProofs := map[string][]types.Hash256{}
	altData := map[string][]byte{}
	if end < proto4.LeavesPerSector {
		p, d := lenientRead(sector, start+1, end+1)
		altProofs["proof-next-range"], altData["data-next-range"] = p, d
	}
	p2, d2 := lenientRead(e.sectors[other], start, end)
	altProofs["proof-other-sector"], altData["data-other-sector"] = p2, d2
	sc.muts = append(sc.muts, proofMuts(1, "Proof", func(out []rhpc.Msg) *[]types.Hash256 { return &resp(out).Proof }, altProofs)...)
	sc.muts = append(sc.muts, u64Muts(1, "DataLength", func(out []rhpc.Msg) *uint64 { return &resp(out).DataLength })...)
	sc.muts = append(sc.muts, msgMuts(1, sc.steps)...)
	sc.muts = append(sc.muts, rawMuts(2, "data", altData)...)
	// the host announces the full length, streams a leaf-aligned prefix and closes: at the first
	// leaf, in the middle, one leaf before the end and — for data with a zero tail — where the
	// non-zero part ends and inside the zeros
	cuts := []uint64{0, 64, (n / 2) &^ 63, n - 64}
	if root == e.zeroTail && off < zeroTailPrefix {
		cuts = append(cuts, zeroTailPrefix-off, zeroTailPrefix-off+64, zeroTailPrefix-off+4096)
	}
	seenCut := map[uint64]bool{}
	for _, k := range cuts {
		if k >= n || seenCut[k] {
			continue
		}
		seenCut[k] = true
		sc.muts = append(sc.muts, mutation{2, "data", fmt.Sprintf("stream-cut-at-%d-of-%d", k, n), func(out []rhpc.Msg) { out[2].Raw = out[2].Raw[:min(k, uint64(len(out[2].Raw)))] }})
	}
	// the host is honest, the caller's writer is not: it fails at the first byte, in the middle,
	// on the last byte, at and around the 4 KiB block boundaries a buffering layer would use
	seen := map[int]bool{}
	for _, k := range []int{0, 1, int(n) / 2, int(n) - 64, int(n) - 1, 4095, 4096, 4097, int(n) - int(n)%4096, int(n) - int(n)%4096 - 1} {
		if k < 0 || k >= int(n) || seen[k] {
			continue
		}
		seen[k] = true
		sc.muts = append(sc.muts, mutation{1, "writer", fmt.Sprintf("writer-fails-at-%d-of-%d", k, n), func([]rhpc.Msg) { failAt = k }})
	}
	sc.muts = append(sc.muts, mutation{1, "writer", "writer-limit-exactly-length", func([]rhpc.Msg) { failAt = int(n) }})
	// coherent lies: a fully valid answer for another range
	if end < proto4.LeavesPerSector {
		sc.muts = append(sc.muts, mutation{1, "response", "valid-for-next-range", func(out []rhpc.Msg) {
			p, d := lenientRead(sector, start+1, end+1)
			resp(out).Proof, out[2].Raw = p, d
		}}, mutation{1, "response", "valid-one-leaf-more", func(out []rhpc.Msg) {
			p, d := lenientRead(sector, start, end+1)
			resp(out).Proof, resp(out).DataLength, out[2].Raw = p, uint64(len(d)), d
		}})
	}
	if start > 0 {
		sc.muts = append(sc.muts, mutation{1, "response", "valid-from-previous-leaf", func(out []rhpc.Msg) {
			p, d := lenientRead(sector, start-1, end)
			resp(out).Proof, resp(out).DataLength, out[2].Raw = p, uint64(len(d)), d
		}})
	}
	if off%64 != 0 {
		sc.muts = append(sc.muts, mutation{1, "response", "exact-unaligned-bytes", func(out []rhpc.Msg) {
			resp(out).DataLength, out[2].Raw = n, append([]byte(nil), sector[off:off+n]...)
		}})
	}
	sc.muts = append(sc.muts, mutation{1, "response", "valid-for-other-sector", func(out []rhpc.Msg) {
		p, d := lenientRead(e.sectors[other], start, end)
		resp(out).Proof, out[2].Raw = p, d
	}})
	return sc
}

// ---- write ----------------------------------------------------------------------------------

func (e *env) writeScenario(n uint64) *scenario {
	data := make([]byte, n+64) // the reader holds a little more than `length`
	for i := range data {
		data[i] = byte(i*31 + int(n))
	}
	var padded [proto4.SectorSize]byte
	copy(padded[:], data[:min(n, proto4.SectorSize)])
	trueRoot := proto4.SectorRoot(&padded)
	sc := &scenario{rpc: "write", name: fmt.Sprintf("n%d", n), steps: rhpc.StepsWrite, mustSucceed: n != 0 && n%64 == 0 && n <= proto4.SectorSize}
	sc.call = func(tr rhp4.TransportClient) (any, error) {
		return rhp4.RPCWriteSector(ctx, tr, e.prices, e.token, bytes.NewReader(data), n)
	}
	sc.line = func(sent []rhpc.Msg) string {
		return fmt.Sprintf("write 1 %d %d %s |", len(data), n, e.priceWords()) + msgWords(sc.steps, sent, func(i int, m rhpc.Msg) string {
			tok := 2
			if m.Obj.(*proto4.RPCWriteSectorResponse).Root == trueRoot {
				tok = 1
			}
			return fmt.Sprintf("3 %d", tok)
		})
	}
	sc.impl = func(o outcome) string {
		res := o.res.(rhp4.RPCWriteSectorResult)
		tok := 2
		if res.Root == trueRoot {
			tok = 1
		}
		return fmt.Sprintf("%d cost=%s", tok, cur(res.Usage.RenterCost()))
	}
	sc.oracle = func(c *vh.Case, o outcome, _ []rhpc.Msg) {
		res := o.res.(rhp4.RPCWriteSectorResult)
		if res.Root != trueRoot {
			c.Oracle("write-wrong-root", "RPCWriteSector(%d bytes) succeeded with a root that is not the root of the padded data sent", n)
		}
		if res.Usage != e.prices.RPCWriteSectorCost(n) {
			c.Oracle("cost-mismatch-write", "usage %v, price table says %v", res.Usage, e.prices.RPCWriteSectorCost(n))
		}
	}
	o := e.useLive(sc)
	if o.err != nil {
		return sc
	}
	e.sectors[trueRoot] = &padded
	root := func(out []rhpc.Msg) *types.Hash256 { return &out[2].Obj.(*proto4.RPCWriteSectorResponse).Root }
	var unpadded types.Hash256
	if n%64 == 0 {
		unpadded, _ = proto4.ReaderRoot(bytes.NewReader(data[:n]))
	}
	sc.muts = append(sc.muts, hashMuts(2, "Root", root, map[string]types.Hash256{"other-sector-root": e.order[0], "root-of-unpadded-data": unpadded})...)
	sc.muts = append(sc.muts, msgMuts(2, sc.steps)...)
	return sc
}

// ---- verify ---------------------------------------------------------------------------------

func (e *env) verifyScenario(root types.Hash256) *scenario {
	sector := e.sectors[root]
	sc := &scenario{rpc: "verify", name: fmt.Sprintf("s%d", e.rid(root)), steps: rhpc.StepsVerify}
	sc.call = func(tr rhp4.TransportClient) (any, error) {
		return rhp4.RPCVerifySector(ctx, tr, e.prices, e.token, root)
	}
	honestFor := func(idx uint64) *proto4.RPCVerifySectorResponse {
		proof, data := lenientRead(sector, idx, idx+1)
		return &proto4.RPCVerifySectorResponse{Proof: proof, Leaf: ([64]byte)(data)}
	}
	leafIndex := func(got []rhpc.Msg) (uint64, bool) {
		if len(got) > 0 && got[0].Obj != nil {
			return got[0].Obj.(*proto4.RPCVerifySectorRequest).LeafIndex, true
		}
		return 0, false
	}
	// the honest answer depends on the index the client drew
	sc.finish = func(out []rhpc.Msg, i int, got []rhpc.Msg) *rhpc.Msg {
		if idx, ok := leafIndex(got); ok && i == 1 {
			return &rhpc.Msg{Obj: honestFor(idx)}
		}
		return nil
	}
	sc.line = func(sent []rhpc.Msg) string {
		idx, _ := leafIndex(sent)
		return fmt.Sprintf("verify %s |", e.priceWords()) + msgWords(sc.steps, sent, func(i int, m rhpc.Msg) string {
			r := m.Obj.(*proto4.RPCVerifySectorResponse)
			return fmt.Sprintf("4 %d", b2i(safeBool(func() bool { return proto4.VerifyLeafProof(r.Proof, r.Leaf, idx, root) })))
		})
	}
	sc.impl = func(o outcome) string {
		return "cost=" + cur(o.res.(rhp4.RPCVerifySectorResult).Usage.RenterCost())
	}
	sc.oracle = func(c *vh.Case, o outcome, sent []rhpc.Msg) {
		idx, _ := leafIndex(sent)
		r, ok := sent[1].Obj.(*proto4.RPCVerifySectorResponse)
		if !ok || !bytes.Equal(r.Leaf[:], sector[idx*64:idx*64+64]) {
			c.Oracle("verify-wrong-leaf", "RPCVerifySector succeeded although the host did not produce leaf %d of the sector", idx)
		}
		if o.res.(rhp4.RPCVerifySectorResult).Usage != e.prices.RPCVerifySectorCost() {
			c.Oracle("cost-mismatch-verify", "usage differs from the price table")
		}
	}
	sc.honest = make([]rhpc.Msg, 2)
	sc.honest[1] = rhpc.Msg{Obj: honestFor(0)} // placeholder, replaced per request
	sc.mustSucceed = true
	o, seen := e.live(sc)
	e.emitLive(sc, o, seen)
	resp := func(out []rhpc.Msg) *proto4.RPCVerifySectorResponse {
		return out[1].Obj.(*proto4.RPCVerifySectorResponse)
	}
	other := e.order[(slices.Index(e.order, root)+1)%len(e.order)]
	sc.muts = append(sc.muts, proofMuts(1, "Proof", func(out []rhpc.Msg) *[]types.Hash256 { return &resp(out).Proof }, nil)...)
	sc.muts = append(sc.muts,
		mutation{1, "Leaf", "flip", func(out []rhpc.Msg) { resp(out).Leaf[9] ^= 2 }},
		mutation{1, "Leaf", "zeros", func(out []rhpc.Msg) { resp(out).Leaf = [64]byte{} }},
		mutation{1, "response", "valid-for-neighbour-leaf", func(out []rhpc.Msg) {
			// a proof that verifies, for a leaf the client did not ask for
			*resp(out) = *honestFor(uint64(e.rng.Intn(proto4.LeavesPerSector)))
		}},
		mutation{1, "response", "valid-for-other-sector", func(out []rhpc.Msg) {
			p, d := lenientRead(e.sectors[other], 7, 8)
			resp(out).Proof, resp(out).Leaf = p, ([64]byte)(d)
		}},
	)
	sc.muts = append(sc.muts, msgMuts(1, sc.steps)...)
	return sc
}

// ---- helpers for revision RPCs --------------------------------------------------------------

func (e *env) signAs(key types.PrivateKey, fc types.V2FileContract) types.Signature {
	return key.SignHash(e.cs.ContractSigHash(fc))
}

func (e *env) sigVerdict(fc types.V2FileContract, ok bool, sig types.Signature) int {
	return b2i(ok && e.h.Key.PublicKey().VerifyHash(e.cs.ContractSigHash(fc), sig))
}

// sigAlts: what a host can put in a signature field besides garbage.
func (e *env) sigAlts(pre types.V2FileContract, expected func() (types.V2FileContract, bool)) map[string]func() types.Signature {
	return map[string]func() types.Signature{
		"signed-by-other-key": func() types.Signature {
			fc, _ := expected()
			return e.signAs(e.otherKey, fc)
		},
		"host-signs-higher-cost": func() types.Signature {
			fc, _ := expected()
			if fc.RenterOutput.Value.Cmp(types.NewCurrency64(1)) >= 0 {
				fc.RenterOutput.Value = fc.RenterOutput.Value.Sub(types.NewCurrency64(1))
				fc.HostOutput.Value = fc.HostOutput.Value.Add(types.NewCurrency64(1))
			}
			return e.signAs(e.h.Key, fc)
		},
		"host-signs-next-revision-number": func() types.Signature {
			fc, _ := expected()
			fc.RevisionNumber++
			return e.signAs(e.h.Key, fc)
		},
		"host-signs-other-root": func() types.Signature {
			fc, _ := expected()
			fc.FileMerkleRoot = flipHash(fc.FileMerkleRoot, 1)
			return e.signAs(e.h.Key, fc)
		},
		"replayed-previous-signature": func() types.Signature { return pre.HostSignature },
	}
}

// foreignTransportMuts: the same exchange over a transport whose peer key is not the contract's
// host key.  A signature of the contract's host key must still be accepted (the revision is
// enforceable on chain under that key only) and one made with the transport's key must not.
func (e *env) foreignTransportMuts(msg int, sig func(out []rhpc.Msg) *types.Signature, expected func(out []rhpc.Msg) (types.V2FileContract, bool)) []mutation {
	return []mutation{
		{msg: msg, field: "transport", kind: "foreign-peer-key-contract-key-signs", apply: func([]rhpc.Msg) {}},
		{msg: msg, field: "HostSignature", kind: "foreign-peer-key-signs", apply: func(out []rhpc.Msg) {
			fc, _ := expected(out)
			*sig(out) = e.signAs(e.otherKey, fc)
		}},
		// the peer plays host completely: its own price table, its own signature on the revision
		{msg: msg, field: "HostSignature", kind: "foreign-peer-key-signs-own-price-table", apply: func(out []rhpc.Msg) {
			fc, _ := expected(out)
			*sig(out) = e.signAs(e.otherKey, fc)
		}},
	}
}

// appendProofForTreeSize cuts the real tree over roots into popcount(size) pieces along its right
// spine, so that an accumulator told it holds `size` leaves reproduces the real root from them,
// and returns those pieces (lowest tree first, as VerifyAppendSectorsProof reads them) with the
// root that accumulator reaches after appending app.
func appendProofForTreeSize(roots, app []types.Hash256, size uint64) ([]types.Hash256, types.Hash256, bool) {
	k := bits.OnesCount64(size)
	if k == 0 || k > len(roots) {
		return nil, types.Hash256{}, false
	}
	lo, hi := 0, len(roots)
	var pieces []types.Hash256 // highest tree first
	for s := 1; s < k; s++ {
		n := hi - lo
		if n < 2 {
			return nil, types.Hash256{}, false
		}
		p := 1 << (bits.Len(uint(n-1)) - 1) // largest power of two below n
		pieces = append(pieces, proto4.MetaRoot(roots[lo:lo+p]))
		lo += p
	}
	pieces = append(pieces, proto4.MetaRoot(roots[lo:hi]))
	slices.Reverse(pieces) // lowest tree first
	acc := blake2b.Accumulator{NumLeaves: size}
	j := 0
	for i := 0; i < 64; i++ {
		if size&(1<<i) != 0 {
			acc.Trees[i] = pieces[j]
			j++
		}
	}
	if types.Hash256(acc.Root()) != proto4.MetaRoot(roots) {
		return nil, types.Hash256{}, false
	}
	for _, h := range app {
		acc.AddLeaf(h)
	}
	return pieces, types.Hash256(acc.Root()), true
}

func normalizeDesc(idx []uint64) []uint64 {
	out := slices.Clone(idx)
	slices.Sort(out)
	slices.Reverse(out)
	return slices.Compact(out)
}

func applyFree(roots []types.Hash256, idx []uint64) []types.Hash256 {
	out := slices.Clone(roots)
	for i, n := range idx {
		out[n] = out[len(out)-i-1]
	}
	return out[:len(out)-len(idx)]
}

func (e *env) ids(hs []types.Hash256) string {
	var w []string
	for _, h := range hs {
		w = append(w, fmt.Sprint(e.rid(h)))
	}
	return strings.Join(w, " ")
}

// ---- append ---------------------------------------------------------------------------------

func (e *env) appendScenario(roots []types.Hash256) *scenario {
	e.sync()
	pre, preRoots := e.contract, slices.Clone(e.roots)
	sc := &scenario{rpc: "append", name: fmt.Sprintf("rev%d_k%d", pre.Revision.RevisionNumber, len(roots)), steps: rhpc.StepsAppend, mustSucceed: true}
	sc.call = func(tr rhp4.TransportClient) (any, error) {
		return rhp4.RPCAppendSectors(ctx, tr, e.fs, e.cs, e.prices, pre, roots)
	}
	numSectors := (pre.Revision.Filesize + proto4.SectorSize - 1) / proto4.SectorSize
	accepted := func(r *proto4.RPCAppendSectorsResponse) ([]types.Hash256, bool) {
		if len(r.Accepted) != len(roots) {
			return nil, false
		}
		var app []types.Hash256
		for i, a := range r.Accepted {
			if a {
				app = append(app, roots[i])
			}
		}
		return app, true
	}
	expected := func(out []rhpc.Msg) (types.V2FileContract, bool) {
		r, ok := out[1].Obj.(*proto4.RPCAppendSectorsResponse)
		if !ok || out[1].Failed() {
			return pre.Revision, false
		}
		app, ok := accepted(r)
		if !ok {
			return pre.Revision, false
		}
		fc, _, err := proto4.ReviseForAppendSectors(pre.Revision, e.prices, r.NewMerkleRoot, uint64(len(app)))
		return fc, err == nil
	}
	sc.finish = func(out []rhpc.Msg, i int, got []rhpc.Msg) *rhpc.Msg {
		if i != 3 {
			return nil
		}
		fc, _ := expected(out)
		// a greedy host countersigns a dearer revision if that is what the renter signed
		if r, ok := out[1].Obj.(*proto4.RPCAppendSectorsResponse); ok && len(got) > 2 && got[2].Obj != nil {
			rs := got[2].Obj.(*proto4.RPCAppendSectorsSecondResponse).RenterSignature
			if alt, _, err := proto4.ReviseForAppendSectors(pre.Revision, e.prices, r.NewMerkleRoot, uint64(len(roots))); err == nil && e.renterKey.PublicKey().VerifyHash(e.cs.ContractSigHash(alt), rs) {
				fc = alt
			}
		}
		return &rhpc.Msg{Obj: &proto4.RPCAppendSectorsThirdResponse{HostSignature: e.signAs(e.h.Key, fc)}}
	}
	sc.line = func(sent []rhpc.Msg) string {
		fc, ok := expected(sent)
		return fmt.Sprintf("append %s %s %d %s |", e.revWords(pre.Revision), e.priceWords(), len(roots), e.ids(roots)) + msgWords(sc.steps, sent, func(i int, m rhpc.Msg) string {
			if i == 1 {
				r := m.Obj.(*proto4.RPCAppendSectorsResponse)
				app, okLen := accepted(r)
				v := okLen && safeBool(func() bool {
					return proto4.VerifyAppendSectorsProof(numSectors, r.SubtreeRoots, app, pre.Revision.FileMerkleRoot, r.NewMerkleRoot)
				})
				var bs []string
				for _, a := range r.Accepted {
					bs = append(bs, fmt.Sprint(b2i(a)))
				}
				return strings.TrimSpace(fmt.Sprintf("6 %d %s", len(r.Accepted), strings.Join(bs, " "))) + fmt.Sprintf(" %d %d", b2i(v), e.rid(r.NewMerkleRoot))
			}
			return fmt.Sprintf("7 %d", e.sigVerdict(fc, ok, m.Obj.(*proto4.RPCAppendSectorsThirdResponse).HostSignature))
		})
	}
	sc.impl = func(o outcome) string {
		res := o.res.(rhp4.RPCAppendSectorsResult)
		return strings.TrimSpace(e.fmtRev(res.Revision, res.Usage) + " appended=" + e.ids(res.Sectors))
	}
	sc.oracle = func(c *vh.Case, o outcome, sent []rhpc.Msg) {
		res := o.res.(rhp4.RPCAppendSectorsResult)
		r, _ := sent[1].Obj.(*proto4.RPCAppendSectorsResponse)
		var app []types.Hash256
		if r != nil {
			app, _ = accepted(r)
		}
		if !slices.Equal(app, res.Sectors) {
			c.Oracle("append-accepted-mismatch", "appended sectors are not the requested roots the host flagged as accepted")
		}
		newRoots := append(slices.Clone(preRoots), res.Sectors...)
		if res.Revision.FileMerkleRoot != proto4.MetaRoot(newRoots) || res.Revision.Filesize != uint64(len(newRoots))*proto4.SectorSize {
			c.Oracle("append-wrong-root", "RPCAppendSectors succeeded but the new Merkle root/filesize is not the previous roots followed by the appended sectors")
		}
		want, _, _ := proto4.ReviseForAppendSectors(pre.Revision, e.prices, proto4.MetaRoot(newRoots), uint64(len(res.Sectors)))
		_, maxU, _ := proto4.ReviseForAppendSectors(pre.Revision, e.prices, types.Hash256{}, uint64(len(roots)))
		e.checkRevision(c, "append", pre.Revision, res.Revision, want, res.Usage, maxU.RenterCost())
	}
	o := e.useLive(sc)
	e.sync()
	if o.err != nil || o.panicked != nil {
		// the live case above records the disagreement; go on from what an honest host answers
		r := &proto4.RPCAppendSectorsResponse{}
		var app []types.Hash256
		for _, root := range roots {
			_, known := e.sectors[root]
			r.Accepted = append(r.Accepted, known)
			if known {
				app = append(app, root)
			}
		}
		r.SubtreeRoots, r.NewMerkleRoot = proto4.BuildAppendProof(preRoots, app)
		sc.honest = make([]rhpc.Msg, len(sc.steps))
		sc.honest[1] = rhpc.Msg{Obj: r}
	}
	resp := func(out []rhpc.Msg) *proto4.RPCAppendSectorsResponse {
		return out[1].Obj.(*proto4.RPCAppendSectorsResponse)
	}
	honestResp := sc.honest[1].Obj.(*proto4.RPCAppendSectorsResponse)
	honestApp, _ := accepted(honestResp)
	sc.muts = append(sc.muts,
		mutation{1, "Accepted", "flip-first", func(out []rhpc.Msg) { resp(out).Accepted[0] = !resp(out).Accepted[0] }},
		mutation{1, "Accepted", "flip-last", func(out []rhpc.Msg) { a := resp(out).Accepted; a[len(a)-1] = !a[len(a)-1] }},
		mutation{1, "Accepted", "truncate", func(out []rhpc.Msg) { a := resp(out).Accepted; resp(out).Accepted = a[:len(a)-1] }},
		mutation{1, "Accepted", "extend", func(out []rhpc.Msg) { resp(out).Accepted = append(resp(out).Accepted, true) }},
		mutation{1, "Accepted", "all-false", func(out []rhpc.Msg) {
			for i := range resp(out).Accepted {
				resp(out).Accepted[i] = false
			}
		}},
		mutation{1, "Accepted", "all-true", func(out []rhpc.Msg) {
			for i := range resp(out).Accepted {
				resp(out).Accepted[i] = true
			}
		}},
	)
	sc.muts = append(sc.muts, proofMuts(1, "SubtreeRoots", func(out []rhpc.Msg) *[]types.Hash256 { return &resp(out).SubtreeRoots }, nil)...)
	sc.muts = append(sc.muts, hashMuts(1, "NewMerkleRoot", func(out []rhpc.Msg) *types.Hash256 { return &resp(out).NewMerkleRoot },
		map[string]types.Hash256{"previous-root": pre.Revision.FileMerkleRoot, "a-sector-root": e.order[0]})...)
	// coherent lies
	sc.muts = append(sc.muts,
		mutation{1, "response", "valid-for-fewer-accepted", func(out []rhpc.Msg) {
			// the host accepts one sector less and proves exactly that: a smaller, valid append
			r := resp(out)
			for i := len(r.Accepted) - 1; i >= 0; i-- {
				if r.Accepted[i] {
					r.Accepted[i] = false
					break
				}
			}
			app, _ := accepted(r)
			r.SubtreeRoots, r.NewMerkleRoot = proto4.BuildAppendProof(preRoots, app)
		}},
		mutation{1, "response", "valid-for-reversed-sectors", func(out []rhpc.Msg) {
			app := slices.Clone(honestApp)
			slices.Reverse(app)
			if len(app) < 2 || app[0] == app[len(app)-1] {
				app = append(app, e.order[0])
			}
			resp(out).SubtreeRoots, resp(out).NewMerkleRoot = proto4.BuildAppendProof(preRoots, app)
		}},
		mutation{1, "response", "valid-for-other-base-roots", func(out []rhpc.Msg) {
			base := append(slices.Clone(preRoots), e.order[1])
			resp(out).SubtreeRoots, resp(out).NewMerkleRoot = proto4.BuildAppendProof(base, honestApp)
		}},
	)
	// the contract has shrunk before (Capacity > Filesize): the host lays the subtree roots out
	// for a tree of Capacity/SectorSize leaves; they still reproduce the old root, but the
	// appended sectors are merged elsewhere
	if capSectors := pre.Revision.Capacity / proto4.SectorSize; capSectors > uint64(len(preRoots)) {
		if sub, newRoot, ok := appendProofForTreeSize(preRoots, honestApp, capSectors); ok {
			sc.muts = append(sc.muts, mutation{1, "response", "valid-for-capacity-sized-tree", func(out []rhpc.Msg) {
				resp(out).SubtreeRoots, resp(out).NewMerkleRoot = slices.Clone(sub), newRoot
			}})
		}
	}
	sc.muts = append(sc.muts, msgMuts(1, sc.steps)...)
	sig := func(out []rhpc.Msg) *types.Signature {
		return &out[3].Obj.(*proto4.RPCAppendSectorsThirdResponse).HostSignature
	}
	sc.muts = append(sc.muts, sigMuts(3, "HostSignature", sig, e.sigAlts(pre.Revision, func() (types.V2FileContract, bool) { return expected(sc.honest) }))...)
	sc.muts = append(sc.muts, e.foreignTransportMuts(3, sig, expected)...)
	sc.muts = append(sc.muts, msgMuts(3, sc.steps)...)
	return sc
}

// ---- free -----------------------------------------------------------------------------------

func (e *env) freeScenario(indices []uint64) *scenario {
	e.sync()
	return e.freeScenarioOn(e.contract, slices.Clone(e.roots), indices, true)
}

// freeProofShapeOk: the proof has exactly the hashes a proof for idx consists of.
func freeProofShapeOk(r *proto4.RPCFreeSectorsResponse, idx []uint64, numSectors uint64) bool {
	actions := make([]rhp2.RPCWriteAction, 0, len(idx)+1)
	for i, n := range idx {
		actions = append(actions, rhp2.RPCWriteAction{Type: rhp2.RPCWriteActionSwap, A: n, B: numSectors - uint64(i) - 1})
	}
	actions = append(actions, rhp2.RPCWriteAction{Type: rhp2.RPCWriteActionTrim, A: uint64(len(idx))})
	return uint64(len(r.OldSubtreeHashes)+len(r.OldLeafHashes)) == rhp2.DiffProofSize(actions, numSectors)
}

// freeScenarioOn: live = run against the real server first (pre must then be the host's
// committed state); otherwise pre/preRoots may be any consistent renter view and the base is
// what an honest host answers.
func (e *env) freeScenarioOn(pre rhp4.ContractRevision, preRoots []types.Hash256, indices []uint64, live bool) *scenario {
	idx := normalizeDesc(indices)
	for _, i := range idx {
		if i >= uint64(len(preRoots)) {
			return nil
		}
	}
	sc := &scenario{rpc: "free", name: fmt.Sprintf("rev%d_%v", pre.Revision.RevisionNumber, indices), steps: rhpc.StepsFree, mustSucceed: true}
	sc.call = func(tr rhp4.TransportClient) (any, error) {
		return rhp4.RPCFreeSectors(ctx, tr, e.fs, e.cs, e.prices, pre, indices)
	}
	numSectors := pre.Revision.Filesize / proto4.SectorSize
	expected := func(out []rhpc.Msg) (types.V2FileContract, bool) {
		r, ok := out[1].Obj.(*proto4.RPCFreeSectorsResponse)
		if !ok || out[1].Failed() {
			return pre.Revision, false
		}
		fc, _, err := proto4.ReviseForFreeSectors(pre.Revision, e.prices, r.NewMerkleRoot, len(idx))
		return fc, err == nil
	}
	wire := func(got []rhpc.Msg) []uint64 {
		if len(got) > 0 && got[0].Obj != nil {
			return got[0].Obj.(*proto4.RPCFreeSectorsRequest).Indices
		}
		return nil
	}
	sc.finish = func(out []rhpc.Msg, i int, got []rhpc.Msg) *rhpc.Msg {
		if i == 1 && sc.literalHost {
			// execute exactly the list on the wire, duplicates and all
			lit := wire(got)
			var msg *rhpc.Msg
			safeBool(func() bool {
				if len(lit) == 0 || len(lit) > len(preRoots) {
					return false
				}
				for _, n := range lit {
					if n >= uint64(len(preRoots)) {
						return false
					}
				}
				r := &proto4.RPCFreeSectorsResponse{NewMerkleRoot: proto4.MetaRoot(applyFree(preRoots, lit))}
				r.OldSubtreeHashes, r.OldLeafHashes = proto4.BuildFreeSectorsProof(preRoots, lit)
				msg = &rhpc.Msg{Obj: r}
				return true
			})
			return msg
		}
		if i != 3 {
			return nil
		}
		fc, _ := expected(out)
		// a greedy host countersigns a dearer revision if that is what the renter signed
		if r, ok := out[1].Obj.(*proto4.RPCFreeSectorsResponse); ok && len(got) > 2 && got[2].Obj != nil {
			rs := got[2].Obj.(*proto4.RPCFreeSectorsSecondResponse).RenterSignature
			for _, k := range []int{len(idx) + 1, len(indices), len(indices) + 1, len(wire(got))} {
				if k > 0 && uint64(k) <= numSectors {
					if alt, _, err := proto4.ReviseForFreeSectors(pre.Revision, e.prices, r.NewMerkleRoot, k); err == nil && e.renterKey.PublicKey().VerifyHash(e.cs.ContractSigHash(alt), rs) {
						fc = alt
					}
				}
			}
		}
		return &rhpc.Msg{Obj: &proto4.RPCFreeSectorsThirdResponse{HostSignature: e.signAs(e.h.Key, fc)}}
	}
	var iw []string
	for _, i := range indices {
		iw = append(iw, fmt.Sprint(i))
	}
	sc.line = func(sent []rhpc.Msg) string {
		fc, ok := expected(sent)
		return fmt.Sprintf("free %s %s %d %s |", e.revWords(pre.Revision), e.priceWords(), len(indices), strings.Join(iw, " ")) + msgWords(sc.steps, sent, func(i int, m rhpc.Msg) string {
			if i == 1 {
				r := m.Obj.(*proto4.RPCFreeSectorsResponse)
				v := safeBool(func() bool {
					return proto4.VerifyFreeSectorsProof(r.OldSubtreeHashes, r.OldLeafHashes, idx, numSectors, pre.Revision.FileMerkleRoot, r.NewMerkleRoot)
				})
				return fmt.Sprintf("5 %d %d %d", b2i(v), b2i(freeProofShapeOk(r, idx, numSectors)), e.rid(r.NewMerkleRoot))
			}
			return fmt.Sprintf("7 %d", e.sigVerdict(fc, ok, m.Obj.(*proto4.RPCFreeSectorsThirdResponse).HostSignature))
		})
	}
	sc.impl = func(o outcome) string {
		res := o.res.(rhp4.RPCFreeSectorsResult)
		return e.fmtRev(res.Revision, res.Usage)
	}
	sc.oracle = func(c *vh.Case, o outcome, _ []rhpc.Msg) {
		res := o.res.(rhp4.RPCFreeSectorsResult)
		newRoots := applyFree(preRoots, idx)
		if res.Revision.FileMerkleRoot != proto4.MetaRoot(newRoots) || res.Revision.Filesize != uint64(len(newRoots))*proto4.SectorSize {
			c.Oracle("free-wrong-root", "RPCFreeSectors succeeded but the new Merkle root/filesize is not the previous roots with the requested indices removed")
		}
		want, _, _ := proto4.ReviseForFreeSectors(pre.Revision, e.prices, proto4.MetaRoot(newRoots), len(idx))
		e.checkRevision(c, "free", pre.Revision, res.Revision, want, res.Usage, e.prices.RPCFreeSectorsCost(len(indices)).RenterCost())
	}
	var o outcome
	if live {
		o = e.useLive(sc)
		e.sync()
	}
	if !live || o.err != nil || o.panicked != nil {
		// (a failed live case above records the disagreement;) go on from what an honest host answers
		r := &proto4.RPCFreeSectorsResponse{NewMerkleRoot: proto4.MetaRoot(applyFree(preRoots, idx))}
		r.OldSubtreeHashes, r.OldLeafHashes = proto4.BuildFreeSectorsProof(preRoots, idx)
		sc.honest = make([]rhpc.Msg, len(sc.steps))
		sc.honest[1] = rhpc.Msg{Obj: r}
	}
	resp := func(out []rhpc.Msg) *proto4.RPCFreeSectorsResponse {
		return out[1].Obj.(*proto4.RPCFreeSectorsResponse)
	}
	sc.muts = append(sc.muts, proofMuts(1, "OldSubtreeHashes", func(out []rhpc.Msg) *[]types.Hash256 { return &resp(out).OldSubtreeHashes }, nil)...)
	sc.muts = append(sc.muts, proofMuts(1, "OldLeafHashes", func(out []rhpc.Msg) *[]types.Hash256 { return &resp(out).OldLeafHashes }, nil)...)
	sc.muts = append(sc.muts, hashMuts(1, "NewMerkleRoot", func(out []rhpc.Msg) *types.Hash256 { return &resp(out).NewMerkleRoot },
		map[string]types.Hash256{"previous-root": pre.Revision.FileMerkleRoot, "root-with-nothing-removed-but-trimmed": proto4.MetaRoot(preRoots[:len(preRoots)-len(idx)])})...)
	// a valid proof for freeing a different index set of the same size
	alt := slices.Clone(idx)
	for j := range alt {
		cand := (alt[j] + 1) % uint64(len(preRoots))
		if !slices.Contains(alt, cand) {
			alt[j] = cand
			break
		}
	}
	alt = normalizeDesc(alt)
	sc.otherIndices = func(alt []uint64) mutation {
		return mutation{1, "response", fmt.Sprintf("valid-for-other-indices%v", alt), func(out []rhpc.Msg) {
			r := resp(out)
			r.OldSubtreeHashes, r.OldLeafHashes = proto4.BuildFreeSectorsProof(preRoots, alt)
			r.NewMerkleRoot = proto4.MetaRoot(applyFree(preRoots, alt))
		}}
	}
	if !slices.Equal(alt, idx) && len(alt) == len(idx) {
		sc.muts = append(sc.muts, sc.otherIndices(alt))
	}
	sc.muts = append(sc.muts, msgMuts(1, sc.steps)...)
	sig := func(out []rhpc.Msg) *types.Signature {
		return &out[3].Obj.(*proto4.RPCFreeSectorsThirdResponse).HostSignature
	}
	sc.muts = append(sc.muts, sigMuts(3, "HostSignature", sig, e.sigAlts(pre.Revision, func() (types.V2FileContract, bool) { return expected(sc.honest) }))...)
	sc.muts = append(sc.muts, e.foreignTransportMuts(3, sig, expected)...)
	sc.muts = append(sc.muts, msgMuts(3, sc.steps)...)
	return sc
}

// ---- sector roots ---------------------------------------------------------------------------

func (e *env) rootsScenario(off, n uint64) *scenario {
	e.sync()
	pre, preRoots := e.contract, slices.Clone(e.roots)
	sc := &scenario{rpc: "roots", name: fmt.Sprintf("rev%d_o%d_n%d", pre.Revision.RevisionNumber, off, n), steps: rhpc.StepsRoots}
	sc.mustSucceed = n != 0 && off <= uint64(len(preRoots)) && n <= uint64(len(preRoots))-off
	sc.call = func(tr rhp4.TransportClient) (any, error) {
		return rhp4.RPCSectorRoots(ctx, tr, e.cs, e.prices, e.fs, pre, off, n)
	}
	numSectors := (pre.Revision.Filesize + proto4.SectorSize - 1) / proto4.SectorSize
	fcExp, _, errExp := proto4.ReviseForSectorRoots(pre.Revision, e.prices, n)
	inRange := n != 0 && off <= uint64(len(preRoots)) && n <= uint64(len(preRoots))-off
	sc.line = func(sent []rhpc.Msg) string {
		// the price table must be the CONTRACT host's (rpc.go: req.Validate(contract.Revision.HostPublicKey, …))
		pricesOk := b2i(pre.Revision.HostPublicKey.VerifyHash(e.prices.SigHash(), e.prices.Signature))
		return fmt.Sprintf("roots %d %s %s %d %d |", pricesOk, e.revWords(pre.Revision), e.priceWords(), off, n) + msgWords(sc.steps, sent, func(i int, m rhpc.Msg) string {
			r := m.Obj.(*proto4.RPCSectorRootsResponse)
			v := inRange && uint64(len(r.Roots)) == n && safeBool(func() bool {
				return proto4.VerifySectorRootsProof(r.Proof, r.Roots, numSectors, off, off+n, pre.Revision.FileMerkleRoot)
			})
			return strings.Join(strings.Fields(fmt.Sprintf("10 %d %d %s %d", b2i(v), len(r.Roots), e.ids(r.Roots), e.sigVerdict(fcExp, errExp == nil, r.HostSignature))), " ")
		})
	}
	sc.impl = func(o outcome) string {
		res := o.res.(rhp4.RPCSectorRootsResult)
		return strings.TrimSpace(e.fmtRev(res.Revision, res.Usage) + " roots=" + e.ids(res.Roots))
	}
	sc.oracle = func(c *vh.Case, o outcome, _ []rhpc.Msg) {
		res := o.res.(rhp4.RPCSectorRootsResult)
		if !inRange || !slices.Equal(res.Roots, preRoots[off:off+n]) {
			c.Oracle("roots-wrong-roots", "RPCSectorRoots(offset=%d, length=%d) succeeded with roots that are not the contract's roots for that range", off, n)
		}
		e.checkRevision(c, "roots", pre.Revision, res.Revision, fcExp, res.Usage, e.prices.RPCSectorRootsCost(n).RenterCost())
	}
	o := e.useLive(sc)
	e.sync()
	if !inRange {
		return sc
	}
	if o.err != nil || o.panicked != nil {
		return nil // the live case above already records the disagreement with the model
	}
	resp := func(out []rhpc.Msg) *proto4.RPCSectorRootsResponse {
		return out[1].Obj.(*proto4.RPCSectorRootsResponse)
	}
	sc.muts = append(sc.muts, proofMuts(1, "Proof", func(out []rhpc.Msg) *[]types.Hash256 { return &resp(out).Proof }, nil)...)
	rootAlts := map[string][]types.Hash256{}
	if off+n < uint64(len(preRoots)) {
		rootAlts["roots-of-next-range"] = preRoots[off+1 : off+n+1]
	}
	sc.muts = append(sc.muts, proofMuts(1, "Roots", func(out []rhpc.Msg) *[]types.Hash256 { return &resp(out).Roots }, rootAlts)...)
	if off+n < uint64(len(preRoots)) {
		sc.muts = append(sc.muts, mutation{1, "response", "valid-for-next-range", func(out []rhpc.Msg) {
			resp(out).Roots = slices.Clone(preRoots[off+1 : off+n+1])
			resp(out).Proof = proto4.BuildSectorRootsProof(preRoots, off+1, off+n+1)
		}}, mutation{1, "response", "valid-one-root-more", func(out []rhpc.Msg) {
			resp(out).Roots = slices.Clone(preRoots[off : off+n+1])
			resp(out).Proof = proto4.BuildSectorRootsProof(preRoots, off, off+n+1)
		}})
	}
	if n > 1 {
		sc.muts = append(sc.muts, mutation{1, "response", "valid-one-root-less", func(out []rhpc.Msg) {
			resp(out).Roots = slices.Clone(preRoots[off : off+n-1])
			resp(out).Proof = proto4.BuildSectorRootsProof(preRoots, off, off+n-1)
		}})
	}
	sig := func(out []rhpc.Msg) *types.Signature { return &resp(out).HostSignature }
	sc.muts = append(sc.muts, sigMuts(1, "HostSignature", sig, e.sigAlts(pre.Revision, func() (types.V2FileContract, bool) { return fcExp, errExp == nil }))...)
	sc.muts = append(sc.muts, e.foreignTransportMuts(1, sig, func([]rhpc.Msg) (types.V2FileContract, bool) { return fcExp, errExp == nil })...)
	sc.muts = append(sc.muts, msgMuts(1, sc.steps)...)
	return sc
}

// ---- fund accounts --------------------------------------------------------------------------

func (e *env) acctID(a proto4.Account) int {
	var h types.Hash256
	copy(h[:], a[:])
	h[31] ^= 0xa5 // keep account ids apart from root ids
	return e.rid(h)
}

func (e *env) fundScenario(deposits []proto4.AccountDeposit) *scenario {
	e.sync()
	pre := e.contract
	sc := &scenario{rpc: "fund", name: fmt.Sprintf("rev%d_k%d", pre.Revision.RevisionNumber, len(deposits)), steps: rhpc.StepsFund, mustSucceed: true}
	sc.call = func(tr rhp4.TransportClient) (any, error) {
		return rhp4.RPCFundAccounts(ctx, tr, e.cs, e.fs, pre, deposits)
	}
	var total types.Currency
	var dw []string
	for _, d := range deposits {
		total = total.Add(d.Amount)
		dw = append(dw, fmt.Sprintf("%d %s", e.acctID(d.Account), cur(d.Amount)))
	}
	fcExp, _, errExp := proto4.ReviseForFundAccounts(pre.Revision, total)
	sc.line = func(sent []rhpc.Msg) string {
		return fmt.Sprintf("fund %s %d %s |", e.revWords(pre.Revision), len(deposits), strings.Join(dw, " ")) + msgWords(sc.steps, sent, func(i int, m rhpc.Msg) string {
			r := m.Obj.(*proto4.RPCFundAccountsResponse)
			var bw []string
			for _, b := range r.Balances {
				bw = append(bw, cur(b))
			}
			return strings.Join(strings.Fields(fmt.Sprintf("8 %d %s %d", len(r.Balances), strings.Join(bw, " "), e.sigVerdict(fcExp, errExp == nil, r.HostSignature))), " ")
		})
	}
	sc.impl = func(o outcome) string {
		res := o.res.(rhp4.RPCFundAccountResult)
		return e.fmtRev(res.Revision, res.Usage) + fmt.Sprintf(" balances=%d", len(res.Balances))
	}
	sc.oracle = func(c *vh.Case, o outcome, _ []rhpc.Msg) {
		res := o.res.(rhp4.RPCFundAccountResult)
		for i := range res.Balances {
			if i >= len(deposits) || res.Balances[i].Account != deposits[i].Account {
				c.Oracle("fund-balances-misattributed", "returned balances do not line up with the requested deposits")
				break
			}
		}
		e.checkRevision(c, "fund", pre.Revision, res.Revision, fcExp, res.Usage, total)
	}
	o := e.useLive(sc)
	e.sync()
	if o.err != nil || o.panicked != nil {
		return nil // the live case above already records the disagreement with the model
	}
	resp := func(out []rhpc.Msg) *proto4.RPCFundAccountsResponse {
		return out[1].Obj.(*proto4.RPCFundAccountsResponse)
	}
	sc.muts = append(sc.muts,
		mutation{1, "Balances", "truncate", func(out []rhpc.Msg) { b := resp(out).Balances; resp(out).Balances = b[:len(b)-1] }},
		mutation{1, "Balances", "extend", func(out []rhpc.Msg) { resp(out).Balances = append(resp(out).Balances, types.Siacoins(1)) }},
		mutation{1, "Balances", "empty", func(out []rhpc.Msg) { resp(out).Balances = nil }},
		mutation{1, "Balances", "change-value", func(out []rhpc.Msg) { resp(out).Balances[0] = resp(out).Balances[0].Add(types.NewCurrency64(1)) }},
	)
	sig := func(out []rhpc.Msg) *types.Signature { return &resp(out).HostSignature }
	sc.muts = append(sc.muts, sigMuts(1, "HostSignature", sig, e.sigAlts(pre.Revision, func() (types.V2FileContract, bool) { return fcExp, errExp == nil }))...)
	sc.muts = append(sc.muts, e.foreignTransportMuts(1, sig, func([]rhpc.Msg) (types.V2FileContract, bool) { return fcExp, errExp == nil })...)
	sc.muts = append(sc.muts, msgMuts(1, sc.steps)...)
	return sc
}

// ---- replenish accounts / pools -------------------------------------------------------------

func (e *env) replenishScenario(pools bool, accounts []proto4.Account, target types.Currency) *scenario {
	e.sync()
	pre := e.contract
	rpc := "replenish-accounts"
	if pools {
		rpc = "replenish-pools"
	}
	sc := &scenario{rpc: rpc, name: fmt.Sprintf("rev%d_k%d", pre.Revision.RevisionNumber, len(accounts)), steps: rhpc.StepsReplenish, mustSucceed: true}
	type result struct {
		rev      types.V2FileContract
		deposits []proto4.AccountDeposit
		usage    proto4.Usage
	}
	sc.call = func(tr rhp4.TransportClient) (any, error) {
		if pools {
			res, err := rhp4.RPCReplenishPools(ctx, tr, rhp4.RPCReplenishPoolsParams{Pools: accounts, Target: target, Contract: pre}, e.cs, e.fs)
			return result{res.Revision, res.Deposits, res.Usage}, err
		}
		res, err := rhp4.RPCReplenishAccounts(ctx, tr, rhp4.RPCReplenishAccountsParams{Accounts: accounts, Target: target, Contract: pre}, e.cs, e.fs)
		return result{res.Revision, res.Deposits, res.Usage}, err
	}
	sum := func(ds []proto4.AccountDeposit) (t types.Currency) {
		for _, d := range ds {
			t = t.Add(d.Amount)
		}
		return
	}
	expected := func(out []rhpc.Msg) (types.V2FileContract, bool) {
		r, ok := out[1].Obj.(*proto4.RPCReplenishAccountsResponse)
		if !ok || out[1].Failed() {
			return pre.Revision, false
		}
		fc, _, err := proto4.ReviseForReplenish(pre.Revision, sum(r.Deposits))
		return fc, err == nil
	}
	sc.finish = func(out []rhpc.Msg, i int, _ []rhpc.Msg) *rhpc.Msg {
		if i != 3 {
			return nil
		}
		fc, _ := expected(out)
		return &rhpc.Msg{Obj: &proto4.RPCReplenishAccountsThirdResponse{HostSignature: e.signAs(e.h.Key, fc)}}
	}
	var aw []string
	for _, a := range accounts {
		aw = append(aw, fmt.Sprint(e.acctID(a)))
	}
	sc.line = func(sent []rhpc.Msg) string {
		fc, ok := expected(sent)
		return fmt.Sprintf("repl %d %s %s %d %s |", b2i(pools), e.revWords(pre.Revision), cur(target), len(accounts), strings.Join(aw, " ")) + msgWords(sc.steps, sent, func(i int, m rhpc.Msg) string {
			if i == 1 {
				r := m.Obj.(*proto4.RPCReplenishAccountsResponse)
				var w []string
				for _, d := range r.Deposits {
					w = append(w, fmt.Sprintf("%d %s", e.acctID(d.Account), cur(d.Amount)))
				}
				return strings.TrimSpace(fmt.Sprintf("9 %d %s", len(r.Deposits), strings.Join(w, " ")))
			}
			return fmt.Sprintf("7 %d", e.sigVerdict(fc, ok, m.Obj.(*proto4.RPCReplenishAccountsThirdResponse).HostSignature))
		})
	}
	sc.impl = func(o outcome) string {
		res := o.res.(result)
		return e.fmtRev(res.rev, res.usage) + fmt.Sprintf(" deposits=%d total=%s", len(res.deposits), cur(sum(res.deposits)))
	}
	maxCost := target.Mul64(uint64(len(accounts)))
	sc.oracle = func(c *vh.Case, o outcome, _ []rhpc.Msg) {
		res := o.res.(result)
		t := sum(res.deposits)
		for _, d := range res.deposits {
			if d.Amount.Cmp(target) > 0 {
				c.Oracle("replenish-deposit-exceeds-target", "a deposit of %v exceeds the target %v", d.Amount, target)
			}
		}
		paid, under := pre.Revision.RenterOutput.Value.SubWithUnderflow(res.rev.RenterOutput.Value)
		if under || paid.Cmp(maxCost) > 0 {
			c.Oracle("replenish-exceeds-target", "%s charged %v, more than target x accounts = %v", rpc, paid, maxCost)
		}
		if t.IsZero() {
			if res.rev != pre.Revision {
				c.Oracle("replenish-zero-changes-revision", "nothing deposited but the revision changed")
			}
			return
		}
		want, _, _ := proto4.ReviseForReplenish(pre.Revision, t)
		e.checkRevision(c, rpc, pre.Revision, res.rev, want, res.usage, maxCost)
	}
	o := e.useLive(sc)
	e.sync()
	if o.err != nil || o.panicked != nil {
		return nil // the live case above already records the disagreement with the model
	}
	resp := func(out []rhpc.Msg) *proto4.RPCReplenishAccountsResponse {
		return out[1].Obj.(*proto4.RPCReplenishAccountsResponse)
	}
	stranger := proto4.Account(types.GeneratePrivateKey().PublicKey())
	one := types.NewCurrency64(1)
	sc.muts = append(sc.muts,
		mutation{1, "Deposits", "amount-plus1", func(out []rhpc.Msg) { d := resp(out).Deposits; d[0].Amount = d[0].Amount.Add(one) }},
		mutation{1, "Deposits", "amount-target-plus1", func(out []rhpc.Msg) { resp(out).Deposits[0].Amount = target.Add(one) }},
		mutation{1, "Deposits", "all-at-target", func(out []rhpc.Msg) {
			for i := range resp(out).Deposits {
				resp(out).Deposits[i].Amount = target
			}
		}},
		mutation{1, "Deposits", "all-zero", func(out []rhpc.Msg) {
			for i := range resp(out).Deposits {
				resp(out).Deposits[i].Amount = types.ZeroCurrency
			}
		}},
		mutation{1, "Deposits", "extend-small", func(out []rhpc.Msg) {
			resp(out).Deposits = append(resp(out).Deposits, proto4.AccountDeposit{Account: stranger, Amount: one})
		}},
		mutation{1, "Deposits", "extend-over-budget", func(out []rhpc.Msg) {
			for i := range resp(out).Deposits {
				resp(out).Deposits[i].Amount = target
			}
			resp(out).Deposits = append(resp(out).Deposits, proto4.AccountDeposit{Account: stranger, Amount: target})
		}},
		mutation{1, "Deposits", "split-into-more-entries", func(out []rhpc.Msg) {
			// more deposits than accounts, each within target, total within budget
			var ds []proto4.AccountDeposit
			for i := 0; i < 2*len(accounts); i++ {
				ds = append(ds, proto4.AccountDeposit{Account: stranger, Amount: target.Div64(2)})
			}
			resp(out).Deposits = ds
		}},
		mutation{1, "Deposits", "repeat-requested-accounts-at-target", func(out []rhpc.Msg) {
			// more entries than accounts, every entry naming a REQUESTED account, each within target
			var ds []proto4.AccountDeposit
			for i := 0; i < 2*len(accounts)+1; i++ {
				ds = append(ds, proto4.AccountDeposit{Account: accounts[i%len(accounts)], Amount: target})
			}
			resp(out).Deposits = ds
		}},
		mutation{1, "Deposits", "truncate", func(out []rhpc.Msg) { d := resp(out).Deposits; resp(out).Deposits = d[:len(d)-1] }},
		mutation{1, "Deposits", "other-account", func(out []rhpc.Msg) { resp(out).Deposits[0].Account = stranger }},
		mutation{1, "Deposits", "empty", func(out []rhpc.Msg) { resp(out).Deposits = nil }},
	)
	sc.muts = append(sc.muts, msgMuts(1, sc.steps)...)
	sig := func(out []rhpc.Msg) *types.Signature {
		return &out[3].Obj.(*proto4.RPCReplenishAccountsThirdResponse).HostSignature
	}
	sc.muts = append(sc.muts, sigMuts(3, "HostSignature", sig, e.sigAlts(pre.Revision, func() (types.V2FileContract, bool) { return expected(sc.honest) }))...)
	sc.muts = append(sc.muts, e.foreignTransportMuts(3, sig, expected)...)
	sc.muts = append(sc.muts, msgMuts(3, sc.steps)...)
	return sc
}

// emitLive records the exchange with the real server; an exchange that should succeed and does
// not means client and server no longer agree on the protocol (a tie failure, not a C10 one).
func (e *env) emitLive(sc *scenario, o outcome, seen []rhpc.Msg) {
	sc.liveFailed = sc.mustSucceed && (o.err != nil || o.panicked != nil)
	e.emit(sc, sc.rpc+"/"+sc.name+"/live", []string{"rpc:" + sc.rpc, "mut:live-real-server"}, o, seen)
}

// ---- exhaustive index-substitution sweep for free ------------------------------------------
// For every contract size n <= maxN, every requested index set of size <= maxK and every OTHER
// index set of the same size, a host answers with the (valid) proof and new root for the other
// set, countersigned.  The primitive is evaluated directly first; every pair the real verifier
// accepts, and a sample of those it rejects, is run through the real client.

func subsets(n, k int) [][]uint64 {
	var out [][]uint64
	var rec func(start int, cur []uint64)
	rec = func(start int, cur []uint64) {
		if len(cur) == k {
			out = append(out, normalizeDesc(cur))
			return
		}
		for i := start; i < n; i++ {
			rec(i+1, append(slices.Clone(cur), uint64(i)))
		}
	}
	rec(0, nil)
	return out
}

func (e *env) freeSubstitutionSweep(maxN, maxK, sampleRejected int) {
	accepted, pairs, ran := 0, 0, 0
	for n := 2; n <= maxN; n++ {
		roots := make([]types.Hash256, n)
		for i := range roots {
			roots[i] = types.Hash256{byte(i + 1), byte(n), 0x77}
		}
		pre := e.contract
		pre.Revision.Filesize, pre.Revision.Capacity = uint64(n)*proto4.SectorSize, uint64(n)*proto4.SectorSize
		pre.Revision.FileMerkleRoot = proto4.MetaRoot(roots)
		pre.Revision.RenterSignature = e.signAs(e.renterKey, pre.Revision)
		pre.Revision.HostSignature = e.signAs(e.h.Key, pre.Revision)
		for k := 1; k <= maxK && k < n; k++ {
			sets := subsets(n, k)
			for _, idx := range sets {
				var sc *scenario
				for _, alt := range sets {
					if slices.Equal(idx, alt) {
						continue
					}
					pairs++
					sub, lv := proto4.BuildFreeSectorsProof(roots, alt)
					newRoot := proto4.MetaRoot(applyFree(roots, alt))
					v := safeBool(func() bool {
						return proto4.VerifyFreeSectorsProof(sub, lv, idx, uint64(n), pre.Revision.FileMerkleRoot, newRoot)
					})
					if v && newRoot != proto4.MetaRoot(applyFree(roots, idx)) {
						accepted++
					} else if e.rng.Intn(sampleRejected) != 0 {
						continue
					}
					if sc == nil {
						toU := make([]uint64, len(idx))
						copy(toU, idx)
						sc = e.freeScenarioOn(pre, roots, toU, false)
						sc.rpc, sc.name = "free-sweep", fmt.Sprintf("n%d_%v", n, idx)
					}
					m := sc.otherIndices(alt)
					e.runCase(sc, &m)
					ran++
				}
			}
		}
	}
	e.r.Extra("free_substitution_pairs", pairs)
	e.r.Extra("free_substitution_pairs_core_verifier_accepts", accepted)
	e.r.Extra("free_substitution_cases_run_through_client", ran)
}

// ---- every index sequence through the real client against a literal host -------------------
// The client's normalisation (sort descending, drop duplicates) is what makes a free request
// mean "remove this SET of sectors".  For every contract size n <= maxN and every index sequence
// over [0,n) up to length maxLen — all orders, all repetitions, adjacent or not — the real client
// talks to a host that executes the list exactly as it arrives (an honest host would reject a
// duplicate) and countersigns whatever revision the renter signed.  Oracle: the result is the
// swap-remove of the DISTINCT requested indices on the renter's previous roots.
func (e *env) freeSequenceSweep(maxN, maxLen int) {
	ran := 0
	for n := 2; n <= maxN; n++ {
		roots := make([]types.Hash256, n)
		for i := range roots {
			roots[i] = types.Hash256{byte(i + 1), byte(n), 0x5e}
		}
		pre := e.contract
		pre.Revision.Filesize, pre.Revision.Capacity = uint64(n)*proto4.SectorSize, uint64(n)*proto4.SectorSize
		pre.Revision.FileMerkleRoot = proto4.MetaRoot(roots)
		pre.Revision.RenterSignature = e.signAs(e.renterKey, pre.Revision)
		pre.Revision.HostSignature = e.signAs(e.h.Key, pre.Revision)
		var rec func(seq []uint64)
		rec = func(seq []uint64) {
			if len(seq) > 0 {
				distinct := len(normalizeDesc(seq))
				// sequences without a repetition are covered by the scenarios above; keep a few
				if distinct < len(seq) || e.rng.Intn(6) == 0 {
					sc := e.freeScenarioOn(pre, roots, slices.Clone(seq), false)
					sc.rpc, sc.name, sc.literalHost = "free-sequences", fmt.Sprintf("n%d_%v", n, seq), true
					e.runCase(sc, nil)
					ran++
				}
			}
			if len(seq) == maxLen || len(seq) == n {
				return
			}
			for i := 0; i < n; i++ {
				rec(append(slices.Clone(seq), uint64(i)))
			}
		}
		rec(nil)
	}
	e.r.Extra("free_index_sequences_through_client_vs_literal_host", ran)
}
