package main

import _ "verifharness/c02"
