package main

import _ "verifharness/c11"
