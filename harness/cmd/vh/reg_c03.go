package main

import _ "verifharness/c03"
