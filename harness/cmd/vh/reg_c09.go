package main

import _ "verifharness/c09"
