package main

import _ "verifharness/c01"
