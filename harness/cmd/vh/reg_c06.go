package main

import _ "verifharness/c06"
