// Command vh runs the implementation side of one property check: it generates cases, drives
// the real code of /repo (built with -tags verif), pipes the same operations to the Lean model
// driver and reports disagreements and oracle failures.
package main

import (
	"flag"
	"fmt"
	"os"
	"strconv"

	"verifharness/srcfacts"
	"verifharness/vh"
)


func main() {
	if len(os.Args) < 2 {
		fmt.Println("usage: vh <Cxx> [-tier quick|thorough] [-seed n] [-drv path] [-out dir] [-only case]")
		os.Exit(2)
	}
	prop := os.Args[1]
	if prop == "srcfacts" {
		fs := flag.NewFlagSet("srcfacts", flag.ExitOnError)
		out := fs.String("out", "/verif/lean/Verif/Extracted", "")
		repo := fs.String("repo", "/repo", "")
		fs.Parse(os.Args[2:])
		if err := srcfacts.Run(*repo, *out); err != nil {
			fmt.Println("srcfacts:", err)
			os.Exit(1)
		}
		return
	}
	fs := flag.NewFlagSet("vh", flag.ExitOnError)
	tier := fs.String("tier", "quick", "")
	seedS := fs.String("seed", "1", "")
	drv := fs.String("drv", "/verif/lean/.lake/build/bin/drv", "")
	out := fs.String("out", "/verif/.work", "")
	only := fs.String("only", "", "")
	fs.Parse(os.Args[2:])
	seed, _ := strconv.ParseUint(*seedS, 10, 64)
	f, ok := vh.Props[prop]
	if !ok {
		fmt.Printf("unknown property %s\n", prop)
		os.Exit(2)
	}
	r := vh.NewRun(prop, *tier, seed, *drv, *out)
	r.Only = *only
	f(r)
	os.Exit(r.Finish())
}
