package main

import _ "verifharness/c15"
