package main

import _ "verifharness/c19"
