package main

import _ "verifharness/c04"
