package main

import _ "verifharness/c14"
