package main

import _ "verifharness/c05"
