package main

import _ "verifharness/c17"
