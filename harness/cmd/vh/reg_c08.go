package main

import _ "verifharness/c08"
