package main

import _ "verifharness/c10"
