package main

import _ "verifharness/c12"
