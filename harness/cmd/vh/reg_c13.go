package main

import _ "verifharness/c13"
