package main

import _ "verifharness/c16"
