package main

import _ "verifharness/c20"
