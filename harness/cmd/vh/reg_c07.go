package main

import _ "verifharness/c07"
