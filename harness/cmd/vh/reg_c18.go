package main

import _ "verifharness/c18"
