package c16

import (
	"context"
	"fmt"
	"sync"
	"time"

	proto4 "go.sia.tech/core/rhp/v4"
	"go.sia.tech/core/types"
	rhp4 "go.sia.tech/coreutils/rhp/v4"
	"go.sia.tech/coreutils/testutil"
	"go.sia.tech/coreutils/wallet"
	"verifharness/rhpc"
	"verifharness/vh"
)

// meetingStore lets two readers of the wallet's unspent outputs overlap if the wallet allows it:
// while armed, the first reader waits (bounded) for a second one.  A wallet that selects and
// reserves inputs in one critical section never lets a second reader in, the wait just expires.
type meetingStore struct {
	*testutil.EphemeralWalletStore
	mu      sync.Mutex
	armed   bool
	waiting chan struct{}
	met     bool
}

func (s *meetingStore) arm(on bool) {
	s.mu.Lock()
	s.armed, s.waiting, s.met = on, nil, false
	s.mu.Unlock()
}

func (s *meetingStore) UnspentSiacoinElements() (types.ChainIndex, []types.SiacoinElement, error) {
	tip, utxos, err := s.EphemeralWalletStore.UnspentSiacoinElements()
	s.mu.Lock()
	if !s.armed {
		s.mu.Unlock()
		return tip, utxos, err
	}
	if s.waiting != nil { // second reader: release the first
		close(s.waiting)
		s.waiting, s.armed, s.met = nil, false, true
		s.mu.Unlock()
		return tip, utxos, err
	}
	ch := make(chan struct{})
	s.waiting = ch
	s.mu.Unlock()
	select {
	case <-ch:
	case <-time.After(250 * time.Millisecond):
		s.mu.Lock()
		if s.waiting == ch {
			s.waiting, s.armed = nil, false
		}
		s.mu.Unlock()
	}
	return tip, utxos, err
}

// parallelFormations: one renter forms a contract with two hosts at the same time.  The hosts have
// their own chain managers and pools, so neither sees the other's formation transaction.  Both
// calls report success only if both returned sets are confirmable TOGETHER: one pool must accept
// both, and after mining them each host's contract exists on chain.
func parallelFormations(r *vh.Run, round int) {
	c := &vh.Case{Name: fmt.Sprintf("parallel-form/two-hosts/%d", round), Tags: []string{"rpc:form", "concurrent:two-hosts"}, Nontrivial: true}
	defer r.Add(c)
	n, genesis := testutil.V2Network()
	var ms *meetingStore
	rn, err := rhpc.NewNodeWithStore(n, genesis, func(ws *testutil.EphemeralWalletStore) wallet.SingleAddressStore {
		ms = &meetingStore{EphemeralWalletStore: ws}
		return ms
	})
	must(err)
	defer rn.Close()
	var hosts []*rhpc.Host
	var nodes []*rhpc.Node
	for i := 0; i < 2; i++ {
		hn, err := rhpc.NewNode(n, genesis)
		must(err)
		defer hn.Close()
		h := rhpc.NewHost(hn, rhpc.HostOpts{})
		defer h.Close()
		nodes, hosts = append(nodes, hn), append(hosts, h)
	}
	// one chain: a few outputs of different value for the renter (the block reward shrinks with
	// the height), outputs for both hosts
	must(nodes[0].Mine(rn.W.Address(), 4+round))
	must(nodes[0].Mine(nodes[0].W.Address(), 3))
	must(nodes[0].Mine(nodes[1].W.Address(), 3))
	must(nodes[0].Mine(types.VoidAddress, int(n.MaturityDelay)+2))
	must(nodes[1].CatchUp(nodes[0].CM, 0))
	must(rn.CatchUp(nodes[0].CM, 0))
	for _, h := range hosts {
		must(h.WaitContractor())
	}
	renterKey := types.GeneratePrivateKey()
	signer := &rhpc.FundAndSign{W: rn.W, PK: renterKey}
	type result struct {
		res rhp4.RPCFormContractResult
		err error
	}
	results := make([]result, 2)
	settings := make([]proto4.HostSettings, 2)
	for i, h := range hosts {
		settings[i], err = rhp4.RPCSettings(context.Background(), rhpc.Direct(h))
		must(err)
	}
	ms.arm(true)
	var wg sync.WaitGroup
	for i, h := range hosts {
		wg.Add(1)
		go func() {
			defer wg.Done()
			res, err := rhp4.RPCFormContract(context.Background(), rhpc.Direct(h), rn.CM, signer, rn.CM.TipState(), settings[i].Prices, h.Key.PublicKey(), settings[i].WalletAddress, proto4.RPCFormContractParams{
				RenterPublicKey: renterKey.PublicKey(), RenterAddress: rn.W.Address(),
				Allowance: types.Siacoins(uint32(10 + i)), Collateral: types.Siacoins(20), ProofHeight: nodes[i].CM.Tip().Height + 200,
			})
			results[i] = result{res, err}
		}()
	}
	wg.Wait()
	ms.arm(false)
	c.Op(fmt.Sprintf("parallel-form hosts=2 selections-overlapped=%v", ms.met), fmt.Sprintf("host1=%s host2=%s", okErr(results[0].err), okErr(results[1].err)))
	if results[0].err != nil || results[1].err != nil {
		return // a clean failure of one of them is judged by the sequential worlds
	}
	// both succeeded: the two sets must not spend the same output …
	spent := map[types.SiacoinOutputID]int{}
	for i := range results {
		set := results[i].res.FormationSet.Transactions
		for _, in := range set[len(set)-1].SiacoinInputs {
			if prev, ok := spent[in.Parent.ID]; ok && prev != i {
				c.Oracle("parallel-formations-share-an-input", "two formations by one renter with two hosts both succeeded but their transactions spend the same output %v: at most one of the two contracts can ever be confirmed", in.Parent.ID)
			}
			spent[in.Parent.ID] = i
		}
	}
	// … one pool must accept both …
	for i := range results {
		set := results[i].res.FormationSet
		if _, err := nodes[0].CM.AddV2PoolTransactions(set.Basis, set.Transactions); err != nil {
			c.Oracle("parallel-formations-not-both-confirmable", "formation with host %d succeeded but its set is rejected by a pool holding the other successful formation: %v", i+1, firstLine(err))
			return
		}
	}
	// … and once mined both contracts exist
	must(nodes[0].Mine(types.VoidAddress, 1))
	must(nodes[1].CatchUp(nodes[0].CM, 0))
	for i, h := range hosts {
		must(h.WaitContractor())
		if _, fce, err := h.Contractor.V2FileContractElement(results[i].res.Contract.ID); err != nil || fce.V2FileContract != results[i].res.Contract.Revision {
			c.Oracle("parallel-formation-not-mined", "host %d's contract is not on chain after mining both returned sets (err %v)", i+1, err)
		}
	}
}
