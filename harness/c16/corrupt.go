package c16

import (
	"fmt"

	proto4 "go.sia.tech/core/rhp/v4"
	"go.sia.tech/core/types"
	"verifharness/rhpc"
)

// typed views of the four messages, independent of the RPC
type reqView struct {
	prices   *proto4.HostPrices
	minerFee *types.Currency
	basis    *types.ChainIndex
	inputs   *[]types.SiacoinElement
	parents  *[]types.V2Transaction
	// terms
	allowance, collateral *types.Currency
	proofHeight           *uint64          // nil for refresh
	challenge             *types.Signature // nil for form
}

func viewReq(o proto4.Object) reqView {
	switch r := o.(type) {
	case *proto4.RPCFormContractRequest:
		return reqView{&r.Prices, &r.MinerFee, &r.Basis, &r.RenterInputs, &r.RenterParents, &r.Contract.Allowance, &r.Contract.Collateral, &r.Contract.ProofHeight, nil}
	case *proto4.RPCRenewContractRequest:
		return reqView{&r.Prices, &r.MinerFee, &r.Basis, &r.RenterInputs, &r.RenterParents, &r.Renewal.Allowance, &r.Renewal.Collateral, &r.Renewal.ProofHeight, &r.ChallengeSignature}
	case *proto4.RPCRefreshContractRequest:
		return reqView{&r.Prices, &r.MinerFee, &r.Basis, &r.RenterInputs, &r.RenterParents, &r.Refresh.Allowance, &r.Refresh.Collateral, nil, &r.ChallengeSignature}
	}
	panic("not a request")
}

func hostInputs(o proto4.Object) *[]types.V2SiacoinInput {
	switch r := o.(type) {
	case *proto4.RPCFormContractResponse:
		return &r.HostInputs
	case *proto4.RPCRenewContractResponse:
		return &r.HostInputs
	case *proto4.RPCRefreshContractResponse:
		return &r.HostInputs
	}
	panic("not a host-inputs response")
}

type sigsView struct {
	contractSig *types.Signature
	renewalSig  *types.Signature // nil for form
	policies    *[]types.SatisfiedPolicy
}

func viewSigs(o proto4.Object) sigsView {
	switch r := o.(type) {
	case *proto4.RPCFormContractSecondResponse:
		return sigsView{&r.RenterContractSignature, nil, &r.RenterSatisfiedPolicies}
	case *proto4.RPCRenewContractSecondResponse:
		return sigsView{&r.RenterContractSignature, &r.RenterRenewalSignature, &r.RenterSatisfiedPolicies}
	case *proto4.RPCRefreshContractSecondResponse:
		return sigsView{&r.RenterContractSignature, &r.RenterRenewalSignature, &r.RenterSatisfiedPolicies}
	}
	panic("not a renter-signatures response")
}

type finalView struct {
	basis *types.ChainIndex
	set   *[]types.V2Transaction
}

func viewFinal(o proto4.Object) finalView {
	switch r := o.(type) {
	case *proto4.RPCFormContractThirdResponse:
		return finalView{&r.Basis, &r.TransactionSet}
	case *proto4.RPCRenewContractThirdResponse:
		return finalView{&r.Basis, &r.TransactionSet}
	case *proto4.RPCRefreshContractThirdResponse:
		return finalView{&r.Basis, &r.TransactionSet}
	}
	panic("not a final response")
}

// the contract inside the last transaction of a final set (nil if absent)
func finalContract(v finalView, renewal bool) (*types.V2FileContract, *types.V2FileContractRenewal) {
	if len(*v.set) == 0 {
		return nil, nil
	}
	txn := &(*v.set)[len(*v.set)-1]
	if !renewal {
		if len(txn.FileContracts) == 0 {
			return nil, nil
		}
		return &txn.FileContracts[0], nil
	}
	if len(txn.FileContractResolutions) == 0 {
		return nil, nil
	}
	ren, ok := txn.FileContractResolutions[0].Resolution.(*types.V2FileContractRenewal)
	if !ok {
		return nil, nil
	}
	return &ren.NewContract, ren
}

func flipSig(s *types.Signature) { s[5] ^= 0x40 }

// corruptions lists every typed corruption of every message of an exchange together with its
// abstract effect: the first check of the receiving side it must trip ("hcheck-…", "rcheck-…"),
// the call that must fail on its own ("hfail-…"), or "benign" when the receiver has no way to
// notice and the exchange must complete.
func corruptions(rpc string) []fault {
	ren := isRenewal(rpc)
	one := types.NewCurrency64(1)
	var fs []fault
	add := func(pos int, name, effect string, mut func(m *rhpc.Msg)) {
		fs = append(fs, fault{kind: "corrupt", pos: pos, name: name, effect: effect, mut: func(m *rhpc.Msg) {
			defer func() {
				if p := recover(); p != nil {
					panic(fmt.Sprintf("corruption %s of message %d does not apply: %v", name, pos, p))
				}
			}()
			mut(m)
		}})
	}
	early := "hcheck-request" // rejected before the host funds anything (renewals: with the contract locked)
	pre := early
	if ren {
		pre = "hcheck-prices" // renewals validate the price table before locking the contract
	}
	// ---- message 0: the request
	add(0, "prices.signature-flip", pre, func(m *rhpc.Msg) { flipSig(&viewReq(m.Obj).prices.Signature) })
	add(0, "prices.contractprice-plus1", pre, func(m *rhpc.Msg) { p := viewReq(m.Obj).prices; p.ContractPrice = p.ContractPrice.Add(one) })
	add(0, "minerfee-zero", early, func(m *rhpc.Msg) { *viewReq(m.Obj).minerFee = types.ZeroCurrency })
	add(0, "basis-zero", early, func(m *rhpc.Msg) { *viewReq(m.Obj).basis = types.ChainIndex{} })
	add(0, "allowance-zero", early, func(m *rhpc.Msg) { *viewReq(m.Obj).allowance = types.ZeroCurrency })
	add(0, "collateral-huge", early, func(m *rhpc.Msg) { *viewReq(m.Obj).collateral = types.Siacoins(1e9) })
	if !ren {
		add(0, "inputs-empty", early, func(m *rhpc.Msg) { *viewReq(m.Obj).inputs = nil })
	} else {
		add(0, "inputs-empty", "hcheck-funding", func(m *rhpc.Msg) { *viewReq(m.Obj).inputs = nil })
		add(0, "challenge-flip", early, func(m *rhpc.Msg) { flipSig(viewReq(m.Obj).challenge) })
	}
	if rpc != "refresh-full" && rpc != "refresh-partial" {
		add(0, "proofheight-zero", early, func(m *rhpc.Msg) { *viewReq(m.Obj).proofHeight = 0 })
	}
	add(0, "inputs.value-minus", "hcheck-funding", func(m *rhpc.Msg) {
		in := *viewReq(m.Obj).inputs
		for i := range in {
			in[i].SiacoinOutput.Value = one
		}
	})
	// accepted at first, found out by the host's chain manager / pool later on (while rebasing
	// the inputs, assembling the set, or admitting it): WHICH of those calls rejects is the
	// pool's verdict, read off the host's call trace (effect "hfail-late")
	add(0, "allowance-plus1", "hcheck-contractsig", func(m *rhpc.Msg) { a := viewReq(m.Obj).allowance; *a = a.Add(one) })
	add(0, "minerfee-plus1", "hfail-late", func(m *rhpc.Msg) { f := viewReq(m.Obj).minerFee; *f = f.Add(one) })
	add(0, "inputs.id-flip", "hfail-late", func(m *rhpc.Msg) { (*viewReq(m.Obj).inputs)[0].ID[3] ^= 1 })
	add(0, "inputs.value-plus", "hfail-late", func(m *rhpc.Msg) {
		in := *viewReq(m.Obj).inputs
		in[0].SiacoinOutput.Value = in[0].SiacoinOutput.Value.Add(types.Siacoins(1))
	})
	add(0, "basis-unknown", "hfail-updateinputs", func(m *rhpc.Msg) { viewReq(m.Obj).basis.ID[7] ^= 1 })
	add(0, "parents-garbage", "hfail-addparents", func(m *rhpc.Msg) {
		p := viewReq(m.Obj).parents
		*p = append(*p, types.V2Transaction{MinerFee: one, ArbitraryData: []byte("verif")})
	})
	// ---- message 1: the host's inputs
	add(1, "hostinputs-empty", "rcheck-funding", func(m *rhpc.Msg) { *hostInputs(m.Obj) = nil })
	add(1, "hostinputs.value-one", "rcheck-funding", func(m *rhpc.Msg) {
		in := *hostInputs(m.Obj)
		for i := range in {
			in[i].Parent.SiacoinOutput.Value = one
		}
	})
	add(1, "hostinputs.value-plus", "hfail-late", func(m *rhpc.Msg) {
		in := *hostInputs(m.Obj)
		in[0].Parent.SiacoinOutput.Value = in[0].Parent.SiacoinOutput.Value.Add(types.Siacoins(1))
	})
	add(1, "hostinputs.id-flip", "hfail-late", func(m *rhpc.Msg) { (*hostInputs(m.Obj))[0].Parent.ID[2] ^= 1 })
	add(1, "hostinputs.policy-signature-flip", "benign", func(m *rhpc.Msg) {
		in := *hostInputs(m.Obj)
		if len(in[0].SatisfiedPolicy.Signatures) > 0 {
			flipSig(&in[0].SatisfiedPolicy.Signatures[0])
		}
	})
	// ---- message 2: the renter's signatures
	add(2, "contractsig-flip", "hcheck-contractsig", func(m *rhpc.Msg) { flipSig(viewSigs(m.Obj).contractSig) })
	add(2, "contractsig-zero", "hcheck-contractsig", func(m *rhpc.Msg) { *viewSigs(m.Obj).contractSig = types.Signature{} })
	if ren {
		add(2, "renewalsig-flip", "hcheck-renewalsig", func(m *rhpc.Msg) { flipSig(viewSigs(m.Obj).renewalSig) })
	}
	add(2, "policies-empty", "hcheck-policies", func(m *rhpc.Msg) { *viewSigs(m.Obj).policies = nil })
	add(2, "policies-extra", "hcheck-policies", func(m *rhpc.Msg) {
		p := viewSigs(m.Obj).policies
		*p = append(*p, (*p)[0])
	})
	add(2, "policies.signature-flip", "hfail-late", func(m *rhpc.Msg) {
		p := *viewSigs(m.Obj).policies
		if len(p[0].Signatures) > 0 {
			flipSig(&p[0].Signatures[0])
		}
	})
	// ---- message 3: the final set (the host has committed by now)
	add(3, "set-empty", "rcheck-shape", func(m *rhpc.Msg) { *viewFinal(m.Obj).set = nil })
	add(3, "contract-removed", "rcheck-shape", func(m *rhpc.Msg) {
		v := viewFinal(m.Obj)
		txn := &(*v.set)[len(*v.set)-1]
		txn.FileContracts, txn.FileContractResolutions = nil, nil
	})
	add(3, "contract.hostsig-flip", "rcheck-hostsig", func(m *rhpc.Msg) {
		fc, _ := finalContract(viewFinal(m.Obj), ren)
		flipSig(&fc.HostSignature)
	})
	if ren {
		add(3, "renewal.hostsig-flip", "rcheck-hostsig", func(m *rhpc.Msg) {
			_, r := finalContract(viewFinal(m.Obj), ren)
			flipSig(&r.HostSignature)
		})
	}
	// the host's copy of the contract is altered but keeps the signatures made over the real one
	add(3, "contract.renteroutput-one", "final-contract-altered", func(m *rhpc.Msg) {
		fc, _ := finalContract(viewFinal(m.Obj), ren)
		fc.RenterOutput.Value = one
	})
	add(3, "contract.revision-plus1", "final-contract-altered", func(m *rhpc.Msg) {
		fc, _ := finalContract(viewFinal(m.Obj), ren)
		fc.RevisionNumber++
	})
	add(3, "contract.rentersig-zero", "final-contract-unsigned", func(m *rhpc.Msg) {
		fc, _ := finalContract(viewFinal(m.Obj), ren)
		fc.RenterSignature = types.Signature{}
	})
	// the set around the contract is altered
	add(3, "txn.minerfee-plus1", "final-set-altered", func(m *rhpc.Msg) {
		v := viewFinal(m.Obj)
		txn := &(*v.set)[len(*v.set)-1]
		txn.MinerFee = txn.MinerFee.Add(one)
	})
	add(3, "txn.input-signature-flip", "final-set-signature", func(m *rhpc.Msg) {
		v := viewFinal(m.Obj)
		txn := &(*v.set)[len(*v.set)-1]
		for i := range txn.SiacoinInputs {
			if len(txn.SiacoinInputs[i].SatisfiedPolicy.Signatures) > 0 {
				flipSig(&txn.SiacoinInputs[i].SatisfiedPolicy.Signatures[0])
				return
			}
		}
	})
	add(3, "basis-unknown", "final-set-basis", func(m *rhpc.Msg) { viewFinal(m.Obj).basis.ID[1] ^= 1 })
	return fs
}
