package c16

import (
	"fmt"
	"strings"

	"go.sia.tech/core/types"
	"verifharness/vh"
)

// makeUnconfirmed moves every confirmed spendable output of the renter into one unconfirmed
// output (a parent transaction that only the renter's pool knows).
func (w *world) makeUnconfirmed() {
	w.crowdPool()
	bal, err := w.rn.W.Balance()
	must(err)
	fee := types.Siacoins(1).Div64(100)
	if bal.Spendable.Cmp(types.Siacoins(50)) < 0 {
		return // (almost) everything is already unconfirmed
	}
	amount := bal.Spendable.Sub(fee)
	txn := types.V2Transaction{MinerFee: fee, SiacoinOutputs: []types.SiacoinOutput{{Address: w.rn.W.Address(), Value: amount}}}
	basis, toSign, err := w.rn.W.FundV2Transaction(&txn, amount.Add(fee), false)
	must(err)
	w.rn.W.SignV2Inputs(&txn, toSign)
	_, err = w.rn.CM.AddV2PoolTransactions(basis, []types.V2Transaction{txn})
	must(err)
}

// run arranges the world's basis relation and input kind, then makes one attempt.
func (w *world) run(rpc string, f fault) observation {
	if isRenewal(rpc) && w.existing.Revision.ProofHeight < w.hn.CM.Tip().Height+160 {
		w.reform() // the chain has grown: the existing contract is too close to its proof window
	}
	w.arrange()
	if w.unconfirmed {
		w.makeUnconfirmed()
	}
	return w.attempt(rpc, f)
}

func okErr(err error) string {
	if err == nil {
		return "ok"
	}
	return "err"
}

// describe renders the attempt for the model: op = the RPC, the environment and the fault;
// impl = what the real code did.
func (w *world) describe(c *vh.Case, o observation) {
	if o.f.kind == "corrupt" && o.f.effect == "hfail-late" {
		// which chain-manager call rejected the corrupted data (an environment fact)
		o.f.effect = "benign"
		for i := len(o.htrace) - 1; i >= 0; i-- {
			if ev := o.htrace[i]; ev != "release" && ev != "unlock" {
				if ev == "updateinputs" || ev == "addparents" || ev == "txset" || ev == "addpool" {
					o.f.effect = "hfail-" + ev
				}
				break
			}
		}
	}
	same := "-"
	if o.err == nil && len(o.recorded) > 0 {
		fc, id, _ := contractOf(o.rpc, o.recorded[len(o.recorded)-1])
		same = fmt.Sprint(b2i(fc == o.contract.Revision && id == o.contract.ID))
	}
	signed := "-"
	if o.err == nil {
		signed = fmt.Sprint(b2i(w.fullySigned(o.contract.Revision)))
	}
	// on success the renter's inputs are spent by the contract transaction: whether they are
	// still marked reserved is immaterial
	rheld := "-"
	if o.err != nil {
		rheld = fmt.Sprint(sign(o.rAfter - o.rBefore))
	}
	c.Op(fmt.Sprintf("%s %d %d %s", o.rpc, w.basis.code(), b2i(w.unconfirmed), o.f.String()),
		fmt.Sprintf("renter=%s rtrace=%s htrace=%s recorded=%d same=%s signed=%s rheld=%s hheld=%d",
			okErr(o.err), strings.Join(o.rtrace, "."), strings.Join(o.htrace, "."), len(o.recorded), same, signed, rheld, sign(o.hAfter-o.hBefore)))
}

func b2i(b bool) int {
	if b {
		return 1
	}
	return 0
}

func sign(n int) int {
	switch {
	case n > 0:
		return 1
	case n < 0:
		return -1
	}
	return 0
}

// crowdPool makes sure the renter's pool already holds a transaction that has nothing to do with
// the renter (a bystander paying the void) BEFORE the renter's unconfirmed parent is added, so
// that the parent is never the first transaction of the pool.
func (w *world) crowdPool() {
	if w.bystander == nil {
		return
	}
	for _, txn := range w.rn.CM.V2PoolTransactions() {
		for _, in := range txn.SiacoinInputs {
			if in.Parent.SiacoinOutput.Address == w.bystander.W.Address() {
				return // still there
			}
		}
	}
	must(w.bystander.CatchUp(w.rn.CM, 0))
	txn := types.V2Transaction{MinerFee: types.Siacoins(1).Div64(100), SiacoinOutputs: []types.SiacoinOutput{{Address: types.VoidAddress, Value: types.Siacoins(1)}}}
	basis, toSign, err := w.bystander.W.FundV2Transaction(&txn, types.Siacoins(1).Add(txn.MinerFee), false)
	must(err)
	w.bystander.W.SignV2Inputs(&txn, toSign)
	_, err = w.rn.CM.AddV2PoolTransactions(basis, []types.V2Transaction{txn})
	must(err)
}
