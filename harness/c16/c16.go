// Package c16: contract formation / renewal / refresh yields a confirmable contract or leaves no
// trace.
//
// Real wallets, chain managers and transaction pools on both sides, the real server and the
// real client, connected through a message-boundary interposer.  One case = a sequence of
// attempts on one world (basis relation x confirmed/unconfirmed renter inputs x RPC), each with
// one fault: none, dial failure, message i lost, renter context cancelled at message i, a
// fallible call of either side failing, or one typed corruption of message i.  After every
// attempt the harness (T) gives the model the fault and compares both sides' call traces,
// results, reservations and the contractor with its prediction, and (O) checks the property on
// the real objects: the two contracts, the signatures, the pool verdict, the mined result, and
// every wallet's reserved outputs.
package c16

import (
	"fmt"
	"os"
	"slices"
	"strings"
	"time"

	"go.sia.tech/core/types"
	rhp4 "go.sia.tech/coreutils/rhp/v4"
	"verifharness/vh"
)

func init() { vh.Register("C16", Run) }

var rpcs = []string{"form", "renew", "refresh-full", "refresh-partial"}

func isRenewal(rpc string) bool { return rpc != "form" }

// contractOf extracts the contract a recorded / returned set creates.
func contractOf(rpc string, set rhp4.TransactionSet) (types.V2FileContract, types.FileContractID, bool) {
	if len(set.Transactions) == 0 {
		return types.V2FileContract{}, types.FileContractID{}, false
	}
	txn := set.Transactions[len(set.Transactions)-1]
	if !isRenewal(rpc) {
		if len(txn.FileContracts) != 1 {
			return types.V2FileContract{}, types.FileContractID{}, false
		}
		return txn.FileContracts[0], txn.V2FileContractID(txn.ID(), 0), true
	}
	if len(txn.FileContractResolutions) != 1 {
		return types.V2FileContract{}, types.FileContractID{}, false
	}
	ren, ok := txn.FileContractResolutions[0].Resolution.(*types.V2FileContractRenewal)
	if !ok {
		return types.V2FileContract{}, types.FileContractID{}, false
	}
	return ren.NewContract, types.FileContractID(txn.FileContractResolutions[0].Parent.ID).V2RenewalID(), true
}

func unsigned(fc types.V2FileContract) types.V2FileContract {
	fc.RenterSignature, fc.HostSignature = types.Signature{}, types.Signature{}
	return fc
}

func (w *world) fullySigned(fc types.V2FileContract) bool {
	h := w.hn.CM.TipState().ContractSigHash(fc)
	return w.renterKey.PublicKey().VerifyHash(h, fc.RenterSignature) && w.h.Key.PublicKey().VerifyHash(h, fc.HostSignature)
}

// judge applies the property to one attempt and settles the world for the next one.
func (w *world) judge(c *vh.Case, o observation) {
	tag := o.rpc + ":" + o.f.label()
	committed := len(o.recorded) > 0
	atFinal := (o.f.kind == "drop" || o.f.kind == "cancel" || o.f.kind == "corrupt" || o.f.kind == "silent") && o.f.pos == 3
	// every stream the client opens is bounded: by a deadline of at most the default stream
	// timeout (2 minutes) if the context has none, else by the context
	if o.dialed && !o.ctxHasDeadline && (!o.deadlineArmed || o.deadlineIn <= 0 || o.deadlineIn > 2*time.Minute+5*time.Second) {
		c.Oracle("stream-deadline-not-armed:"+o.rpc, "%s: the context has no deadline and the client opened its stream without a deadline within the default stream timeout (armed=%v, in %v): a host that goes silent blocks the call forever", tag, o.deadlineArmed, o.deadlineIn)
	}
	if o.panicked != "" {
		c.Oracle("renter-call-panics:"+o.rpc+":"+o.f.label(), "%s: the renter's call panicked instead of returning an error: %s", tag, firstLine(fmt.Errorf("%s", o.panicked)))
	}
	if o.hung {
		c.Oracle("renter-hangs-on-silent-host:"+o.rpc+":"+o.f.label(), "%s: the peer went silent and the clock passed every applicable timeout, but the call did not return: its reserved outputs stay reserved (they were only released after the harness closed the stream by force)", tag)
	}
	var hostFC types.V2FileContract
	var hostID types.FileContractID
	if committed {
		var ok bool
		hostFC, hostID, ok = contractOf(o.rpc, o.recorded[len(o.recorded)-1])
		if !ok || len(o.recorded) != 1 {
			c.Oracle("host-records-malformed-set:"+o.rpc, "%s: the contractor was handed %d sets / a set without exactly one contract", tag, len(o.recorded))
		}
	}
	if o.err == nil {
		// success: both parties hold the same fully signed contract …
		switch {
		case !committed:
			c.Oracle("success-without-host-contract:"+o.rpc, "%s: the renter reports success but the host recorded no contract", tag)
		case o.contract.Revision != hostFC || o.contract.ID != hostID:
			c.Oracle("success-different-contract:"+o.rpc, "%s: the renter's contract differs from the one the host recorded (renter output %v vs %v, revision %d vs %d, id equal %v)", tag,
				o.contract.Revision.RenterOutput.Value, hostFC.RenterOutput.Value, o.contract.Revision.RevisionNumber, hostFC.RevisionNumber, o.contract.ID == hostID)
		}
		if !w.fullySigned(o.contract.Revision) {
			c.Oracle("success-contract-not-fully-signed:"+o.rpc, "%s: the contract returned to the renter does not carry valid signatures of both parties", tag)
		}
		// … with the agreed terms and funding
		if unsigned(o.contract.Revision) != unsigned(o.want) {
			c.Oracle("success-contract-not-as-agreed:"+o.rpc, "%s: the returned contract is not the one the parameters and the price table determine", tag)
		}
		if o.wantID != (types.FileContractID{}) && o.contract.ID != o.wantID {
			c.Oracle("success-wrong-contract-id:"+o.rpc, "%s: contract id is not the renewal id of the existing contract", tag)
		}
	} else {
		if committed && atFinal {
			c.Oracle("final-response-lost", "%s: the host recorded and broadcast the contract, the renter reports failure (%v) and released its inputs: the last message of the exchange cannot be acknowledged", tag, firstLine(o.err))
		} else if committed && o.f.kind == "hcall" && o.f.name == "broadcast" {
			c.Oracle("host-local-failure-after-pool-accept:broadcast", "%s: the host's wallet failed to broadcast after the pool had accepted the set and the contractor had recorded the contract: the RPC fails, the contract stays recorded", tag)
		} else if committed {
			c.Oracle("host-records-contract-on-failed-attempt:"+o.rpc+":"+o.f.label(), "%s: the renter reports failure but the host recorded a contract", tag)
		}
		if o.rAfter != o.rBefore {
			c.Oracle("renter-inputs-not-released:"+o.rpc+":"+o.f.label(), "%s: the attempt failed (%v) but the renter's wallet still holds back %d output(s) it reserved for it (before %d, after %d)", tag, firstLine(o.err), o.rAfter-o.rBefore, o.rBefore, o.rAfter)
		}
	}
	if !committed && o.hAfter != o.hBefore {
		c.Oracle("host-inputs-not-released:"+o.rpc+":"+o.f.label(), "%s: no contract was recorded but the host's wallet still holds back %d output(s) (before %d, after %d)", tag, o.hAfter-o.hBefore, o.hBefore, o.hAfter)
	}

	// settle: a recorded contract is broadcast; confirm it and check that the chain now
	// holds exactly that contract
	w.rejoin()
	if !committed {
		// nothing was recorded: the host's pool must not hold a contract transaction either
		for _, txn := range w.hn.CM.V2PoolTransactions() {
			if len(txn.FileContracts) > 0 || len(txn.FileContractResolutions) > 0 {
				if o.f.kind == "hcall" && o.f.name == "record" {
					c.Oracle("host-local-failure-after-pool-accept:record", "%s: the contractor failed to record the contract after the pool had accepted the set: no contract is recorded, both sides released their inputs, but the transaction stays in the host's pool and can be mined", tag)
				} else {
					c.Oracle("unrecorded-contract-left-in-pool:"+o.rpc+":"+o.f.label(), "%s: no contract was recorded but its transaction is in the host's pool", tag)
				}
				break
			}
		}
		if w.flushPool() && isRenewal(o.rpc) {
			// a renewal transaction nobody recorded was just mined: the existing contract is
			// resolved on chain; go on with a fresh one
			w.reform()
		}
		return
	}
	if o.err == nil {
		// the returned set must be acceptable to a pool that has not seen it
		if _, err := w.rn.CM.AddV2PoolTransactions(o.set.Basis, o.set.Transactions); err != nil {
			if o.f.kind == "corrupt" && o.f.pos == 3 && (o.f.effect == "final-set-signature" || o.f.effect == "final-set-basis" || o.f.effect == "final-contract-unsigned") {
				c.Oracle("returned-set-unchecked-parts-corrupted-in-final-message", "%s: the final message was altered in a part the renter cannot check (%s); the call succeeds and the returned set is rejected by the renter's pool: %v", tag, o.f.name, firstLine(err))
			} else {
				c.Oracle("success-returned-set-rejected:"+o.rpc+":"+o.f.label(), "%s: the transaction set returned to the renter is rejected by the renter's pool: %v", tag, firstLine(err))
			}
		}
	}
	inPool := false
	if n := len(o.recorded[0].Transactions); n > 0 {
		_, inPool = w.hn.CM.V2PoolTransaction(o.recorded[0].Transactions[n-1].ID())
	}
	if !inPool {
		c.Oracle("recorded-set-not-in-pool:"+o.rpc, "%s: the host recorded a contract whose transaction is not in its pool", tag)
	}
	must(w.hn.Mine(types.VoidAddress, 1))
	w.rejoin()
	_, fce, err := w.h.Contractor.V2FileContractElement(hostID)
	if err != nil || fce.V2FileContract != hostFC {
		c.Oracle("mined-contract-differs:"+o.rpc, "%s: after mining, the chain does not hold exactly the recorded contract (err %v)", tag, err)
	}
	if isRenewal(o.rpc) {
		if _, _, err := w.h.Contractor.V2FileContractElement(w.existing.ID); err == nil {
			c.Oracle("renewed-contract-not-resolved:"+o.rpc, "%s: the renewed contract is still unresolved on chain", tag)
		}
	}
	// the next renewal acts on the new contract (the renter learns it from the host if the
	// final response was lost)
	w.existing = rhp4.ContractRevision{ID: hostID, Revision: hostFC}
}

func firstLine(err error) string {
	if err == nil {
		return "<nil>"
	}
	s := err.Error()
	if i := strings.IndexByte(s, '\n'); i >= 0 {
		s = s[:i]
	}
	if len(s) > 160 {
		s = s[:160]
	}
	return s
}

// faultsFor enumerates every fault point of an RPC.
func faultsFor(rpc string, rng *vh.RNG) []fault {
	fs := []fault{{kind: "none"}, {kind: "dial"}}
	for i := 0; i < 4; i++ {
		fs = append(fs, fault{kind: "drop", pos: i}, fault{kind: "cancel", pos: i})
	}
	for _, c := range []string{"fund", "txset"} {
		fs = append(fs, fault{kind: "rcall", name: c})
	}
	hcalls := []string{"fund", "updateinputs", "addparents", "txset", "addpool", "record", "broadcast"}
	if isRenewal(rpc) {
		hcalls = append(hcalls, "lock", "element", "updateelement")
	}
	for _, c := range hcalls {
		fs = append(fs, fault{kind: "hcall", name: c})
	}
	// the peer goes silent at message i (neither delivers nor closes); the renter must give up when
	// its stream deadline (simulated clock) or its context deadline (60 ms, real; same-tip worlds only) has passed
	for i := 0; i < 4; i++ {
		fs = append(fs, fault{kind: "silent", pos: i, name: "no-ctx-deadline"})
	}
	fs = append(fs, fault{kind: "silent", pos: 1, name: "ctx-deadline"}, fault{kind: "silent", pos: 3, name: "ctx-deadline"})
	// environment step, not a fault: the host's chain grows between its inputs and the renter's
	// signatures (message 2 is held back while the blocks are mined)
	fs = append(fs, fault{kind: "midmine", pos: 2, name: "1"}, fault{kind: "midmine", pos: 2, name: "pow2"})
	fs = append(fs, corruptions(rpc)...)
	return fs
}

// Run is the C16 check.
func Run(r *vh.Run) {
	r.Rule = "one case = a sequence of attempts (one fault each) on one world = (RPC, basis relation, confirmed/unconfirmed renter inputs); faults are enumerated exhaustively: every message boundary x {lost, renter cancels}, dial failure, every fallible call of either side, every typed corruption of every message; order and repetitions are seeded; distinct = distinct (world, fault sequence); non-trivial = real wallets and pools on both sides and every attempt judged against the property"
	rng := vh.NewRNG(r.Seed)
	type cfg struct {
		basis       basisKind
		unconfirmed bool
	}
	cfgs := []cfg{{basisSame, false}, {basisBehind, false}, {basisFork, false}, {basisSame, true}, {basisBehind, true}, {basisFar, false}}
	attempts := 0
	for pass := 0; pass < r.Pick(1, 4); pass++ {
		for _, rpc := range rpcs {
			for _, cf := range cfgs {
				w := newWorld(cf.basis, cf.unconfirmed)
				name := fmt.Sprintf("%s/%s/%s/order%d", rpc, cf.basis, map[bool]string{false: "confirmed", true: "unconfirmed"}[cf.unconfirmed], pass)
				c := &vh.Case{Name: name, Model: "c16 fixed", Tags: []string{"rpc:" + rpc, "basis:" + cf.basis.String()}}
				if isRenewal(rpc) {
					w.reform()
				}
				fs := faultsFor(rpc, rng)
				// every fault once, in seeded order; in the thorough tier failed attempts are
				// repeated back to back to look for leaks that only show up on repetition
				order := rng.Perm(len(fs))
				// the mid-exchange mining steps come first: the world is young, so the next power of
				// two of the accumulator is a few dozen blocks away (the pool rebases over <= 144)
				slices.SortStableFunc(order, func(a, b int) int {
					return b2i(fs[b].kind == "midmine") - b2i(fs[a].kind == "midmine")
				})
				for _, k := range order {
					f := fs[k]
					if f.kind == "silent" && f.name == "ctx-deadline" && cf.basis != basisSame {
						continue
					}
					if cf.basis == basisFar && !(f.kind == "none" || (f.kind == "silent" && f.pos == 1) || f.kind == "dial" || (f.kind == "drop" && f.pos <= 2) || (f.kind == "cancel" && f.pos == 1) ||
						(f.kind == "hcall" && (f.name == "fund" || f.name == "updateinputs" || f.name == "element"))) {
						continue // every attempt of this world costs 150 blocks: the faults around the host's funding
					}
					if r.Quick() && cf.basis != basisSame && f.kind == "corrupt" && k%3 != 0 {
						continue // quick: corruptions are enumerated fully on the same-tip worlds
					}
					reps := 1
					if !r.Quick() && f.kind != "none" && rng.Chance(1, 4) {
						reps = 3
					}
					for j := 0; j < reps; j++ {
						if f.effectFor != nil {
							f.effect = f.effectFor(w)
						}
						o := w.run(rpc, f)
						attempts++
						c.Tags = append(c.Tags, "fault:"+f.kind)
						w.describe(c, o)
						if dump := os.Getenv("VERIF_C16_DUMP"); dump != "" {
							f, _ := os.OpenFile(dump, os.O_APPEND|os.O_CREATE|os.O_WRONLY, 0o644)
							fmt.Fprintf(f, "%s\t%s\t%s\t%s\t%s\n", name, c.Ops[len(c.Ops)-1], c.Impl[len(c.Impl)-1], o.f.label(), firstLine(o.err))
							f.Close()
						}
						w.judge(c, o)
					}
				}
				c.Nontrivial = true
				r.Add(c)
				w.close()
			}
		}
	}
	for i := 0; i < r.Pick(2, 8); i++ {
		parallelFormations(r, i)
	}
	r.Extra("attempts", attempts)
	r.Assume("signatures are ideal; consensus validity is whatever the real chain manager and pool decide")
	r.Assume("the renter broadcasts (adds to its pool) the set a successful call returns; reservations are observed through SpendableOutputs against the wallet store and both pools")
}

// flushPool confirms whatever the host's pool still holds so that the next attempt starts from
// an empty pool.
func (w *world) flushPool() (contract bool) {
	pool := w.hn.CM.V2PoolTransactions()
	for _, txn := range pool {
		contract = contract || len(txn.FileContracts) > 0 || len(txn.FileContractResolutions) > 0
	}
	if len(pool) > 0 {
		must(w.hn.Mine(types.VoidAddress, 1))
		w.rejoin()
	}
	return
}

// reform gives the world a fresh contract to renew (honestly formed, same tip, confirmed inputs).
func (w *world) reform() {
	basis, unconfirmed := w.basis, w.unconfirmed
	w.basis, w.unconfirmed = basisSame, false
	o := w.run("form", fault{kind: "none"})
	if o.err != nil {
		panic(fmt.Sprintf("cannot form a contract: %v", o.err))
	}
	w.judge(&vh.Case{}, o)
	w.basis, w.unconfirmed = basis, unconfirmed
}
