package c16

import (
	"errors"
	"sync"
	"time"

	"go.sia.tech/core/consensus"
	proto4 "go.sia.tech/core/rhp/v4"
	"go.sia.tech/core/types"
	rhp4 "go.sia.tech/coreutils/rhp/v4"
	"go.sia.tech/coreutils/testutil"
	"go.sia.tech/coreutils/wallet"
	"verifharness/rhpc"
)

var errInjected = errors.New("verif: injected failure")

// A tracer records the calls one side makes into its wallet / contractor / chain manager and
// can make exactly one named call fail.
type tracer struct {
	mu     sync.Mutex
	events []string
	failAt string
}

func (t *tracer) hit(name string) bool {
	t.mu.Lock()
	defer t.mu.Unlock()
	t.events = append(t.events, name)
	return t.failAt == name
}

func (t *tracer) take() []string {
	t.mu.Lock()
	defer t.mu.Unlock()
	ev := t.events
	t.events = nil
	t.failAt = ""
	return ev
}

func (t *tracer) arm(name string) {
	t.mu.Lock()
	defer t.mu.Unlock()
	t.failAt = name
}

// ---- host-side wrappers -----------------------------------------------------------------------

type hostWallet struct {
	rhp4.Wallet
	t *tracer
}

func (w *hostWallet) FundV2Transaction(txn *types.V2Transaction, amount types.Currency, useUnconfirmed bool) (types.ChainIndex, []int, error) {
	if w.t.hit("fund") {
		return types.ChainIndex{}, nil, errInjected
	}
	return w.Wallet.FundV2Transaction(txn, amount, useUnconfirmed)
}
func (w *hostWallet) SignV2Inputs(txn *types.V2Transaction, toSign []int) {
	w.t.hit("sign")
	w.Wallet.SignV2Inputs(txn, toSign)
}
func (w *hostWallet) ReleaseInputs(txns []types.Transaction, v2txns []types.V2Transaction) {
	w.t.hit("release")
	w.Wallet.ReleaseInputs(txns, v2txns)
}
func (w *hostWallet) BroadcastV2TransactionSet(index types.ChainIndex, txns []types.V2Transaction) error {
	if w.t.hit("broadcast") {
		return errInjected
	}
	return w.Wallet.BroadcastV2TransactionSet(index, txns)
}

type hostContractor struct {
	rhp4.Contractor
	t        *tracer
	mu       sync.Mutex
	recorded []rhp4.TransactionSet // every set handed to AddV2Contract / RenewV2Contract that was accepted
}

func (c *hostContractor) LockV2Contract(id types.FileContractID) (rhp4.RevisionState, func(), error) {
	if c.t.hit("lock") {
		return rhp4.RevisionState{}, nil, errInjected
	}
	rs, unlock, err := c.Contractor.LockV2Contract(id)
	if err != nil {
		return rs, unlock, err
	}
	return rs, func() { c.t.hit("unlock"); unlock() }, nil
}
func (c *hostContractor) V2FileContractElement(id types.FileContractID) (types.ChainIndex, types.V2FileContractElement, error) {
	if c.t.hit("element") {
		return types.ChainIndex{}, types.V2FileContractElement{}, errInjected
	}
	return c.Contractor.V2FileContractElement(id)
}
func (c *hostContractor) AddV2Contract(set rhp4.TransactionSet, u proto4.Usage) error {
	if c.t.hit("record") {
		return errInjected
	}
	err := c.Contractor.AddV2Contract(set, u)
	if err == nil {
		c.mu.Lock()
		c.recorded = append(c.recorded, set)
		c.mu.Unlock()
	}
	return err
}
func (c *hostContractor) RenewV2Contract(set rhp4.TransactionSet, u proto4.Usage) error {
	if c.t.hit("record") {
		return errInjected
	}
	err := c.Contractor.RenewV2Contract(set, u)
	if err == nil {
		c.mu.Lock()
		c.recorded = append(c.recorded, set)
		c.mu.Unlock()
	}
	return err
}
func (c *hostContractor) takeRecorded() []rhp4.TransactionSet {
	c.mu.Lock()
	defer c.mu.Unlock()
	r := c.recorded
	c.recorded = nil
	return r
}

type hostChain struct {
	rhp4.ChainManager
	t       *tracer
	parents int // number of transactions of the next AddV2PoolTransactions that is the parents call
}

func (c *hostChain) V2TransactionSet(basis types.ChainIndex, txn types.V2Transaction) (types.ChainIndex, []types.V2Transaction, error) {
	if c.t.hit("txset") {
		return types.ChainIndex{}, nil, errInjected
	}
	return c.ChainManager.V2TransactionSet(basis, txn)
}
func (c *hostChain) AddV2PoolTransactions(basis types.ChainIndex, txns []types.V2Transaction) (bool, error) {
	// the handlers call this twice: first (only if there are any) with the renter's parents,
	// then with the full set, whose last transaction carries the contract / the renewal
	name := "addparents"
	if n := len(txns); n > 0 && (len(txns[n-1].FileContracts) > 0 || len(txns[n-1].FileContractResolutions) > 0) {
		name = "addpool"
	}
	if c.t.hit(name) {
		return false, errInjected
	}
	return c.ChainManager.AddV2PoolTransactions(basis, txns)
}
func (c *hostChain) UpdateV2TransactionSet(txns []types.V2Transaction, from, to types.ChainIndex) ([]types.V2Transaction, error) {
	name := "updateinputs"
	if len(txns) == 1 && len(txns[0].FileContractResolutions) > 0 && len(txns[0].SiacoinInputs) == 0 {
		name = "updateelement"
	}
	if c.t.hit(name) {
		return nil, errInjected
	}
	return c.ChainManager.UpdateV2TransactionSet(txns, from, to)
}

// ---- renter-side wrappers ---------------------------------------------------------------------

type renterSigner struct {
	*rhpc.FundAndSign
	t *tracer
}

func (s *renterSigner) FundV2Transaction(txn *types.V2Transaction, amount types.Currency) (types.ChainIndex, []int, error) {
	if s.t.hit("fund") {
		return types.ChainIndex{}, nil, errInjected
	}
	return s.FundAndSign.FundV2Transaction(txn, amount)
}
func (s *renterSigner) ReleaseInputs(txns []types.V2Transaction) {
	s.t.hit("release")
	s.FundAndSign.ReleaseInputs(txns)
}
func (s *renterSigner) SignV2Inputs(txn *types.V2Transaction, toSign []int) {
	s.t.hit("sign")
	s.FundAndSign.SignV2Inputs(txn, toSign)
}

type renterPool struct {
	rhp4.TxPool
	t *tracer
}

func (p *renterPool) V2TransactionSet(basis types.ChainIndex, txn types.V2Transaction) (types.ChainIndex, []types.V2Transaction, error) {
	if p.t.hit("txset") {
		return types.ChainIndex{}, nil, errInjected
	}
	return p.TxPool.V2TransactionSet(basis, txn)
}

// ---- world ------------------------------------------------------------------------------------

type basisKind int

const (
	basisSame   basisKind = iota // renter and host at the same tip
	basisBehind                  // renter a few blocks behind the host, same chain
	basisFork                    // renter on a stale fork: its tip is not on the host's chain
	basisFar                     // renter on the host's chain but further behind than the pool rebases a set (144 blocks)
)

func (b basisKind) String() string { return [...]string{"same", "behind", "fork", "far"}[b] }

// code is the model's view: a basis the host cannot rebase from is an unknown basis.
func (b basisKind) code() int {
	if b == basisFar {
		return int(basisFork)
	}
	return int(b)
}

type world struct {
	n           *consensus.Network
	hn, rn      *rhpc.Node
	bystander   *rhpc.Node // unconfirmed worlds: owner of an unrelated transaction in the renter's pool
	h           *rhpc.Host
	ht, rt      *tracer
	hc          *hostContractor
	signer      *renterSigner
	pool        *renterPool
	renterKey   types.PrivateKey
	prices      proto4.HostPrices
	settings    proto4.HostSettings
	basis       basisKind
	unconfirmed bool
	existing    rhp4.ContractRevision // the contract renew/refresh act on
}

func must(err error) {
	if err != nil {
		panic(err)
	}
}

func newWorld(basis basisKind, unconfirmed bool) *world {
	w := &world{basis: basis, unconfirmed: unconfirmed, ht: &tracer{}, rt: &tracer{}}
	n, genesis := testutil.V2Network()
	w.n = n
	var err error
	w.hn, err = rhpc.NewNode(n, genesis, wallet.WithReservationDuration(3*time.Hour))
	must(err)
	w.rn, err = rhpc.NewNode(n, genesis, wallet.WithReservationDuration(3*time.Hour))
	must(err)
	w.h = rhpc.NewHost(w.hn, rhpc.HostOpts{
		WrapWallet:     func(x rhp4.Wallet) rhp4.Wallet { return &hostWallet{x, w.ht} },
		WrapContractor: func(x rhp4.Contractor) rhp4.Contractor { w.hc = &hostContractor{Contractor: x, t: w.ht}; return w.hc },
		WrapChain:      func(x rhp4.ChainManager) rhp4.ChainManager { return &hostChain{ChainManager: x, t: w.ht} },
	})
	if unconfirmed {
		w.bystander, err = rhpc.NewNode(n, genesis)
		must(err)
		must(w.hn.Mine(w.bystander.W.Address(), 3))
	}
	// several outputs for each wallet
	must(w.hn.Mine(w.rn.W.Address(), 12))
	must(w.hn.Mine(w.hn.W.Address(), 12))
	must(w.hn.Mine(types.VoidAddress, int(n.MaturityDelay)+2))
	must(w.rn.CatchUp(w.hn.CM, 0))
	must(w.h.WaitContractor())
	w.renterKey = types.GeneratePrivateKey()
	w.signer = &renterSigner{&rhpc.FundAndSign{W: w.rn.W, PK: w.renterKey}, w.rt}
	w.pool = &renterPool{w.rn.CM, w.rt}
	return w
}

func (w *world) close() {
	if w.bystander != nil {
		w.bystander.Close()
	}
	w.h.Close()
	w.hn.Close()
	w.rn.Close()
}

// arrange puts the renter's node in the world's basis relation to the host's (the host just
// mined `ahead` blocks the renter has not seen).
func (w *world) arrange() {
	switch w.basis {
	case basisSame:
		must(w.rn.CatchUp(w.hn.CM, 0))
	case basisBehind:
		must(w.rn.CatchUp(w.hn.CM, 0))
		must(w.hn.Mine(types.VoidAddress, 3))
	case basisFar:
		must(w.rn.CatchUp(w.hn.CM, 0))
		must(w.hn.Mine(types.VoidAddress, 150))
	case basisFork:
		must(w.rn.CatchUp(w.hn.CM, 0))
		must(w.hn.Mine(types.VoidAddress, 2))
		must(w.rn.Mine(types.Address{1}, 1)) // a different block at the same height: stale for the host
	}
	must(w.h.WaitContractor())
}

// rejoin brings the renter back onto the host's chain.
func (w *world) rejoin() {
	if w.basis == basisFork {
		// make the host's chain heavier so that the renter reorgs onto it
		must(w.hn.Mine(types.VoidAddress, 1))
	}
	must(w.rn.CatchUp(w.hn.CM, 0))
	must(w.h.WaitContractor())
}
