package c16

import (
	"context"
	"fmt"
	"net"
	"os"
	"strings"
	"sync"
	"time"

	proto4 "go.sia.tech/core/rhp/v4"
	"go.sia.tech/core/types"
	rhp4 "go.sia.tech/coreutils/rhp/v4"
	"verifharness/rhpc"
)

// A fault is what goes wrong in one attempt.
type fault struct {
	kind string // none | dial | drop | cancel | rcall | hcall | corrupt | midmine | silent
	pos  int    // message index (drop, cancel, corrupt)
	name string // call name (rcall, hcall) or corruption name
	// corrupt: the mutation and what the model is told it does (the first check it trips, or
	// "benign" if the receiver cannot notice)
	mut    func(m *rhpc.Msg)
	effect string
	// effectFor, if set, computes the effect from the world (it can depend on the basis relation)
	effectFor func(w *world) string
}

func (f fault) String() string {
	switch f.kind {
	case "none", "dial":
		return f.kind
	case "drop", "cancel":
		return fmt.Sprintf("%s %d", f.kind, f.pos)
	case "rcall", "hcall", "midmine":
		return f.kind + " " + f.name
	case "silent":
		return fmt.Sprintf("silent %d %s", f.pos, f.name)
	}
	return fmt.Sprintf("corrupt %d %s", f.pos, f.effect)
}

func (f fault) label() string {
	if f.kind == "corrupt" {
		return fmt.Sprintf("corrupt%d.%s", f.pos, f.name)
	}
	return strings.ReplaceAll(f.String(), " ", "")
}

// what one attempt looked like from outside
type observation struct {
	rpc                              string
	f                                fault
	err                              error
	contract                         rhp4.ContractRevision
	set                              rhp4.TransactionSet
	wantID                           types.FileContractID
	want                             types.V2FileContract // the contract both sides should build from the parameters (unsigned)
	rtrace, htrace                   []string
	recorded                         []rhp4.TransactionSet
	rBefore, rAfter, hBefore, hAfter int // reserved-but-unspent outputs
	reached                          int
	dialed                           bool
	// stream deadline bookkeeping (simulated clock)
	ctxHasDeadline bool
	deadlineArmed  bool          // the client armed the stream with a deadline …
	deadlineIn     time.Duration // … this far in the future
	hung           bool          // the call did not return although its stream's time was up
	panicked       string
}

// clockConn is the renter's end of a stream under a simulated clock: it records the deadline the
// client arms and never lets real time expire it; expire(now) plays "the clock has reached now".
type clockConn struct {
	net.Conn
	mu       sync.Mutex
	set      bool
	deadline time.Time
	armedAt  time.Time
	timedOut bool
}

func (c *clockConn) SetDeadline(t time.Time) error {
	c.mu.Lock()
	c.set, c.deadline, c.armedAt = true, t, time.Now()
	c.mu.Unlock()
	return nil
}
func (c *clockConn) SetReadDeadline(t time.Time) error  { return c.SetDeadline(t) }
func (c *clockConn) SetWriteDeadline(t time.Time) error { return nil }

func (c *clockConn) Read(p []byte) (int, error) {
	n, err := c.Conn.Read(p)
	if err != nil {
		c.mu.Lock()
		to := c.timedOut
		c.mu.Unlock()
		if to {
			return n, os.ErrDeadlineExceeded
		}
	}
	return n, err
}

// expire: the clock reaches now; a stream whose deadline has passed fails its pending I/O.
func (c *clockConn) expire(now time.Time) bool {
	c.mu.Lock()
	due := c.set && !c.deadline.IsZero() && !c.deadline.After(now)
	if due {
		c.timedOut = true
	}
	c.mu.Unlock()
	if due {
		c.Conn.Close()
	}
	return due
}

// reserved counts the outputs a wallet holds back: unspent, mature, not spent by any pool
// transaction, yet not offered by SpendableOutputs; plus one if (probe) some unconfirmed output
// of the wallet cannot be used for funding although nothing in either pool spends it.
func reserved(nd *rhpc.Node, probeUnconfirmed bool) int {
	tip, utxos, err := nd.WS.UnspentSiacoinElements()
	must(err)
	spent := map[types.SiacoinOutputID]bool{}
	for _, txn := range nd.CM.PoolTransactions() {
		for _, in := range txn.SiacoinInputs {
			spent[in.ParentID] = true
		}
	}
	pool := nd.CM.V2PoolTransactions()
	for _, txn := range pool {
		for _, in := range txn.SiacoinInputs {
			spent[in.Parent.ID] = true
		}
	}
	sp, err := nd.W.SpendableOutputs()
	must(err)
	spendable := map[types.SiacoinOutputID]bool{}
	for _, sce := range sp {
		spendable[sce.ID] = true
	}
	n := 0
	var free types.Currency
	for _, sce := range utxos {
		if tip.Height < sce.MaturityHeight || spent[sce.ID] {
			continue
		}
		if !spendable[sce.ID] {
			n++
		} else {
			free = free.Add(sce.SiacoinOutput.Value)
		}
	}
	if !probeUnconfirmed {
		return n
	}
	var ephemeral types.Currency
	for _, txn := range pool {
		for i, sco := range txn.SiacoinOutputs {
			if sco.Address == nd.W.Address() && !spent[txn.EphemeralSiacoinOutput(i).ID] {
				ephemeral = ephemeral.Add(sco.Value)
			}
		}
	}
	if ephemeral.IsZero() {
		return n
	}
	var probe types.V2Transaction
	if _, _, err := nd.W.FundV2Transaction(&probe, free.Add(ephemeral), true); err != nil {
		return n + 1
	}
	nd.W.ReleaseInputs(nil, []types.V2Transaction{probe})
	return n
}

func stepsOf(rpc string) []rhpc.Step {
	switch rpc {
	case "form":
		return rhpc.StepsForm
	case "renew":
		return rhpc.StepsRenew
	}
	return rhpc.StepsRefresh
}

func (w *world) refreshPrices() {
	settings, err := rhp4.RPCSettings(context.Background(), rhpc.Direct(w.h))
	must(err)
	w.settings, w.prices = settings, settings.Prices
	w.ht.take()
}

// attempt runs one form / renew / refresh-full / refresh-partial with fault f.
func (w *world) attempt(rpc string, f fault) observation {
	o := observation{rpc: rpc, f: f}
	w.refreshPrices()
	w.rt.take()
	w.hc.takeRecorded()
	o.rBefore, o.hBefore = reserved(w.rn, true), reserved(w.hn, false)
	switch f.kind {
	case "rcall":
		w.rt.arm(f.name)
	case "hcall":
		w.ht.arm(f.name)
	}
	ctx, cancel := context.WithCancel(context.Background())
	defer cancel()
	if f.kind == "silent" && f.name == "ctx-deadline" {
		var c2 context.CancelFunc
		ctx, c2 = context.WithTimeout(ctx, 60*time.Millisecond)
		defer c2()
		o.ctxHasDeadline = true
	}
	held, release := make(chan struct{}), make(chan struct{})
	ip := &rhpc.Interposer{Steps: stepsOf(rpc)}
	ip.Hook = func(i int, m *rhpc.Msg) {
		if i != f.pos {
			return
		}
		switch f.kind {
		case "drop":
			m.Close = true
		case "cancel":
			cancel()
			m.Close = true
		case "corrupt":
			if m.Obj != nil {
				f.mut(m)
			}
		case "silent":
			// the peer goes silent: the message is neither delivered nor is the stream closed,
			// until the renter has given up
			close(held)
			<-release
			m.Close = true
		case "midmine":
			// blocks arrive at the host after it sent its inputs and before the renter's
			// signatures reach it: the funding basis is no longer the tip in the final phase
			w.mineMid(f.name)
		}
	}
	var tr *rhpc.Client
	var cc *clockConn
	if f.kind == "dial" {
		tr = rhpc.FailingClient(w.h.Key.PublicKey())
	} else {
		tr = rhpc.Interposed(w.h, ip)
		inner := tr.Dial
		tr.Dial = func(c context.Context) (net.Conn, error) {
			o.dialed = true
			conn, err := inner(c)
			if err != nil {
				return conn, err
			}
			cc = &clockConn{Conn: conn}
			return cc, nil
		}
	}
	cs := w.rn.CM.TipState()
	hostTip := w.hn.CM.Tip().Height
	allowance, collateral := types.Siacoins(10), types.Siacoins(20)
	if isRenewal(rpc) {
		// more than the existing contract can roll over, so that the host has to fund
		collateral = w.existing.Revision.TotalCollateral.Add(types.Siacoins(40))
		switch rpc {
		case "refresh-full":
			collateral = types.Siacoins(40) // added to everything that is rolled over
		case "refresh-partial":
			collateral = w.existing.Revision.HostOutput.Value.Add(types.Siacoins(40))
		}
		allowance = collateral.Div64(2).Add(types.Siacoins(10))
	}
	done := make(chan struct{})
	go func() {
		defer close(done)
		defer func() {
			if p := recover(); p != nil {
				o.panicked = fmt.Sprint(p)
				o.err = fmt.Errorf("panic: %v", p)
			}
		}()
		switch rpc {
		case "form":
			params := proto4.RPCFormContractParams{
				RenterPublicKey: w.renterKey.PublicKey(), RenterAddress: w.rn.W.Address(),
				Allowance: allowance, Collateral: collateral, ProofHeight: hostTip + 300,
			}
			o.want, _ = proto4.NewContract(w.prices, params, w.h.Key.PublicKey(), w.settings.WalletAddress)
			res, err := rhp4.RPCFormContract(ctx, tr, w.pool, w.signer, cs, w.prices, w.h.Key.PublicKey(), w.settings.WalletAddress, params)
			o.err, o.contract, o.set = err, res.Contract, res.FormationSet
		case "renew":
			params := proto4.RPCRenewContractParams{ContractID: w.existing.ID, Allowance: allowance, Collateral: collateral, ProofHeight: w.existing.Revision.ProofHeight + 10}
			ren, _ := proto4.RenewContract(w.existing.Revision, w.prices, w.settings.WalletAddress, params)
			o.want, o.wantID = ren.NewContract, w.existing.ID.V2RenewalID()
			res, err := rhp4.RPCRenewContract(ctx, tr, w.pool, w.signer, cs, w.prices, w.settings.WalletAddress, w.existing.Revision, params)
			o.err, o.contract, o.set = err, res.Contract, res.RenewalSet
		case "refresh-full", "refresh-partial":
			params := proto4.RPCRefreshContractParams{ContractID: w.existing.ID, Allowance: allowance, Collateral: collateral}
			var ren types.V2FileContractRenewal
			var res rhp4.RPCRefreshContractResult
			var err error
			if rpc == "refresh-full" {
				ren, _ = proto4.RefreshContractFullRollover(w.existing.Revision, w.prices, w.settings.WalletAddress, params)
				res, err = rhp4.RPCRefreshContractFullRollover(ctx, tr, w.pool, w.signer, cs, w.prices, w.settings.WalletAddress, w.existing.Revision, params)
			} else {
				ren, _ = proto4.RefreshContractPartialRollover(w.existing.Revision, w.prices, w.settings.WalletAddress, params)
				res, err = rhp4.RPCRefreshContractPartialRollover(ctx, tr, w.pool, w.signer, cs, w.prices, w.settings.WalletAddress, w.existing.Revision, params)
			}
			o.want, o.wantID = ren.NewContract, w.existing.ID.V2RenewalID()
			o.err, o.contract, o.set = err, res.Contract, res.RenewalSet
		}
	}()
	if f.kind == "silent" {
		select {
		case <-held:
			// the peer is silent now.  Without a context deadline the stream's own deadline is
			// all that can end the call: let the clock pass the default stream timeout.
			if !o.ctxHasDeadline && cc != nil {
				cc.expire(time.Now().Add(2*time.Minute + time.Second))
			}
			select {
			case <-done:
			case <-time.After(2 * time.Second):
				o.hung = true
			}
			close(release)
			if o.hung {
				cc.Conn.Close() // free the goroutine so that the world can go on
				<-done
			}
		case <-done:
			close(release) // the exchange ended before the message was due
		}
	} else {
		<-done
		close(release)
	}
	if cc != nil {
		cc.mu.Lock()
		o.deadlineArmed = cc.set && !cc.deadline.IsZero()
		o.deadlineIn = cc.deadline.Sub(cc.armedAt)
		cc.mu.Unlock()
	}
	cancel()
	if o.dialed && !ip.Wait() {
		panic("host handler stuck in " + rpc + " " + f.String())
	}
	o.reached = ip.Reached
	o.rtrace, o.htrace = w.rt.take(), w.ht.take()
	o.recorded = w.hc.takeRecorded()
	o.rAfter, o.hAfter = reserved(w.rn, true), reserved(w.hn, false)
	return o
}

// mineMid mines on the host's node in the middle of an exchange: "1" = one block, "pow2" = until
// the element accumulator has passed the next power of two (every input's proof then changes).
func (w *world) mineMid(how string) {
	if how == "1" {
		must(w.hn.Mine(types.VoidAddress, 1))
	} else {
		n := w.hn.CM.TipState().Elements.NumLeaves
		target := uint64(1)
		for target <= n {
			target <<= 1
		}
		// the pool rebases a set over at most 144 blocks: stay well below
		for i := 0; i < 100 && w.hn.CM.TipState().Elements.NumLeaves <= target; i++ {
			must(w.hn.Mine(types.VoidAddress, 1))
		}
	}
	must(w.h.WaitContractor())
}
