package c06

import (
	"errors"
	"fmt"
	"sync"
	"time"

	"go.sia.tech/core/types"
	"go.sia.tech/coreutils/chain"
	"go.sia.tech/coreutils/wallet"
)

// ledgerStore is the harness's own wallet.SingleAddressStore.  It does what the interface
// comments ask for and nothing else; after a chunk of updates it records as its tip the index
// the update stream left it at (after a revert: the parent of the reverted block), as the
// property prescribes.
type ledgerStore struct {
	mu     sync.Mutex
	tip    types.ChainIndex
	utxos  map[types.SiacoinOutputID]types.SiacoinElement
	events []wallet.Event
	sets   []wallet.BroadcastedSet
	// bookkeeping for the oracle: anything the wallet asked for that a store cannot do
	complaints []string
	// fault injection: the n-th call of one kind within the next transaction fails once
	failKind  string // "revert-index" | "revert-proofs" | ""
	failAt    int
	nRevert   int
	nProofs   int
	injected  bool
}

var errInjected = errors.New("injected: the store failed")

func newLedgerStore() *ledgerStore {
	return &ledgerStore{utxos: map[types.SiacoinOutputID]types.SiacoinElement{}}
}

type storeTx struct{ s *ledgerStore }

func (tx storeTx) UpdateWalletSiacoinElementProofs(pu wallet.ProofUpdater) error {
	tx.s.nProofs++
	if tx.s.failKind == "revert-proofs" && tx.s.nProofs == tx.s.failAt {
		tx.s.failKind, tx.s.injected = "", true
		return errInjected
	}
	for id, se := range tx.s.utxos {
		pu.UpdateElementProof(&se.StateElement)
		tx.s.utxos[id] = se.Move()
	}
	return nil
}

func (tx storeTx) WalletApplyIndex(index types.ChainIndex, created, spent []types.SiacoinElement, events []wallet.Event, _ time.Time) error {
	for _, se := range spent {
		if _, ok := tx.s.utxos[se.ID]; !ok {
			tx.s.complaints = append(tx.s.complaints, "apply: spent element not in the store")
		}
		delete(tx.s.utxos, se.ID)
	}
	for _, se := range created {
		if _, ok := tx.s.utxos[se.ID]; ok {
			tx.s.complaints = append(tx.s.complaints, "apply: created element already in the store")
		}
		tx.s.utxos[se.ID] = se.Copy()
	}
	tx.s.events = append(tx.s.events, events...)
	tx.s.tip = index
	return nil
}

func (tx storeTx) WalletRevertIndex(index types.ChainIndex, removed, unspent []types.SiacoinElement, _ time.Time) error {
	tx.s.nRevert++
	if tx.s.failKind == "revert-index" && tx.s.nRevert == tx.s.failAt {
		tx.s.failKind, tx.s.injected = "", true
		return errInjected
	}
	kept := tx.s.events[:0]
	for _, ev := range tx.s.events {
		if ev.Index != index {
			kept = append(kept, ev)
		}
	}
	tx.s.events = kept
	for _, se := range removed {
		if _, ok := tx.s.utxos[se.ID]; !ok {
			tx.s.complaints = append(tx.s.complaints, "revert: removed element not in the store")
		}
		delete(tx.s.utxos, se.ID)
	}
	for _, se := range unspent {
		tx.s.utxos[se.ID] = se.Copy()
	}
	return nil
}

// applyChunk hands one result of Manager.UpdatesSince to the wallet in one store transaction and
// then records the index the stream left the store at.
func (s *ledgerStore) applyChunk(w *wallet.SingleAddressWallet, rus []chain.RevertUpdate, aus []chain.ApplyUpdate) (err error) {
	s.mu.Lock()
	defer s.mu.Unlock()
	// the store's transaction is atomic: a failed UpdateChainState leaves no trace
	tip0, events0 := s.tip, append([]wallet.Event(nil), s.events...)
	utxos0 := make(map[types.SiacoinOutputID]types.SiacoinElement, len(s.utxos))
	for id, e := range s.utxos {
		utxos0[id] = e.Copy()
	}
	s.nRevert, s.nProofs, s.injected = 0, 0, false
	defer func() {
		if r := recover(); r != nil {
			err = fmt.Errorf("UpdateChainState panicked: %v", r)
		}
		if err != nil {
			s.tip, s.events, s.utxos = tip0, events0, utxos0
		}
		s.failKind = ""
	}()
	if err := w.UpdateChainState(storeTx{s}, rus, aus); err != nil {
		return err
	}
	if len(aus) > 0 {
		s.tip = aus[len(aus)-1].State.Index
	} else if len(rus) > 0 {
		s.tip = rus[len(rus)-1].State.Index
	}
	return nil
}

func (s *ledgerStore) Tip() (types.ChainIndex, error) {
	s.mu.Lock()
	defer s.mu.Unlock()
	return s.tip, nil
}

func (s *ledgerStore) UnspentSiacoinElements() (types.ChainIndex, []types.SiacoinElement, error) {
	s.mu.Lock()
	defer s.mu.Unlock()
	out := make([]types.SiacoinElement, 0, len(s.utxos))
	for _, se := range s.utxos {
		out = append(out, se.Copy())
	}
	return s.tip, out, nil
}

func (s *ledgerStore) WalletEvent(id types.Hash256) (wallet.Event, error) {
	s.mu.Lock()
	defer s.mu.Unlock()
	for _, ev := range s.events {
		if ev.ID == id {
			return ev, nil
		}
	}
	return wallet.Event{}, wallet.ErrEventNotFound
}

func (s *ledgerStore) WalletEvents(offset, limit int) ([]wallet.Event, error) {
	s.mu.Lock()
	defer s.mu.Unlock()
	if offset > len(s.events) {
		return nil, nil
	}
	end := offset + limit
	if end > len(s.events) {
		end = len(s.events)
	}
	return append([]wallet.Event(nil), s.events[offset:end]...), nil
}

func (s *ledgerStore) WalletEventCount() (uint64, error) {
	s.mu.Lock()
	defer s.mu.Unlock()
	return uint64(len(s.events)), nil
}

func (s *ledgerStore) AddBroadcastedSet(set wallet.BroadcastedSet) error {
	s.mu.Lock()
	defer s.mu.Unlock()
	s.sets = append(s.sets, set)
	return nil
}

func (s *ledgerStore) BroadcastedSets() ([]wallet.BroadcastedSet, error) {
	s.mu.Lock()
	defer s.mu.Unlock()
	return append([]wallet.BroadcastedSet(nil), s.sets...), nil
}

func (s *ledgerStore) RemoveBroadcastedSet(set wallet.BroadcastedSet) error {
	s.mu.Lock()
	defer s.mu.Unlock()
	for i := range s.sets {
		if s.sets[i].ID() == set.ID() {
			s.sets = append(s.sets[:i], s.sets[i+1:]...)
			return nil
		}
	}
	return errors.New("broadcasted set not found")
}
