package c06

import (
	"fmt"
	"sort"
	"strings"

	"go.sia.tech/core/types"
	"go.sia.tech/coreutils/chain"
	"verifharness/vh"
)

// tie records, for one follower, the line protocol the Lean model `Verif.WalletLedger` replays:
// every block is declared (diffs and the parts of the block appliedEvents reads, with the address
// comparisons evaluated) when it is first applied; every update and every chunk boundary is one
// operation; the store's content is the observation.
type tie struct {
	c      *vh.Case
	addr   types.Address
	ids    map[types.Hash256]int
	blocks map[types.BlockID]int
}

func newTie(name string, addr types.Address) *tie {
	return &tie{c: &vh.Case{Name: name, Model: "ledger std"}, addr: addr, ids: map[types.Hash256]int{}, blocks: map[types.BlockID]int{}}
}

func (t *tie) id(h types.Hash256) int {
	if n, ok := t.ids[h]; ok {
		return n
	}
	n := len(t.ids) + 1
	t.ids[h] = n
	return n
}

func b2i(b bool) int {
	if b {
		return 1
	}
	return 0
}

// declare emits the declaration of the block of an apply update (once).
func (t *tie) declare(cau chain.ApplyUpdate) int {
	bid := cau.Block.ID()
	if n, ok := t.blocks[bid]; ok {
		return n
	}
	n := len(t.blocks) + 1
	t.blocks[bid] = n
	own := func(a types.Address) int { return b2i(a == t.addr) }
	decl := func(f string, a ...any) { t.c.Op(fmt.Sprintf(f, a...), "ok") }
	decl("blk %d %d %d %d", n, t.blocks[cau.Block.ParentID], cau.State.Index.Height, t.id(types.Hash256(bid.FoundationOutputID())))
	for _, d := range cau.SiacoinElementDiffs() {
		e := d.SiacoinElement
		decl("d %d %d %s %d %d %d %d", n, t.id(types.Hash256(e.ID)), e.SiacoinOutput.Value.ExactString(), e.MaturityHeight, own(e.SiacoinOutput.Address), b2i(d.Created), b2i(d.Spent))
	}
	for _, txn := range cau.Block.Transactions {
		var sb strings.Builder
		fmt.Fprintf(&sb, "t %d %d 0 %d %d %d", n, t.id(types.Hash256(txn.ID())), len(txn.SiacoinInputs), len(txn.SiacoinOutputs), len(txn.SiafundInputs))
		for _, in := range txn.SiacoinInputs {
			fmt.Fprintf(&sb, " %d 0 %d", t.id(types.Hash256(in.ParentID)), own(in.UnlockConditions.UnlockHash()))
		}
		for _, o := range txn.SiacoinOutputs {
			fmt.Fprintf(&sb, " %s %d", o.Value.ExactString(), own(o.Address))
		}
		for _, in := range txn.SiafundInputs {
			fmt.Fprintf(&sb, " %d %d", own(in.ClaimAddress), t.id(types.Hash256(in.ParentID.ClaimOutputID())))
		}
		decl("%s", sb.String())
	}
	for _, txn := range cau.Block.V2Transactions() {
		var sb strings.Builder
		fmt.Fprintf(&sb, "t %d %d 1 %d %d %d", n, t.id(types.Hash256(txn.ID())), len(txn.SiacoinInputs), len(txn.SiacoinOutputs), len(txn.SiafundInputs))
		for _, in := range txn.SiacoinInputs {
			fmt.Fprintf(&sb, " %d %s %d", t.id(types.Hash256(in.Parent.ID)), in.Parent.SiacoinOutput.Value.ExactString(), own(in.Parent.SiacoinOutput.Address))
		}
		for _, o := range txn.SiacoinOutputs {
			fmt.Fprintf(&sb, " %s %d", o.Value.ExactString(), own(o.Address))
		}
		for _, in := range txn.SiafundInputs {
			fmt.Fprintf(&sb, " %d %d", own(in.ClaimAddress), t.id(types.Hash256(types.SiafundOutputID(in.Parent.ID).V2ClaimOutputID())))
		}
		decl("%s", sb.String())
	}
	for _, d := range cau.FileContractElementDiffs() {
		if !d.Resolved {
			continue
		}
		fce := d.FileContractElement
		var sb strings.Builder
		fmt.Fprintf(&sb, "r1 %d", n)
		if d.Valid {
			for i, o := range fce.FileContract.ValidProofOutputs {
				fmt.Fprintf(&sb, " %d %d", own(o.Address), t.id(types.Hash256(fce.ID.ValidOutputID(i))))
			}
		} else {
			for i, o := range fce.FileContract.MissedProofOutputs {
				fmt.Fprintf(&sb, " %d %d", own(o.Address), t.id(types.Hash256(fce.ID.MissedOutputID(i))))
			}
		}
		decl("%s", sb.String())
	}
	for _, d := range cau.V2FileContractElementDiffs() {
		if d.Resolution == nil {
			continue
		}
		id := d.V2FileContractElement.ID
		decl("r2 %d %d %d", n, t.id(types.Hash256(id.V2HostOutputID())), t.id(types.Hash256(id.V2RenterOutputID())))
	}
	var sb strings.Builder
	fmt.Fprintf(&sb, "m %d", n)
	for i, o := range cau.Block.MinerPayouts {
		fmt.Fprintf(&sb, " %d %d", own(o.Address), t.id(types.Hash256(bid.MinerOutputID(i))))
	}
	decl("%s", sb.String())
	return n
}

// chunk records one processed chunk and the store's content after it.
func (t *tie) chunk(f *follower, nd *chainNode, rus []chain.RevertUpdate, aus []chain.ApplyUpdate) {
	for _, ru := range rus {
		t.c.Op(fmt.Sprintf("revert %d", t.blocks[ru.Block.ID()]), "ok")
	}
	for _, au := range aus {
		n := t.declare(au)
		t.c.Op(fmt.Sprintf("apply %d", n), "ok")
	}
	s := f.store
	s.mu.Lock()
	defer s.mu.Unlock()
	type u struct {
		n    int
		line string
	}
	var us []u
	st, haveState := nd.stateOf(s.tip)
	for id, e := range s.utxos {
		pf := 0
		if haveState {
			if err := st.Elements.ValidateTransactionElements(types.V2Transaction{SiacoinInputs: []types.V2SiacoinInput{{Parent: e.Copy()}}}); err == nil {
				pf = 1
			} else {
				t.c.Oracle("utxo-proof", "after a chunk ending at %v the stored Merkle proof of output %d does not verify against that block's accumulator: %v", s.tip, t.id(types.Hash256(id)), err)
			}
		}
		n := t.id(types.Hash256(id))
		us = append(us, u{n, fmt.Sprintf(" %d:%s:%d:%d", n, e.SiacoinOutput.Value.ExactString(), e.MaturityHeight, pf)})
	}
	sort.Slice(us, func(i, j int) bool { return us[i].n < us[j].n })
	var sb strings.Builder
	sb.WriteString("u")
	for _, x := range us {
		sb.WriteString(x.line)
	}
	sb.WriteString(" e")
	for _, ev := range s.events {
		fmt.Fprintf(&sb, " %d:%s:%s:%s:%d:%d", t.id(ev.ID), ev.Type, ev.SiacoinInflow().ExactString(), ev.SiacoinOutflow().ExactString(), ev.MaturityHeight, t.blocks[ev.Index.ID])
	}
	t.c.Op("dump", sb.String())
}
