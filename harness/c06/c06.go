package c06

import (
	"fmt"
	"runtime"
	"sort"
	"strings"
	"sync"
	"time"

	"go.sia.tech/core/consensus"
	"go.sia.tech/core/types"
	"go.sia.tech/coreutils/chain"
	"go.sia.tech/coreutils/testutil"
	"go.sia.tech/coreutils/wallet"
	"verifharness/chainx"
	"verifharness/vh"
)

func init() { vh.Register("C06", Run) }

// follower is one wallet following the node under test with a fixed chunk size.
type follower struct {
	chunk         int
	store         *ledgerStore
	w             *wallet.SingleAddressWallet
	steps         int
	endedOnRevert int
	tie           *tie
	dead          bool // UpdateChainState failed: the store is no longer meaningful
	rng           *vh.RNG
	faults        int
	// shadows are further consumers of the very same update values (another wallet of the same
	// address, a wallet of another address): an update handed to one wallet must stay usable for the next
	shadows []*follower
}

// digestUpdates renders everything of the updates a consumer relies on (element ids, leaf indices
// and Merkle proofs of every diff); UpdateChainState must leave it unchanged.
func digestUpdates(rus []chain.RevertUpdate, aus []chain.ApplyUpdate) string {
	var sb strings.Builder
	se := func(kind string, id any, e types.StateElement) { fmt.Fprintf(&sb, "%s %v %d %v\n", kind, id, e.LeafIndex, e.MerkleProof) }
	for _, u := range rus {
		for _, d := range u.SiacoinElementDiffs() {
			se("sc", d.SiacoinElement.ID, d.SiacoinElement.StateElement)
		}
		for _, d := range u.SiafundElementDiffs() {
			se("sf", d.SiafundElement.ID, d.SiafundElement.StateElement)
		}
		for _, d := range u.FileContractElementDiffs() {
			se("fc", d.FileContractElement.ID, d.FileContractElement.StateElement)
		}
		for _, d := range u.V2FileContractElementDiffs() {
			se("v2fc", d.V2FileContractElement.ID, d.V2FileContractElement.StateElement)
		}
	}
	for _, u := range aus {
		for _, d := range u.SiacoinElementDiffs() {
			se("sc", d.SiacoinElement.ID, d.SiacoinElement.StateElement)
		}
		for _, d := range u.SiafundElementDiffs() {
			se("sf", d.SiafundElement.ID, d.SiafundElement.StateElement)
		}
		for _, d := range u.FileContractElementDiffs() {
			se("fc", d.FileContractElement.ID, d.FileContractElement.StateElement)
		}
		for _, d := range u.V2FileContractElementDiffs() {
			se("v2fc", d.V2FileContractElement.ID, d.V2FileContractElement.StateElement)
		}
		cie := u.ChainIndexElement()
		se("cie", cie.ID, cie.StateElement)
	}
	return sb.String()
}

// feedShadows hands the same update values to the other consumers and checks what they stored.
func (f *follower) feedShadows(cm *chain.Manager, rus []chain.RevertUpdate, aus []chain.ApplyUpdate) {
	for _, sh := range f.shadows {
		if sh.dead {
			continue
		}
		if err := sh.store.applyChunk(sh.w, rus, aus); err != nil {
			sh.dead = true
			f.tie.c.Oracle("shared-update-error", "a second wallet fed the same update values failed: %v", err)
			continue
		}
		sn := sh.store.snapshot()
		st, ok := (&chainNode{cm}).stateOf(sn.tip)
		if !ok {
			continue
		}
		for id, e := range sn.utxos {
			if err := st.Elements.ValidateTransactionElements(types.V2Transaction{SiacoinInputs: []types.V2SiacoinInput{{Parent: e.Copy()}}}); err != nil {
				f.tie.c.Oracle("shared-update-proof", "a second wallet fed the same update values as the first stored output %v with a Merkle proof that does not verify at %v: %v", id, sn.tip, err)
			}
		}
	}
}

// chainNode is the node under test as the tie needs it.
type chainNode struct{ cm *chain.Manager }

func (n *chainNode) stateOf(index types.ChainIndex) (consensus.State, bool) {
	if index == (types.ChainIndex{}) {
		return consensus.State{}, false
	}
	return n.cm.State(index.ID)
}

func newFollower(sk types.PrivateKey, cm *chain.Manager, chunk int) *follower {
	st := newLedgerStore()
	w, err := wallet.NewSingleAddressWallet(sk, cm, st, &testutil.MockSyncer{}, wallet.WithDebounceInterval(24*time.Hour))
	if err != nil {
		panic(err)
	}
	return &follower{chunk: chunk, store: st, w: w}
}

// step processes one chunk; it reports whether the store moved.
func (f *follower) step(cm *chain.Manager) (bool, error) {
	if f.dead {
		return false, nil
	}
	tip, _ := f.store.Tip()
	if tip == cm.Tip() {
		return false, nil
	}
	rus, aus, err := cm.UpdatesSince(tip, f.chunk)
	if err != nil {
		return false, err
	}
	if len(rus)+len(aus) == 0 {
		return false, fmt.Errorf("UpdatesSince(%v) made no progress towards %v", tip, cm.Tip())
	}
	if len(aus) == 0 {
		f.endedOnRevert++
	}
	f.steps++
	// a dependency failing in the middle: in a chunk that carries a reorg (reverts followed by
	// applies) the store fails one call of the revert phase once.  UpdateChainState must report the
	// error (the store then rolls its transaction back) and the same chunk must go through afterwards.
	if f.rng != nil && len(rus) > 0 && len(aus) > 0 && f.rng.Chance(1, 3) {
		kind := []string{"revert-index", "revert-proofs"}[f.rng.Intn(2)]
		f.store.mu.Lock()
		f.store.failKind, f.store.failAt = kind, 1+f.rng.Intn(len(rus))
		f.store.mu.Unlock()
		err := f.store.applyChunk(f.w, rus, aus)
		f.faults++
		if err == nil {
			f.tie.c.Oracle("update-error-swallowed", "the store failed a %s call while a chunk of %d reverts and %d applies was processed, yet UpdateChainState reported success: the store now holds a half-processed reorg", kind, len(rus), len(aus))
			f.dead = true
			return true, nil
		}
	}
	shadowsFirst := f.rng != nil && f.rng.Bool()
	before := digestUpdates(rus, aus)
	if shadowsFirst {
		f.feedShadows(cm, rus, aus)
	}
	defer func() {
		if after := digestUpdates(rus, aus); after != before {
			f.tie.c.Oracle("update-mutated", "UpdateChainState modified the updates it was given (leaf indices / Merkle proofs of the element diffs differ afterwards): another consumer of the same values reads garbage")
		}
	}()
	if err := f.store.applyChunk(f.w, rus, aus); err != nil {
		f.dead = true
		f.tie.c.Oracle("sync-error", "processing a chunk of %d reverts and %d applies from %v failed: %v", len(rus), len(aus), tip, err)
		return true, err
	}
	if f.tie != nil {
		f.tie.chunk(f, &chainNode{cm}, rus, aus)
	}
	if !shadowsFirst {
		f.feedShadows(cm, rus, aus)
	}
	return true, nil
}

func (f *follower) syncFully(cm *chain.Manager) error {
	for i := 0; ; i++ {
		moved, err := f.step(cm)
		if err != nil || !moved {
			return err
		}
		if i > 100000 {
			return fmt.Errorf("sync does not terminate")
		}
	}
}

// refFollower is a wallet over the repository's reference store, testutil.EphemeralWalletStore,
// driven the way wallet_test.go drives it: every UpdateChainState call consumes a whole answer of
// UpdatesSince with a large maximum, so a call never ends on a revert (that store records the
// reverted index as its tip and cannot continue from there).
type refFollower struct {
	store *testutil.EphemeralWalletStore
	w     *wallet.SingleAddressWallet
	lazy  bool // syncs rarely: its reorg paths span several reorgs of the node
	dead  bool
	syncs int
}

func newRefFollower(sk types.PrivateKey, cm *chain.Manager, lazy bool) *refFollower {
	st := testutil.NewEphemeralWalletStore()
	w, err := wallet.NewSingleAddressWallet(sk, cm, st, &testutil.MockSyncer{}, wallet.WithDebounceInterval(24*time.Hour))
	if err != nil {
		panic(err)
	}
	return &refFollower{store: st, w: w, lazy: lazy}
}

func (f *refFollower) sync(cm *chain.Manager) (err error) {
	defer func() {
		if r := recover(); r != nil {
			err = fmt.Errorf("UpdateChainState panicked: %v", r)
		}
		if err != nil {
			f.dead = true
		}
	}()
	for i := 0; i < 1000; i++ {
		tip, err := f.store.Tip()
		if err != nil {
			return err
		}
		if tip == cm.Tip() {
			f.syncs++
			return nil
		}
		rus, aus, err := cm.UpdatesSince(tip, 1000)
		if err != nil {
			return err
		}
		if err := f.store.UpdateChainState(func(tx wallet.UpdateTx) error { return f.w.UpdateChainState(tx, rus, aus) }); err != nil {
			return err
		}
	}
	return fmt.Errorf("sync does not terminate")
}

var chunkSizes = []int{1, 2, 3, 5, 8, 1000}

func runHistory(name string, seed uint64, size int) []*vh.Case {
	rng := vh.NewRNG(seed)
	c := &vh.Case{Name: name}
	w := newWorld(rng)
	w.grow(6+rng.Intn(size), 2+rng.Intn(4), 3+rng.Intn(size/2+1), 3)
	t := w.t
	nd := w.net.MustNode()
	fs := make([]*follower, len(chunkSizes))
	for i, ch := range chunkSizes {
		fs[i] = newFollower(w.W.sk, nd.CM, ch)
		fs[i].tie = newTie(fmt.Sprintf("%s-chunk%d", name, ch), w.W.addr)
		fs[i].rng = rng.Fork()
		if ch == 2 || ch == 1000 {
			fs[i].shadows = []*follower{newFollower(w.W.sk, nd.CM, ch), newFollower(w.O.sk, nd.CM, ch)}
			defer fs[i].shadows[0].w.Close()
			defer fs[i].shadows[1].w.Close()
		}
		defer fs[i].w.Close()
	}
	refs := []*refFollower{newRefFollower(w.W.sk, nd.CM, false), newRefFollower(w.W.sk, nd.CM, true)}
	refCase := &vh.Case{Name: name + "-refstore"}
	defer refs[0].w.Close()
	defer refs[1].w.Close()
	truths := map[int]*truth{}
	check := func(f *follower, when string) {
		tipIdx, ok := t.Lookup(nd.CM.Tip().ID)
		if !ok {
			panic("node tip is not a tree block")
		}
		tr := truths[tipIdx]
		if tr == nil {
			var err error
			if tr, err = truthOf(t, tipIdx, w.W.addr); err != nil {
				panic(err)
			}
			truths[tipIdx] = tr
		}
		for _, d := range compare(tr, f.store.snapshot(), f.w, nd.CM.TipState()) {
			c.Oracle(d.class, "[chunk %d, %s, tip %d] %s", f.chunk, when, tipIdx, d.msg)
			f.tie.c.Oracle(d.class, "[%s, tip %d] %s", when, tipIdx, d.msg)
		}
	}
	truthAtTip := func() (*truth, int) {
		tipIdx, ok := t.Lookup(nd.CM.Tip().ID)
		if !ok {
			panic("node tip is not a tree block")
		}
		tr := truths[tipIdx]
		if tr == nil {
			var err error
			if tr, err = truthOf(t, tipIdx, w.W.addr); err != nil {
				panic(err)
			}
			truths[tipIdx] = tr
		}
		return tr, tipIdx
	}
	// syncRef brings a reference-store wallet to the tip and applies the same oracles to it
	syncRef := func(f *refFollower, when string) {
		if f.dead {
			return
		}
		kind := "eager"
		if f.lazy {
			kind = "lazy"
		}
		if err := f.sync(nd.CM); err != nil {
			refCase.Oracle("refstore-sync-error", "[%s, %s] %v", kind, when, err)
			return
		}
		sn, err := snapshotOf(f.store)
		if err != nil {
			refCase.Oracle("refstore-sync-error", "[%s, %s] reading the store: %v", kind, when, err)
			return
		}
		tr, tipIdx := truthAtTip()
		for _, d := range compare(tr, sn, f.w, nd.CM.TipState()) {
			refCase.Oracle("refstore-"+d.class, "[%s, %s, tip %d] %s", kind, when, tipIdx, d.msg)
		}
	}
	// submit the leaves' paths, lighter branches first so that later ones cause reorgs
	leaves := t.Leaves()
	sort.SliceStable(leaves, func(i, j int) bool { return t.Blocks[leaves[i]].Work.Cmp(t.Blocks[leaves[j]].Work) < 0 })
	if rng.Chance(1, 4) {
		p := rng.Perm(len(leaves))
		sh := make([]int, len(leaves))
		for i, j := range p {
			sh[i] = leaves[j]
		}
		leaves = sh
	}
	reorgs := 0
	nd.CM.OnReorg(func(types.ChainIndex) { reorgs++ })
	// the submission schedule: branch after branch, or the branches interleaved a few blocks at a
	// time (the node then flips back and forth between branches: A -> B -> extension of A ...)
	var batches [][]int
	paths := make([][]int, len(leaves))
	for i, leaf := range leaves {
		paths[i] = t.PathFromRoot(leaf)
	}
	if interleave := rng.Chance(1, 2); interleave {
		cur := make([]int, len(paths))
		for {
			var open []int
			for i := range paths {
				if cur[i] < len(paths[i]) {
					open = append(open, i)
				}
			}
			if len(open) == 0 {
				break
			}
			i := open[rng.Intn(len(open))]
			n := min(1+rng.Intn(3), len(paths[i])-cur[i])
			batches = append(batches, paths[i][cur[i]:cur[i]+n])
			cur[i] += n
		}
	} else {
		for _, path := range paths {
			for k := 0; k < len(path); {
				n := min(1+rng.Intn(4), len(path)-k)
				batches = append(batches, path[k:k+n])
				k += n
			}
		}
	}
	{
		for _, batch := range batches {
			nd.CM.AddBlocks(t.Get(batch)) // an error only means the batch held known or lighter blocks
			syncRef(refs[0], "mid-history")
			if rng.Chance(1, 6) {
				syncRef(refs[1], "mid-history")
			}
			// every follower advances by a random number of chunks: sometimes not at all, sometimes
			// part of the way (possibly stopping right after a revert), sometimes to the tip
			for _, f := range fs {
				switch rng.Intn(4) {
				case 0:
				case 1, 2:
					for s := 1 + rng.Intn(3); s > 0; s-- {
						if _, err := f.step(nd.CM); err != nil {
							c.Oracle("sync-error", "chunk %d: %v", f.chunk, err)
						}
					}
				default:
					if err := f.syncFully(nd.CM); err != nil {
						c.Oracle("sync-error", "chunk %d: %v", f.chunk, err)
					}
				}
				if tip, _ := f.store.Tip(); !f.dead && tip == nd.CM.Tip() && rng.Chance(1, 3) {
					check(f, "mid-history")
				}
			}
		}
	}
	syncRef(refs[0], "end")
	syncRef(refs[1], "end")
	ended := 0
	for _, f := range fs {
		if err := f.syncFully(nd.CM); err != nil {
			c.Oracle("sync-error", "chunk %d: %v", f.chunk, err)
		}
		if !f.dead {
			check(f, "end")
		}
		ended += f.endedOnRevert
	}
	var kinds []string
	for k, n := range w.kinds {
		kinds = append(kinds, fmt.Sprintf("%s=%d", k, n))
	}
	sort.Strings(kinds)
	var bad []string
	for k, n := range w.bad {
		bad = append(bad, fmt.Sprintf("%s=%d", k, n))
	}
	sort.Strings(bad)
	c.Nontrivial = reorgs > 1 && len(w.kinds) > 2
	c.Key = fmt.Sprint(seed)
	c.Info = map[string]any{"seed": seed, "blocks": len(t.Blocks), "reorgs": reorgs, "kinds": strings.Join(kinds, " "), "generator_rejected": strings.Join(bad, " | "),
		"chunks_ending_on_revert": ended, "foundation_is_wallet": w.net.N.HardforkFoundation.PrimaryAddress == w.W.addr,
		"v2": fmt.Sprintf("allow %d require %d", w.net.N.HardforkV2.AllowHeight, w.net.N.HardforkV2.RequireHeight)}
	c.Tags = []string{fmt.Sprintf("reorgs:%d", min(reorgs, 9))}
	for k := range w.kinds {
		c.Tags = append(c.Tags, "kind:"+strings.SplitN(k, ":", 2)[0])
	}
	if ended > 0 {
		c.Tags = append(c.Tags, "chunk-ended-on-revert")
	}
	if len(bad) > 0 {
		c.Tags = append(c.Tags, "generator-rejected")
	}
	// the history as a whole is the oracle-only case; each follower is a model-tied case
	c.Fails = nil
	refCase.Nontrivial = c.Nontrivial
	refCase.Key = fmt.Sprintf("ref %d", seed)
	refCase.Tags = []string{"store:testutil.EphemeralWalletStore"}
	refCase.Info = map[string]any{"seed": seed, "history": name, "syncs_eager": refs[0].syncs, "syncs_lazy": refs[1].syncs}
	out := []*vh.Case{c, refCase}
	for _, f := range fs {
		f.tie.c.Nontrivial = c.Nontrivial
		f.tie.c.Tags = []string{fmt.Sprintf("chunk:%d", f.chunk)}
		if f.faults > 0 {
			f.tie.c.Tags = append(f.tie.c.Tags, "store-fault-injected")
		}
		f.tie.c.Info = map[string]any{"seed": seed, "history": name}
		out = append(out, f.tie.c)
	}
	return out
}

func parallel(n int, f func(i int) []*vh.Case) [][]*vh.Case {
	out := make([][]*vh.Case, n)
	var wg sync.WaitGroup
	sem := make(chan struct{}, runtime.NumCPU())
	for i := 0; i < n; i++ {
		wg.Add(1)
		sem <- struct{}{}
		go func(i int) {
			defer wg.Done()
			defer func() { <-sem }()
			out[i] = f(i)
		}(i)
	}
	wg.Wait()
	return out
}

func Run(r *vh.Run) {
	r.Rule = "each case is a fork tree of real blocks in which the wallet address is miner, payer, payee, siafund owner/claimant, v1/v2 contract party and (half of the cases) foundation address; a node is fed the branches so that it reorgs; six wallets over the harness's store follow it with chunk sizes 1,2,3,5,8,1000, advancing by random numbers of chunks, and two wallets over testutil.EphemeralWalletStore follow it with whole UpdatesSince answers (one after every batch, one rarely); non-trivial = more than one reorg and more than two transaction kinds; distinct by seed"
	rng := vh.NewRNG(vh.NewRNG(r.Seed).U64() ^ 0xC06C06C06)
	n := r.Pick(250, 4000)
	seeds := make([]uint64, n)
	for i := range seeds {
		seeds[i] = rng.U64()
	}
	for _, cs := range parallel(n, func(i int) []*vh.Case { return runHistory(fmt.Sprintf("hist%d", i), seeds[i], r.Pick(10, 16)) }) {
		for _, c := range cs {
			r.Add(c)
		}
	}
	r.Add(goldenCase())
	_ = chainx.AllKinds
}
