// Package c06: the wallet's ledger equals the chain's truth for its address across reorgs.
//
// Histories are fork trees of real blocks (chainx.Tree, every block mined on a linear twin of its
// own ancestry) in which the wallet address W takes part as miner, payer, payee, siafund owner /
// claimant, v1 and v2 contract party (valid, missed, renewed, expired payouts) and foundation
// address; a second party O supplies the other side.  A real node is fed the tree so that it
// reorgs; real SingleAddressWallets over the harness's own store follow it through
// Manager.UpdatesSince in every chunk size, also stopping in the middle (after a revert).
package c06

import (
	"fmt"
	"sort"
	"time"

	"go.sia.tech/core/consensus"
	"go.sia.tech/core/types"
	"verifharness/chainx"
	"verifharness/vh"
)

type party struct {
	sk   types.PrivateKey
	uc   types.UnlockConditions
	addr types.Address
	pol  types.SpendPolicy
}

func newParty(sk types.PrivateKey) party {
	uc := types.StandardUnlockConditions(sk.PublicKey())
	return party{sk: sk, uc: uc, addr: uc.UnlockHash(), pol: types.SpendPolicy{Type: types.PolicyTypeUnlockConditions(uc)}}
}

type world struct {
	rng   *vh.RNG
	net   *chainx.Net
	t     *chainx.Tree
	W, O  party
	kinds map[string]int // transaction kinds that made it into a block
	bad   map[string]int // kinds the twin rejected (generator shortcomings, reported in the evidence)
}

// builder assembles the transactions of one block on top of the state cs / ledger led.
type builder struct {
	w      *world
	cs     consensus.State
	led    *chainx.Ledger
	tw     *chainx.Node
	usedSC map[types.SiacoinOutputID]bool
	usedSF map[types.SiafundOutputID]bool
	usedFC map[types.FileContractID]bool
	v1     []types.Transaction
	v2     []types.V2Transaction
	kinds  []string
}

func (b *builder) child() uint64 { return b.cs.Index.Height + 1 }
func (b *builder) v1ok() bool    { return b.child() < b.w.net.N.HardforkV2.RequireHeight }
func (b *builder) v2ok() bool    { return b.child() >= b.w.net.N.HardforkV2.AllowHeight }

// coin takes a mature unspent siacoin element of p worth at least min.
func (b *builder) coin(p party, min types.Currency) (types.SiacoinElement, bool) {
	var cands []types.SiacoinElement
	for _, e := range b.led.SC {
		if e.SiacoinOutput.Address == p.addr && e.MaturityHeight <= b.child() && !b.usedSC[e.ID] && e.SiacoinOutput.Value.Cmp(min) >= 0 {
			cands = append(cands, e)
		}
	}
	if len(cands) == 0 {
		return types.SiacoinElement{}, false
	}
	sort.Slice(cands, func(i, j int) bool { return cands[i].StateElement.LeafIndex < cands[j].StateElement.LeafIndex })
	e := cands[b.w.rng.Intn(len(cands))]
	b.usedSC[e.ID] = true
	return e.Copy(), true
}

func (b *builder) fund(p party) (types.SiafundElement, bool) {
	var cands []types.SiafundElement
	for _, e := range b.led.SF {
		if e.SiafundOutput.Address == p.addr && !b.usedSF[e.ID] && e.SiafundOutput.Value > 0 {
			cands = append(cands, e)
		}
	}
	if len(cands) == 0 {
		return types.SiafundElement{}, false
	}
	sort.Slice(cands, func(i, j int) bool { return cands[i].StateElement.LeafIndex < cands[j].StateElement.LeafIndex })
	e := cands[b.w.rng.Intn(len(cands))]
	b.usedSF[e.ID] = true
	return e.Copy(), true
}

func signV1(cs consensus.State, txn *types.Transaction, p party) {
	add := func(id types.Hash256) {
		sig := types.TransactionSignature{ParentID: id, CoveredFields: types.CoveredFields{WholeTransaction: true}}
		txn.Signatures = append(txn.Signatures, sig)
	}
	for _, in := range txn.SiacoinInputs {
		add(types.Hash256(in.ParentID))
	}
	for _, in := range txn.SiafundInputs {
		add(types.Hash256(in.ParentID))
	}
	for i := range txn.Signatures {
		s := p.sk.SignHash(cs.WholeSigHash(*txn, txn.Signatures[i].ParentID, 0, 0, nil))
		txn.Signatures[i].Signature = s[:]
	}
}

func signV2(cs consensus.State, txn *types.V2Transaction, p party) {
	sig := p.sk.SignHash(cs.InputSigHash(*txn))
	sp := types.SatisfiedPolicy{Policy: p.pol, Signatures: []types.Signature{sig}}
	for i := range txn.SiacoinInputs {
		txn.SiacoinInputs[i].SatisfiedPolicy = sp
	}
	for i := range txn.SiafundInputs {
		txn.SiafundInputs[i].SatisfiedPolicy = sp
	}
}

var fee = types.Siacoins(1).Div64(10)

func sc(n uint32) types.Currency { return types.Siacoins(n) }

func (b *builder) other(p party) party {
	if p.addr == b.w.W.addr {
		return b.w.O
	}
	return b.w.W
}

func (b *builder) pick() party {
	if b.w.rng.Bool() {
		return b.w.W
	}
	return b.w.O
}

// split divides v into a part for W and a part for O (either may be zero).
func (b *builder) split(v types.Currency) (types.Currency, types.Currency) {
	switch b.w.rng.Intn(4) {
	case 0:
		return v, types.ZeroCurrency
	case 1:
		return types.ZeroCurrency, v
	}
	x := v.Div64(10).Mul64(uint64(1 + b.w.rng.Intn(9)))
	return x, v.Sub(x)
}

func outs(W, O party, x, y types.Currency) (o []types.SiacoinOutput) {
	if !x.IsZero() {
		o = append(o, types.SiacoinOutput{Address: W.addr, Value: x})
	}
	if !y.IsZero() {
		o = append(o, types.SiacoinOutput{Address: O.addr, Value: y})
	}
	return
}

// add appends the transactions of one kind; false = not possible in this state.
func (b *builder) add(kind string) bool {
	w, cs, rng := b.w, b.cs, b.w.rng
	W, O := w.W, w.O
	switch kind {
	case "v1pay", "v2pay": // a payment from W or O to W and/or O
		from := b.pick()
		c, ok := b.coin(from, sc(2))
		if !ok {
			return false
		}
		x, y := b.split(c.SiacoinOutput.Value.Sub(fee))
		if kind == "v1pay" {
			if !b.v1ok() {
				return false
			}
			txn := types.Transaction{SiacoinInputs: []types.SiacoinInput{{ParentID: c.ID, UnlockConditions: from.uc}}, SiacoinOutputs: outs(W, O, x, y), MinerFees: []types.Currency{fee}}
			signV1(cs, &txn, from)
			b.v1 = append(b.v1, txn)
		} else {
			if !b.v2ok() {
				return false
			}
			txn := types.V2Transaction{SiacoinInputs: []types.V2SiacoinInput{{Parent: c}}, SiacoinOutputs: outs(W, O, x, y), MinerFee: fee}
			signV2(cs, &txn, from)
			b.v2 = append(b.v2, txn)
		}
	case "v1eph", "v2eph": // parent and child in one block: the parent's output to `mid` never reaches the ledger
		from, mid := b.pick(), b.pick()
		c, ok := b.coin(from, sc(3))
		if !ok {
			return false
		}
		v1 := c.SiacoinOutput.Value.Sub(fee)
		x, y := b.split(v1.Sub(fee))
		if kind == "v1eph" {
			if !b.v1ok() {
				return false
			}
			p := types.Transaction{SiacoinInputs: []types.SiacoinInput{{ParentID: c.ID, UnlockConditions: from.uc}}, SiacoinOutputs: []types.SiacoinOutput{{Address: mid.addr, Value: v1}}, MinerFees: []types.Currency{fee}}
			signV1(cs, &p, from)
			ch := types.Transaction{SiacoinInputs: []types.SiacoinInput{{ParentID: p.SiacoinOutputID(0), UnlockConditions: mid.uc}}, SiacoinOutputs: outs(W, O, x, y), MinerFees: []types.Currency{fee}}
			signV1(cs, &ch, mid)
			b.v1 = append(b.v1, p, ch)
		} else {
			if !b.v2ok() {
				return false
			}
			p := types.V2Transaction{SiacoinInputs: []types.V2SiacoinInput{{Parent: c}}, SiacoinOutputs: []types.SiacoinOutput{{Address: mid.addr, Value: v1}}, MinerFee: fee}
			signV2(cs, &p, from)
			ch := types.V2Transaction{SiacoinInputs: []types.V2SiacoinInput{{Parent: p.EphemeralSiacoinOutput(0)}}, SiacoinOutputs: outs(W, O, x, y), MinerFee: fee}
			signV2(cs, &ch, mid)
			b.v2 = append(b.v2, p, ch)
		}
	case "v1sf", "v2sf": // a siafund spend: owner and claim address chosen independently, with or without a siacoin side
		owner, claim := b.pick(), b.pick()
		f, ok := b.fund(owner)
		if !ok {
			owner = b.other(owner)
			if f, ok = b.fund(owner); !ok {
				return false
			}
		}
		// the siafunds themselves go to W, to O, or are split (a claim can be paid to an address that
		// neither owned nor receives the siafunds)
		toW := f.SiafundOutput.Value / 2
		switch rng.Intn(4) {
		case 0:
			toW = f.SiafundOutput.Value
		case 1:
			toW = 0
		}
		var sfo []types.SiafundOutput
		if toW > 0 {
			sfo = append(sfo, types.SiafundOutput{Address: W.addr, Value: toW})
		}
		if f.SiafundOutput.Value-toW > 0 {
			sfo = append(sfo, types.SiafundOutput{Address: O.addr, Value: f.SiafundOutput.Value - toW})
		}
		coinSide := rng.Bool()
		var c types.SiacoinElement
		if coinSide {
			if c, coinSide = b.coin(owner, sc(2)); !coinSide {
				coinSide = false
			}
		}
		if kind == "v1sf" {
			if !b.v1ok() {
				return false
			}
			txn := types.Transaction{SiafundInputs: []types.SiafundInput{{ParentID: f.ID, UnlockConditions: owner.uc, ClaimAddress: claim.addr}}, SiafundOutputs: sfo}
			if coinSide {
				txn.SiacoinInputs = []types.SiacoinInput{{ParentID: c.ID, UnlockConditions: owner.uc}}
				txn.SiacoinOutputs = []types.SiacoinOutput{{Address: owner.addr, Value: c.SiacoinOutput.Value.Sub(fee)}}
				txn.MinerFees = []types.Currency{fee}
			}
			signV1(cs, &txn, owner)
			b.v1 = append(b.v1, txn)
		} else {
			if !b.v2ok() {
				return false
			}
			txn := types.V2Transaction{SiafundInputs: []types.V2SiafundInput{{Parent: f, ClaimAddress: claim.addr}}, SiafundOutputs: sfo}
			if coinSide {
				txn.SiacoinInputs = []types.V2SiacoinInput{{Parent: c}}
				txn.SiacoinOutputs = []types.SiacoinOutput{{Address: owner.addr, Value: c.SiacoinOutput.Value.Sub(fee)}}
				txn.MinerFee = fee
			}
			signV2(cs, &txn, owner)
			b.v2 = append(b.v2, txn)
		}
		kind = fmt.Sprintf("%s:own=%v,claim=%v,coins=%v", kind, owner.addr == W.addr, claim.addr == W.addr, coinSide)
	case "v1form": // a v1 contract whose valid and missed payouts go to W and O
		if !b.v1ok() {
			return false
		}
		from := b.pick()
		c, ok := b.coin(from, sc(200))
		if !ok {
			return false
		}
		// one to three contracts with the same proof window (their missed payouts are created by one
		// block, in the order of the store's expiration list)
		nfc := []int{1, 1, 2, 3}[rng.Intn(4)]
		ws := b.child() + uint64(1+rng.Intn(3))
		we := ws + uint64(1+rng.Intn(3))
		txn := types.Transaction{SiacoinInputs: []types.SiacoinInput{{ParentID: c.ID, UnlockConditions: from.uc}}, MinerFees: []types.Currency{fee}}
		var total types.Currency
		for i := 0; i < nfc; i++ {
			payout := sc(uint32(20 + rng.Intn(40)))
			fc := types.FileContract{WindowStart: ws, WindowEnd: we, Payout: payout, UnlockHash: from.addr, RevisionNumber: uint64(i)}
			net := payout.Sub(cs.FileContractTax(fc))
			vx, vy := b.split(net)
			fc.ValidProofOutputs = outs(W, O, vx, vy)
			burn := net.Div64(10)
			mx, my := b.split(net.Sub(burn))
			fc.MissedProofOutputs = append(outs(W, O, mx, my), types.SiacoinOutput{Address: types.VoidAddress, Value: burn})
			txn.FileContracts = append(txn.FileContracts, fc)
			total = total.Add(payout)
		}
		txn.SiacoinOutputs = []types.SiacoinOutput{{Address: from.addr, Value: c.SiacoinOutput.Value.Sub(total).Sub(fee)}}
		signV1(cs, &txn, from)
		b.v1 = append(b.v1, txn)
	case "v1proof": // a storage proof for an empty file: the valid outputs are paid
		if !b.v1ok() {
			return false
		}
		for id, e := range b.led.FC {
			if !b.usedFC[id] && e.FileContract.WindowStart < b.child() && b.child() < e.FileContract.WindowEnd {
				b.usedFC[id] = true
				b.v1 = append(b.v1, types.Transaction{StorageProofs: []types.StorageProof{{ParentID: id}}})
				b.kinds = append(b.kinds, kind)
				return true
			}
		}
		return false
	case "v2form":
		if !b.v2ok() {
			return false
		}
		from := b.pick()
		c, ok := b.coin(from, sc(200))
		if !ok {
			return false
		}
		renter, host := b.pick(), b.pick()
		rv, hv := sc(uint32(10+rng.Intn(40))), sc(uint32(rng.Intn(40)))
		fc := types.V2FileContract{
			RenterOutput: types.SiacoinOutput{Address: b.pick().addr, Value: rv}, HostOutput: types.SiacoinOutput{Address: b.pick().addr, Value: hv},
			MissedHostValue: hv.Div64(2), TotalCollateral: hv.Div64(2),
			ProofHeight: b.child() + uint64(2+rng.Intn(3)), RenterPublicKey: renter.sk.PublicKey(), HostPublicKey: host.sk.PublicKey(),
		}
		fc.ExpirationHeight = fc.ProofHeight + uint64(1+rng.Intn(3))
		h := cs.ContractSigHash(fc)
		fc.RenterSignature, fc.HostSignature = renter.sk.SignHash(h), host.sk.SignHash(h)
		cost := rv.Add(hv).Add(cs.V2FileContractTax(fc))
		txn := types.V2Transaction{SiacoinInputs: []types.V2SiacoinInput{{Parent: c}},
			SiacoinOutputs: []types.SiacoinOutput{{Address: from.addr, Value: c.SiacoinOutput.Value.Sub(cost).Sub(fee)}},
			FileContracts:  []types.V2FileContract{fc}, MinerFee: fee}
		signV2(cs, &txn, from)
		b.v2 = append(b.v2, txn)
	case "v2expire", "v2proof", "v2renew":
		if !b.v2ok() {
			return false
		}
		ids := make([]types.FileContractID, 0, len(b.led.V2FC))
		for id := range b.led.V2FC {
			ids = append(ids, id)
		}
		sort.Slice(ids, func(i, j int) bool { return b.led.V2FC[ids[i]].StateElement.LeafIndex < b.led.V2FC[ids[j]].StateElement.LeafIndex })
		for _, id := range ids {
			e := b.led.V2FC[id]
			fc := e.V2FileContract
			if b.usedFC[id] {
				continue
			}
			var res types.V2FileContractResolutionType
			var extra []types.V2Transaction
			var in []types.V2SiacoinInput
			var payer party
			switch kind {
			case "v2expire":
				if b.child() <= fc.ExpirationHeight {
					continue
				}
				res = &types.V2FileContractExpiration{}
			case "v2proof":
				if b.child() <= fc.ProofHeight || b.child() > fc.ExpirationHeight {
					continue
				}
				idx, ok := b.tw.CM.BestIndex(fc.ProofHeight)
				if !ok {
					continue
				}
				cie, ok := b.led.CIE[idx.ID]
				if !ok {
					continue
				}
				res = &types.V2StorageProof{ProofIndex: cie.Copy()}
			case "v2renew":
				if b.child() >= fc.ProofHeight {
					continue
				}
				renter, host, ok := w.partyOf(fc.RenterPublicKey), w.partyOf(fc.HostPublicKey), true
				total := fc.RenterOutput.Value.Add(fc.HostOutput.Value)
				fr, fh := b.split(total) // the final payouts need not go to the contract's own addresses
				r := types.V2FileContractRenewal{
					FinalRenterOutput: types.SiacoinOutput{Address: b.pick().addr, Value: fr}, FinalHostOutput: types.SiacoinOutput{Address: b.pick().addr, Value: fh},
					NewContract: types.V2FileContract{RenterOutput: types.SiacoinOutput{Address: b.pick().addr, Value: sc(uint32(5 + rng.Intn(20)))},
						HostOutput:  types.SiacoinOutput{Address: b.pick().addr, Value: types.ZeroCurrency},
						ProofHeight: fc.ProofHeight + 4, ExpirationHeight: fc.ExpirationHeight + 5, RenterPublicKey: fc.RenterPublicKey, HostPublicKey: fc.HostPublicKey},
				}
				if rng.Chance(1, 2) { // mostly the usual case: same addresses as the contract
					r.FinalRenterOutput.Address, r.FinalHostOutput.Address = fc.RenterOutput.Address, fc.HostOutput.Address
				}
				hc := cs.ContractSigHash(r.NewContract)
				r.NewContract.RenterSignature, r.NewContract.HostSignature = renter.sk.SignHash(hc), host.sk.SignHash(hc)
				hr := cs.RenewalSigHash(r)
				r.RenterSignature, r.HostSignature = renter.sk.SignHash(hr), host.sk.SignHash(hr)
				cost := r.NewContract.RenterOutput.Value.Add(r.NewContract.HostOutput.Value).Add(cs.V2FileContractTax(r.NewContract))
				payer = b.pick()
				c, okc := b.coin(payer, cost.Add(sc(2)))
				if !okc {
					payer = b.other(payer)
					if c, okc = b.coin(payer, cost.Add(sc(2))); !okc {
						ok = false
					}
				}
				if !ok {
					continue
				}
				// a renewal cannot carry a change output: a setup transaction makes the exact amount
				setup := types.V2Transaction{SiacoinInputs: []types.V2SiacoinInput{{Parent: c}},
					SiacoinOutputs: []types.SiacoinOutput{{Address: payer.addr, Value: cost}, {Address: payer.addr, Value: c.SiacoinOutput.Value.Sub(cost).Sub(fee)}}, MinerFee: fee}
				signV2(cs, &setup, payer)
				extra = append(extra, setup)
				in = []types.V2SiacoinInput{{Parent: setup.EphemeralSiacoinOutput(0)}}
				res = &r
			}
			b.usedFC[id] = true
			txn := types.V2Transaction{SiacoinInputs: in, FileContractResolutions: []types.V2FileContractResolution{{Parent: e.Copy(), Resolution: res}}}
			if len(in) > 0 {
				signV2(cs, &txn, payer)
			}
			b.v2 = append(append(b.v2, extra...), txn)
			b.kinds = append(b.kinds, kind)
			return true
		}
		return false
	case "foundation": // a v2 transaction of the management address moves the foundation (subsidy) address
		if !b.v2ok() {
			return false
		}
		var mgmt party
		switch cs.FoundationManagementAddress {
		case W.addr:
			mgmt = W
		case O.addr:
			mgmt = O
		default:
			return false
		}
		c, ok := b.coin(mgmt, sc(2))
		if !ok {
			return false
		}
		to := []types.Address{W.addr, O.addr, W.addr, O.addr, types.StandardUnlockHash(types.PublicKey{7})}[rng.Intn(5)]
		txn := types.V2Transaction{SiacoinInputs: []types.V2SiacoinInput{{Parent: c}},
			SiacoinOutputs: []types.SiacoinOutput{{Address: mgmt.addr, Value: c.SiacoinOutput.Value.Sub(fee)}}, MinerFee: fee, NewFoundationAddress: &to}
		signV2(cs, &txn, mgmt)
		b.v2 = append(b.v2, txn)
		if b.child() == w.net.N.HardforkFoundation.Height {
			kind = fmt.Sprintf("foundation-in-subsidy-block:from-wallet=%v,to-wallet=%v", cs.FoundationSubsidyAddress == W.addr, to == W.addr)
		}
	default:
		panic("unknown kind " + kind)
	}
	b.kinds = append(b.kinds, kind)
	return true
}

func (w *world) partyOf(pk types.PublicKey) party {
	if pk == w.W.sk.PublicKey() {
		return w.W
	}
	return w.O
}

var allKinds = []string{"v1pay", "v2pay", "v1eph", "v2eph", "v1sf", "v2sf", "v1form", "v1proof", "v2form", "v2expire", "v2proof", "v2renew", "foundation"}

// assemble builds a block with a valid commitment and proof of work on the state cs.
func assemble(cs consensus.State, ts time.Time, miner types.Address, v1 []types.Transaction, v2 []types.V2Transaction, salt uint64) types.Block {
	b := types.Block{ParentID: cs.Index.ID, Timestamp: ts, MinerPayouts: []types.SiacoinOutput{{Address: miner, Value: cs.BlockReward()}}, Transactions: v1}
	for _, txn := range v1 {
		b.MinerPayouts[0].Value = b.MinerPayouts[0].Value.Add(txn.TotalFees())
	}
	child := cs.Index.Height + 1
	if child >= cs.Network.HardforkV2.AllowHeight {
		var arb [12]byte
		for i := 0; i < 8; i++ {
			arb[i] = byte(salt >> (8 * i))
		}
		b.V2 = &types.V2BlockData{Height: child, Transactions: append([]types.V2Transaction{{ArbitraryData: arb[:]}}, v2...)}
		for _, txn := range v2 {
			b.MinerPayouts[0].Value = b.MinerPayouts[0].Value.Add(txn.MinerFee)
		}
		b.V2.Commitment = cs.Commitment(miner, b.Transactions, b.V2Transactions())
	}
	chainx.FindNonce(cs, &b)
	return b
}

// mineOn adds one block on top of tree block parent with up to n transaction kinds.
func (w *world) mineOn(parent int, n int) int {
	tw := w.t.Twin(parent)
	cs := tw.CM.TipState()
	led := chainx.LedgerOf(tw)
	b := &builder{w: w, cs: cs, led: led, tw: tw, usedSC: map[types.SiacoinOutputID]bool{}, usedSF: map[types.SiafundOutputID]bool{}, usedFC: map[types.FileContractID]bool{}}
	// the block that pays the (initial) foundation subsidy: the subsidy goes to the address of the
	// parent state, also when a transaction of the very same block moves the address
	if b.child() == w.net.N.HardforkFoundation.Height && w.rng.Chance(2, 3) {
		b.add("foundation")
	}
	// resolutions are possible only in a few blocks of a contract's life: try them first
	for _, k := range []string{"v1proof", "v2proof", "v2expire", "v2renew"} {
		if w.rng.Chance(1, 2) {
			b.add(k)
		}
	}
	for i := 0; i < n; i++ {
		b.add(allKinds[w.rng.Intn(len(allKinds))])
	}
	miner := w.W.addr
	if w.rng.Chance(1, 2) {
		miner = w.O.addr
	}
	ts := w.t.Blocks[parent].Block.Timestamp.Add(time.Duration(8+w.rng.Intn(5)) * time.Second)
	blk := assemble(cs, ts, miner, b.v1, b.v2, w.rng.U64())
	if err := tw.CM.AddBlocks([]types.Block{blk}); err != nil {
		// a generator shortcoming: record which kinds were involved and fall back to an empty block
		for _, k := range b.kinds {
			w.bad[k]++
		}
		w.bad["err:"+err.Error()]++
		blk = assemble(cs, ts, miner, nil, nil, w.rng.U64())
	} else {
		for _, k := range b.kinds {
			w.kinds[k]++
		}
	}
	return w.t.AddExternal(parent, blk)
}

// newWorld makes a network in which W owns the genesis siafunds and coins, O gets a share early,
// and (half of the time) W is the foundation address.
func newWorld(rng *vh.RNG) *world {
	allow := []uint64{1, 3, 6, 1000}[rng.Intn(4)]
	require := allow + uint64(4+rng.Intn(8))
	if allow == 1000 {
		require = 2000
	}
	if allow == 1 && rng.Chance(1, 3) {
		require = 1
	}
	net := chainx.NewNet(rng, allow, require, uint64(1+rng.Intn(3)))
	w := &world{rng: rng, net: net, W: newParty(net.SK), O: newParty(net.SK2), kinds: map[string]int{}, bad: map[string]int{}}
	net.N.HardforkFoundation.Height = uint64(1 + rng.Intn(6)) // the block that pays the initial subsidy
	if net.N.HardforkFoundation.Height > allow || rng.Chance(1, 2) {
		// (v2 may not precede the foundation hardfork) often both at the same height, so that the
		// subsidy block can carry a v2 transaction that moves the foundation address
		net.N.HardforkFoundation.Height = allow
	}
	// the wallet or the other party as subsidy (primary) and management (failsafe) address
	switch rng.Intn(4) {
	case 0, 1:
		net.N.HardforkFoundation.PrimaryAddress = w.W.addr
	case 2:
		net.N.HardforkFoundation.PrimaryAddress = w.O.addr
	}
	switch rng.Intn(3) {
	case 0, 1:
		net.N.HardforkFoundation.FailsafeAddress = w.W.addr // W owns the genesis coins: it can sign from block 1 on
	case 2:
		net.N.HardforkFoundation.FailsafeAddress = w.O.addr
	}
	w.t = chainx.NewTree(net)
	return w
}

// grow builds the fork tree: a main branch and forks off recent blocks.
func (w *world) grow(main, forks, maxBranch, perBlock int) {
	tip := 0
	for i := 0; i < main; i++ {
		tip = w.mineOn(tip, w.rng.Intn(perBlock+1))
	}
	for f := 0; f < forks; f++ {
		at := w.t.Blocks[1+w.rng.Intn(len(w.t.Blocks)-1)].ID
		if w.rng.Chance(2, 3) {
			// fork a few blocks below some leaf so that the reorg is short
			leaves := w.t.Leaves()
			at = leaves[w.rng.Intn(len(leaves))]
			for d := 1 + w.rng.Intn(4); d > 0 && at != 0; d-- {
				at = w.t.Blocks[at].Parent
			}
		}
		for n := 1 + w.rng.Intn(maxBranch); n > 0; n-- {
			at = w.mineOn(at, w.rng.Intn(perBlock+1))
		}
	}
}
