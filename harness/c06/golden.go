package c06

import (
	"bytes"
	_ "embed"
	"encoding/hex"
	"fmt"
	"strings"
	"time"

	"go.sia.tech/core/types"
	"go.sia.tech/coreutils/wallet"
	"verifharness/vh"
)

// The binary layout of a stored event (wallet.Event.EncodeTo / DecodeFrom) is what a wallet store
// that survives a restart or an upgrade holds: "the stored events are exactly the best chain's
// events" also means that a record written earlier still decodes to the event it was.  The file
// below holds, for one fixed event of every kind, the bytes the released encoder produced
// (generated once on the pinned tree); encoding must still give these bytes and decoding them must
// still give these events.
//
//go:embed golden_events.txt
var goldenEvents string

func fixedEvents() []wallet.Event {
	addr := types.Address{5, 5, 5}
	other := types.Address{6}
	sce := types.SiacoinElement{ID: types.SiacoinOutputID{2}, StateElement: types.StateElement{LeafIndex: 11, MerkleProof: []types.Hash256{{3}}},
		SiacoinOutput: types.SiacoinOutput{Address: addr, Value: types.Siacoins(7)}, MaturityHeight: 12}
	base := func(i byte, typ string, data wallet.EventData) wallet.Event {
		return wallet.Event{ID: types.Hash256{1, i}, Index: types.ChainIndex{Height: 7, ID: types.BlockID{9, i}}, Confirmations: 3, Type: typ, Data: data,
			MaturityHeight: 12, Timestamp: time.Unix(1700000000, 0), Relevant: []types.Address{addr}}
	}
	v1 := types.Transaction{
		SiacoinInputs:  []types.SiacoinInput{{ParentID: types.SiacoinOutputID{4}, UnlockConditions: types.StandardUnlockConditions(types.PublicKey{8})}},
		SiacoinOutputs: []types.SiacoinOutput{{Address: addr, Value: types.Siacoins(3)}, {Address: other, Value: types.Siacoins(1)}},
		MinerFees:      []types.Currency{types.Siacoins(1)},
	}
	v2 := types.V2Transaction{
		SiacoinInputs:  []types.V2SiacoinInput{{Parent: sce.Copy(), SatisfiedPolicy: types.SatisfiedPolicy{Policy: types.PolicyPublicKey(types.PublicKey{8})}}},
		SiacoinOutputs: []types.SiacoinOutput{{Address: addr, Value: types.Siacoins(2)}},
		MinerFee:       types.Siacoins(5),
	}
	fce := types.FileContractElement{ID: types.FileContractID{7}, StateElement: types.StateElement{LeafIndex: 4},
		FileContract: types.FileContract{Filesize: 1, WindowStart: 5, WindowEnd: 9, Payout: types.Siacoins(10),
			ValidProofOutputs: []types.SiacoinOutput{{Address: addr, Value: types.Siacoins(7)}}, MissedProofOutputs: []types.SiacoinOutput{{Address: addr, Value: types.Siacoins(7)}}}}
	v2fce := types.V2FileContractElement{ID: types.FileContractID{8}, StateElement: types.StateElement{LeafIndex: 6},
		V2FileContract: types.V2FileContract{RenterOutput: types.SiacoinOutput{Address: addr, Value: types.Siacoins(7)}, HostOutput: types.SiacoinOutput{Address: other, Value: types.Siacoins(1)},
			ProofHeight: 20, ExpirationHeight: 30}}
	return []wallet.Event{
		base(1, wallet.EventTypeMinerPayout, wallet.EventPayout{SiacoinElement: sce.Copy()}),
		base(2, wallet.EventTypeFoundationSubsidy, wallet.EventPayout{SiacoinElement: sce.Copy()}),
		base(3, wallet.EventTypeSiafundClaim, wallet.EventPayout{SiacoinElement: sce.Copy()}),
		base(4, wallet.EventTypeV1Transaction, wallet.EventV1Transaction{Transaction: v1, SpentSiacoinElements: []types.SiacoinElement{sce.Copy()}}),
		base(5, wallet.EventTypeV1ContractResolution, wallet.EventV1ContractResolution{Parent: fce, SiacoinElement: sce.Copy(), Missed: true}),
		base(6, wallet.EventTypeV2Transaction, wallet.EventV2Transaction(v2)),
		base(7, wallet.EventTypeV2ContractResolution, wallet.EventV2ContractResolution{
			Resolution: types.V2FileContractResolution{Parent: v2fce, Resolution: &types.V2FileContractExpiration{}}, SiacoinElement: sce.Copy(), Missed: true}),
	}
}

func encodeEvent(ev wallet.Event) string {
	var buf bytes.Buffer
	e := types.NewEncoder(&buf)
	ev.EncodeTo(e)
	e.Flush()
	return hex.EncodeToString(buf.Bytes())
}

// goldenLines renders the fixed events with the encoder of the tree under test.
func goldenLines() (out []string) {
	for _, ev := range fixedEvents() {
		out = append(out, ev.Type+" "+encodeEvent(ev))
	}
	return
}

// goldenCase: the stored-record layout oracle.
func goldenCase() *vh.Case {
	c := &vh.Case{Name: "event-record-layout", Nontrivial: true, Key: "event-record-layout", Tags: []string{"kind:golden-records"}}
	want := strings.Split(strings.TrimSpace(goldenEvents), "\n")
	evs := fixedEvents()
	got := goldenLines()
	if len(want) != len(got) {
		c.Oracle("event-record-layout", "golden file has %d records, %d event kinds", len(want), len(got))
		return c
	}
	for i, ev := range evs {
		if got[i] != want[i] {
			c.Oracle("event-record-layout", "%s event: Event.EncodeTo no longer produces the released record layout (a store written earlier would be read differently); first difference at byte %d", ev.Type, firstDiff(got[i], want[i])/2)
		}
		// a record written by the released code must decode to the event it was
		fields := strings.SplitN(want[i], " ", 2)
		raw, err := hex.DecodeString(fields[1])
		if err != nil {
			panic(err)
		}
		var back wallet.Event
		d := types.NewBufDecoder(raw)
		func() {
			defer func() {
				if r := recover(); r != nil {
					d.SetErr(fmt.Errorf("panic: %v", r))
				}
			}()
			back.DecodeFrom(d)
		}()
		if err := d.Err(); err != nil {
			c.Oracle("event-record-layout", "%s event: a released record no longer decodes: %v", ev.Type, err)
			continue
		}
		if back.ID != ev.ID || back.Index != ev.Index || back.Type != ev.Type || back.MaturityHeight != ev.MaturityHeight || back.Confirmations != ev.Confirmations ||
			!back.Timestamp.Equal(ev.Timestamp) || len(back.Relevant) != 1 || back.Relevant[0] != ev.Relevant[0] ||
			!back.SiacoinInflow().Equals(ev.SiacoinInflow()) || !back.SiacoinOutflow().Equals(ev.SiacoinOutflow()) {
			c.Oracle("event-record-layout", "%s event: a released record decodes to a different event (maturity height %d / confirmations %d / inflow %v, written as %d / %d / %v)",
				ev.Type, back.MaturityHeight, back.Confirmations, back.SiacoinInflow(), ev.MaturityHeight, ev.Confirmations, ev.SiacoinInflow())
		}
	}
	return c
}

func firstDiff(a, b string) int {
	for i := 0; i < len(a) && i < len(b); i++ {
		if a[i] != b[i] {
			return i
		}
	}
	return min(len(a), len(b))
}
