package c06

import (
	"fmt"
	"sort"

	"go.sia.tech/core/consensus"
	"go.sia.tech/core/types"
	"go.sia.tech/coreutils/chain"
	"go.sia.tech/coreutils/wallet"
	"verifharness/chainx"
)

// xevent is what the oracle expects the wallet to have recorded for one id.
type xevent struct {
	id       types.Hash256
	kind     string
	index    types.ChainIndex
	inflow   types.Currency
	outflow  types.Currency
	maturity uint64
	why      string // which rule produced it (for messages and classes)
}

// truth is the ground truth for the address on one best chain, folded from the apply updates of a
// linear twin that only ever saw that chain.
type truth struct {
	tip    types.ChainIndex
	utxos  map[types.SiacoinOutputID]types.SiacoinElement
	events map[types.Hash256]xevent
	order  []types.Hash256
	onBest map[types.ChainIndex]bool
	// per block: what it created for and spent from the address (ephemeral elements excluded)
	created map[types.ChainIndex]types.Currency
	spent   map[types.ChainIndex]types.Currency
}

// payoutKind names the consensus rule that created a siacoin element of the block, by its id.
func payoutKind(cau chain.ApplyUpdate, id types.SiacoinOutputID) (kind, why string) {
	b := cau.Block
	bid := b.ID()
	for i := range b.MinerPayouts {
		if bid.MinerOutputID(i) == id {
			return wallet.EventTypeMinerPayout, "miner payout"
		}
	}
	if bid.FoundationOutputID() == id {
		return wallet.EventTypeFoundationSubsidy, "foundation subsidy"
	}
	for _, txn := range b.Transactions {
		for _, in := range txn.SiafundInputs {
			if in.ParentID.ClaimOutputID() == id {
				return wallet.EventTypeSiafundClaim, fmt.Sprintf("v1 siafund claim (owner is wallet: ?, claim address is wallet: yes, siacoin side: %v)", len(txn.SiacoinInputs)+len(txn.SiacoinOutputs) > 0)
			}
		}
	}
	for _, txn := range b.V2Transactions() {
		for _, in := range txn.SiafundInputs {
			if types.SiafundOutputID(in.Parent.ID).V2ClaimOutputID() == id {
				return wallet.EventTypeSiafundClaim, fmt.Sprintf("v2 siafund claim (siacoin side: %v)", len(txn.SiacoinInputs)+len(txn.SiacoinOutputs) > 0)
			}
		}
	}
	for _, d := range cau.FileContractElementDiffs() {
		if !d.Resolved {
			continue
		}
		fc := d.FileContractElement
		for i := range fc.FileContract.ValidProofOutputs {
			if fc.ID.ValidOutputID(i) == id {
				return wallet.EventTypeV1ContractResolution, "v1 contract valid payout"
			}
		}
		for i := range fc.FileContract.MissedProofOutputs {
			if fc.ID.MissedOutputID(i) == id {
				return wallet.EventTypeV1ContractResolution, "v1 contract missed payout"
			}
		}
	}
	for _, d := range cau.V2FileContractElementDiffs() {
		if d.Resolution == nil {
			continue
		}
		what := "storage proof"
		switch d.Resolution.(type) {
		case *types.V2FileContractRenewal:
			what = "renewal"
		case *types.V2FileContractExpiration:
			what = "expiration"
		}
		if d.V2FileContractElement.ID.V2RenterOutputID() == id {
			return wallet.EventTypeV2ContractResolution, "v2 contract renter payout (" + what + ")"
		}
		if d.V2FileContractElement.ID.V2HostOutputID() == id {
			return wallet.EventTypeV2ContractResolution, "v2 contract host payout (" + what + ")"
		}
	}
	return "", ""
}

// truthOf folds the best chain ending in tree block tip.
func truthOf(t *chainx.Tree, tip int, addr types.Address) (*truth, error) {
	tw := t.Twin(tip)
	_, aus, err := tw.CM.UpdatesSince(types.ChainIndex{}, 1<<30)
	if err != nil {
		return nil, err
	}
	tr := &truth{tip: tw.CM.Tip(), utxos: map[types.SiacoinOutputID]types.SiacoinElement{}, events: map[types.Hash256]xevent{}, onBest: map[types.ChainIndex]bool{},
		created: map[types.ChainIndex]types.Currency{}, spent: map[types.ChainIndex]types.Currency{}}
	add := func(x xevent) {
		if x.inflow.Equals(x.outflow) {
			return // no net effect on the wallet: not an event
		}
		tr.events[x.id] = x
		tr.order = append(tr.order, x.id)
	}
	for _, cau := range aus {
		index := cau.State.Index
		tr.onBest[index] = true
		// element-level truth
		for id, e := range tr.utxos {
			cau.UpdateElementProof(&e.StateElement)
			tr.utxos[id] = e.Copy()
		}
		elems := map[types.SiacoinOutputID]types.SiacoinElement{}
		txnOutput := map[types.SiacoinOutputID]bool{}
		for _, d := range cau.SiacoinElementDiffs() {
			elems[d.SiacoinElement.ID] = d.SiacoinElement.Copy()
			if d.SiacoinElement.SiacoinOutput.Address != addr || (d.Created && d.Spent) {
				continue
			}
			if d.Created {
				tr.utxos[d.SiacoinElement.ID] = d.SiacoinElement.Copy()
				tr.created[index] = tr.created[index].Add(d.SiacoinElement.SiacoinOutput.Value)
			} else {
				delete(tr.utxos, d.SiacoinElement.ID)
				tr.spent[index] = tr.spent[index].Add(d.SiacoinElement.SiacoinOutput.Value)
			}
		}
		// transactions: what they pay to and take from the address
		for _, txn := range cau.Block.Transactions {
			var in, out types.Currency
			for i, o := range txn.SiacoinOutputs {
				txnOutput[txn.SiacoinOutputID(i)] = true
				if o.Address == addr {
					in = in.Add(o.Value)
				}
			}
			for _, si := range txn.SiacoinInputs {
				if e, ok := elems[si.ParentID]; ok && e.SiacoinOutput.Address == addr {
					out = out.Add(e.SiacoinOutput.Value)
				}
			}
			add(xevent{id: types.Hash256(txn.ID()), kind: wallet.EventTypeV1Transaction, index: index, inflow: in, outflow: out, maturity: index.Height, why: "v1 transaction"})
		}
		for _, txn := range cau.Block.V2Transactions() {
			var in, out types.Currency
			txid := txn.ID()
			for i, o := range txn.SiacoinOutputs {
				txnOutput[txn.SiacoinOutputID(txid, i)] = true
				if o.Address == addr {
					in = in.Add(o.Value)
				}
			}
			for _, si := range txn.SiacoinInputs {
				if si.Parent.SiacoinOutput.Address == addr {
					out = out.Add(si.Parent.SiacoinOutput.Value)
				}
			}
			add(xevent{id: types.Hash256(txid), kind: wallet.EventTypeV2Transaction, index: index, inflow: in, outflow: out, maturity: index.Height, why: "v2 transaction"})
		}
		// every other element the block creates for the address is a payout of some consensus rule
		for _, d := range cau.SiacoinElementDiffs() {
			e := d.SiacoinElement
			if !d.Created || txnOutput[e.ID] || e.SiacoinOutput.Address != addr {
				continue
			}
			kind, why := payoutKind(cau, e.ID)
			if kind == "" {
				return nil, fmt.Errorf("oracle cannot explain created element %v in block %v", e.ID, index)
			}
			add(xevent{id: types.Hash256(e.ID), kind: kind, index: index, inflow: e.SiacoinOutput.Value, maturity: e.MaturityHeight, why: why})
		}
	}
	return tr, nil
}

type diffLine struct {
	class string
	msg   string
}

// compare checks a synced store against the truth.
// snapshot is what a store holds, whichever store it is.
type snapshot struct {
	tip        types.ChainIndex
	utxos      map[types.SiacoinOutputID]types.SiacoinElement
	events     []wallet.Event
	complaints []string
}

func (s *ledgerStore) snapshot() *snapshot {
	s.mu.Lock()
	defer s.mu.Unlock()
	sn := &snapshot{tip: s.tip, utxos: map[types.SiacoinOutputID]types.SiacoinElement{}, events: append([]wallet.Event(nil), s.events...), complaints: append([]string(nil), s.complaints...)}
	for id, e := range s.utxos {
		sn.utxos[id] = e.Copy()
	}
	return sn
}

// snapshotOf reads any wallet.SingleAddressStore through its interface.
func snapshotOf(st wallet.SingleAddressStore) (*snapshot, error) {
	tip, utxos, err := st.UnspentSiacoinElements()
	if err != nil {
		return nil, err
	}
	sn := &snapshot{tip: tip, utxos: map[types.SiacoinOutputID]types.SiacoinElement{}}
	for _, e := range utxos {
		if _, dup := sn.utxos[e.ID]; dup {
			sn.complaints = append(sn.complaints, "UnspentSiacoinElements lists an output twice")
		}
		sn.utxos[e.ID] = e.Copy()
	}
	n, err := st.WalletEventCount()
	if err != nil {
		return nil, err
	}
	if sn.events, err = st.WalletEvents(0, int(n)+10); err != nil {
		return nil, err
	}
	if uint64(len(sn.events)) != n {
		sn.complaints = append(sn.complaints, fmt.Sprintf("WalletEventCount %d but WalletEvents returned %d", n, len(sn.events)))
	}
	return sn, nil
}

func compare(tr *truth, s *snapshot, w *wallet.SingleAddressWallet, cs consensus.State) (out []diffLine) {
	fail := func(class, f string, a ...any) { out = append(out, diffLine{class, fmt.Sprintf(f, a...)}) }
	bal, balErr := w.Balance()
	for _, c := range s.complaints {
		fail("store-protocol", "%s", c)
	}
	if s.tip != tr.tip {
		fail("tip", "store tip %v, chain tip %v", s.tip, tr.tip)
		return
	}
	// unspent outputs
	var sum types.Currency
	for id, e := range s.utxos {
		sum = sum.Add(e.SiacoinOutput.Value)
		x, ok := tr.utxos[id]
		if !ok {
			fail("utxo-extra", "the store holds output %v (%v) that is not an unspent output of the address on the best chain", id, e.SiacoinOutput.Value)
			continue
		}
		if !x.SiacoinOutput.Value.Equals(e.SiacoinOutput.Value) || x.SiacoinOutput.Address != e.SiacoinOutput.Address {
			fail("utxo-value", "output %v: stored %v, chain %v", id, e.SiacoinOutput.Value, x.SiacoinOutput.Value)
		}
		if x.MaturityHeight != e.MaturityHeight {
			fail("utxo-maturity", "output %v: stored maturity height %d, chain %d", id, e.MaturityHeight, x.MaturityHeight)
		}
		// (leaf indices are not compared with the twin: the order in which one block's expired v1
		// contracts pay out depends on the node's reorg history — the expiration-list finding of C02 —
		// so a node that reorged may number the elements of a block differently from a linear twin;
		// the stored proof must verify against the accumulator of the node the wallet follows)
		if err := cs.Elements.ValidateTransactionElements(types.V2Transaction{SiacoinInputs: []types.V2SiacoinInput{{Parent: e.Copy()}}}); err != nil {
			fail("utxo-proof", "the stored Merkle proof of output %v does not verify at the tip: %v", id, err)
		}
	}
	for id, x := range tr.utxos {
		if _, ok := s.utxos[id]; !ok {
			fail("utxo-missing", "unspent output %v (%v) of the address is not in the store", id, x.SiacoinOutput.Value)
		}
	}
	// events
	var inflow, outflow types.Currency
	seen := map[types.Hash256]bool{}
	for _, ev := range s.events {
		in, outv := ev.SiacoinInflow(), ev.SiacoinOutflow()
		inflow, outflow = inflow.Add(in), outflow.Add(outv)
		if seen[ev.ID] {
			fail("event-duplicate", "event %v is stored twice", ev.ID)
		}
		seen[ev.ID] = true
		if !tr.onBest[ev.Index] {
			fail("event-leftover", "event %v (%s) belongs to block %v which is not on the best chain", ev.ID, ev.Type, ev.Index)
			continue
		}
		x, ok := tr.events[ev.ID]
		if !ok {
			fail("event-unexpected:"+ev.Type, "event %v (%s, inflow %v, outflow %v) at %v has no counterpart on the chain: nothing was paid to or taken from the address", ev.ID, ev.Type, in, outv, ev.Index)
			continue
		}
		if x.kind != ev.Type || x.index != ev.Index {
			fail("event-kind", "event %v: stored %s at %v, expected %s at %v", ev.ID, ev.Type, ev.Index, x.kind, x.index)
		}
		if !x.inflow.Equals(in) || !x.outflow.Equals(outv) {
			fail("event-flows:"+ev.Type, "event %v (%s): stored inflow %v outflow %v, chain %v / %v", ev.ID, ev.Type, in, outv, x.inflow, x.outflow)
		}
		if x.maturity != ev.MaturityHeight {
			fail("event-maturity:"+ev.Type, "event %v (%s): stored maturity height %d, expected %d", ev.ID, ev.Type, ev.MaturityHeight, x.maturity)
		}
	}
	ids := append([]types.Hash256(nil), tr.order...)
	sort.Slice(ids, func(i, j int) bool { return tr.events[ids[i]].why < tr.events[ids[j]].why })
	for _, id := range ids {
		if x := tr.events[id]; !seen[id] {
			fail("event-missing:"+x.kind, "no event for %s %v at %v (inflow %v, outflow %v)", x.why, id, x.index, x.inflow, x.outflow)
		}
	}
	// per block: the events of a block account for what the block created for and spent from the address
	perIn, perOut := map[types.ChainIndex]types.Currency{}, map[types.ChainIndex]types.Currency{}
	for _, ev := range s.events {
		perIn[ev.Index] = perIn[ev.Index].Add(ev.SiacoinInflow())
		perOut[ev.Index] = perOut[ev.Index].Add(ev.SiacoinOutflow())
	}
	for index := range tr.onBest {
		if !perIn[index].Add(tr.spent[index]).Equals(perOut[index].Add(tr.created[index])) {
			fail("block-accounting", "block %v: event inflow %v + spent %v != event outflow %v + created %v", index, perIn[index], tr.spent[index], perOut[index], tr.created[index])
		}
	}
	// the balance equation
	if inflow.Cmp(outflow) < 0 || !inflow.Sub(outflow).Equals(sum) {
		fail("balance-equation", "sum of inflows %v - sum of outflows %v != sum of unspent outputs %v", inflow, outflow, sum)
	}
	if balErr == nil {
		if !bal.Confirmed.Add(bal.Immature).Equals(sum) {
			fail("balance-method", "Balance(): confirmed %v + immature %v != stored outputs %v", bal.Confirmed, bal.Immature, sum)
		}
	}
	return
}
