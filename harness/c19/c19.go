// Package c19: pruning removes only old block bodies and never breaks the node.
//
// The same fork trees and schedules as C01, interleaved with PruneBlocks at heights 0 / mid /
// tip / tip+1 / beyond, repeated prunes, forks above/at/below the pruned height and
// resubmission of pruned blocks.  Every observation (result, tip, best index, per-block
// Block/Header/State presence, MinReorgIndex, History) is compared with the Lean model (T) and
// with an unpruned real twin that received the same submissions (O).
package c19

import (
	"fmt"
	"strings"

	"go.sia.tech/core/types"
	"verifharness/c01"
	"verifharness/chainx"
	"verifharness/vh"
)

func init() { vh.Register("C19", Run) }

func recLine(t *chainx.Tree, nd *chainx.Node, id int) string {
	bid := t.Blocks[id].Block.ID()
	_, hdr := headerOf(nd, bid)
	_, body := nd.CM.Block(bid)
	_, state := nd.CM.State(bid)
	supp := false
	if body {
		// a supplement is stored iff UpdatesSince can produce the block's update; observed through
		// the store directly
		_, bs, _ := nd.Store.Block(bid)
		supp = bs != nil
	}
	f := func(b bool) int {
		if b {
			return 1
		}
		return 0
	}
	return fmt.Sprintf("hdr %d body %d supp %d state %d", f(hdr), f(body), f(supp), f(state))
}

func headerOf(nd *chainx.Node, id types.BlockID) (types.BlockHeader, bool) {
	return nd.Store.Header(id)
}

func idOf(t *chainx.Tree, id types.BlockID) int {
	i, ok := t.Lookup(id)
	if !ok {
		return -1
	}
	return i
}

func historyLine(t *chainx.Tree, nd *chainx.Node) string {
	h, err := nd.CM.History()
	if err != nil {
		return "err"
	}
	var parts []string
	for _, id := range h {
		if id == (types.BlockID{}) {
			break
		}
		parts = append(parts, fmt.Sprint(idOf(t, id)))
	}
	return strings.Join(parts, " ")
}

func onBest(t *chainx.Tree, nd *chainx.Node, id int) bool {
	b := t.Blocks[id]
	ci, ok := nd.CM.BestIndex(b.Height)
	return ok && ci.ID == b.Block.ID()
}

// RunTree runs one tree/schedule with prunes interleaved.
func RunTree(r *vh.Run, rng *vh.RNG, name string, t *chainx.Tree, sched [][]int) {
	nd := t.Net.MustNode() // pruned node
	if strings.HasSuffix(name, "/s0") || strings.HasPrefix(name, "directed/resubmit") {
		nd = t.Net.NewProbedNode() // atomicity probe on the manager's store (chainx.ProbeStore)
	}
	twin := t.Net.MustNode() // receives the same submissions, never pruned
	c := &vh.Case{Name: name, Model: "chain mgr"}
	for _, b := range t.Blocks[1:] {
		c.Op(b.DeclLine(), "ok")
	}
	pruned := map[int]bool{}
	// bodies that came back below a pruned gap through AddValidatedV2Blocks (see the island step)
	islandSet := map[int]bool{}
	prunes, resub, belowForks, restarts := 0, 0, 0, 0
	// restart: the process stops and the node is reopened from the same database (a new DBStore
	// and Manager); everything the property speaks about is in the store, so nothing may change
	restart := func() {
		if err := nd.Store.Flush(); err != nil {
			c.Oracle("flush-error", "%v", err)
			return
		}
		before := c01.Observe(t, nd, "ok")
		nd2, err := t.Net.NewNode(nd.DB)
		if err != nil {
			c.Oracle("reopen-error", "reopening the pruned node's database failed: %v", err)
			return
		}
		nd2.Reorgs = nd.Reorgs
		nd = nd2
		restarts++
		if after := c01.Observe(t, nd, "ok"); after != before {
			c.Oracle("restart-changed-chain", "before: %s; after reopening: %s", before, after)
		}
	}
	diverged := false // the twin can reorg below the pruned height; from then on only sanity is checked
	doPrune := func(h uint64) {
		tipH := nd.CM.Tip().Height
		// expectation from the property: exactly the best-chain bodies below the height are gone,
		// every other body is untouched
		had := map[int]bool{}
		want := map[int]bool{}
		for _, b := range t.Blocks {
			if b.Parent == chainx.OrphanParent {
				continue
			}
			_, had[b.ID] = nd.CM.Block(b.Block.ID())
		}
		for hh := uint64(0); hh < h && hh <= tipH; hh++ {
			ci, _ := nd.CM.BestIndex(hh)
			want[idOf(t, ci.ID)] = true
		}
		func() {
			defer func() {
				if rec := recover(); rec != nil {
					c.Oracle("prune-panic", "PruneBlocks(%d) panicked: %v", h, rec)
				}
			}()
			if nd.Probe != nil {
				nd.Probe.Every = 1
				nd.Probe.Writer("PruneBlocks", func() { nd.CM.PruneBlocks(h) })
				nd.Probe.Every = 5
			} else {
				nd.CM.PruneBlocks(h)
			}
		}()
		c01.AuditProbe(c, nd)
		// the node's other queries after the prune (cold caches: blocks were submitted since they
		// were last asked): an error or a poorer answer is fine, a panic is not
		for _, q := range []struct {
			name string
			fn   func()
		}{
			{"RecommendedFee", func() { nd.CM.RecommendedFee() }},
			{"PoolTransactions", func() { nd.CM.PoolTransactions(); nd.CM.V2PoolTransactions() }},
			{"History", func() { nd.CM.History() }},
			{"MinReorgIndex", func() { nd.CM.MinReorgIndex() }},
			{"TipState", func() { nd.CM.TipState() }},
			{"BlocksForHistory", func() { nd.CM.BlocksForHistory([]types.BlockID{t.Blocks[0].Block.ID()}, 10) }},
			{"Headers", func() { nd.CM.Headers(types.ChainIndex{ID: t.Blocks[0].Block.ID()}, 10) }},
			{"UpdatesSince", func() { nd.CM.UpdatesSince(nd.CM.Tip(), 10) }},
		} {
			func() {
				defer func() {
					if rec := recover(); rec != nil {
						c.Oracle("query-panic-after-prune:"+q.name, "%s panicked after PruneBlocks(%d) with the tip at height %d: %v", q.name, h, tipH, rec)
					}
				}()
				q.fn()
			}()
		}
		c.Op(fmt.Sprintf("prune %d", h), c01.Observe(t, nd, "ok"))
		prunes++
		for _, b := range t.Blocks {
			if b.Parent == chainx.OrphanParent {
				continue
			}
			_, body := nd.CM.Block(b.Block.ID())
			if want[b.ID] && body && islandSet[b.ID] {
				// KNOWN FINDING: PruneBlocks walks down from the height and stops at the first block
				// that has no body, so bodies that were re-stored below an already pruned stretch
				// (AddValidatedV2Blocks stores what it is given; AddBlocks does not) are never
				// reached by any later prune
				c.Oracle("prune-skips-bodies-below-a-gap", "PruneBlocks(%d) at tip height %d: body of best-chain block %d (height %d), re-stored through AddValidatedV2Blocks below a pruned stretch, is still stored", h, tipH, b.ID, b.Height)
				continue
			}
			if want[b.ID] && body {
				cls := "prune-leaves-body"
				if h > tipH+1 {
					cls = "prune-beyond-tip-is-noop"
				}
				c.Oracle(cls, "PruneBlocks(%d) at tip height %d: body of best-chain block %d (height %d) is still stored", h, tipH, b.ID, b.Height)
			}
			if !want[b.ID] && had[b.ID] && !body {
				c.Oracle("prune-removes-other-body", "PruneBlocks(%d): body of block %d (height %d, not a best-chain block below the height) is gone", h, b.ID, b.Height)
			}
			if want[b.ID] {
				pruned[b.ID] = true
			}
		}
	}
	observeAll := func() {
		for _, b := range t.Blocks[1:] {
			if b.Parent == chainx.OrphanParent {
				continue
			}
			c.Op(fmt.Sprintf("rec %d", b.ID), recLine(t, nd, b.ID))
		}
		c.Op("minreorg", fmt.Sprint(idOf(t, nd.CM.MinReorgIndex().ID)))
		if mi := nd.CM.MinReorgIndex(); true {
			if bi, ok := nd.CM.BestIndex(mi.Height); !ok || bi != mi {
				c.Oracle("minreorg-not-on-best-chain", "MinReorgIndex() = %v is not an index of the best chain (tip %v)", mi, nd.CM.Tip())
			}
		}
		c.Op("history", historyLine(t, nd))
		if diverged {
			return
		}
		// twin comparison: headers, states, best index and history are untouched by pruning
		if nd.CM.Tip() != twin.CM.Tip() {
			c.Oracle("pruned-node-tip-differs", "pruned node tip %v, unpruned twin tip %v", nd.CM.Tip(), twin.CM.Tip())
			return
		}
		for h := uint64(0); h <= nd.CM.Tip().Height; h++ {
			a, _ := nd.CM.BestIndex(h)
			b, _ := twin.CM.BestIndex(h)
			if a != b {
				c.Oracle("pruned-node-bestindex-differs", "height %d", h)
			}
		}
		for _, b := range t.Blocks[1:] {
			if b.Parent == chainx.OrphanParent {
				continue
			}
			bid := b.Block.ID()
			_, h1 := headerOf(nd, bid)
			_, h2 := headerOf(twin, bid)
			_, s1 := nd.CM.State(bid)
			_, s2 := twin.CM.State(bid)
			if h1 != h2 || s1 != s2 {
				c.Oracle("prune-lost-header-or-state", "block %d: header %v/%v state %v/%v (pruned/unpruned)", b.ID, h1, h2, s1, s2)
			}
		}
		if historyLine(t, nd) != historyLine(t, twin) {
			c.Oracle("pruned-node-history-differs", "%s vs %s", historyLine(t, nd), historyLine(t, twin))
		}
		if s1, s2 := nd.CM.TipState(), twin.CM.TipState(); s1.Index != s2.Index || s1.TotalWork != s2.TotalWork || s1.Elements.NumLeaves != s2.Elements.NumLeaves {
			c.Oracle("pruned-node-tipstate-differs", "")
		}
	}
	observeSome := func() {
		step := len(t.Blocks)/40 + 1
		for i, b := range t.Blocks[1:] {
			if i%step == 0 || i+60 > len(t.Blocks) || i < 5 {
				c.Op(fmt.Sprintf("rec %d", b.ID), recLine(t, nd, b.ID))
			}
		}
		c.Op("minreorg", fmt.Sprint(idOf(t, nd.CM.MinReorgIndex().ID)))
	}
	for bi, batch := range sched {
		// is this batch a resubmission of pruned blocks?
		for _, id := range batch {
			if pruned[id] {
				resub++
				c.Tags = append(c.Tags, "resubmit-pruned")
				break
			}
		}
		minre := idOf(t, nd.CM.MinReorgIndex().ID)
		beforeObs := c01.Observe(t, nd, "x")
		res := c01.Submit(nd, t.Get(batch))
		tres := c01.Submit(twin, t.Get(batch))
		var sb strings.Builder
		sb.WriteString("add")
		for _, id := range batch {
			fmt.Fprintf(&sb, " %d", id)
		}
		c.Op(sb.String(), c01.Observe(t, nd, res))
		c01.AuditProbe(c, nd)
		if res == "panic" {
			c.Oracle("addblocks-panic-after-prune", "AddBlocks panicked on batch %v (pruned: %v)", batch, keys(pruned))
			break
		}
		if res != "ok" {
			// whatever the reason, a refused batch leaves the best chain and the notifications alone
			if after := c01.Observe(t, nd, "x"); after != beforeObs {
				c.Oracle("failed-submission-changed-chain", "AddBlocks returned %s; before: %s; after: %s", res, beforeObs, after)
			}
		}
		if !diverged && res != tres {
			// allowed only when the twin reorged below the pruned node's minimum reorg index
			if twin.CM.Tip() != nd.CM.Tip() && res == "reorg-failed" {
				// fork point of the twin's reorg
				fork := idOf(t, twin.CM.Tip().ID)
				for fork != 0 && !onBest(t, nd, fork) {
					fork = t.Blocks[fork].Parent
				}
				if minre >= 0 && t.Blocks[fork].Height >= t.Blocks[minre].Height {
					c.Oracle("reorg-above-min-reorg-index-failed", "fork point %d (height %d) is at or above MinReorgIndex %d (height %d) but the pruned node answered %s (unpruned: %s)", fork, t.Blocks[fork].Height, minre, t.Blocks[minre].Height, res, tres)
				}
				belowForks++
				diverged = true
			} else {
				c.Oracle("pruned-node-result-differs", "batch %v: pruned node %s, unpruned twin %s", batch, res, tres)
			}
		}
		if strings.HasPrefix(name, "directed/") {
			if longPlan != nil {
				for _, ph := range longPlan[bi] {
					doPrune(ph)
				}
				observeSome()
			} else if bi == 0 {
				doPrune(3)
				if strings.Contains(name, "restart") {
					restart()
				}
				observeAll()
			}
			continue
		}
		if rng.Chance(1, 3) || bi == len(sched)/2 {
			tipH := nd.CM.Tip().Height
			choices := []uint64{0, tipH / 2, tipH, tipH + 1, tipH + 2 + uint64(rng.Intn(5)), 1}
			doPrune(choices[rng.Intn(len(choices))])
			if rng.Chance(1, 4) {
				doPrune(choices[rng.Intn(len(choices))]) // repeated prune
			}
			// bodies come back BELOW the pruned region through the pre-validated path (which, unlike
			// AddBlocks, stores what it is given): an island of bodies under a gap. MinReorgIndex is
			// still the lowest block from which the chain is complete up to the tip.
			if rng.Chance(1, 2) {
				var island []int
				tipH := nd.CM.Tip().Height
				for h := uint64(1); h+2 < tipH; h++ {
					ci, ok := nd.CM.BestIndex(h)
					if !ok {
						break
					}
					id := idOf(t, ci.ID)
					if id <= 0 || !pruned[id] {
						if len(island) > 0 {
							break
						}
						continue
					}
					// leave at least one pruned block above the island
					up, _ := nd.CM.BestIndex(h + 1)
					if !pruned[idOf(t, up.ID)] {
						break
					}
					if c01.PreValidated(t, append(append([]int(nil), island...), id)) {
						island = append(island, id)
					} else if len(island) > 0 {
						break
					}
				}
				if len(island) > 0 {
					res := c01.SubmitV2(t, nd, island, len(island))
					c01.SubmitV2(t, twin, island, len(island))
					var sb strings.Builder
					fmt.Fprintf(&sb, "addv2 %d", len(island))
					for _, id := range island {
						fmt.Fprintf(&sb, " %d", id)
						delete(pruned, id)
						islandSet[id] = true
					}
					c.Op(sb.String(), c01.Observe(t, nd, res))
					c.Tags = append(c.Tags, "island-of-bodies-below-pruned-region")
				}
			}
			if rng.Chance(1, 3) {
				restart()
			}
			observeAll()
		}
	}
	if longPlan != nil {
		observeSome()
	} else {
		observeAll()
	}
	c.Nontrivial = prunes > 0 && len(pruned) > 0
	if belowForks > 0 {
		c.Tags = append(c.Tags, "fork-below-pruned")
	}
	if restarts > 0 {
		c.Tags = append(c.Tags, "restart-after-prune")
	}
	c.Info = map[string]any{"prunes": prunes, "pruned_blocks": len(pruned), "resubmissions": resub, "restarts": restarts}
	r.Add(c)
}

func keys(m map[int]bool) []int {
	var out []int
	for k := range m {
		out = append(out, k)
	}
	return out
}

// directed is the minimised history behind the resubmission finding: prune, resubmit the pruned
// best-chain blocks, then reorg below them.
func directed(r *vh.Run, rng *vh.RNG) {
	net := chainx.NewNet(rng, 1000, 2000, 2)
	t := chainx.NewTree(net)
	tip := 0
	for i := 0; i < 5; i++ {
		tip = t.Mine(rng, tip, chainx.Spec{Dt: 1})
	}
	fork := 0
	for i := 0; i < 7; i++ {
		fork = t.Mine(rng, fork, chainx.Spec{Dt: 2})
	}
	main := t.PathFromRoot(tip)
	RunTree(r, rng, "directed/resubmit-then-reorg", t, [][]int{main, main[:2], t.PathFromRoot(fork)})
	// the same with the process restarted between the prune and the resubmission
	RunTree(r, rng, "directed/restart-resubmit-then-reorg", t, [][]int{main, main[:2], main, t.PathFromRoot(fork)})
}

// longChain: pruning switched on for an existing long chain — more than a thousand unpruned
// best-chain bodies below the height in ONE PruneBlocks call, then a second call, then growth.
func longChain(r *vh.Run, rng *vh.RNG) {
	net := chainx.NewNet(rng, 1000000, 2000000, 2)
	n := 1100 + rng.Intn(200)
	t := chainx.LongChain(rng, net, n)
	all := make([]int, n)
	for i := range all {
		all[i] = i + 1
	}
	h := uint64(n - 40)
	sched := [][]int{all[:n-20]}
	// the prune plan is keyed by batch index in RunTree's directed mode
	longPlan = map[int][]uint64{0: {h, h}, 1: {h + 10}}
	sched = append(sched, all[n-20:])
	RunTree(r, rng, "directed/long-chain-prune", t, sched)
	longPlan = nil
}

var longPlan map[int][]uint64

func Run(r *vh.Run) {
	directed(r, vh.NewRNG(7))
	longChain(r, vh.NewRNG(r.Seed^0x51ed))
	r.Rule = "a case = one fork tree submitted in one schedule to a real Manager with PruneBlocks(h) interleaved (h in {0,1,tip/2,tip,tip+1,beyond}), repeated prunes, later forks above/at/below the pruned height and resubmission of pruned blocks; an unpruned real twin receives the same submissions; non-trivial = at least one body was actually pruned; distinct = distinct op lists"
	rng := vh.NewRNG(r.Seed)
	trees := r.Pick(40, 500)
	for i := 0; i < trees; i++ {
		trng := rng.Fork()
		net := chainx.RandomNet(trng)
		t, gerr := chainx.SafeGenTree(trng, net, chainx.GenCfg{Main: 4 + trng.Intn(10), Forks: 1 + trng.Intn(3), MaxBranch: 3 + trng.Intn(8),
			Kinds: chainx.BasicKinds, TxPerBlk: 1, Corrupt: trng.Intn(2), Extend: 2})
		if gerr != nil {
			gc := &vh.Case{Name: fmt.Sprintf("tree%d/generator", i), Nontrivial: true}
			gc.Op("build-history", "panic")
			gc.Oracle("linear-node-panicked-while-building-history", "a node fed a linear chain of freshly mined blocks panicked or rejected a valid block: %v", gerr)
			r.Add(gc)
			continue
		}
		for s := 0; s < 2; s++ {
			sched := t.Schedule(trng)
			// resubmit whole paths at the end (pruned best-chain blocks come back)
			leaves := t.Leaves()
			sched = append(sched, t.PathFromRoot(leaves[trng.Intn(len(leaves))]))
			RunTree(r, trng, fmt.Sprintf("tree%d/s%d", i, s), t, sched)
		}
	}
	r.Assume("consensus rules are parameters (block attributes from core/consensus on a linear twin)")
}
