// Package c13: rebasing a v2 transaction set yields proofs valid at the target index.
//
// On chainx fork trees held by a real chain.Manager, transaction sets that are valid as of a block
// `from` (confirmed, ephemeral and mixed parents) are moved with UpdateV2TransactionSet to every
// other once-applied block `to` within reach (same fork, other fork, backwards), with corrupted
// proofs, unknown / never-applied bases and targets, and over paths of length 143..146 on a long
// chain.  Every answer is compared with the Lean model's rebase (T).  Oracles (O): same
// transactions minus those confirmed on the apply leg, same order; every returned non-ephemeral
// input carries exactly the leaf index and Merkle proof the shadow ledger of an independent
// linear node has at `to` and validates against that node's accumulator; the caller's memory is
// unchanged; never a panic.  V2TransactionSet (pooled parents before children, basis = tip) and
// stale-basis submissions are exercised through the shared pool steps.
package c13

import (
	"fmt"

	"go.sia.tech/core/types"
	"verifharness/chainx"
	"verifharness/poolrig"
	"verifharness/vh"
)

func init() { vh.Register("C13", Run) }

// setAt builds a set valid as of tree block `from`: k transactions spending confirmed coins of the
// ledger at `from`, some followed by children spending their outputs.
func setAt(w *poolrig.World, rng *vh.RNG, from int, n int) (set []types.V2Transaction, shape string) {
	led := w.LedgerAt(from)
	h := w.Tree.Blocks[from].Height
	if h+1 < w.Net.N.HardforkV2.AllowHeight {
		return nil, ""
	}
	coins := w.CoinsOf(led, h+1)
	cs := w.Node.CM.TipState() // v2 signatures do not depend on the height
	eph, conf := 0, 0
	for i := 0; i < n && len(coins) > 0; i++ {
		j := rng.Intn(len(coins))
		c := coins[j]
		coins = append(coins[:j], coins[j+1:]...)
		if c.Value.Cmp(types.Siacoins(3)) < 0 {
			continue
		}
		fee := poolrig.Fee(int(rng.U64() % 1000))
		switch rng.Intn(4) {
		case 0, 1: // a single transaction with a confirmed input
			set = append(set, w.SpendV2(cs, []poolrig.Coin{c}, 1+rng.Intn(2), fee, 0))
			conf++
		case 2: // parent and child
			p := w.SpendV2(cs, []poolrig.Coin{c}, 2, fee, 0)
			ch := w.SpendV2(cs, []poolrig.Coin{poolrig.CoinV2(p, 0)}, 1, fee, 0)
			set = append(set, p, ch)
			conf++
			eph++
		default: // child with one ephemeral and one confirmed input (mixed parents)
			if len(coins) == 0 {
				set = append(set, w.SpendV2(cs, []poolrig.Coin{c}, 1, fee, 0))
				conf++
				break
			}
			c2 := coins[0]
			coins = coins[1:]
			p := w.SpendV2(cs, []poolrig.Coin{c}, 2, fee, 0)
			ch := w.SpendV2(cs, []poolrig.Coin{poolrig.CoinV2(p, 1), c2}, 1, fee, 0)
			set = append(set, p, ch)
			conf += 2
			eph++
		}
	}
	return set, fmt.Sprintf("conf%d-eph%d", conf, eph)
}

// confirmedOn returns the ids confirmed by the blocks of the apply leg from -> to, and the elements
// spent by them.
func pathFacts(w *poolrig.World, from, to int) (confirmed map[types.TransactionID]bool, spent map[types.SiacoinOutputID]bool, n int) {
	confirmed, spent = map[types.TransactionID]bool{}, map[types.SiacoinOutputID]bool{}
	rev, app := w.Path(from, to)
	for _, b := range app {
		blk := w.Tree.Blocks[b].Block
		for _, t := range blk.V2Transactions() {
			confirmed[t.ID()] = true
			for _, in := range t.SiacoinInputs {
				spent[in.Parent.ID] = true
			}
		}
		for _, t := range blk.Transactions {
			for _, in := range t.SiacoinInputs {
				spent[in.ParentID] = true
			}
		}
	}
	return confirmed, spent, len(rev) + len(app)
}

// checkUpdate is the C13 oracle on one successful UpdateV2TransactionSet.
func checkUpdate(w *poolrig.World, from, to int, in, out []types.V2Transaction, kind string) {
	confirmed, spent, _ := pathFacts(w, from, to)
	// same transactions minus the confirmed ones, same order
	var want []types.TransactionID
	for _, t := range in {
		if !confirmed[t.ID()] {
			want = append(want, t.ID())
		}
	}
	ok := len(want) == len(out)
	for i := 0; ok && i < len(out); i++ {
		ok = out[i].ID() == want[i]
	}
	if !ok {
		w.C.Oracle("updatev2transactionset-"+kind+"-wrong-transactions", "UpdateV2TransactionSet %d -> %d returned %d transactions, expected the %d of %d not confirmed on the way, in the same order", from, to, len(out), len(want), len(in))
		return
	}
	// every input equals the ledger's at the target (unless another transaction spent it on the way)
	led := w.LedgerAt(to)
	var clean []types.V2Transaction
	conflict := false
	for _, t := range out {
		hit := false
		for _, i := range t.SiacoinInputs {
			if spent[i.Parent.ID] {
				hit = true
			}
		}
		if hit {
			conflict = true
			continue
		}
		clean = append(clean, t)
	}
	if conflict {
		w.Stats["upd:input-spent-on-the-way"]++
	}
	w.CheckLedgerProofs("updatev2transactionset-"+kind+"-proof-differs-from-ledger", fmt.Sprintf("UpdateV2TransactionSet %d -> %d (%s)", from, to, kind), clean, led)
	// and validates against the independent node's accumulator at the target
	tcs := w.Tree.Twin(to).CM.TipState()
	for _, t := range clean {
		if err := tcs.Elements.ValidateTransactionElements(t); err != nil {
			w.C.Oracle("updatev2transactionset-"+kind+"-proof-invalid-at-target", "UpdateV2TransactionSet %d -> %d: transaction %d does not validate against the accumulator of an independent node at the target: %v", from, to, w.Tx(t.ID()), err)
		}
	}
	// ephemeral inputs whose parent was confirmed on the way must be confirmed now
	for _, t := range out {
		for _, i := range t.SiacoinInputs {
			if i.Parent.StateElement.LeafIndex == types.UnassignedLeafIndex {
				if _, has := led.SC[i.Parent.ID]; has {
					w.C.Oracle("updatev2transactionset-"+kind+"-ephemeral-not-confirmed", "UpdateV2TransactionSet %d -> %d: transaction %d still carries element %d as ephemeral although the ledger at the target holds it", from, to, w.Tx(t.ID()), w.Elem(types.Hash256(i.Parent.ID)))
				}
			}
		}
	}
}

func corruptProof(rng *vh.RNG, set []types.V2Transaction) bool {
	_, ok := poolrig.CorruptProof(rng, set)
	return ok
}

func copySet(set []types.V2Transaction) []types.V2Transaction {
	out := make([]types.V2Transaction, len(set))
	for i := range set {
		out[i] = set[i].DeepCopy()
	}
	return out
}

// chainIndexCase (oracle only; the model has no contract resolutions): a storage-proof resolution
// carries the chain index element of the proof-window block.  That element is the last leaf its block
// appends, so as of that block its Merkle proof is EMPTY whenever the accumulator holds an odd number
// of leaves - a valid proof, which must grow when the set is moved forwards and must be reported
// missing when the set is moved back past the block.  Only the element handling of
// UpdateV2TransactionSet is exercised: the contract parent is marked ephemeral, nothing is submitted.
func chainIndexCase(r *vh.Run, w *poolrig.World, rng *vh.RNG, name string) {
	oc := &vh.Case{Name: name + "-cie", Model: "", Nontrivial: true, Tags: []string{"chain-index-element"}}
	tip := w.TipID()
	chain := w.Tree.Ancestry(tip)
	pairs, empties := 0, 0
	for k := len(chain) - 1; k >= 1 && pairs < 4; k-- {
		b := chain[k-1] // the block whose chain index element is carried; chain[k] is a descendant
		if !w.Applied[b] {
			continue
		}
		bid := w.Tree.Blocks[b].Block.ID()
		cie, ok := w.LedgerAt(b).CIE[bid]
		if !ok {
			continue
		}
		if len(cie.StateElement.MerkleProof) != 0 && rng.Chance(2, 3) {
			continue // prefer the empty-proof blocks
		}
		if len(cie.StateElement.MerkleProof) == 0 {
			empties++
		}
		pairs++
		mk := func() []types.V2Transaction {
			return []types.V2Transaction{{FileContractResolutions: []types.V2FileContractResolution{{
				Parent:     types.V2FileContractElement{ID: types.FileContractID{9, byte(b)}, StateElement: types.StateElement{LeafIndex: types.UnassignedLeafIndex}},
				Resolution: &types.V2StorageProof{ProofIndex: cie.Copy()},
			}}}}
		}
		call := func(from, to int) (out []types.V2Transaction, err error) {
			defer func() {
				if rec := recover(); rec != nil {
					err = fmt.Errorf("panic: %v", rec)
					oc.Oracle("updatev2transactionset-chain-index-element-panic", "UpdateV2TransactionSet %d -> %d with a storage proof index: %v", from, to, rec)
				}
			}()
			return w.Node.CM.UpdateV2TransactionSet(mk(), w.Tree.Blocks[from].Index(), w.Tree.Blocks[to].Index())
		}
		// forwards: to the tip and to the next block
		for _, to := range []int{tip, chain[k]} {
			if to == b {
				continue
			}
			out, err := call(b, to)
			oc.Op(fmt.Sprintf("cie-forward %d %d proof%d", b, to, len(cie.StateElement.MerkleProof)), fmt.Sprint(err == nil))
			if err != nil {
				oc.Oracle("updatev2transactionset-chain-index-element-rejected", "UpdateV2TransactionSet %d -> %d rejected a storage proof index valid at %d: %v", b, to, b, err)
				continue
			}
			want, has := w.LedgerAt(to).CIE[bid]
			sp, isSP := out[0].FileContractResolutions[0].Resolution.(*types.V2StorageProof)
			if !has || !isSP || len(out) != 1 {
				continue
			}
			got := sp.ProofIndex.StateElement
			same := got.LeafIndex == want.StateElement.LeafIndex && len(got.MerkleProof) == len(want.StateElement.MerkleProof)
			for i := 0; same && i < len(got.MerkleProof); i++ {
				same = got.MerkleProof[i] == want.StateElement.MerkleProof[i]
			}
			if !same {
				oc.Oracle("updatev2transactionset-chain-index-element-proof-differs-from-ledger", "UpdateV2TransactionSet %d -> %d: the storage proof's chain index element (leaf %d, proof of %d hashes at %d) came back with a proof of %d hashes; an independent node's ledger at %d has %d", b, to, got.LeafIndex, len(cie.StateElement.MerkleProof), b, len(got.MerkleProof), to, len(want.StateElement.MerkleProof))
			}
			tcs := w.Tree.Twin(to).CM.TipState()
			if verr := tcs.Elements.ValidateTransactionElements(out[0]); verr != nil {
				oc.Oracle("updatev2transactionset-chain-index-element-proof-invalid-at-target", "UpdateV2TransactionSet %d -> %d: the returned storage proof index does not validate against an independent node's accumulator at %d: %v", b, to, to, verr)
			}
		}
		// backwards past the block that created the element: it does not exist there
		if parent := w.Tree.Blocks[b].Parent; parent != 0 && w.Applied[parent] {
			_, err := call(b, parent)
			oc.Op(fmt.Sprintf("cie-backward %d %d proof%d", b, parent, len(cie.StateElement.MerkleProof)), fmt.Sprint(err == nil))
			if err == nil {
				oc.Oracle("updatev2transactionset-chain-index-element-vanished-accepted", "UpdateV2TransactionSet %d -> %d moved a storage proof index back past the block that created it (its proof at %d has %d hashes) without an error", b, parent, b, len(cie.StateElement.MerkleProof))
			}
		}
	}
	oc.Info = map[string]any{"pairs": pairs, "empty_proofs": empties}
	if pairs > 0 {
		r.Add(oc)
	}
}

// treeCase: every pair of once-applied blocks within distance.
func treeCase(r *vh.Run, rng *vh.RNG, name string) {
	allows := []uint64{1, 2}
	allow := allows[rng.Intn(2)]
	net := chainx.PoolNet(rng, allow, allow+uint64(rng.Intn(4))*1000)
	w := poolrig.NewWorld(r, rng, name, net)
	g := &poolrig.Gen{W: w, Rng: rng}
	// main chain, then forks that overtake (so that several branches have been applied)
	tip := 0
	for i := 0; i < 4+rng.Intn(4); i++ {
		tip = w.GrowRandom(tip, rng.Intn(3))
	}
	w.Refresh()
	for f := 0; f < 1+rng.Intn(2); f++ {
		at := w.TipID()
		depth := 1 + rng.Intn(3)
		for i := 0; i < depth && at != 0; i++ {
			at = w.Tree.Blocks[at].Parent
		}
		for i := 0; i < depth+1; i++ {
			at = w.GrowRandom(at, rng.Intn(3))
		}
		w.Refresh()
		// some pool activity in between: sets (also confirmed later by blocks mined from the pool)
		for k := 0; k < 3; k++ {
			g.Step()
		}
	}
	// sets of which a part is confirmed on the way: submit a set valid at the tip, confirm a prefix of
	// the pool (parents without their children, among others), extend, then move the original set
	for k := 0; k < 2 && !w.Panicked; k++ {
		from := w.TipID()
		set, _ := setAt(w, rng, from, 2+rng.Intn(2))
		if len(set) == 0 {
			continue
		}
		if g.AddV2(from, copySet(set), nil, "fresh", -1, false) != "ok" {
			continue
		}
		n2 := 1 + rng.Intn(len(w.LastV2))
		if _, err := w.GrowFromPool(len(w.LastV1), n2); err != nil {
			w.C.Oracle("pool-prefix-not-minable", "a block carrying a prefix of the reported pool is invalid on a linear twin: %v", err)
			continue
		}
		w.Refresh()
		if rng.Bool() {
			w.GrowRandom(w.TipID(), rng.Intn(2))
			w.Refresh()
		}
		to := w.TipID()
		if to == from {
			continue
		}
		out, ok := w.Update(from, to, copySet(set), "partly-confirmed")
		if !ok {
			w.C.Oracle("updatev2transactionset-valid-forward-rejected", "UpdateV2TransactionSet %d -> %d rejected a set valid at %d of which a part was confirmed on the way", from, to, from)
		} else {
			checkUpdate(w, from, to, set, out, "partly-confirmed")
			conf, _, _ := pathFacts(w, from, to)
			nc := 0
			for _, t := range set {
				if conf[t.ID()] {
					nc++
				}
			}
			w.Stats[fmt.Sprintf("upd-confirmed-on-the-way:%d-of-%d", min(nc, 3), min(len(set), 4))]++
		}
	}
	// members of one set confirmed in DIFFERENT blocks of the path, in an order other than the set's:
	// 3-4 independent transactions are pooled, then two or three blocks each confirm one chosen member
	for k := 0; k < 1 && !w.Panicked && w.V2Allowed(); k++ {
		from := w.TipID()
		cs := w.Node.CM.TipState()
		free := w.FreeCoins()
		n := 3 + rng.Intn(2)
		if len(free) < n {
			break
		}
		var set []types.V2Transaction
		for i := 0; i < n; i++ {
			set = append(set, w.SpendV2(cs, free[i:i+1], 1, poolrig.Fee(50+i+7*k), 0))
		}
		if g.AddV2(from, copySet(set), nil, "fresh", -1, false) != "ok" {
			continue
		}
		order := rng.Perm(n)
		confirmed := 0
		for _, idx := range order[:2+rng.Intn(2)] {
			// the member as the pool holds it now (proofs as of the current tip)
			var cur *types.V2Transaction
			for i := range w.LastV2 {
				if w.LastV2[i].ID() == set[idx].ID() {
					c := w.LastV2[i].DeepCopy()
					cur = &c
				}
			}
			if cur == nil {
				break
			}
			id, err := w.Tree.MineWith(rng, w.TipID(), nil, []types.V2Transaction{*cur}, 1+rng.Intn(2))
			if err != nil {
				w.C.Oracle("pool-transaction-not-minable", "a block carrying one pooled transaction is invalid on a linear twin: %v", err)
				break
			}
			w.Submit(id)
			w.Refresh()
			confirmed++
		}
		to := w.TipID()
		if to == from || confirmed < 2 {
			continue
		}
		out, ok := w.Update(from, to, copySet(set), "confirmed-in-several-blocks")
		if !ok {
			w.C.Oracle("updatev2transactionset-valid-forward-rejected", "UpdateV2TransactionSet %d -> %d rejected a set valid at %d of which %d members were confirmed in %d different blocks on the way", from, to, from, confirmed, confirmed)
		} else {
			checkUpdate(w, from, to, set, out, "confirmed-in-several-blocks")
			w.Stats[fmt.Sprintf("upd-confirmed-in-blocks:%d-of-%d", confirmed, n)]++
		}
	}
	var applied []int
	for id := range w.Tree.Blocks {
		if w.Applied[id] && id != 0 {
			applied = append(applied, id)
		}
	}
	pairs := 0
	for _, from := range applied {
		set, shape := setAt(w, rng, from, 1+rng.Intn(3))
		if len(set) == 0 {
			continue
		}
		for _, to := range applied {
			if rng.Chance(1, 3) && to != from {
				continue
			}
			kind := "valid"
			if to == from {
				kind = "same"
			}
			in := copySet(set)
			// part of the set may be confirmed on the way: mine it?  (blocks from the pool steps do that)
			out, ok := w.Update(from, to, in, kind)
			pairs++
			rev, app := w.Path(from, to)
			w.Stats[fmt.Sprintf("upd-shape:%s", shape)]++
			w.Stats[fmt.Sprintf("upd-path:r%d-a%d", min(len(rev), 3), min(len(app), 3))]++
			if ok && to != from {
				checkUpdate(w, from, to, set, out, kind)
			}
			if ok && to == from && poolrig.DigestV2(out) != poolrig.DigestV2(set) {
				w.C.Oracle("updatev2transactionset-same-index-changes-set", "UpdateV2TransactionSet with from == to returned something else than its input")
			}
			if !ok && to != from {
				// legitimate refusals: an input's element was created on the reverted leg (it does not exist
				// at the target), or one of the inputs is not in the ledger at `to`... the model decides; the
				// oracle only insists that a same-fork forward move of a valid set succeeds
				if len(rev) == 0 {
					w.C.Oracle("updatev2transactionset-valid-forward-rejected", "UpdateV2TransactionSet %d -> %d (descendant, distance %d) rejected a set valid at %d", from, to, len(app), from)
				}
			}
		}
		// corruptions
		if rng.Chance(1, 2) {
			bad := copySet(set)
			if corruptProof(rng, bad) {
				to := applied[rng.Intn(len(applied))]
				if to != from {
					if _, ok := w.Update(from, to, bad, "corrupt-proof"); ok {
						w.C.Oracle("updatev2transactionset-accepts-corrupt-proof", "UpdateV2TransactionSet %d -> %d accepted a set with a corrupted proof / leaf index", from, to)
					}
				}
			}
		}
		if rng.Chance(1, 3) {
			to := applied[rng.Intn(len(applied))]
			if _, ok := w.Update(-1-rng.Intn(3), to, copySet(set), "unknown-basis"); ok {
				w.C.Oracle("updatev2transactionset-accepts-unknown-basis", "UpdateV2TransactionSet accepted a basis the node has never seen")
			}
			if _, ok := w.Update(from, -1-rng.Intn(3), copySet(set), "unknown-target"); ok {
				w.C.Oracle("updatev2transactionset-accepts-unknown-target", "UpdateV2TransactionSet accepted a target the node has never seen")
			}
		}
	}
	// never-applied blocks (lighter siblings) as basis / target
	for id := range w.Tree.Blocks {
		if w.Known[id] && !w.Applied[id] && len(applied) > 0 {
			set, _ := setAt(w, rng, w.Tree.Blocks[id].Parent, 1)
			if len(set) > 0 {
				w.Update(id, applied[rng.Intn(len(applied))], set, "never-applied-basis")
				w.Update(applied[rng.Intn(len(applied))], id, set, "never-applied-target")
			}
			break
		}
	}
	// a lighter side chain that is stored but never applied (3-4 blocks past its fork point): as a
	// basis or a target the manager may refuse it (it holds only header-level states for it) or
	// deliver proofs that are valid at the target - never, silently, anything else
	if !w.Panicked && w.V2Allowed() {
		tip := w.TipID()
		at := tip
		for i := 0; i < 5 && at != 0; i++ {
			at = w.Tree.Blocks[at].Parent
		}
		if at != 0 && w.Tree.Blocks[at].Height+1 >= w.Net.N.HardforkV2.AllowHeight {
			side := at
			var sides []int
			for i := 0; i < 3+rng.Intn(2); i++ {
				side = w.GrowRandom(side, 0)
				sides = append(sides, side)
			}
			w.Refresh()
			if w.TipID() == tip && !w.Applied[side] {
				for _, sb := range []int{sides[len(sides)-1], sides[len(sides)-2]} {
					// a set valid on the side chain, moved to the tip and to the fork point
					if set, _ := setAt(w, rng, sb, 2); len(set) > 0 {
						for _, to := range []int{tip, at} {
							if out, ok := w.Update(sb, to, copySet(set), "never-applied-basis"); ok {
								checkUpdate(w, sb, to, set, out, "never-applied-basis")
							}
						}
					}
					// a set valid at the tip, moved onto the side chain
					if set, _ := setAt(w, rng, tip, 2); len(set) > 0 {
						if out, ok := w.Update(tip, sb, copySet(set), "never-applied-target"); ok {
							checkUpdate(w, tip, sb, set, out, "never-applied-target")
						}
					}
				}
				w.Stats["side-chain-cases"]++
			}
		}
	}
	// the pool-side entry points
	for k := 0; k < 10 && !w.Panicked; k++ {
		g.Parents()
	}
	// damaged copies of already pooled transactions at a stale basis, through all three entry points
	for k := 0; k < 2 && !w.Panicked; k++ {
		if g.CorruptResubmit() == "skip" {
			w.GrowRandom(w.TipID(), 0)
			w.Refresh()
		}
	}
	if !w.Panicked && w.V2Allowed() {
		chainIndexCase(r, w, rng, name)
	}
	w.Finish(pairs > 0 && w.Stats["reorgs"] > 0, "tree")
}

// longCase: paths of length maxLen-1 .. maxLen+2 on a long chain.
func longCase(r *vh.Run, rng *vh.RNG, name string) {
	net := chainx.PoolNet(rng, 1, 100000)
	w := poolrig.NewWorld(r, rng, name, net)
	tip := 0
	n := poolrig.MaxReorgLen + 4
	for i := 0; i < n; i++ {
		k := 0
		if i < 3 {
			k = 2
		}
		tip = w.GrowRandom(tip, k)
	}
	w.Refresh()
	chain := w.Tree.Ancestry(tip)
	for _, d := range []int{poolrig.MaxReorgLen - 1, poolrig.MaxReorgLen, poolrig.MaxReorgLen + 1, poolrig.MaxReorgLen + 2} {
		from := chain[1]
		to := chain[1+d]
		set, _ := setAt(w, rng, from, 2)
		if len(set) == 0 {
			continue
		}
		out, ok := w.Update(from, to, copySet(set), fmt.Sprintf("distance-%d", d))
		if ok != (d <= poolrig.MaxReorgLen) {
			w.C.Oracle("updatev2transactionset-distance-limit", "UpdateV2TransactionSet over a path of length %d (supported: %d): ok=%v", d, poolrig.MaxReorgLen, ok)
		}
		if ok {
			checkUpdate(w, from, to, set, out, "long")
		}
		// and backwards
		set2, _ := setAt(w, rng, from, 1) // coins that exist at both ends
		if len(set2) > 0 {
			// valid at `to` as well only if proofs are for `to`: rebuild the set at `to` from the same coins is not possible in general; use the forward result
			if ok {
				back, ok2 := w.Update(to, from, copySet(out), fmt.Sprintf("distance-back-%d", d))
				if ok2 {
					checkUpdate(w, to, from, out, back, "long-back")
				}
			}
		}
	}
	w.Finish(true, "long-chain")
}

// forkCase: distances across a fork.  Two branches of 74 and 76 blocks above a common ancestor, both
// applied at some time; sets valid on one branch are moved to the other over paths whose TOTAL
// length (revert leg + apply leg) is 140..150 while each leg stays below the limit.
func forkCase(r *vh.Run, rng *vh.RNG, name string) {
	net := chainx.PoolNet(rng, 1, 100000)
	w := poolrig.NewWorld(r, rng, name, net)
	tip := 0
	for i := 0; i < 3; i++ {
		tip = w.GrowRandom(tip, 2)
	}
	fork := tip
	grow := func(n int) []int {
		at := fork
		var ids []int
		for i := 0; i < n; i++ {
			at = w.GrowRandom(at, 0)
			ids = append(ids, at)
		}
		return ids
	}
	a := grow(poolrig.MaxReorgLen/2 + 2) // 74
	b := grow(poolrig.MaxReorgLen/2 + 4) // 76: overtakes
	w.Refresh()
	if w.TipID() != b[len(b)-1] {
		w.Finish(false, "fork-no-reorg")
		return
	}
	base := w.LedgerAt(fork)
	move := func(from, to int, rlen, plen int, dir string) {
		if !w.Applied[from] || !w.Applied[to] {
			return
		}
		var coin *poolrig.Coin
		for _, c := range w.CoinsOf(w.LedgerAt(from), w.Tree.Blocks[from].Height+1) {
			if _, ok := base.SC[c.ID]; ok && c.Value.Cmp(types.Siacoins(3)) >= 0 {
				cc := c
				coin = &cc
				break
			}
		}
		if coin == nil {
			return
		}
		cs := w.Node.CM.TipState()
		p := w.SpendV2(cs, []poolrig.Coin{*coin}, 2, poolrig.Fee(rlen+plen), 0)
		ch := w.SpendV2(cs, []poolrig.Coin{poolrig.CoinV2(p, 0)}, 1, poolrig.Fee(7), 0)
		set := []types.V2Transaction{p, ch}
		kind := fmt.Sprintf("fork-%s-r%d-a%d", dir, rlen, plen)
		out, ok := w.Update(from, to, copySet(set), kind)
		total := rlen + plen
		if ok != (total <= poolrig.MaxReorgLen) {
			w.C.Oracle("updatev2transactionset-distance-limit", "UpdateV2TransactionSet across a fork over a path of length %d (revert %d + apply %d; supported: %d in total): ok=%v", total, rlen, plen, poolrig.MaxReorgLen, ok)
		}
		if ok {
			checkUpdate(w, from, to, set, out, "fork")
		}
		w.Stats[fmt.Sprintf("upd-fork-total:%d", total)]++
	}
	na, nb := len(a), len(b)
	// (revert leg, apply leg): a[r-1] is r blocks above the fork on branch A, b[p-1] p blocks on B
	for _, rp := range [][2]int{{na, 66}, {na, 70}, {na, 71}, {70, 74}, {72, 72}, {73, 72}, {na, nb}, {60, 76}, {1, nb}, {na, 1}} {
		move(a[rp[0]-1], b[rp[1]-1], rp[0], rp[1], "ab")
		move(b[rp[1]-1], a[rp[0]-1], rp[1], rp[0], "ba")
	}
	// a stale-basis submission across the fork: the tip is b's end; a basis on branch A at total distance 144 / 145
	for _, r0 := range []int{poolrig.MaxReorgLen - nb, poolrig.MaxReorgLen - nb + 1} {
		if r0 < 1 || r0 > na {
			continue
		}
		from := a[r0-1]
		var coin *poolrig.Coin
		for _, c := range w.CoinsOf(w.LedgerAt(from), w.Tree.Blocks[from].Height+1) {
			if _, ok := base.SC[c.ID]; ok && c.Value.Cmp(types.Siacoins(3)) >= 0 {
				if _, still := w.Led.SC[c.ID]; still {
					cc := c
					coin = &cc
				}
			}
		}
		if coin == nil {
			continue
		}
		t := w.SpendV2(w.Node.CM.TipState(), []poolrig.Coin{*coin}, 1, poolrig.Fee(r0), 0)
		res := w.AddV2(from, []types.V2Transaction{t}, nil)
		w.Refresh()
		if (res == "ok") != (r0+nb <= poolrig.MaxReorgLen) {
			w.C.Oracle("addv2pooltransactions-distance-limit", "AddV2PoolTransactions with a basis %d blocks up another branch (path %d + %d): %s", r0, r0, nb, res)
		}
	}
	w.Finish(true, "forked-long-chain")
}

// floodCase: the v2 pool holds [L (lowest fee rate), P, Q]; V2TransactionSet is asked for a child of P;
// then v1 transactions fill the pool up to ten blocks through AddPoolTransactions only, so that the
// re-validation evicts L and the v2 positions shift; V2TransactionSet is asked again.
func floodCase(r *vh.Run, rng *vh.RNG, name string) {
	w := poolrig.NewWorld(r, rng, name, chainx.PoolNet(rng, 1, 1000))
	g := &poolrig.Gen{W: w, Rng: rng}
	tip := 0
	for i := 0; i < 16; i++ {
		tip = w.GrowRandom(tip, 0)
	}
	w.Refresh()
	cs := w.Node.CM.TipState()
	free := w.FreeCoins()
	if len(free) < 16 {
		w.Finish(false, "flood-skipped")
		return
	}
	low := w.SpendV2(cs, free[0:1], 1, types.NewCurrency64(1000), 0) // fee rate ~3 hastings per weight unit
	p := w.SpendV2(cs, free[1:2], 2, poolrig.Fee(30), 0)
	q := w.SpendV2(cs, free[2:3], 2, poolrig.Fee(31), 0)
	if g.AddV2(w.TipID(), []types.V2Transaction{low, p, q}, nil, "fresh", -1, false) != "ok" {
		w.Finish(false, "flood-skipped")
		return
	}
	child := func(k int) types.V2Transaction {
		return w.SpendV2(cs, []poolrig.Coin{poolrig.CoinV2(p, k%2)}, 1, poolrig.Fee(40+k), 0)
	}
	w.ExpectTSetOK = true
	w.TSet(w.TipID(), child(0), "before-flood")
	// the flood: v1 only, no v2 submission, no tip change
	total := uint64(0)
	for k := 0; k < 12 && !w.Panicked; k++ {
		t := w.SpendV1(cs, free[3+k:4+k], 1, types.Siacoins(uint32(2+k)), 1_850_000+rng.Intn(60_000))
		total += cs.TransactionWeight(t)
		res := w.AddV1([]types.Transaction{t}, nil)
		if res != "ok" {
			break
		}
		if total >= 10*cs.MaxBlockWeight() {
			break
		}
	}
	// the next entry point evicts; it is V2TransactionSet itself, for another child of P
	w.TSet(w.TipID(), child(1), "after-flood")
	w.Refresh()
	w.TSet(w.TipID(), child(2), "after-flood")
	w.ExpectTSetOK = false
	evicted := true
	for _, t := range w.LastV2 {
		if t.ID() == low.ID() {
			evicted = false
		}
	}
	w.Finish(evicted, "v1-flood", fmt.Sprintf("flood-evicted-lowest:%v", evicted))
}

func Run(r *vh.Run) {
	r.Rule = "tree cases: a real chain.Manager on a fork tree (main chain 4-7, 1-2 forks of depth 1-3 that overtake the tip, pool activity in between); for every once-applied block `from` a set valid there (1-3 groups: single confirmed input / parent+child / child with ephemeral and confirmed input) is moved to about 2/3 of all once-applied blocks `to` (same fork forwards and backwards, other forks, from == to), plus corrupted proofs / leaf indices, unknown and never-applied bases and targets, and 10 parent-closure queries (V2TransactionSet with v1/v2 parents, grandparent orders, stale basis); long cases: one chain of 148 blocks, paths of length 143,144,145,146 forwards and back; fork cases: two branches of 74 and 76 blocks above a common ancestor, sets moved from one branch to the other over paths of total length 140-150 with each leg below 144 (70+74 and 72+72 must succeed, 73+72 and 74+71 must fail), and stale-basis submissions across the fork at total distance 144 / 145; 2 damaged resubmissions of an already pooled transaction at a stale basis per tree through UpdateV2TransactionSet, AddV2PoolTransactions and V2TransactionSet. per tree also an oracle-only case moving a storage-proof resolution whose proof index is a block's own chain index element (empty Merkle proof when the leaf count is odd) forwards (proof must equal an independent ledger's) and back past that block (must be an error), and a lighter side chain of 3-4 stored-but-never-applied blocks used as basis and as target (error, or proofs valid at the target); flood cases: v2 pool [lowest-rate L, P, Q], V2TransactionSet for a child of P, twelve 1.9M-weight v1 submissions (no v2 submission, no tip change) so that the next entry point evicts L, V2TransactionSet again. non-trivial = at least one reorg happened and one pair was moved; distinct = distinct op lists"
	rng := vh.NewRNG(r.Seed).Fork()
	n := r.Pick(120, 3000)
	for i := 0; i < n; i++ {
		treeCase(r, rng.Fork(), fmt.Sprintf("t%d", i))
	}
	for i := 0; i < r.Pick(1, 3); i++ {
		floodCase(r, rng.Fork(), fmt.Sprintf("v%d", i))
	}
	for i := 0; i < r.Pick(1, 3); i++ {
		forkCase(r, rng.Fork(), fmt.Sprintf("f%d", i))
	}
	for i := 0; i < r.Pick(1, 3); i++ {
		longCase(r, rng.Fork(), fmt.Sprintf("l%d", i))
	}
	r.Assume("Merkle proof verification is core's: per-input verdicts against the claimed basis are passed to the model as flags; proof values are compared with an independent node's ledger by the oracle")
	r.Assume("a block counts as a known index only if it has been on the node's best chain at some time (a merely stored sibling has a header-only state and no supplement; the manager answers with an error)")
	r.Assume("contract transactions (revisions, resolutions) are not generated")
	r.Assume("sequential use of the Manager")
}
